(* C14/Run.v — line driver.
     F <d|c> <cut> <script> <unit>*      unit = <hex>:<nfds>      script = k,k,E,X,... | -
   model field : what the harness must print (tokens of the reader's outputs, number of recvmsg calls, stream position)
   spec field  : what the property demands (all messages, in order, byte-identical, own descriptors, 1,2,3,...;
                 or, for a unit declaring more than 128 MiB, rejection after exactly its 16 header bytes); "-" otherwise
   class       : none (the former class leftover_fd is fixed by e5b20c34) *)
From ZV Require Import Base.Bytes Base.Res C14.Model C14.Spec C14.Fields.
Open Scope N_scope.

(* ---- rendering ---- *)
(* message identity token: length + a 64-bit multiplicative hash (h := (33 h) xor b, from 5381) — cheap on binary N *)
Definition fnv_step (h : N) (b : byte) : N := N.land (N.lxor (N.shiftl h 5 + h) (bn b)) 18446744073709551615.
Definition fnv64 (l : bytes) : N := fold_left fnv_step l 5381.

Fixpoint hex_digits (n : nat) (v : N) (acc : bytes) : bytes :=
  match n with
  | O => acc
  | S n' => hex_digits n' (v / 16) (hexdigit (v mod 16) :: acc)
  end.
Definition hex16 (v : N) : bytes := hex_digits 16 v [].

Definition colon : bytes := B ":".
Definition fds_tok (l : list fd) : bytes :=
  match l with [] => B "-" | _ => join (B ".") (map dec_of_N l) end.

Definition err_tok (e : rerr) : bytes :=
  match e with
  | EIo => B "ERR:io" | EEndian => B "ERR:endian" | EVariant => B "ERR:variant" | EExcess => B "ERR:excess"
  | EMissing => B "ERR:missing" | EFuel => B "ERR:fuel"
  end.

Definition out_tok (o : out) : bytes :=
  match o with
  | OMsg m => B "OK:" ++ dec_of_N (m_seq m) ++ colon ++ dec_of_N (lenN (m_bytes m)) ++ colon
              ++ hex16 (fnv64 (m_bytes m)) ++ colon ++ fds_tok (m_fds m)
  | OErr e => err_tok e
  | OPanic _ => B "HANG"
  end.

Definition has_panic (l : list out) : bool := existsb (fun o => match o with OPanic _ => true | _ => false end) l.

(* mode d: a panic inside receive_message unwinds into the harness, which prints PANIC.
   mode c: the panic kills the socket-reader task (the executor keeps the payload for a JoinHandle nobody awaits),
   the message stream never ends: the harness reports what it got, then HANG. *)
Definition render_obs (conn_mode : bool) (outs : list out) (ncalls : N) (pos : N) : bytes :=
  if has_panic outs && negb conn_mode then B "PANIC"
  else join (B ",") (map out_tok outs) ++ B ";calls=" ++ dec_of_N ncalls ++ B ";pos=" ++ dec_of_N pos.

Definition render_spec (outs : list out) (pos : N) : bytes :=
  join (B ",") (map out_tok outs) ++ B ";pos=" ++ dec_of_N pos.

(* ---- parsing the case ----
   Base.Bytes.split_on reverses its accumulator with List.rev (quadratic); units are up to 128 K characters, so the
   driver uses its own linear tokenizer *)
Fixpoint split_fast_aux (sep : byte) (l cur : bytes) : list bytes :=
  match l with
  | [] => [rev_append cur []]
  | c :: r => if beq c sep then rev_append cur [] :: split_fast_aux sep r [] else split_fast_aux sep r (c :: cur)
  end.
Definition split_fast (sep : byte) (l : bytes) : list bytes := split_fast_aux sep l [].
Definition words_fast (l : bytes) : list bytes := filter (fun w => negb (is_nil w)) (split_fast sp l).

Definition parse_ans (t : bytes) : option ans :=
  if lbeq t (B "E") then Some AEof
  else if lbeq t (B "X") then Some AIoErr
  else option_map ABytes (N_of_dec t).

Fixpoint parse_all {A B} (f : A -> option B) (l : list A) : option (list B) :=
  match l with
  | [] => Some []
  | x :: r => match f x, parse_all f r with Some y, Some ys => Some (y :: ys) | _, _ => None end
  end.

Definition parse_script (s : bytes) : option (list ans) :=
  if lbeq s (B "-") then Some [] else parse_all parse_ans (split_fast ","%byte s).

Definition parse_unit (u : bytes) : option (bytes * N) :=
  match split_fast ":"%byte u with
  | [h; k] => match bytes_of_hex h, N_of_dec k with Some b, Some n => Some (b, n) | _, _ => None end
  | _ => None
  end.

Fixpoint iota (start : N) (n : nat) : list N :=
  match n with O => [] | S n' => start :: iota (start + 1) n' end.

(* descriptors are numbered in the order the harness creates them; a unit without bytes carries none *)
Fixpoint assign (next : N) (us : list (bytes * N)) : list smsg :=
  match us with
  | [] => []
  | (b, k) :: r =>
      match b with
      | [] => {| sm_bytes := []; sm_fds := [] |} :: assign next r
      | _ => {| sm_bytes := b; sm_fds := iota next (N.to_nat k) |} :: assign (next + k) r
      end
  end.

Definition default_ans : ans := ABytes 4611686018427387904.
Definition oracle_of (script : list ans) : oracle := fun c => nth c script default_ans.

Definition only_bytes (script : list ans) : bool :=
  forallb (fun a => match a with ABytes _ => true | _ => false end) script.

(* ---- the specification's expectation ---- *)
Fixpoint total_bytes (ms : list smsg) : N :=
  match ms with [] => 0 | m :: r => lenN (sm_bytes m) + total_bytes r end.

(* longest prefix of valid messages, and what follows it *)
Fixpoint valid_prefix (ms : list smsg) : list smsg * list smsg :=
  match ms with
  | [] => ([], [])
  | m :: r => if valid_msgb c11_fields m then let (a, b) := valid_prefix r in (m :: a, b) else ([], ms)
  end.

Definition oversize (m : smsg) : bool :=
  match frame_of (sm_bytes m) with
  | Some f => MAX_MESSAGE_SIZE <? f_total f
  | None => false
  end.

Definition no_fds (ms : list smsg) : bool := forallb (fun m => is_nil (sm_fds m)) ms.

Definition spec_field (ms : list smsg) (cut : nat) (script : list ans) : bytes :=
  if negb (only_bytes script) then dash else
  match valid_prefix ms with
  | (_, []) => render_spec (expected ms) (total_bytes ms)
  | (pre, m :: _) =>
      if oversize m && no_fds ms then
        (* rejected after exactly the 16 header bytes (or wherever the handshake had already read to) *)
        render_spec (number 1 pre ++ [OErr EExcess]) (N.max (N.of_nat cut) (total_bytes pre + 16))
      else dash
  end.

Definition run_case (line : bytes) : outp :=
  match words_fast line with
  | f :: mode :: cut :: script :: units =>
      if negb (lbeq f (B "F")) then bad_case else
      match N_of_dec cut, parse_script script, parse_all parse_unit units with
      | Some cutN, Some sc, Some us =>
          let ms := assign 0 us in
          let w := wire ms in
          let c := N.to_nat cutN in
          if (length w <? c)%nat then bad_case else
          let (outs, st) := run_reader c11_fields (oracle_of sc) w c in
          {| o_model := render_obs (lbeq mode (B "c")) outs (N.of_nat (calls st)) (lenN w - lenN (strm st));
             o_spec := spec_field ms c sc;
             o_class := dash |}
      | _, _, _ => bad_case
      end
  | _ => bad_case
  end.

Definition run (line : bytes) : bytes := render (run_case line).
