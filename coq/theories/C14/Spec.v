(* C14/Spec.v — what "the byte stream is framed into exactly the messages that were sent" means.
   Shares with the model only the vocabulary (fd, sbyte, rmsg, out, parse_fields); nothing of the reader. *)
From ZV Require Import Base.Bytes Base.Res C14.Model.
Open Scope N_scope.

(* what the peer sent: messages, each with its descriptors *)
Record smsg := { sm_bytes : bytes; sm_fds : list fd }.

(* on the wire the descriptors of a message ride on its first byte *)
Definition tag (m : smsg) : list sbyte :=
  match sm_bytes m with
  | [] => []
  | b :: r => (b, sm_fds m) :: map (fun x => (x, [])) r
  end.
Definition wire (ms : list smsg) : list sbyte := flat_map tag ms.

(* ---- the frame of a message, from the D-Bus specification ("Message Format"):
   byte 0 endianness ('l' | 'B'), byte 1 type, byte 2 flags, byte 3 version, u32 body length, u32 serial,
   u32 length of the header-field array; the header ends after the array and is padded to a multiple of 8;
   the body follows. ---- *)
Definition byte_at (i : nat) (b : bytes) : N := bn (nth i b x00).
Definition spec_u32 (big : bool) (i : nat) (b : bytes) : N :=
  if big then byte_at (i + 3) b + 256 * byte_at (i + 2) b + 65536 * byte_at (i + 1) b + 16777216 * byte_at i b
  else byte_at i b + 256 * byte_at (i + 1) b + 65536 * byte_at (i + 2) b + 16777216 * byte_at (i + 3) b.
Definition round8 (n : N) : N := 8 * ((n + 7) / 8).

Record frame := { f_big : bool; f_header_end : N; f_total : N }.

Definition frame_of (b : bytes) : option frame :=
  if (length b <? 16)%nat then None else
  let e := byte_at 0 b in
  if negb ((e =? 108) || (e =? 66)) then None else
  let big := e =? 66 in
  if (1 <=? byte_at 1 b) && (byte_at 1 b <=? 4)            (* a defined message type; unknown flag bits are to be ignored *)
     && negb (spec_u32 big 8 b =? 0)                        (* serial is not zero *)
  then Some {| f_big := big;
               f_header_end := 16 + spec_u32 big 12 b;
               f_total := round8 (16 + spec_u32 big 12 b) + spec_u32 big 4 b |}
  else None.

Definition is_nil {A} (l : list A) : bool := match l with [] => true | _ => false end.

Definition optN (u : option N) : N := match u with Some n => n | None => 0 end.

(* a message the reader has to deliver: well-framed, of the declared size, not above the limit, its header
   fields acceptable to the field deserializer, and carrying as many descriptors as its UNIX_FDS field says *)
Definition valid_msg (pf : parse_fields) (m : smsg) : Prop :=
  exists f u, frame_of (sm_bytes m) = Some f /\
              f_total f = lenN (sm_bytes m) /\
              f_total f <= MAX_MESSAGE_SIZE /\
              pf (f_big f) (slice 12 (f_header_end f) (sm_bytes m)) = Ok u /\
              optN u = lenN (sm_fds m).

Definition valid_msgb (pf : parse_fields) (m : smsg) : bool :=
  match frame_of (sm_bytes m) with
  | None => false
  | Some f =>
      (f_total f =? lenN (sm_bytes m)) && (f_total f <=? MAX_MESSAGE_SIZE) &&
      match pf (f_big f) (slice 12 (f_header_end f) (sm_bytes m)) with
      | Ok u => optN u =? lenN (sm_fds m)
      | _ => false
      end
  end.

(* ---- what the receiving connection must yield: those messages, byte-identical, in order, each with its own
   descriptors, numbered 1, 2, 3, ...; then the end of the stream shows as an I/O error ---- *)
Fixpoint number (n : N) (ms : list smsg) : list out :=
  match ms with
  | [] => []
  | m :: r => OMsg {| m_bytes := sm_bytes m; m_fds := sm_fds m; m_seq := n |} :: number (n + 1) r
  end.
Definition expected (ms : list smsg) : list out := number 1 ms ++ [OErr EIo].

(* every oracle that only ever answers with byte counts (the transport contract for a live connection) *)
Definition bytes_oracle (k : nat -> N) : oracle := fun c => ABytes (k c).

