(* C14/Fields.v — the field deserializer instance of the line driver: C11's model of `message::Fields`
   (`encoded_fields.deserialize::<Fields>()` in receive_message, `fields_bytes.deserialize()` in Message::from_raw_parts).
   C11.Model.de_fields reads the `a(yv)` at absolute offset 12 of a message buffer; receive_message hands the
   deserializer bytes[12..header_len] with a context position of 12: twelve filler bytes in front give the same thing. *)
From ZV Require Import Base.Bytes Base.Res C14.Model.
From ZV Require C11.Model.

Definition c11_fields : parse_fields := fun big fb =>
  match C11.Model.de_fields (if big then C11.Model.BE else C11.Model.LE) (repeat x00 12 ++ fb) with
  | Ok (fs, _) => Ok (C11.Model.f_fds fs)
  | Err C11.Model.EFuel => Err EFuel
  | Err _ => Err EVariant                  (* zbus::Error::Variant(..) whatever the zvariant error *)
  | Panic p => Panic p
  end.
