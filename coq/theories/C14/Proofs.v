(* C14/Proofs.v — the reader delivers exactly the messages that were sent, for every split of the stream. *)
From ZV Require Import Base.Bytes Base.Res C14.Model C14.Spec C14.Fields.
From ZV Require C11.Model C11.Invariants.
From Coq Require Import Lia ZifyBool ZifyN ZifyNat.
Open Scope N_scope.

(* ------------------------------------------------------------------ lists *)
Lemma skipn_skipn' {A} (a b : nat) (l : list A) : skipn b (skipn a l) = skipn (a + b) l.
Proof.
  revert l; induction a as [|a IH]; intros l; [reflexivity|].
  destruct l as [|x l]; [now rewrite !skipn_nil|]. exact (IH l).
Qed.

Lemma firstn_add {A} (a b : nat) (l : list A) : firstn (a + b) l = firstn a l ++ firstn b (skipn a l).
Proof.
  revert l; induction a as [|a IH]; intros l; [reflexivity|].
  destruct l as [|x l]; [now rewrite !firstn_nil|]. cbn. now rewrite IH.
Qed.

Lemma lenN_app {A} (a b : list A) : lenN (a ++ b) = lenN a + lenN b.
Proof. unfold lenN. rewrite app_length. lia. Qed.

Lemma lenN_nil {A} : lenN (@nil A) = 0.
Proof. reflexivity. Qed.

Lemma firstn_short {A} (n : nat) (l : list A) : (length l <= n)%nat -> firstn n l = l.
Proof. intros H. now apply firstn_all2. Qed.

Lemma skipn_short {A} (n : nat) (l : list A) : (length l <= n)%nat -> skipn n l = [].
Proof. intros H. now apply skipn_all2. Qed.

(* ------------------------------------------------------------------ the read loop, any oracle *)
Lemma read_to_sound o : forall fuel target buf fds st st' b' f',
  read_to o fuel target buf fds st = (st', Ok (b', f')) ->
  exists n : nat,
    (n <= length (strm st))%nat /\
    b' = buf ++ map fst (firstn n (strm st)) /\
    f' = fds ++ flat_map snd (firstn n (strm st)) /\
    strm st' = skipn n (strm st) /\ arb st' = arb st /\ arfds st' = arfds st /\
    (calls st <= calls st')%nat /\
    (lenN buf <= target -> lenN b' = target).
Proof.
  induction fuel as [|fuel IH]; intros target buf fds st st' b' f' H; cbn [read_to] in H;
    destruct (target <=? lenN buf) eqn:Ht.
  - inversion H; subst. exists 0%nat. cbn. rewrite !app_nil_r. repeat split; try lia.
  - discriminate.
  - inversion H; subst. exists 0%nat. cbn. rewrite !app_nil_r. repeat split; try lia.
  - unfold recvmsg in H. destruct (o (calls st)) as [k| |].
    + set (n0 := N.to_nat (N.min (N.min (N.max 1 k) (target - lenN buf)) (lenN (strm st)))) in *.
      destruct (map fst (firstn n0 (strm st))) as [|x xs] eqn:Hb; [discriminate|].
      rewrite <- Hb in H. apply IH in H. cbn [strm arb arfds calls] in H.
      destruct H as (n1 & Hn1 & Hb' & Hf' & Hs & Ha & Haf & Hc & Hlen).
      rewrite skipn_length in Hn1.
      assert (Hn0 : (n0 <= length (strm st))%nat) by (unfold n0, lenN; lia).
      exists (n0 + n1)%nat. rewrite firstn_add, map_app, flat_map_app, !app_assoc.
      repeat split; try assumption; try lia.
      * now rewrite <- skipn_skipn'.
      * intros Hle. apply Hlen. rewrite lenN_app. unfold lenN at 2. rewrite map_length, firstn_length.
        unfold n0, lenN in *. lia.
    + discriminate.
    + discriminate.
Qed.

(* ------------------------------------------------------------------ the read loop, oracles that deliver bytes *)
Definition all_bytes (o : oracle) : Prop := forall c, exists k, o c = ABytes k.

Lemma all_bytes_oracle k : all_bytes (bytes_oracle k).
Proof. intros c. now exists (k c). Qed.

Lemma read_to_complete o (Ho : all_bytes o) : forall fuel rest tail target buf fds a af c,
  lenN buf + lenN rest = target -> (length rest < fuel)%nat ->
  exists c', read_to o fuel target buf fds {| arb := a; arfds := af; strm := rest ++ tail; calls := c |} =
             ({| arb := a; arfds := af; strm := tail; calls := c' |},
              Ok (buf ++ map fst rest, fds ++ flat_map snd rest)).
Proof.
  induction fuel as [|fuel IH]; intros rest tail target buf fds a af c Ht Hf; [lia|].
  cbn [read_to]. destruct rest as [|x rest].
  - cbn in Ht. replace (target <=? lenN buf) with true by lia. exists c. cbn. now rewrite !app_nil_r.
  - replace (target <=? lenN buf) with false by (unfold lenN in *; cbn [length] in *; lia).
    unfold recvmsg. cbn [calls strm arb arfds]. destruct (Ho c) as [k ->].
    set (n0 := N.to_nat (N.min (N.min (N.max 1 k) (target - lenN buf)) (lenN ((x :: rest) ++ tail)))).
    assert (Hn0 : (1 <= n0 <= length (x :: rest))%nat).
    { unfold n0, lenN in *. rewrite app_length. cbn [length] in *. lia. }
    destruct n0 as [|n0]; [lia|].
    rewrite firstn_app, skipn_app.
    replace (S n0 - length (x :: rest))%nat with 0%nat by lia. cbn [firstn skipn]. rewrite !app_nil_r.
    cbn [map fst].
    destruct (IH (skipn n0 rest) tail target (buf ++ fst x :: map fst (firstn n0 rest))
                 (fds ++ flat_map snd (x :: firstn n0 rest)) a af (S c)) as [c' Hc'].
    + rewrite lenN_app. unfold lenN in *. cbn [length] in *. rewrite map_length, firstn_length, skipn_length. lia.
    + rewrite skipn_length. cbn [length] in Hf. lia.
    + exists c'. cbn [flat_map] in *. rewrite Hc'. f_equal. f_equal.
      assert (E1 : map fst rest = map fst (firstn n0 rest) ++ map fst (skipn n0 rest))
        by (now rewrite <- map_app, firstn_skipn).
      assert (E2 : flat_map snd rest = flat_map snd (firstn n0 rest) ++ flat_map snd (skipn n0 rest))
        by (now rewrite <- flat_map_app, firstn_skipn).
      rewrite E1, E2. repeat (rewrite <- ?app_assoc; cbn [app]). reflexivity.
Qed.

(* ------------------------------------------------------------------ the frame of the specification vs PrimaryHeader::read *)
Lemma beq_l e : beq e "l"%byte = (bn e =? 108).
Proof. destruct e; reflexivity. Qed.
Lemma beq_B e : beq e "B"%byte = (bn e =? 66).
Proof. destruct e; reflexivity. Qed.
Lemma land_248 x : x < 256 -> (N.land x 248 =? 0) = (x <? 8).
Proof.
  intros H. assert (Hx : exists n, (n < 256)%nat /\ x = N.of_nat n) by (exists (N.to_nat x); lia).
  destruct Hx as (n & Hn & ->). clear H.
  do 256 (destruct n as [|n]; [reflexivity|]). lia.
Qed.
Lemma bn_lt b : bn b < 256.
Proof. destruct b; reflexivity. Qed.

Lemma round8_pad8 n : n + pad8 n = round8 n.
Proof.
  unfold pad8, round8.
  pose proof (N.div_mod' n 8). pose proof (N.mod_upper_bound n 8 ltac:(lia)).
  pose proof (N.div_mod' (n + 7) 8). pose proof (N.mod_upper_bound (n + 7) 8 ltac:(lia)).
  pose proof (N.div_mod' (8 - n mod 8) 8). pose proof (N.mod_upper_bound (8 - n mod 8) 8 ltac:(lia)).
  lia.
Qed.

Local Arguments N.mul : simpl never.
Local Arguments N.add : simpl never.
Local Arguments N.leb : simpl never.
Local Arguments N.ltb : simpl never.
Local Arguments N.eqb : simpl never.
Local Arguments N.land : simpl never.
Local Arguments N.of_nat : simpl never.

Lemma frame_parse b f : frame_of b = Some f ->
  exists ph, parse_primary (firstn 16 b) = Ok ph /\ ph_big ph = f_big f /\
             header_len ph = f_header_end f /\ total_len ph = f_total f /\ 16 <= lenN b.
Proof.
  unfold frame_of. destruct (length b <? 16)%nat eqn:Hl; [discriminate|].
  do 16 (destruct b as [|? b]; [cbn in Hl; discriminate|]).
  intros H. unfold parse_primary. cbn [firstn]. unfold spec_u32 in H. unfold byte_at in H. cbn [nth Nat.add] in H.
  rewrite beq_l, beq_B. unfold lenN. cbn [length skipn u32_of].
  destruct (bn b0 =? 108) eqn:E1.
  - replace (bn b0 =? 66) with false in H by lia. cbn [orb negb] in H.
    match type of H with (if ?c then _ else _) = _ => destruct c eqn:Hc end; [|discriminate].
    inversion H; subst f; clear H. cbn [f_big f_header_end f_total].
    replace (N.of_nat 12 <? 12) with false by lia.
    unfold u32le.
    match goal with |- context [negb ?c] => replace c with true by lia end. cbn [negb].
    match goal with |- context [if ?c then Err EVariant else _] => replace c with false by lia end.
    eexists; split; [reflexivity|]. unfold total_len, header_len, MIN_MESSAGE_SIZE. cbn [ph_big ph_fields_len ph_body_len].
    repeat split; try lia. rewrite round8_pad8. lia.
  - destruct (bn b0 =? 66) eqn:E2; [|discriminate]. cbn [orb negb] in H.
    match type of H with (if ?c then _ else _) = _ => destruct c eqn:Hc end; [|discriminate].
    inversion H; subst f; clear H. cbn [f_big f_header_end f_total].
    replace (N.of_nat 12 <? 12) with false by lia.
    unfold u32le.
    match goal with |- context [negb ?c] => replace c with true by lia end. cbn [negb].
    match goal with |- context [if ?c then Err EVariant else _] => replace c with false by lia end.
    eexists; split; [reflexivity|]. unfold total_len, header_len, MIN_MESSAGE_SIZE. cbn [ph_big ph_fields_len ph_body_len].
    repeat split; try lia. rewrite round8_pad8. lia.
Qed.

(* ------------------------------------------------------------------ tagged messages *)
Definition nofds (l : list sbyte) : Prop := Forall (fun x => snd x = []) l.

Lemma nofds_flat l : nofds l -> flat_map snd l = [].
Proof. induction 1 as [|x l Hx _ IH]; [reflexivity|]. cbn. now rewrite Hx, IH. Qed.
Lemma nofds_firstn n l : nofds l -> nofds (firstn n l).
Proof.
  unfold nofds. intros H. revert n; induction H as [|x l Hx Hl IH]; intros [|n]; cbn; try constructor; auto.
Qed.
Lemma nofds_skipn n l : nofds l -> nofds (skipn n l).
Proof.
  unfold nofds. intros H. revert n; induction H as [|x l Hx Hl IH]; intros [|n]; cbn; auto.
Qed.
Lemma nofds_map (r : bytes) : nofds (map (fun x => (x, [])) r).
Proof. unfold nofds. induction r; constructor; auto. Qed.

Lemma tag_fst m : map fst (tag m) = sm_bytes m.
Proof.
  unfold tag. destruct (sm_bytes m) as [|b r]; [reflexivity|]. cbn. f_equal.
  rewrite map_map. cbn. apply map_id.
Qed.
Lemma tag_length m : length (tag m) = length (sm_bytes m).
Proof. transitivity (length (map fst (tag m))); [symmetry; apply map_length | now rewrite tag_fst]. Qed.
Lemma tag_fds_firstn m n : sm_bytes m <> [] ->
  flat_map snd (firstn n (tag m)) = match n with O => [] | S _ => sm_fds m end.
Proof.
  unfold tag. destruct (sm_bytes m) as [|b r]; [congruence|]. intros _. destruct n as [|n]; [reflexivity|].
  cbn. rewrite nofds_flat; [apply app_nil_r|]. apply nofds_firstn, nofds_map.
Qed.
Lemma tag_skipn_nofds m n : (1 <= n)%nat -> nofds (skipn n (tag m)).
Proof.
  unfold tag. destruct (sm_bytes m) as [|b r]; intros Hn.
  - rewrite skipn_nil. constructor.
  - destruct n as [|n]; [lia|]. cbn. apply nofds_skipn, nofds_map.
Qed.

(* ------------------------------------------------------------------ the two phases on a split stream *)
Lemma phase1_split o (Ho : all_bytes o) : forall (H R W' : list sbyte) c k,
  length H = 16%nat ->
  exists k', phase1 o (split_state c (H ++ R ++ W') k) =
    ({| arb := map fst (firstn (c - 16) (R ++ W')); arfds := flat_map snd (firstn c (H ++ R ++ W'));
        strm := skipn (c - 16) (R ++ W'); calls := k' |},
     Ok (map fst H, flat_map snd (skipn c H))).
Proof.
  intros H R W' c k HH. unfold phase1, split_state, set_arb. cbn [arb arfds strm calls].
  destruct (lenN (map fst (firstn c (H ++ R ++ W'))) <? MIN_MESSAGE_SIZE) eqn:E.
  - assert (Hc : (c < 16)%nat).
    { unfold lenN, MIN_MESSAGE_SIZE in E. rewrite map_length, firstn_length, app_length in E. lia. }
    rewrite firstn_app, skipn_app. replace (c - length H)%nat with 0%nat by lia.
    replace (c - 16)%nat with 0%nat by lia. cbn [firstn skipn]. rewrite app_nil_r.
    destruct (read_to_complete o Ho (S (length (skipn c H ++ R ++ W'))) (skipn c H) (R ++ W') MIN_MESSAGE_SIZE
                (map fst (firstn c H)) [] [] (flat_map snd (firstn c H)) k) as [k' Hk'].
    + unfold lenN, MIN_MESSAGE_SIZE. rewrite map_length, firstn_length, skipn_length. lia.
    + rewrite app_length. lia.
    + exists k'. rewrite Hk'. f_equal. f_equal. f_equal.
      now rewrite <- map_app, firstn_skipn.
  - assert (Hc : (16 <= c)%nat).
    { unfold lenN, MIN_MESSAGE_SIZE in E. rewrite map_length, firstn_length, app_length in E. lia. }
    exists k. f_equal.
    + f_equal.
      * rewrite skipn_map, skipn_firstn_comm. f_equal. f_equal.
        rewrite skipn_app, HH, skipn_short by lia. now replace (16 - 16)%nat with 0%nat by lia.
      * replace c with (16 + (c - 16))%nat at 1 by lia. rewrite <- skipn_skipn'. f_equal.
        rewrite skipn_app, HH, skipn_short by lia. now replace (16 - 16)%nat with 0%nat by lia.
    + f_equal. f_equal.
      * rewrite firstn_map, firstn_firstn. replace (Nat.min 16 c) with 16%nat by lia.
        rewrite firstn_app, HH, (firstn_short 16 H) by lia. replace (16 - 16)%nat with 0%nat by lia.
        now rewrite firstn_O, app_nil_r.
      * now rewrite skipn_short by lia.
Qed.

Lemma phase2_split o (Ho : all_bytes o) : forall (R W' : list sbyte) hdr fds1 d AF k total,
  lenN hdr = 16 -> total = 16 + lenN R ->
  exists k', phase2 o total hdr fds1
               {| arb := map fst (firstn d (R ++ W')); arfds := AF; strm := skipn d (R ++ W'); calls := k |} =
    ({| arb := map fst (firstn (d - length R) W'); arfds := AF; strm := skipn (d - length R) W'; calls := k' |},
     Ok (hdr ++ map fst R, fds1 ++ flat_map snd (skipn d R))).
Proof.
  intros R W' hdr fds1 d AF k total Hh Ht. unfold phase2, set_arb, takeN, dropN. cbn [arb arfds strm calls].
  destruct (Nat.le_gt_cases (length R) d) as [Hd|Hd].
  - (* everything that is left of the message was already buffered *)
    replace (N.to_nat (N.min (total - lenN hdr) (lenN (map fst (firstn d (R ++ W')))))) with (length R).
    2:{ unfold lenN in *. rewrite map_length, firstn_length, app_length. lia. }
    rewrite firstn_map, firstn_firstn. replace (Nat.min (length R) d) with (length R) by lia.
    rewrite skipn_map, skipn_firstn_comm.
    replace (firstn (length R) (R ++ W')) with R.
    2:{ rewrite firstn_app, firstn_short by lia. replace (length R - length R)%nat with 0%nat by lia.
        cbn [firstn]. now rewrite app_nil_r. }
    replace (skipn (length R) (R ++ W')) with W'.
    2:{ rewrite skipn_app, skipn_short by lia. now replace (length R - length R)%nat with 0%nat by lia. }
    exists k. cbn [read_to]. replace (total <=? lenN (hdr ++ map fst R)) with true.
    2:{ rewrite lenN_app. unfold lenN in *. rewrite map_length. lia. }
    rewrite (skipn_short d R) by lia. cbn [flat_map]. rewrite app_nil_r. f_equal. f_equal.
    rewrite skipn_app, (skipn_short d R) by lia. reflexivity.
  - rewrite firstn_app, skipn_app. replace (d - length R)%nat with 0%nat by lia. cbn [firstn skipn].
    rewrite app_nil_r.
    replace (N.to_nat (N.min (total - lenN hdr) (lenN (map fst (firstn d R))))) with d.
    2:{ unfold lenN in *. rewrite map_length, firstn_length. lia. }
    rewrite (firstn_short d (map fst (firstn d R))) by (rewrite map_length, firstn_length; lia).
    rewrite (skipn_short d (map fst (firstn d R))) by (rewrite map_length, firstn_length; lia).
    destruct (read_to_complete o Ho (S (length (skipn d R ++ W'))) (skipn d R) W' total
                (hdr ++ map fst (firstn d R)) fds1 [] AF k) as [k' Hk'].
    + rewrite lenN_app. unfold lenN in *. rewrite map_length, firstn_length, skipn_length. lia.
    + rewrite app_length. lia.
    + exists k'. rewrite Hk'. f_equal. f_equal. f_equal.
      rewrite <- app_assoc. f_equal. now rewrite <- map_app, firstn_skipn.
Qed.

(* ------------------------------------------------------------------ one valid message *)
Lemma valid_nonempty pf m : valid_msg pf m -> (16 <= length (sm_bytes m))%nat.
Proof.
  intros (f & u & Hf & _). apply frame_parse in Hf. destruct Hf as (ph & _ & _ & _ & _ & Hl).
  unfold lenN in Hl. lia.
Qed.

Lemma firstn_app_le {A} n (l1 l2 : list A) : (n <= length l1)%nat -> firstn n (l1 ++ l2) = firstn n l1.
Proof. intros H. rewrite firstn_app. replace (n - length l1)%nat with 0%nat by lia. cbn. apply app_nil_r. Qed.

Lemma receive_valid pf o (Ho : all_bytes o) m W' c k seq :
  valid_msg pf m ->
  exists k', receive_message pf o seq (split_state c (tag m ++ W') k) =
    (split_state (c - length (sm_bytes m)) W' k',
     Ok {| m_bytes := sm_bytes m; m_fds := sm_fds m; m_seq := seq |}).
Proof.
  intros Hv. pose proof (valid_nonempty pf m Hv) as Hlen.
  destruct Hv as (f & u & Hf & Htot & Hmax & Hpf & Hu).
  apply frame_parse in Hf. destruct Hf as (ph & Hpp & Hbig & Hhl & Htl & _).
  set (T := tag m) in *. set (H := firstn 16 T). set (R := skipn 16 T).
  assert (HT : T = H ++ R) by (symmetry; apply firstn_skipn).
  assert (HTl : length T = length (sm_bytes m)) by apply tag_length.
  assert (HH : length H = 16%nat) by (unfold H; rewrite firstn_length; lia).
  assert (HRl : length R = (length (sm_bytes m) - 16)%nat) by (unfold R; rewrite skipn_length; lia).
  assert (HRn : nofds R) by (apply tag_skipn_nofds; lia).
  assert (HfH : map fst H = firstn 16 (sm_bytes m)) by (unfold H, T; now rewrite <- firstn_map, tag_fst).
  assert (HfR : map fst R = skipn 16 (sm_bytes m)) by (unfold R, T; now rewrite <- skipn_map, tag_fst).
  assert (Hne : sm_bytes m <> []) by (destruct (sm_bytes m); [cbn in Hlen; lia | discriminate]).
  rewrite HT, <- app_assoc. unfold receive_message.
  destruct (phase1_split o Ho H R W' c k HH) as [k1 E1]. rewrite E1, HfH, Hpp.
  replace (MAX_MESSAGE_SIZE <? total_len ph) with false by lia.
  destruct (phase2_split o Ho R W' (firstn 16 (sm_bytes m)) (flat_map snd (skipn c H)) (c - 16)%nat
              (flat_map snd (firstn c (H ++ R ++ W'))) k1 (total_len ph)) as [k2 E2].
  { unfold lenN. rewrite firstn_length. lia. }
  { unfold lenN in *. lia. }
  rewrite E2, HfR, firstn_skipn. clear E1 E2.
  replace (c - 16 - length R)%nat with (c - length (sm_bytes m))%nat by lia.
  rewrite (nofds_flat (skipn (c - 16) R)) by (now apply nofds_skipn). rewrite app_nil_r.
  (* the descriptors handed over by the handshake *)
  set (LR := flat_map snd (firstn (c - length (sm_bytes m))%nat W')) in *.
  assert (HAF : flat_map snd (firstn c (H ++ R ++ W')) = if Nat.eqb c 0 then [] else sm_fds m ++ LR).
  { rewrite app_assoc, <- HT, firstn_app, flat_map_app, HTl. unfold T. rewrite tag_fds_firstn by assumption.
    destruct c; reflexivity. }
  unfold fds_block, from_raw_parts. cbn [arfds]. rewrite HAF.
  assert (Hslice : pf (ph_big ph) (slice PRIMARY_HEADER_SIZE (header_len ph) (sm_bytes m)) = Ok u)
    by (now rewrite Hbig, Hhl).
  destruct (Nat.eqb c 0) eqn:Ec.
  - (* nothing was read ahead: the descriptors arrive with the first byte *)
    apply Nat.eqb_eq in Ec. subst c. cbn [skipn]. unfold H, T. rewrite (tag_fds_firstn m 16 Hne). rewrite Hslice.
    exists k2. reflexivity.
  - (* the first byte was read ahead: its descriptors are the first ones in the buffer, whatever follows them *)
    apply Nat.eqb_neq in Ec. rewrite (nofds_flat (skipn c H)).
    2:{ unfold H. rewrite skipn_firstn_comm. apply nofds_firstn, tag_skipn_nofds. lia. }
    destruct (sm_fds m ++ LR) as [|a AF] eqn:EAF.
    + apply app_eq_nil in EAF. destruct EAF as [EF EL]. rewrite EF, Hslice.
      exists k2. unfold split_state. fold LR. now rewrite EL.
    + rewrite Hslice, <- EAF. cbn [set_arfds arb arfds strm calls].
      fold (optN u). rewrite Hu.
      replace (lenN (sm_fds m) <? lenN (@nil fd)) with false by (unfold lenN; cbn [length]; lia).
      replace (lenN (sm_fds m) - lenN (@nil fd)) with (lenN (sm_fds m)) by (unfold lenN; cbn [length]; lia).
      replace (lenN (sm_fds m ++ LR) <? lenN (sm_fds m)) with false by (rewrite lenN_app; lia).
      unfold takeN, dropN, lenN. rewrite Nat2N.id.
      rewrite firstn_app, skipn_app.
      rewrite (firstn_short (length (sm_fds m)) (sm_fds m)), (skipn_short (length (sm_fds m)) (sm_fds m)) by lia.
      replace (length (sm_fds m) - length (sm_fds m))%nat with 0%nat by lia. cbn [firstn skipn app].
      rewrite !app_nil_r. exists k2. reflexivity.
Qed.

(* end of the stream *)
Lemma receive_eof pf o (Ho : all_bytes o) c k seq :
  exists k', receive_message pf o seq (split_state c [] k) = (split_state 0 [] k', Err EIo).
Proof.
  unfold receive_message, phase1, split_state. rewrite firstn_nil, skipn_nil. cbn [map flat_map arb strm length].
  cbn [read_to]. unfold recvmsg. cbn [calls strm set_arb arb arfds]. destruct (Ho k) as [kk ->].
  replace (N.to_nat (N.min (N.min (N.max 1 kk) (MIN_MESSAGE_SIZE - lenN (@nil byte))) (lenN (@nil (byte * list fd)))))
    with 0%nat by (unfold lenN; cbn [length]; lia).
  cbn. exists (S k). reflexivity.
Qed.

Lemma reader_frames pf o (Ho : all_bytes o) : forall ms, Forall (valid_msg pf) ms ->
  forall fuel c k n, (length ms < fuel)%nat ->
  exists k', reader pf o fuel n (split_state c (wire ms) k) = (number (n + 1) ms ++ [OErr EIo], split_state 0 [] k').
Proof.
  induction 1 as [|m r Hm Hr IH]; intros fuel c k n Hf; (destruct fuel as [|fuel]; [cbn in Hf; lia|]).
  - cbn [reader wire flat_map]. destruct (receive_eof pf o Ho c k (n + 1)) as [k' ->]. now exists k'.
  - cbn [reader wire flat_map]. fold (wire r).
    destruct (receive_valid pf o Ho m (wire r) c k (n + 1) Hm) as [k1 E1]. rewrite E1.
    destruct (IH fuel (c - length (sm_bytes m))%nat k1 (n + 1)) as [k' E2]; [cbn [length] in Hf; lia|].
    rewrite E2. exists k'. reflexivity.
Qed.

Lemma wire_length pf ms : Forall (valid_msg pf) ms -> (length ms <= length (wire ms))%nat.
Proof.
  induction 1 as [|m r Hm _ IH]; [cbn; lia|]. cbn [wire flat_map length]. fold (wire r).
  rewrite app_length, tag_length. pose proof (valid_nonempty pf m Hm). lia.
Qed.

(* ------------------------------------------------------------------ main statements *)
Theorem frames : forall (pf : parse_fields) (ms : list smsg) (cut : nat) (k : nat -> N),
  Forall (valid_msg pf) ms ->
  fst (run_reader pf (bytes_oracle k) (wire ms) cut) = expected ms.
Proof.
  intros pf ms cut k Hv. unfold run_reader, expected.
  destruct (reader_frames pf _ (all_bytes_oracle k) ms Hv (S (length (wire ms))) cut 0%nat 0) as [k' E].
  - pose proof (wire_length pf ms Hv). lia.
  - now rewrite E.
Qed.

(* the whole stream is consumed and the reader is left with empty buffers *)
Theorem frames_state : forall (pf : parse_fields) (ms : list smsg) (cut : nat) (k : nat -> N),
  Forall (valid_msg pf) ms ->
  let st := snd (run_reader pf (bytes_oracle k) (wire ms) cut) in
  arb st = [] /\ arfds st = [] /\ strm st = [].
Proof.
  intros pf ms cut k Hv. unfold run_reader.
  destruct (reader_frames pf _ (all_bytes_oracle k) ms Hv (S (length (wire ms))) cut 0%nat 0) as [k' E].
  - pose proof (wire_length pf ms Hv). lia.
  - rewrite E. cbn. auto.
Qed.

(* the reader never panics, whatever the peer sends and however the stream is split (any oracle, any field parser
   that does not panic itself): the only panic site of the pinned tree, drain(..num_pending), is gone *)
Lemma read_to_no_panic o : forall fuel target buf fds st p, snd (read_to o fuel target buf fds st) <> Panic p.
Proof.
  induction fuel as [|fuel IH]; intros target buf fds st p; cbn [read_to]; destruct (target <=? lenN buf); try (cbn; congruence).
  unfold recvmsg. destruct (o (calls st)) as [k| |]; try (cbn; congruence).
  destruct (map fst (firstn _ (strm st))) as [|x xs]; [cbn; congruence | apply IH].
Qed.

(* ------------------------------------------------------------------ the size limit *)
Lemma phase1_consumes o st st1 hdr f :
  phase1 o st = (st1, Ok (hdr, f)) ->
  length hdr = 16%nat /\
  (length (arb st1) + length (strm st1) + 16 = length (arb st) + length (strm st))%nat /\
  arfds st1 = arfds st.
Proof.
  unfold phase1. destruct (lenN (arb st) <? MIN_MESSAGE_SIZE) eqn:E; intros H.
  - apply read_to_sound in H. cbn [set_arb arb arfds strm calls] in H.
    destruct H as (n & Hn & Hb & _ & Hs & Ha & Haf & _ & Hl).
    assert (Hl' : lenN hdr = MIN_MESSAGE_SIZE) by (apply Hl; lia).
    rewrite Hb in Hl'. rewrite Hs, Ha, Hb, skipn_length. cbn [length].
    unfold lenN, MIN_MESSAGE_SIZE in *. rewrite app_length, map_length, firstn_length in *. repeat split; try lia. assumption.
  - assert (Hst : st1 = set_arb (skipn 16 (arb st)) st) by congruence.
    assert (Hh : hdr = firstn 16 (arb st)) by congruence.
    rewrite Hst, Hh. unfold set_arb. cbn [arb arfds strm]. unfold lenN, MIN_MESSAGE_SIZE in E.
    repeat split; rewrite ?firstn_length, ?skipn_length; try reflexivity; lia.
Qed.

(* with the repair the reader has no panic site left: whatever the peer sends, however the stream is split *)
Lemma parse_primary_no_panic hdr p : hdr <> [] -> parse_primary hdr <> Panic p.
Proof.
  unfold parse_primary. destruct hdr as [|e rest]; [congruence|]. intros _.
  destruct (beq e "l"%byte); [|destruct (beq e "B"%byte); [|discriminate]];
    (destruct rest as [|ty [|fl [|ver tl]]]; try discriminate;
     repeat (match goal with |- (if ?c then _ else _) <> _ => destruct c end; try discriminate)).
Qed.

Theorem receive_no_panic : forall (pf : parse_fields) (o : oracle) (seq : N) (st : rstate) (p : panic),
  (forall big b q, pf big b <> Panic q) -> snd (receive_message pf o seq st) <> Panic p.
Proof.
  intros pf o seq st p Hpf. unfold receive_message.
  destruct (phase1 o st) as [st1 [[hdr fds1]|e|q]] eqn:E1; cbn [snd]; try discriminate.
  - apply phase1_consumes in E1. destruct E1 as [Hl _].
    destruct (parse_primary hdr) as [ph|e|q] eqn:Ep; cbn [snd]; try discriminate.
    + destruct (MAX_MESSAGE_SIZE <? total_len ph); cbn [snd]; [discriminate|].
      destruct (phase2 o (total_len ph) hdr fds1 st1) as [st3 [[bytes fds]|e|q]] eqn:E2; cbn [snd]; try discriminate.
      * unfold fds_block, from_raw_parts.
        pose proof (Hpf (ph_big ph) (slice PRIMARY_HEADER_SIZE (header_len ph) bytes)) as Hq.
        destruct (arfds st3) as [|a af].
        -- cbn [snd]. destruct (pf (ph_big ph) (slice PRIMARY_HEADER_SIZE (header_len ph) bytes)); try discriminate.
           intros H. inversion H. subst. now apply (Hq p).
        -- destruct (pf (ph_big ph) (slice PRIMARY_HEADER_SIZE (header_len ph) bytes)) as [u|e|q]; cbn [snd]; try discriminate.
           ++ destruct (match u with Some n => n | None => 0 end <? lenN fds); cbn [snd]; [discriminate|].
              destruct (lenN (a :: af) <? match u with Some n => n | None => 0 end - lenN fds); cbn [snd]; discriminate.
           ++ intros H. inversion H. subst. now apply (Hq p).
      * intros H. inversion H; subst q. unfold phase2 in E2.
        match type of E2 with read_to ?a ?b ?c ?d ?e ?f = _ => pose proof (read_to_no_panic a b c d e f p) as Hn end.
        rewrite E2 in Hn. now apply Hn.
    + intros H. inversion H; subst q. apply (parse_primary_no_panic hdr p); [|assumption].
      destruct hdr; [discriminate | congruence].
  - intros H. inversion H; subst q. unfold phase1 in E1. destruct (lenN (arb st) <? MIN_MESSAGE_SIZE); [|discriminate].
    match type of E1 with read_to ?a ?b ?c ?d ?e ?f = _ => pose proof (read_to_no_panic a b c d e f p) as Hn end.
    rewrite E1 in Hn. now apply Hn.
Qed.

(* the driver's field parser (C11's model of message::Fields) satisfies the hypothesis of receive_no_panic *)
Lemma c11_fields_no_panic big b q : c11_fields big b <> Panic q.
Proof.
  unfold c11_fields.
  pose proof (C11.Invariants.de_fields_no_panic (if big then C11.Model.BE else C11.Model.LE) (repeat x00 12 ++ b)) as H.
  destruct (C11.Model.de_fields (if big then C11.Model.BE else C11.Model.LE) (repeat x00 12 ++ b)) as [[fs n]|e|p];
    [discriminate | destruct e; discriminate | exfalso; now apply (H p)].
Qed.
Theorem receive_no_panic_std : forall (o : oracle) (seq : N) (st : rstate) (p : panic),
  snd (receive_message c11_fields o seq st) <> Panic p.
Proof. intros. apply receive_no_panic. intros. apply c11_fields_no_panic. Qed.

Theorem limit : forall (pf : parse_fields) (o : oracle) (seq : N) (st st1 : rstate) (hdr : bytes) (f : list fd) (ph : phdr),
  phase1 o st = (st1, Ok (hdr, f)) -> parse_primary hdr = Ok ph -> MAX_MESSAGE_SIZE < total_len ph ->
  receive_message pf o seq st = (st1, Err EExcess) /\
  length hdr = 16%nat /\
  (length (arb st1) + length (strm st1) + 16 = length (arb st) + length (strm st))%nat.
Proof.
  intros pf o seq st st1 hdr f ph H1 Hp Hm. split.
  - unfold receive_message. rewrite H1, Hp. now replace (MAX_MESSAGE_SIZE <? total_len ph) with true by lia.
  - apply phase1_consumes in H1. tauto.
Qed.

(* with the header already buffered, not a single recvmsg call is made *)
Theorem limit_buffered : forall (pf : parse_fields) (o : oracle) (seq : N) (st : rstate) (ph : phdr),
  (16 <= length (arb st))%nat -> parse_primary (firstn 16 (arb st)) = Ok ph -> MAX_MESSAGE_SIZE < total_len ph ->
  exists st1, receive_message pf o seq st = (st1, Err EExcess) /\ calls st1 = calls st /\ strm st1 = strm st.
Proof.
  intros pf o seq st ph Hl Hp Hm. exists (set_arb (skipn 16 (arb st)) st).
  unfold receive_message, phase1. replace (lenN (arb st) <? MIN_MESSAGE_SIZE) with false by (unfold lenN, MIN_MESSAGE_SIZE; lia).
  rewrite Hp. now replace (MAX_MESSAGE_SIZE <? total_len ph) with true by lia.
Qed.

(* fuel is never the reason for an outcome: the read loop only stops for an oracle reason *)
Lemma read_to_fuel o : forall fuel target buf fds st,
  (length (strm st) < fuel)%nat -> snd (read_to o fuel target buf fds st) <> Err EFuel.
Proof.
  induction fuel as [|fuel IH]; intros target buf fds st Hf; [lia|].
  cbn [read_to]. destruct (target <=? lenN buf); [cbn; congruence|].
  unfold recvmsg. destruct (o (calls st)) as [k| |]; try (cbn; congruence).
  set (n0 := N.to_nat (N.min (N.min (N.max 1 k) (target - lenN buf)) (lenN (strm st)))).
  destruct (map fst (firstn n0 (strm st))) as [|x xs] eqn:Hb; [cbn; congruence|].
  apply IH. cbn [strm]. rewrite skipn_length.
  assert (n0 <> 0)%nat by (intros E; rewrite E in Hb; discriminate).
  assert (n0 <= length (strm st))%nat by (unfold n0, lenN; lia). lia.
Qed.

(* ------------------------------------------------------------------ decidable validity *)
Lemma valid_msgb_ok pf m : valid_msgb pf m = true -> valid_msg pf m.
Proof.
  unfold valid_msgb, valid_msg. destruct (frame_of (sm_bytes m)) as [f|]; [|discriminate].
  intros H. apply Bool.andb_true_iff in H. destruct H as [H H3]. apply Bool.andb_true_iff in H. destruct H as [H1 H2].
  destruct (pf (f_big f) (slice 12 (f_header_end f) (sm_bytes m))) as [u| |] eqn:E; try discriminate.
  exists f, u. repeat split; try assumption; lia.
Qed.

(* ------------------------------------------------------------------ the former finding (fixed by e5b20c34):
   descriptors read ahead during the handshake while the first buffered message has none *)
Definition hx (s : string) : bytes := match bytes_of_hex (B s) with Some b => b | None => [] end.

(* a 16-byte message (no header fields, empty body) and a 24-byte one whose only field is UNIX_FDS = 1 *)
Definition w_plain : smsg := {| sm_bytes := hx "6c010001000000000100000000000000"; sm_fds := [] |}.
Definition w_fd (h : fd) : smsg :=
  {| sm_bytes := hx "6c0100010000000002000000080000000901750001000000"; sm_fds := [h] |}.

Lemma w_plain_valid : valid_msg c11_fields w_plain.
Proof. apply valid_msgb_ok. vm_compute. reflexivity. Qed.
Lemma w_fd_valid h : valid_msg c11_fields (w_fd h).
Proof. apply valid_msgb_ok. vm_compute. reflexivity. Qed.

Example former_witness :
  Forall (valid_msg c11_fields) [w_plain; w_fd 7] /\
  fst (run_reader c11_fields (bytes_oracle (fun _ => 5)) (wire [w_plain; w_fd 7]) 17) = expected [w_plain; w_fd 7].
Proof.
  split; [repeat constructor; [apply w_plain_valid | apply w_fd_valid] | vm_compute; reflexivity].
Qed.

(* ------------------------------------------------------------------ non-vacuity *)
(* three messages, the handshake has read 20 bytes (all of the first and 4 of the second), reads of 3, 1, 7, ... bytes *)
Example frames_instance :
  let ms := [w_fd 7; w_plain; w_fd 9] in
  let k := fun c : nat => match c with 0%nat => 3 | 1%nat => 1 | 2%nat => 7 | _ => N.of_nat c end in
  Forall (valid_msg c11_fields) ms /\
  fst (run_reader c11_fields (bytes_oracle k) (wire ms) 30) = expected ms /\
  expected ms = [OMsg {| m_bytes := sm_bytes (w_fd 7); m_fds := [7]; m_seq := 1 |};
                 OMsg {| m_bytes := sm_bytes w_plain; m_fds := []; m_seq := 2 |};
                 OMsg {| m_bytes := sm_bytes (w_fd 9); m_fds := [9]; m_seq := 3 |}; OErr EIo].
Proof.
  cbv zeta. split; [|split].
  - repeat constructor; [apply w_fd_valid | apply w_plain_valid | apply w_fd_valid].
  - vm_compute. reflexivity.
  - vm_compute. reflexivity.
Qed.

(* unknown flag bits (0x89) and an unknown header field (code 0x20, a string) are tolerated: such a message is valid
   and is delivered like any other (fixes 0d33c3d1, 9e1c6e56) *)
Definition w_tolerant : smsg :=
  {| sm_bytes := hx "6c01890100000000030000000b0000002001730002000000686900" ++ hx "0000000000"; sm_fds := [] |}.
Example tolerant_instance :
  valid_msg c11_fields w_tolerant /\
  fst (run_reader c11_fields (bytes_oracle (fun _ => 3)) (wire [w_tolerant; w_plain]) 5) = expected [w_tolerant; w_plain].
Proof. split; [apply valid_msgb_ok; vm_compute; reflexivity | vm_compute; reflexivity]. Qed.

(* a header that declares a 128 MiB + 1 byte body *)
Example limit_instance :
  let st := {| arb := hx "6c010001010000080100000000000000" ++ hx "aabb"; arfds := []; strm := []; calls := 0 |} in
  exists ph, parse_primary (firstn 16 (arb st)) = Ok ph /\ MAX_MESSAGE_SIZE < total_len ph /\
             fst (receive_message c11_fields (fun _ => AEof) 1 st) = set_arb (hx "aabb") st.
Proof. cbv zeta. eexists. split; [vm_compute; reflexivity|]. split; vm_compute; reflexivity. Qed.
