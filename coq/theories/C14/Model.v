(* C14/Model.v — executable mirror of
     zbus/src/connection/socket/mod.rs   ReadHalf::receive_message   (the provided method)
     zbus/src/connection/socket_reader.rs SocketReader::{receive_msg, read_socket}
     zbus/src/message/header.rs          PrimaryHeader::read, MIN_MESSAGE_SIZE, MAX_MESSAGE_SIZE
   over a transport oracle.  No proofs in this file.

   The transport.  The byte stream still to be delivered is a list of bytes, each tagged with the file
   descriptors that ride on it (SCM_RIGHTS ancillary data is delivered with the first byte of the sendmsg it
   accompanied).  The n-th call of [recvmsg] consults the n-th oracle answer:
     ABytes k  deliver  min (max 1 k) |buf|  next bytes (fewer only if the stream ends; none = EOF)
               together with every descriptor riding on one of them,
     AEof      return (0, [])            AIoErr   return an io::Error.
   Clamping makes every oracle a legal one, and every legal behaviour (1..|buf| bytes per call) is some oracle. *)
From ZV Require Import Base.Bytes Base.Res.
Open Scope N_scope.

Definition fd := N.
Notation sbyte := (byte * list fd)%type (only parsing).

Inductive ans := ABytes (k : N) | AEof | AIoErr.
Definition oracle := nat -> ans.

(* classes of zbus::Error that can come out of the reader *)
Inductive rerr := EIo | EEndian | EVariant | EExcess | EMissing | EFuel.

Definition lenN {A} (l : list A) : N := N.of_nat (length l).

Definition MIN_MESSAGE_SIZE : N := 16.
Definition PRIMARY_HEADER_SIZE : N := 12.
Definition MAX_MESSAGE_SIZE : N := 134217728.   (* 128 * 1024 * 1024 *)

(* SocketReader fields + the socket *)
Record rstate := { arb : bytes;            (* already_received_bytes *)
                   arfds : list fd;        (* already_received_fds *)
                   strm : list sbyte;      (* what the peer has sent and recvmsg has not yet delivered *)
                   calls : nat }.          (* number of recvmsg calls so far = index of the next oracle answer *)

Definition set_arb (a : bytes) (st : rstate) : rstate :=
  {| arb := a; arfds := arfds st; strm := strm st; calls := calls st |}.
Definition set_arfds (f : list fd) (st : rstate) : rstate :=
  {| arb := arb st; arfds := f; strm := strm st; calls := calls st |}.

(* self.recvmsg(&mut bytes[pos..])  with  L = |bytes[pos..]| *)
Definition recvmsg (o : oracle) (L : N) (st : rstate) : rstate * res rerr (bytes * list fd) :=
  match o (calls st) with
  | AIoErr => ({| arb := arb st; arfds := arfds st; strm := strm st; calls := S (calls st) |}, Err EIo)
  | AEof => ({| arb := arb st; arfds := arfds st; strm := strm st; calls := S (calls st) |}, Ok ([], []))
  | ABytes k =>
      let n := N.to_nat (N.min (N.min (N.max 1 k) L) (lenN (strm st))) in
      let got := firstn n (strm st) in
      ({| arb := arb st; arfds := arfds st; strm := skipn n (strm st); calls := S (calls st) |},
       Ok (map fst got, flat_map snd got))
  end.

(* both read loops:  while pos < target { res = recvmsg(&mut bytes[pos..])?; fds.extend(res.1); pos += res.0;
                                           if res.0 == 0 { return Err(UnexpectedEof) } }
   [buf] is bytes[..pos].  Each iteration that continues takes at least one byte off the stream, so
   fuel = S |strm| is never exhausted (Proofs.read_to_fuel). *)
Fixpoint read_to (o : oracle) (fuel : nat) (target : N) (buf : bytes) (fds : list fd) (st : rstate)
  : rstate * res rerr (bytes * list fd) :=
  if target <=? lenN buf then (st, Ok (buf, fds)) else
  match fuel with
  | O => (st, Err EFuel)
  | S f =>
      match recvmsg o (target - lenN buf) st with
      | (st', Ok (b, fs)) =>
          match b with
          | [] => (st', Err EIo)
          | _ :: _ => read_to o f target (buf ++ b) (fds ++ fs) st'
          end
      | (st', Err e) => (st', Err e)
      | (st', Panic p) => (st', Panic p)
      end
  end.

(* ---- PrimaryHeader::read on the first 16 bytes ---- *)
Definition u32le (a b c d : byte) : N := bn a + 256 * bn b + 65536 * bn c + 16777216 * bn d.
Definition u32_of (big : bool) (l : bytes) : N :=
  match l with
  | a :: b :: c :: d :: _ => if big then u32le d c b a else u32le a b c d
  | _ => 0
  end.

Record phdr := { ph_big : bool; ph_body_len : N; ph_fields_len : N }.

Definition pad8 (n : N) : N := (8 - n mod 8) mod 8.          (* padding_for_8_bytes *)
Definition header_len (ph : phdr) : N := MIN_MESSAGE_SIZE + ph_fields_len ph.
Definition total_len (ph : phdr) : N := header_len ph + pad8 (header_len ph) + ph_body_len ph.

Definition parse_primary (h : bytes) : res rerr phdr :=
  match h with
  | [] => Panic PIndex                                        (* buf[0] *)
  | e :: rest =>
      let go (big : bool) : res rerr phdr :=
        match rest with
        | ty :: fl :: _ver :: tl =>
            (* Type is Deserialize_repr (1..4); flags: BitFlags::from_bits_truncate, unknown bits are ignored
               (fix 0d33c3d1), so any flags byte is accepted; serial is NonZeroU32 *)
            if (lenN tl <? 12) then Err EVariant
            else if negb ((1 <=? bn ty) && (bn ty <=? 4)) then Err EVariant
            else if u32_of big (skipn 4 tl) =? 0 then Err EVariant
            else Ok {| ph_big := big; ph_body_len := u32_of big tl; ph_fields_len := u32_of big (skipn 8 tl) |}
        | _ => Err EVariant
        end in
      if beq e "l"%byte then go false
      else if beq e "B"%byte then go true
      else Err EEndian                                         (* EndianSig::try_from *)
  end.

(* ---- the header-fields deserializer, reduced to what the reader needs: Ok (value of UNIX_FDS if present).
   It is a parameter of the model ([parse_fields]); the theorems hold for any instance.  The instance used by the
   line driver is C14/Fields.v: the model of message::Fields deserialisation maintained for C11-C13 (C11/Model.v
   [de_fields]: unknown codes skipped, code 0 rejected, names validated), so there is one model of that code, not two.
   The argument is bytes[12 .. header_len], i.e. the u32 array length followed by the array (absolute offset 16). ---- *)
Definition parse_fields := bool -> bytes -> res rerr (option N).

(* bytes[a..b] *)
Definition slice (a b : N) (l : bytes) : bytes := firstn (N.to_nat (b - a)) (skipn (N.to_nat a) l).

(* ---- receive_message ---- *)
Record rmsg := { m_bytes : bytes; m_fds : list fd; m_seq : N }.

(* first block: get the 16 bytes of the primary header + array length *)
Definition phase1 (o : oracle) (st : rstate) : rstate * res rerr (bytes * list fd) :=
  if lenN (arb st) <? MIN_MESSAGE_SIZE then
    (* mem::swap takes whatever is buffered; then the first read loop *)
    read_to o (S (length (strm st))) MIN_MESSAGE_SIZE (arb st) [] (set_arb [] st)
  else
    (set_arb (skipn 16 (arb st)) st, Ok (firstn 16 (arb st), [])).

(* drain the buffered bytes that belong to this message, then the second read loop *)
Definition phase2 (o : oracle) (total : N) (hdr : bytes) (fds1 : list fd) (st1 : rstate)
  : rstate * res rerr (bytes * list fd) :=
  let pending := total - lenN hdr in
  let to_take := N.min pending (lenN (arb st1)) in
  let bytes2 := hdr ++ takeN to_take (arb st1) in
  let st2 := set_arb (dropN to_take (arb st1)) st1 in
  read_to o (S (length (strm st2))) total bytes2 fds1 st2.

(* #[cfg(unix)] if !already_received_fds.is_empty() { ... }      (as repaired by fix: e5b20c34)
     num_pending = num_required_fds.checked_sub(fds.len()).ok_or(ExcessData)?;
     if num_pending > already_received_fds.len() { return Err(MissingParameter) }
     fds = already_received_fds.drain(..num_pending) ++ fds
   A message that needs none of the buffered descriptors (num_pending = 0) leaves them for a later buffered message. *)
Definition fds_block (pf : parse_fields) (ph : phdr) (bytes : bytes) (fds : list fd) (st : rstate)
  : rstate * res rerr (list fd) :=
  match arfds st with
  | [] => (st, Ok fds)
  | _ :: _ =>
      match pf (ph_big ph) (slice PRIMARY_HEADER_SIZE (header_len ph) bytes) with
      | Err e => (st, Err e)
      | Panic p => (st, Panic p)
      | Ok ufds =>
          let required := match ufds with Some n => n | None => 0 end in
          if required <? lenN fds then (st, Err EExcess)                  (* checked_sub *)
          else
            let num_pending := required - lenN fds in
            if lenN (arfds st) <? num_pending then (st, Err EMissing)     (* "Missing file descriptors" *)
            else (set_arfds (dropN num_pending (arfds st)) st, Ok (takeN num_pending (arfds st) ++ fds))
      end
  end.

(* Message::from_raw_parts on complete bytes whose primary header already parsed: deserializes the fields *)
Definition from_raw_parts (pf : parse_fields) (ph : phdr) (bytes : bytes) (fds : list fd) (seq : N) : res rerr rmsg :=
  match pf (ph_big ph) (slice PRIMARY_HEADER_SIZE (header_len ph) bytes) with
  | Err e => Err e
  | Panic p => Panic p
  | Ok _ => Ok {| m_bytes := bytes; m_fds := fds; m_seq := seq |}
  end.

Definition receive_message (pf : parse_fields) (o : oracle) (seq : N) (st : rstate) : rstate * res rerr rmsg :=
  match phase1 o st with
  | (st1, Err e) => (st1, Err e)
  | (st1, Panic p) => (st1, Panic p)
  | (st1, Ok (hdr, fds1)) =>
      match parse_primary hdr with
      | Err e => (st1, Err e)
      | Panic p => (st1, Panic p)
      | Ok ph =>
          if MAX_MESSAGE_SIZE <? total_len ph then (st1, Err EExcess)     (* before any further read *)
          else
            match phase2 o (total_len ph) hdr fds1 st1 with
            | (st3, Err e) => (st3, Err e)
            | (st3, Panic p) => (st3, Panic p)
            | (st3, Ok (bytes, fds)) =>
                match fds_block pf ph bytes fds st3 with
                | (st4, Err e) => (st4, Err e)
                | (st4, Panic p) => (st4, Panic p)
                | (st4, Ok fds') => (st4, from_raw_parts pf ph bytes fds' seq)
                end
            end
      end
  end.

(* ---- SocketReader::receive_msg / read_socket: number the messages, stop at the first error ---- *)
Inductive out := OMsg (m : rmsg) | OErr (e : rerr) | OPanic (p : panic).

Fixpoint reader (pf : parse_fields) (o : oracle) (fuel : nat) (prev_seq : N) (st : rstate) : list out * rstate :=
  match fuel with
  | O => ([OErr EFuel], st)
  | S f =>
      let seq := prev_seq + 1 in
      match receive_message pf o seq st with
      | (st', Ok m) => let (l, s) := reader pf o f seq st' in (OMsg m :: l, s)      (* self.prev_seq = seq *)
      | (st', Err e) => ([OErr e], st')                                             (* broadcast the error, return *)
      | (st', Panic p) => ([OPanic p], st')
      end
  end.

(* the connection after a handshake that has already consumed the first [cut] bytes of the peer's stream [w] *)
Definition split_state (cut : nat) (w : list sbyte) (c : nat) : rstate :=
  {| arb := map fst (firstn cut w); arfds := flat_map snd (firstn cut w); strm := skipn cut w; calls := c |}.

Definition run_reader (pf : parse_fields) (o : oracle) (w : list sbyte) (cut : nat) : list out * rstate :=
  reader pf o (S (length w)) 0 (split_state cut w 0).
