(* C25/Proofs.v — outside the two known classes the client's replayed views equal the managers'
   listings after every step; each class refutes the full statement. *)
From ZV Require Import Base.Bytes Base.Res Base.WinnowFacts C24.Ops C24.Model C24.Facts C24.Proofs
  C25.Model C25.Spec C25.System C25.Tree C25.ViewFacts.

(* ================= A. which manager get_child_mut reports ================= *)
Lemma mgr_of_zero : forall p n acc, mgrs_above n p = 0 -> mgr_of n p acc = acc.
Proof.
  induction p as [|i rest IH]; intros n acc H; cbn in *; [reflexivity|].
  destruct (find_iface OM (ifaces n)); [cbn in H; discriminate|]. cbn in H.
  destruct (find_child i (children n)); [apply IH; exact H | reflexivity].
Qed.

Lemma ulookup_cons n i r k :
  ulookup n (i :: r) k = match find_child i (children n) with Some c => ulookup c r k | None => None end.
Proof. unfold ulookup; cbn. destruct (find_child i (children n)); reflexivity. Qed.

Lemma mgr_of_found : forall p n pos acc m0, wf_at pos n -> mgr_of n p acc = Some m0 ->
  acc = Some m0 \/
  exists r r', p = r ++ r' /\ r' <> [] /\ m0 = pos ++ r /\ ulookup n r OM <> None.
Proof.
  induction p as [|i rest IH]; intros n pos acc m0 Hwf H; cbn in H; [left; exact H|].
  assert (Hhere : match find_iface OM (ifaces n) with Some _ => Some (npath n) | None => acc end = Some m0 ->
                  acc = Some m0 \/ exists r r', i :: rest = r ++ r' /\ r' <> [] /\ m0 = pos ++ r /\ ulookup n r OM <> None).
  { intros Hm. destruct (find_iface OM (ifaces n)) eqn:E; [|left; exact Hm].
    right. exists [], (i :: rest). split; [reflexivity|]. split; [discriminate|].
    rewrite (wf_npath _ _ Hwf) in Hm. inversion Hm; subst. split; [rewrite app_nil_r; reflexivity|].
    unfold ulookup; cbn. rewrite E. discriminate. }
  destruct (find_child i (children n)) as [c|] eqn:Hc; [|apply Hhere; exact H].
  destruct (IH c (pos ++ [i]) _ m0 (wf_child _ _ _ _ Hwf Hc) H) as [Hacc | [r [r' [Hp [Hr' [Hm Hl]]]]]].
  - apply Hhere; exact Hacc.
  - right. exists (i :: r), r'. split; [cbn; rewrite Hp; reflexivity|]. split; [exact Hr'|].
    split; [rewrite Hm, <- app_assoc; reflexivity|]. rewrite ulookup_cons, Hc. exact Hl.
Qed.

Lemma mgrs_above_ge : forall r n r', ulookup n r OM <> None -> r' <> [] -> 1 <= mgrs_above n (r ++ r').
Proof.
  induction r as [|i r IH]; intros n r' Hl Hr'.
  - destruct r' as [|j r']; [contradiction|]. cbn. unfold ulookup in Hl; cbn in Hl.
    destruct (find_iface OM (ifaces n)); [lia | contradiction].
  - rewrite ulookup_cons in Hl. cbn. destruct (find_child i (children n)) as [c|]; [|contradiction].
    specialize (IH c r' Hl Hr'). lia.
Qed.

Lemma mgr_of_unique : forall p n pos acc r r', wf_at pos n -> p = r ++ r' -> r' <> [] ->
  ulookup n r OM <> None -> mgrs_above n p <= 1 -> mgr_of n p acc = Some (pos ++ r).
Proof.
  induction p as [|i rest IH]; intros n pos acc r r' Hwf Hp Hr' Hl Hm.
  - destruct r; [destruct r'; [contradiction | discriminate] | discriminate].
  - cbn in Hm |- *. destruct r as [|i' r0].
    + unfold ulookup in Hl; cbn in Hl. destruct (find_iface OM (ifaces n)); [|contradiction].
      rewrite (wf_npath _ _ Hwf), app_nil_r.
      destruct (find_child i (children n)) as [c|]; [|reflexivity].
      apply mgr_of_zero. lia.
    + cbn in Hp. inversion Hp; subst i' rest. rewrite ulookup_cons in Hl.
      destruct (find_child i (children n)) as [c|] eqn:Hc; [|contradiction].
      rewrite (IH c (pos ++ [i]) _ r0 r' (wf_child _ _ _ _ Hwf Hc) eq_refl Hr' Hl) by lia.
      rewrite <- app_assoc. reflexivity.
Qed.

(* at the root *)
Lemma M1 t p m0 : wf_at [] t -> mgr_of t p None = Some m0 ->
  strict_prefix m0 p = true /\ ulookup t m0 OM <> None.
Proof.
  intros Hwf H. destruct (mgr_of_found _ _ _ _ _ Hwf H) as [Hx | [r [r' [Hp [Hr' [Hm Hl]]]]]]; [discriminate|].
  cbn in Hm. subst. split; [apply strict_prefix_app_true; exact Hr' | exact Hl].
Qed.

Lemma M2 t p m : wf_at [] t -> strict_prefix m p = true -> ulookup t m OM <> None ->
  mgrs_above t p <= 1 -> mgr_of t p None = Some m.
Proof.
  intros Hwf Hs Hl Hm. apply strict_prefix_app in Hs as [r' [Hr' ->]].
  apply (mgr_of_unique (m ++ r') t [] None m r' Hwf eq_refl Hr' Hl Hm).
Qed.

Lemma M0 t p m : strict_prefix m p = true -> ulookup t m OM <> None -> 1 <= mgrs_above t p.
Proof. intros Hs Hl. apply strict_prefix_app in Hs as [r' [Hr' ->]]. apply mgrs_above_ge; assumption. Qed.

(* ================= B. at and remove in full: state, result, signals ================= *)
Lemma at_fun_wf k id : forall c (m : option path) pos, wf_at pos c -> wf_at pos (fst (at_fun k id c m)).
Proof.
  intros c m pos H. unfold at_fun. pose proof (wf_add_arc k id c pos H) as Hw.
  destruct (add_arc_interface k id c); exact Hw.
Qed.

Lemma remove_fun_wf k : forall c (m : option path) pos, wf_at pos c -> wf_at pos (fst (remove_fun k c m)).
Proof.
  intros c m pos H. unfold remove_fun. pose proof (wf_remove_iface k c pos H) as Hw.
  destruct (remove_interface k c); exact Hw.
Qed.

Lemma drop_fun_wf last : forall c (m : option path) pos, wf_at pos c -> wf_at pos (fst (drop_fun last c m)).
Proof.
  intros c m pos H. unfold drop_fun. pose proof (wf_remove_node last c pos H) as Hw.
  destruct (remove_node last c); exact Hw.
Qed.

(* the node found or made, the node put back, and every lookup in terms of them *)
Lemma upd_lookup t root' p c c' :
  (get_child t p = Some c \/ (get_child t p = None /\ fresh c)) ->
  get_child root' p = Some c' -> children c' = children c ->
  (forall q k, prefix p q = false -> std3 k = false -> ulookup root' q k = ulookup t q k) ->
  forall q k, std3 k = false ->
    ulookup root' q k = if path_eqb q p then find_iface k (ifaces c') else ulookup t q k.
Proof.
  intros Hfound Hget Hch Hframe q k Hk.
  destruct (prefix p q) eqn:Epq.
  - apply prefix_app in Epq as [r ->]. destruct r as [|x r].
    + rewrite app_nil_r, path_eqb_refl. unfold ulookup. rewrite Hget. reflexivity.
    + destruct (path_eqb (p ++ x :: r) p) eqn:E; [apply path_eqb_eq in E; exfalso; exact (path_neq_app _ _ _ E)|].
      apply (ulookup_below t root' p c c'); [exact Hfound | exact Hget | exact Hch | discriminate].
  - rewrite (Hframe q k Epq Hk).
    destruct (path_eqb q p) eqn:E; [apply path_eqb_eq in E; subst; rewrite prefix_refl in Epq; discriminate | reflexivity].
Qed.

Lemma found_lookup t p c k : (get_child t p = Some c \/ (get_child t p = None /\ fresh c)) -> std3 k = false ->
  find_iface k (ifaces c) = ulookup t p k.
Proof.
  intros [H | [H [_ Hf]]] Hk; unfold ulookup; rewrite H; [reflexivity | apply Hf; exact Hk].
Qed.

Lemma at_full t p k id : wf_at [] t -> std3 k = false ->
  exists root',
    wf_at [] root' /\
    match ulookup t p k with
    | Some _ =>
        at_ t p k id = (root', Ok false, []) /\
        forall q k', std3 k' = false -> ulookup root' q k' = ulookup t q k'
    | None =>
        (forall q k', std3 k' = false ->
           ulookup root' q k' = if path_eqb q p && iface_eqb k' k then Some id else ulookup t q k') /\
        exists n', get_child root' p = Some n' /\
        at_ t p k id =
          (root', Ok true,
           if iface_eqb k OM then burst p (get_managed_objects n')
           else match mgr_of t p None with Some m0 => [SAdded m0 p [(k, props_of k id)]] | None => [] end)
    end.
Proof.
  intros Hwf Hk.
  destruct (with_node t p true [] None (at_fun k id)) as [[root' [[added mgr] n']]|] eqn:Hw;
    [|exfalso; eapply with_node_create; exact Hw].
  pose proof (with_node_wf _ (at_fun_wf k id) _ _ _ _ _ _ _ Hwf Hw) as Hwf'.
  destruct (with_node_full _ _ _ _ _ _ _ _ Hw) as [c [m [Hm [Hfound [Hr [Hget Hframe]]]]]].
  assert (Hfound' : get_child t p = Some c \/ (get_child t p = None /\ fresh c)).
  { destruct Hfound as [H | [H [_ H2]]]; [left; exact H | right; split; assumption]. }
  unfold at_fun in Hr, Hget. destruct (add_arc_interface k id c) as [c' b] eqn:Hadd. cbn in Hr, Hget.
  inversion Hr; subst added mgr n'; clear Hr. subst m.
  exists root'. split; [exact Hwf'|].
  pose proof (add_arc_spec k id c) as Hs. rewrite Hadd in Hs.
  pose proof (add_arc_children k id c) as Hch. rewrite Hadd in Hch. cbn in Hch.
  pose proof (upd_lookup t root' p c c' Hfound' Hget Hch Hframe) as Hup.
  rewrite <- (found_lookup t p c k Hfound' Hk).
  destruct (find_iface k (ifaces c)) eqn:Ek.
  - inversion Hs; subst c' b. split; [rewrite at_unfold, Hw; reflexivity|].
    intros q k' Hk'. rewrite (Hup q k' Hk').
    destruct (path_eqb q p) eqn:E; [|reflexivity]. apply path_eqb_eq in E; subst.
    apply found_lookup; assumption.
  - destruct Hs as [Hb Hs]. cbn in Hb, Hs. subst b. split.
    + intros q k' Hk'. rewrite (Hup q k' Hk'). destruct (path_eqb q p) eqn:E; cbn [andb]; [|reflexivity].
      apply path_eqb_eq in E; subst. rewrite Hs. destruct (iface_eqb k' k); [reflexivity|].
      apply found_lookup; assumption.
    + exists c'. split; [exact Hget|]. rewrite at_unfold, Hw.
      destruct (iface_eqb k OM); [reflexivity|].
      destruct (mgr_of t p None); [|reflexivity].
      unfold get_properties. rewrite (Hs k), iface_eqb_refl. reflexivity.
Qed.

Lemma remove_full t p k : wf_at [] t -> std3 k = false ->
  match ulookup t p k with
  | None =>
      exists root', wf_at [] root' /\ fst (remove t p k) = (root', Err InterfaceNotFound) /\ snd (remove t p k) = [] /\
                    forall q k', std3 k' = false -> ulookup root' q k' = ulookup t q k'
  | Some _ =>
      exists c root',
        get_child t p = Some c /\ find_iface k (ifaces c) <> None /\
        wf_at [] root' /\
        (forall q k', std3 k' = false ->
           ulookup root' q k' = if path_eqb q p && iface_eqb k' k then None else ulookup t q k') /\
        snd (remove t p k) = (match mgr_of t p None with Some m0 => [SRemoved m0 p [k]] | None => [] end) /\
        if destroyable (fst (remove_interface k c)) then
          match p with
          | [] => fst (remove t p k) = (root', Ok false)
          | _ :: _ =>
              exists root'', wf_at [] root'' /\ fst (remove t p k) = (root'', Ok true) /\
                forall q k', std3 k' = false ->
                  ulookup root'' q k' = if prefix p q then None else ulookup root' q k'
          end
        else fst (remove t p k) = (root', Ok false)
  end.
Proof.
  intros Hwf Hk. rewrite remove_unfold.
  destruct (with_node t p false [] None (remove_fun k)) as [[root' [[removed mgr] empty]]|] eqn:Hw.
  2:{ apply with_node_none in Hw. unfold ulookup. rewrite Hw. exists t. repeat split; try reflexivity. exact Hwf. }
  pose proof (with_node_wf _ (remove_fun_wf k) _ _ _ _ _ _ _ Hwf Hw) as Hwf'.
  destruct (with_node_full _ _ _ _ _ _ _ _ Hw) as [c [m [Hm [Hfound [Hr [Hget Hframe]]]]]].
  destruct Hfound as [Hc | [_ [Hcr _]]]; [|discriminate].
  unfold remove_fun in Hr, Hget. destruct (remove_interface k c) as [c' b] eqn:Hrm. cbn in Hr, Hget.
  inversion Hr; subst removed mgr empty; clear Hr. subst m.
  pose proof (remove_iface_spec k c) as Hs. rewrite Hrm in Hs.
  pose proof (remove_iface_children k c) as Hch. rewrite Hrm in Hch. cbn in Hch.
  pose proof (upd_lookup t root' p c c' (or_introl Hc) Hget Hch Hframe) as Hup.
  unfold ulookup at 1. rewrite Hc.
  destruct (find_iface k (ifaces c)) eqn:Ek.
  - destruct Hs as [Hb Hs]. cbn in Hb, Hs. subst b. cbn [negb].
    exists c, root'. split; [reflexivity|]. split; [rewrite Ek; discriminate|]. split; [exact Hwf'|].
    split.
    { intros q k' Hk'. rewrite (Hup q k' Hk'). destruct (path_eqb q p) eqn:E; cbn [andb]; [|reflexivity].
      apply path_eqb_eq in E; subst. rewrite Hs. destruct (iface_eqb k' k); [reflexivity|].
      unfold ulookup. rewrite Hc. reflexivity. }
    rewrite Hrm. cbn [fst].
    destruct (destroyable c') eqn:Ee.
    2:{ split; reflexivity. }
    destruct p as [|x p0]; [split; reflexivity|].
    destruct (rev (x :: p0)) as [|last rparent] eqn:Erev.
    { apply (f_equal (@length _)) in Erev. rewrite rev_length in Erev. discriminate. }
    assert (Hp : x :: p0 = rev rparent ++ [last]).
    { rewrite <- (rev_involutive (x :: p0)), Erev. reflexivity. }
    destruct (with_node root' (rev rparent) false [] None (drop_fun last)) as [[root'' u]|] eqn:Hd.
    + split; [reflexivity|]. exists root''.
      split; [apply (with_node_wf _ (drop_fun_wf last) _ _ _ _ _ _ _ Hwf' Hd)|]. split; [reflexivity|].
      intros q k' Hk'. rewrite Hp. eapply drop_spec; eassumption.
    + exfalso. apply with_node_none in Hd. rewrite Hp, get_child_app, Hd in Hget. discriminate.
  - inversion Hs; subst c' b. cbn [negb].
    exists root'. split; [exact Hwf'|]. split; [reflexivity|]. split; [reflexivity|].
    intros q k' Hk'. rewrite (Hup q k' Hk'). destruct (path_eqb q p) eqn:E; [|reflexivity].
    apply path_eqb_eq in E; subst. unfold ulookup. rewrite Hc. reflexivity.
Qed.

(* ================= C. the invariant ================= *)
Definition J (t : node) (vs : views) : Prop :=
  wf_at [] t /\
  (forall m, answers t m = true -> forall o k, triple (view_of vs m) o k = L t m o k) /\
  (forall m, answers t m = false -> vs_get vs m = None).

Lemma J_init : J root0 [].
Proof.
  split; [apply wf_new|]. split; [|reflexivity].
  intros m Hm. rewrite answers_spec in Hm. unfold ulookup in Hm.
  destruct m as [|i m]; cbn in Hm; discriminate.
Qed.

(* closing a step: the end-of-step filter takes care of the paths where nobody answers *)
Lemma J_step t1 vs sigs :
  wf_at [] t1 ->
  (forall m, answers t1 m = true -> forall o k, triple (view_of (apply_signals vs sigs) m) o k = L t1 m o k) ->
  J t1 (observe_step vs sigs (answers t1)).
Proof.
  intros Hwf H. split; [exact Hwf|]. unfold observe_step. split.
  - intros m Hm o k. unfold view_of. rewrite vs_get_filter, Hm. apply (H m Hm).
  - intros m Hm. rewrite vs_get_filter, Hm. reflexivity.
Qed.

Lemma is_std_std3 k : is_std k = false -> std3 k = false.
Proof. destruct k; cbn; intros H; try reflexivity; discriminate. Qed.

Lemma U_congr t1 t o k : (is_std k = false -> ulookup t1 o k = ulookup t o k) -> U t1 o k = U t o k.
Proof. unfold U. destruct (is_std k); [reflexivity|]. intros H. rewrite H; reflexivity. Qed.

Lemma answers_congr t1 t m : ulookup t1 m OM = ulookup t m OM -> answers t1 m = answers t m.
Proof. rewrite !answers_spec. intros ->. reflexivity. Qed.

Lemma answers_ulookup t m : answers t m = true -> ulookup t m OM <> None.
Proof. rewrite answers_spec. destruct (ulookup t m OM); [discriminate | discriminate]. Qed.

(* a step that changes no lookup and emits nothing *)
Lemma noop_J t t1 vs :
  wf_at [] t1 -> (forall q k', std3 k' = false -> ulookup t1 q k' = ulookup t q k') ->
  J t vs -> J t1 (observe_step vs [] (answers t1)).
Proof.
  intros Hwf1 Hsame [Hwf [J2 J3]]. apply J_step; [exact Hwf1|].
  intros m Hm o k. cbn [apply_signals fold_left].
  rewrite (answers_congr t1 t m (Hsame m OM eq_refl)) in Hm. rewrite (J2 m Hm).
  unfold L. destruct (strict_prefix m o); [|reflexivity].
  symmetry. apply U_congr. intros Hk. apply Hsame. apply is_std_std3; exact Hk.
Qed.

(* the signal (if any) goes to the view of the manager get_child_mut reported *)
Lemma single_view vs (mgr : option path) (mk : path -> signal) m :
  (forall m0, sig_mgr (mk m0) = m0) ->
  view_of (apply_signals vs (match mgr with Some m0 => [mk m0] | None => [] end)) m =
  match mgr with
  | Some m0 => if path_eqb m m0 then apply_view (view_of vs m0) (mk m0) else view_of vs m
  | None => view_of vs m
  end.
Proof.
  intros Hmk. destruct mgr as [m0|]; [|reflexivity].
  cbn [apply_signals fold_left]. rewrite view_of_apply, Hmk. reflexivity.
Qed.

Lemma strict_prefix_eqb_false m o : strict_prefix m o = true -> path_eqb m o = false.
Proof.
  intros H. apply path_eqb_false. intros ->. rewrite strict_prefix_irrefl in H. discriminate.
Qed.

(* ================= D. one step preserves the invariant ================= *)
(* registering a user interface where it was absent, at most one manager above *)
Lemma step_at_user t vs p k id root' :
  J t vs -> is_std k = false -> mgrs_above t p <= 1 -> wf_at [] root' ->
  (forall q k', std3 k' = false ->
     ulookup root' q k' = if path_eqb q p && iface_eqb k' k then Some id else ulookup t q k') ->
  J root' (observe_step vs (match mgr_of t p None with Some m0 => [SAdded m0 p [(k, props_of k id)]] | None => [] end)
                        (answers root')).
Proof.
  intros [Hwf [J2 J3]] Hk Hmg Hwf' Hup. apply J_step; [exact Hwf'|].
  intros m Hm o k'.
  assert (Hans : answers t m = true).
  { rewrite <- Hm. symmetry. apply answers_congr. rewrite Hup by reflexivity.
    replace (iface_eqb OM k) with false by (destruct k; try reflexivity; discriminate).
    rewrite andb_false_r. reflexivity. }
  assert (HU : forall o k', U root' o k' = if path_eqb o p && iface_eqb k' k then Some (props_of k id) else U t o k').
  { intros o0 k0. unfold U. destruct (is_std k0) eqn:Es.
    - replace (iface_eqb k0 k) with false; [rewrite andb_false_r; reflexivity|].
      symmetry. apply iface_eqb_false. intros ->. congruence.
    - rewrite (Hup o0 k0 (is_std_std3 _ Es)).
      destruct (path_eqb o0 p && iface_eqb k0 k) eqn:E; [|reflexivity].
      apply andb_true_iff in E as [_ E]. apply iface_eqb_eq in E; subst. reflexivity. }
  rewrite (single_view vs (mgr_of t p None) (fun m0 => SAdded m0 p [(k, props_of k id)]) m (fun _ => eq_refl)).
  unfold L. rewrite HU.
  (* a manager strictly above p is the one that was signalled *)
  assert (Habove : strict_prefix m p = true -> mgr_of t p None = Some m).
  { intros Hs. apply M2; [exact Hwf | exact Hs | apply answers_ulookup; exact Hans | exact Hmg]. }
  destruct (mgr_of t p None) as [m0|] eqn:Emg.
  - destruct (path_eqb m m0) eqn:Emm.
    + apply path_eqb_eq in Emm; subst m0. destruct (M1 _ _ _ Hwf Emg) as [Hs _].
      rewrite triple_added. destruct (path_eqb o p) eqn:Eop.
      * apply path_eqb_eq in Eop; subst o. rewrite Hs. cbn [if_get andb].
        destruct (iface_eqb k' k); [reflexivity|].
        rewrite (J2 m Hans). unfold L. rewrite Hs. reflexivity.
      * cbn [andb]. rewrite (J2 m Hans). reflexivity.
    + rewrite (J2 m Hans). unfold L.
      destruct (strict_prefix m o) eqn:Es; [|reflexivity].
      destruct (path_eqb o p && iface_eqb k' k) eqn:E; [|reflexivity].
      apply andb_true_iff in E as [E _]. apply path_eqb_eq in E; subst o.
      specialize (Habove Es). inversion Habove; subst. rewrite path_eqb_refl in Emm. discriminate.
  - rewrite (J2 m Hans). unfold L.
    destruct (strict_prefix m o) eqn:Es; [|reflexivity].
    destruct (path_eqb o p && iface_eqb k' k) eqn:E; [|reflexivity].
    apply andb_true_iff in E as [E _]. apply path_eqb_eq in E; subst o.
    specialize (Habove Es). discriminate.
Qed.

(* registering an ObjectManager where there was none *)
Lemma step_at_om t vs p id root' n' :
  J t vs -> ulookup t p OM = None -> wf_at [] root' -> get_child root' p = Some n' ->
  (forall q k', std3 k' = false ->
     ulookup root' q k' = if path_eqb q p && iface_eqb k' OM then Some id else ulookup t q k') ->
  J root' (observe_step vs (burst p (get_managed_objects n')) (answers root')).
Proof.
  intros [Hwf [J2 J3]] Hnone Hwf' Hget Hup. apply J_step; [exact Hwf'|].
  intros m Hm o k'.
  assert (HU : forall o k', U root' o k' = U t o k').
  { intros o0 k0. apply U_congr. intros Es. rewrite (Hup o0 k0 (is_std_std3 _ Es)).
    replace (iface_eqb k0 OM) with false; [rewrite andb_false_r; reflexivity|].
    symmetry. apply iface_eqb_false. intros ->. discriminate. }
  destruct (path_eqb m p) eqn:Emp.
  - apply path_eqb_eq in Emp; subst m.
    assert (Hlst : listing root' p = Some (get_managed_objects n')).
    { unfold listing, call_gmo. rewrite Hget.
      pose proof (Hup p OM eq_refl) as H. rewrite path_eqb_refl in H. cbn in H.
      unfold ulookup in H. rewrite Hget in H. rewrite H. reflexivity. }
    pose proof (wf_get_child p [] root' n' Hwf' Hget) as Hwn. cbn in Hwn.
    rewrite (burst_same p _ (gmo_nodup p n' Hwn)).
    assert (Hempty : forall o k, triple (view_of vs p) o k = None).
    { intros o0 k0. unfold view_of. rewrite J3; [reflexivity|]. rewrite answers_spec, Hnone. reflexivity. }
    rewrite Hempty. rewrite <- (listing_triple root' p _ Hwf' Hlst). unfold triple.
    destruct (v_get (get_managed_objects n') o) as [ifm|]; [|reflexivity].
    destruct (if_get ifm k'); reflexivity.
  - apply path_eqb_false in Emp. rewrite (burst_other p _ vs m Emp).
    assert (Hans : answers t m = true).
    { rewrite <- Hm. symmetry. apply answers_congr. rewrite Hup by reflexivity.
      destruct (path_eqb m p) eqn:E; [apply path_eqb_eq in E; contradiction | reflexivity]. }
    rewrite (J2 m Hans). unfold L. rewrite HU. reflexivity.
Qed.

(* ---- removals *)
Lemma sp_trans m p o : strict_prefix m p = true -> prefix p o = true -> strict_prefix m o = true.
Proof.
  intros H1 H2. apply strict_prefix_app in H1 as [r [Hr ->]]. apply prefix_app in H2 as [r2 ->].
  rewrite <- app_assoc. apply strict_prefix_app_true. destruct r; [contradiction | discriminate].
Qed.

Lemma comparable : forall o m p, strict_prefix m o = true -> prefix p o = true ->
  prefix p m = true \/ strict_prefix m p = true.
Proof.
  induction o as [|z o IH]; intros m p Hm Hp.
  - destruct m; discriminate.
  - destruct p as [|x p]; [left; reflexivity|].
    destruct m as [|y m]; [right; reflexivity|].
    cbn in Hm, Hp. apply andb_true_iff in Hm as [Hyz Hm]. apply andb_true_iff in Hp as [Hxz Hp].
    apply lbeq_eq in Hyz, Hxz. subst y x. cbn. rewrite lbeq_refl. cbn. apply IH; assumption.
Qed.

Lemma prefix_eqb p o : path_eqb o p = true -> prefix p o = true.
Proof. intros H. apply path_eqb_eq in H; subst. apply prefix_refl. Qed.

(* a removal that keeps the node (not emptied, or with children, or the root) *)
Lemma step_rm_keep t vs p k root' :
  J t vs -> (k = OM \/ (is_std k = false /\ mgrs_above t p <= 1)) -> wf_at [] root' ->
  (forall q k', std3 k' = false ->
     ulookup root' q k' = if path_eqb q p && iface_eqb k' k then None else ulookup t q k') ->
  J root' (observe_step vs (match mgr_of t p None with Some m0 => [SRemoved m0 p [k]] | None => [] end)
                        (answers root')).
Proof.
  intros [Hwf [J2 J3]] Hcond Hwf' Hup. apply J_step; [exact Hwf'|].
  intros m Hm o k'.
  assert (Hans : answers t m = true).
  { rewrite answers_spec in Hm. rewrite Hup in Hm by reflexivity.
    destruct (path_eqb m p && iface_eqb OM k); [discriminate|]. rewrite answers_spec. exact Hm. }
  assert (HU : forall o k', U root' o k' = if path_eqb o p && iface_eqb k' k then None else U t o k').
  { intros o0 k0. unfold U. destruct (is_std k0) eqn:Es; [destruct (path_eqb o0 p && iface_eqb k0 k); reflexivity|].
    rewrite (Hup o0 k0 (is_std_std3 _ Es)). destruct (path_eqb o0 p && iface_eqb k0 k); reflexivity. }
  rewrite (single_view vs (mgr_of t p None) (fun m0 => SRemoved m0 p [k]) m (fun _ => eq_refl)).
  unfold L. rewrite HU.
  (* for a manager that was not signalled, nothing it lists has changed *)
  assert (Hother : mgr_of t p None <> Some m ->
            (if strict_prefix m o then U t o k' else None) =
            (if strict_prefix m o then if path_eqb o p && iface_eqb k' k then None else U t o k' else None)).
  { intros Hne. destruct (strict_prefix m o) eqn:Es; [|reflexivity].
    destruct (path_eqb o p && iface_eqb k' k) eqn:E; [|reflexivity].
    apply andb_true_iff in E as [E1 E2]. apply path_eqb_eq in E1. apply iface_eqb_eq in E2. subst o k'.
    destruct Hcond as [-> | [Hk Hmg]]; [reflexivity|].
    exfalso. apply Hne. apply M2; [exact Hwf | exact Es | apply answers_ulookup; exact Hans | exact Hmg]. }
  destruct (mgr_of t p None) as [m0|] eqn:Emg.
  - destruct (path_eqb m m0) eqn:Emm.
    + apply path_eqb_eq in Emm; subst m0.
      rewrite triple_removed. cbn [existsb]. rewrite orb_false_r. rewrite (J2 m Hans). unfold L.
      destruct (path_eqb o p && iface_eqb k' k); [destruct (strict_prefix m o); reflexivity | reflexivity].
    + rewrite (J2 m Hans). unfold L. apply Hother. intros H; inversion H; subst. rewrite path_eqb_refl in Emm. discriminate.
  - rewrite (J2 m Hans). unfold L. apply Hother. discriminate.
Qed.

(* a removal that deletes the node and its subtree *)
Lemma step_rm_delete t vs p k c root' root'' :
  J t vs -> get_child t p = Some c -> find_iface k (ifaces c) <> None ->
  destroyable (fst (remove_interface k c)) = true ->
  (k = OM \/ (is_std k = false /\ mgrs_above t p <= 1)) ->
  wf_at [] root'' ->
  (forall q k', std3 k' = false ->
     ulookup root' q k' = if path_eqb q p && iface_eqb k' k then None else ulookup t q k') ->
  (forall q k', std3 k' = false -> ulookup root'' q k' = if prefix p q then None else ulookup root' q k') ->
  J root'' (observe_step vs (match mgr_of t p None with Some m0 => [SRemoved m0 p [k]] | None => [] end)
                         (answers root'')).
Proof.
  intros [Hwf [J2 J3]] Hc Hpres Hdestroy Hcond Hwf'' Hup1 Hup2. apply J_step; [exact Hwf''|].
  unfold destroyable in Hdestroy. apply andb_true_iff in Hdestroy as [Hempty Hleaf]. apply negb_true_iff in Hleaf.
  intros m Hm o k'.
  assert (Hup : forall q k', std3 k' = false -> ulookup root'' q k' = if prefix p q then None else ulookup t q k').
  { intros q k0 Hk0. rewrite (Hup2 q k0 Hk0). destruct (prefix p q) eqn:E; [reflexivity|].
    rewrite (Hup1 q k0 Hk0). destruct (path_eqb q p) eqn:E2; [rewrite (prefix_eqb _ _ E2) in E; discriminate | reflexivity]. }
  assert (Hpm : prefix p m = false /\ answers t m = true).
  { rewrite answers_spec in Hm. rewrite Hup in Hm by reflexivity.
    destruct (prefix p m); [discriminate|]. split; [reflexivity | rewrite answers_spec; exact Hm]. }
  destruct Hpm as [Hpm Hans].
  assert (HU : forall o k', U root'' o k' = if prefix p o then None else U t o k').
  { intros o0 k0. unfold U. destruct (is_std k0) eqn:Es; [destruct (prefix p o0); reflexivity|].
    rewrite (Hup o0 k0 (is_std_std3 _ Es)). destruct (prefix p o0); reflexivity. }
  (* at p itself only k was registered (among the non-standard names) *)
  assert (HF2 : forall k0, k0 <> k -> U t p k0 = None).
  { intros k0 Hne. unfold U. destruct (is_std k0) eqn:Es; [reflexivity|].
    rewrite is_empty_spec in Hempty. specialize (Hempty k0 (is_std_std3 _ Es)).
    pose proof (remove_iface_spec k c) as Hs. destruct (find_iface k (ifaces c)); [|contradiction].
    destruct Hs as [_ Hs]. rewrite Hs in Hempty.
    destruct (iface_eqb k0 k) eqn:E; [apply iface_eqb_eq in E; contradiction|].
    unfold ulookup. rewrite Hc, Hempty. reflexivity. }
  rewrite (single_view vs (mgr_of t p None) (fun m0 => SRemoved m0 p [k]) m (fun _ => eq_refl)).
  unfold L. rewrite HU.
  destruct (strict_prefix m p) eqn:Esp.
  - (* a manager above the deleted node: the node was a leaf *)
    assert (HF1 : forall r k0, r <> [] -> U t (p ++ r) k0 = None).
    { intros r k0 Hr. unfold U, ulookup. rewrite get_child_app, Hc.
      rewrite (get_child_same_children c (fst (remove_interface k c)) r (eq_sym (remove_iface_children k c)) Hr).
      rewrite (has_children_false_leaf _ r Hleaf Hr). destruct (is_std k0); reflexivity. }
    (* under p, the only triple that existed is (p, k), and only if k is a user interface *)
    assert (Hunder : forall k0, prefix p o = true -> (path_eqb o p && iface_eqb k0 k = false) -> U t o k0 = None).
    { intros k0 Hpo Hne. apply prefix_app in Hpo as [r ->]. destruct r as [|x r].
      - rewrite app_nil_r in *. rewrite path_eqb_refl in Hne. cbn in Hne. apply HF2. apply iface_eqb_false. exact Hne.
      - apply HF1. discriminate. }
    destruct Hcond as [-> | [Hk Hmg]].
    + (* the manager interface itself was removed: no triple changes *)
      assert (Hnone : prefix p o = true -> U t o k' = None).
      { intros Hpo. destruct (path_eqb o p && iface_eqb k' OM) eqn:E; [|apply Hunder; assumption].
        apply andb_true_iff in E as [_ E]. apply iface_eqb_eq in E; subst. reflexivity. }
      assert (Hgoal : triple (view_of vs m) o k' =
                      (if strict_prefix m o then if prefix p o then None else U t o k' else None)).
      { rewrite (J2 m Hans). unfold L. destruct (strict_prefix m o); [|reflexivity].
        destruct (prefix p o) eqn:Epo; [apply Hnone; reflexivity | reflexivity]. }
      destruct (mgr_of t p None) as [m0|]; [|exact Hgoal].
      destruct (path_eqb m m0) eqn:Emm; [|exact Hgoal].
      apply path_eqb_eq in Emm; subst m0. rewrite triple_removed. cbn [existsb]. rewrite orb_false_r.
      destruct (path_eqb o p && iface_eqb k' OM) eqn:E; [|exact Hgoal].
      apply andb_true_iff in E as [E _]. rewrite (sp_trans m p o Esp (prefix_eqb _ _ E)), (prefix_eqb _ _ E). reflexivity.
    + rewrite (M2 t p m Hwf Esp (answers_ulookup _ _ Hans) Hmg). rewrite path_eqb_refl.
      rewrite triple_removed. cbn [existsb]. rewrite orb_false_r.
      destruct (path_eqb o p && iface_eqb k' k) eqn:E.
      * apply andb_true_iff in E as [E _]. rewrite (sp_trans m p o Esp (prefix_eqb _ _ E)), (prefix_eqb _ _ E). reflexivity.
      * rewrite (J2 m Hans). unfold L. destruct (strict_prefix m o); [|reflexivity].
        destruct (prefix p o) eqn:Epo; [apply Hunder; [reflexivity | exact E] | reflexivity].
  - (* a manager elsewhere: it lists nothing under p, and it was not signalled *)
    assert (Hgoal : triple (view_of vs m) o k' =
                    (if strict_prefix m o then if prefix p o then None else U t o k' else None)).
    { rewrite (J2 m Hans). unfold L. destruct (strict_prefix m o) eqn:Es; [|reflexivity].
      destruct (prefix p o) eqn:Epo; [|reflexivity].
      destruct (comparable o m p Es Epo) as [H | H]; congruence. }
    destruct (mgr_of t p None) as [m0|] eqn:Emg; [|exact Hgoal].
    destruct (path_eqb m m0) eqn:Emm; [|exact Hgoal].
    apply path_eqb_eq in Emm; subst m0. destruct (M1 _ _ _ Hwf Emg) as [Hs _]. congruence.
Qed.

(* ================= E. histories ================= *)
Lemma leb_false_le a b : Nat.leb a b = false -> b < a.
Proof. intros H. apply Nat.leb_gt. exact H. Qed.

Lemma sys_step_J t vs o :
  J t vs -> flag25 t o = None -> J (fst (sys_step t vs o)) (snd (sys_step t vs o)).
Proof.
  intros HJ Hflag. pose proof HJ as [Hwf _]. unfold sys_step.
  destruct o as [p kk id | p kk]; cbn [mstep flag25] in *.
  - (* at *)
    destruct (at_full t p (ik kk) id Hwf (ik_not_std3 kk)) as [root' [Hwf' Hcase]].
    pose proof (lookup_ulookup t p (ik kk)) as Hlu.
    destruct (ulookup t p (ik kk)) eqn:Eu.
    + destruct Hcase as [Hat Hsame]. rewrite Hat. cbn [fst snd]. apply (noop_J t root' vs Hwf' Hsame HJ).
    + destruct Hcase as [Hup [n' [Hget Hat]]]. rewrite Hat. cbn [fst snd].
      destruct (lookup t p (ik kk)) eqn:El; [cbn in Hlu; discriminate| |].
      * destruct kk; cbn [ik iface_eqb not_km andb] in *;
          try (match goal with |- context [SAdded _ _ [(?K, _)]] =>
                 apply (step_at_user t vs p K id root' HJ eq_refl); [|exact Hwf' | exact Hup];
                 destruct (Nat.leb 2 (mgrs_above t p)) eqn:E; [discriminate | apply leb_false_le in E; lia]
               end).
        apply (step_at_om t vs p id root' n' HJ Eu Hwf' Hget Hup).
      * destruct kk; cbn [ik iface_eqb not_km andb] in *;
          try (match goal with |- context [SAdded _ _ [(?K, _)]] =>
                 apply (step_at_user t vs p K id root' HJ eq_refl); [|exact Hwf' | exact Hup];
                 destruct (Nat.leb 2 (mgrs_above t p)) eqn:E; [discriminate | apply leb_false_le in E; lia]
               end).
        apply (step_at_om t vs p id root' n' HJ Eu Hwf' Hget Hup).
  - (* remove *)
    pose proof (remove_full t p (ik kk) Hwf (ik_not_std3 kk)) as Hrm.
    pose proof (lookup_ulookup t p (ik kk)) as Hlu.
    destruct (ulookup t p (ik kk)) eqn:Eu.
    2:{ destruct Hrm as [root' [Hwf' [Hfst [Hsnd Hsame]]]].
        destruct (remove t p (ik kk)) as [[t1 x] sg]. cbn [fst snd] in *. inversion Hfst; subst.
        apply (noop_J t root' vs Hwf' Hsame HJ). }
    destruct Hrm as [c [root' [Hc [Hpres [Hwf' [Hup [Hsig Hrest]]]]]]].
    destruct (lookup t p (ik kk)) eqn:El; cbn in Hlu; try discriminate.
    assert (Hcond : ik kk = OM \/ (is_std (ik kk) = false /\ mgrs_above t p <= 1)).
    { destruct kk; cbn [ik not_km andb is_std] in *; try (left; reflexivity);
        (right; split; [reflexivity|]; destruct (Nat.leb 2 (mgrs_above t p)) eqn:E; [discriminate | apply leb_false_le in E; lia]). }
    destruct (destroyable (fst (remove_interface (ik kk) c))) eqn:Ee.
    + destruct p as [|x p0].
      * destruct (remove t [] (ik kk)) as [[t1 r] sg]. cbn [fst snd] in *. inversion Hrest; subst.
        apply (step_rm_keep t vs [] (ik kk) root' HJ Hcond Hwf' Hup).
      * destruct Hrest as [root'' [Hwf'' [Hfst Hup2]]].
        destruct (remove t (x :: p0) (ik kk)) as [[t1 r] sg]. cbn [fst snd] in *. inversion Hfst; subst.
        apply (step_rm_delete t vs (x :: p0) (ik kk) c root' root'' HJ Hc Hpres Ee Hcond Hwf'' Hup Hup2).
    + destruct (remove t p (ik kk)) as [[t1 r] sg]. cbn [fst snd] in *. inversion Hrest; subst.
      apply (step_rm_keep t vs p (ik kk) root' HJ Hcond Hwf' Hup).
Qed.

Lemma sys_step_tree t vs o : fst (sys_step t vs o) = fst (fst (mstep t o)).
Proof. unfold sys_step. destruct (mstep t o) as [[t1 x] sg]. reflexivity. Qed.

Lemma sys_run_J : forall h t vs, J t vs -> first_flag25 t h = None ->
  J (fst (sys_run t vs h)) (snd (sys_run t vs h)).
Proof.
  induction h as [|o h IH]; intros t vs HJ Hf; cbn [sys_run]; [exact HJ|].
  cbn [first_flag25] in Hf. destruct (flag25 t o) eqn:Ef; [discriminate|].
  pose proof (sys_step_J t vs o HJ Ef) as HJ1. rewrite <- sys_step_tree with (vs := vs) in Hf.
  destruct (sys_step t vs o) as [t1 vs1]. cbn [fst snd] in *. apply IH; assumption.
Qed.

Lemma first_flag25_app : forall pre post t, first_flag25 t (pre ++ post) = None -> first_flag25 t pre = None.
Proof.
  induction pre as [|o pre IH]; intros post t H; cbn in *; [reflexivity|].
  destruct (flag25 t o); [discriminate|]. eapply IH; exact H.
Qed.

Lemma J_in_sync t vs : J t vs -> in_sync (t, vs).
Proof.
  intros [Hwf [J2 _]] m lst Hl o k. cbn [fst snd] in *.
  rewrite (listing_triple t m lst Hwf Hl). apply J2. unfold answers. rewrite Hl. reflexivity.
Qed.

Definition C25_full_statement : Prop := forall h pre post, h = pre ++ post -> in_sync (after pre).

Theorem sync_partial : forall h, ~ Known_C25 h -> forall pre post, h = pre ++ post -> in_sync (after pre).
Proof.
  intros h Hk pre post ->.
  assert (Hf : first_flag25 root0 pre = None).
  { apply (first_flag25_app pre post). unfold Known_C25 in Hk.
    destruct (first_flag25 root0 (pre ++ post)); [exfalso; apply Hk; discriminate | reflexivity]. }
  pose proof (sys_run_J pre root0 [] J_init Hf) as HJ. unfold after.
  destruct (sys_run root0 [] pre) as [t vs]. apply J_in_sync. exact HJ.
Qed.

(* ---- the two refutations *)
Definition sa : seg := B "a".
Definition sb : seg := B "b".
Definition h_nested : list op := [At [] KM 1; At [sa] KM 2; At [sa; sb] K1 3].
Definition h_silent : list op := [At [] KM 1; At [sa] K1 2; At [sa; sb] K2 3; Rm [sa] K1].

(* the outer manager lists /a/b with I1 (Val = 3), its client never heard of it *)
Lemma nested_refuted :
  (exists lst, listing (fst (after h_nested)) [] = Some lst /\
     triple lst [sa; sb] I1 = Some [(B "Val", 3%N)] /\
     triple (view_of (snd (after h_nested)) []) [sa; sb] I1 = None) /\
  first_flag25 root0 h_nested = Some NestedManagers.
Proof. split; [eexists; split; [vm_compute; reflexivity | split; vm_compute; reflexivity] | vm_compute; reflexivity]. Qed.

(* repaired by f5fe3276: the node /a keeps its child, nothing disappears silently; the history is
   outside the known class and the client of / agrees with the listing on /a/b *)
Lemma silent_repaired :
  first_flag25 root0 h_silent = None /\
  exists lst, listing (fst (after h_silent)) [] = Some lst /\
     triple lst [sa; sb] I2 = Some [] /\
     triple (view_of (snd (after h_silent)) []) [sa; sb] I2 = Some [].
Proof. split; [vm_compute; reflexivity|]. eexists; split; [vm_compute; reflexivity | split; vm_compute; reflexivity]. Qed.

Lemma full_statement_false : ~ C25_full_statement.
Proof.
  intros H. specialize (H h_nested h_nested [] (eq_sym (app_nil_r _))).
  destruct nested_refuted as [[lst [Hl [H1 H2]]] _].
  specialize (H [] lst Hl [sa; sb] I1). rewrite H1, H2 in H. discriminate.
Qed.

(* non-vacuity: one manager at /, objects below it at two levels, a property-carrying interface
   re-registered with a new value, a leaf removed (node deleted), the manager removed and registered
   again over a populated tree; the final listing is not empty *)
Definition h_sync : list op :=
  [At [] KM 1; At [sa] K1 2; At [sa; sb] K2 3; At [sa; sb] K1 4; Rm [sa; sb] K1; At [sa; sb] K1 6;
   Rm [sa; sb] K2; Rm [] KM; At [sa] K3 9; At [] KM 10; Rm [sa] K3; At [B "x"] K1 12].

Lemma h_sync_ok : ~ Known_C25 h_sync /\
  exists lst, listing (fst (after h_sync)) [] = Some lst /\
    triple lst [sa; sb] I1 = Some [(B "Val", 6%N)] /\ triple lst [sa] I1 = Some [(B "Val", 2%N)] /\
    triple lst [B "x"] I1 = Some [(B "Val", 12%N)].
Proof.
  split; [intros H; apply H; vm_compute; reflexivity|].
  eexists. split; [vm_compute; reflexivity|]. repeat split; vm_compute; reflexivity.
Qed.
