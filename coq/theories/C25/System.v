(* C25/System.v — the model of the server (C24/Model.v, C25/Model.v) and the client of the
   specification (C25/Spec.v) put together: after every operation the client applies the signals the
   server emitted, then asks each manager for its listing (sessions at paths where no manager answers
   are dropped). *)
From ZV Require Import Base.Bytes Base.Res C24.Ops C24.Model C25.Model C25.Spec.

Definition answers (t : node) (m : path) : bool := is_some (listing t m).

Definition sys_step (t : node) (vs : views) (o : op) : node * views :=
  let '(t1, _, sigs) := mstep t o in (t1, observe_step vs sigs (answers t1)).

Fixpoint sys_run (t : node) (vs : views) (h : list op) : node * views :=
  match h with
  | [] => (t, vs)
  | o :: r => let '(t1, vs1) := sys_step t vs o in sys_run t1 vs1 r
  end.

(* server tree and client views after a history, from a fresh server and a client that knows nothing *)
Definition after (h : list op) : node * views := sys_run root0 [] h.

(* the property at one point of a history: whatever manager answers, the client's view of it and its
   listing hold the same (object, interface, properties) triples *)
Definition in_sync (tv : node * views) : Prop :=
  forall m lst, listing (fst tv) m = Some lst -> same_objects (view_of (snd tv) m) lst.

Definition Known_C25 (h : list op) : Prop := first_flag25 root0 h <> None.
