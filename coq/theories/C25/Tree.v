(* C25/Tree.v — well-formedness of the node tree (stored paths are positions, child names are
   distinct), its preservation by get_child_mut + mutation, and what get_managed_objects lists. *)
From ZV Require Import Base.Bytes Base.Res Base.WinnowFacts C24.Ops C24.Model C24.Facts C25.Spec.

(* ---- induction over the nested tree *)
Section NodeInd.
  Variable P : node -> Prop.
  Hypothesis H : forall p ch ifs, Forall (fun e => P (snd e)) ch -> P (Node p ch ifs).
  Fixpoint node_ind' (n : node) : P n :=
    match n with
    | Node p ch ifs =>
        H p ch ifs
          ((fix go (l : list (seg * node)) : Forall (fun e => P (snd e)) l :=
              match l with
              | [] => Forall_nil _
              | e :: r => Forall_cons e (node_ind' (snd e)) (go r)
              end) ch)
    end.
End NodeInd.

(* ---- well-formed at position pos *)
Fixpoint wf_at (pos : path) (n : node) : Prop :=
  match n with
  | Node p ch ifs =>
      p = pos /\ NoDup (map fst ch) /\
      (fix go (l : list (seg * node)) : Prop :=
         match l with [] => True | e :: r => wf_at (pos ++ [fst e]) (snd e) /\ go r end) ch
  end.

Lemma wf_at_unfold pos p ch ifs :
  wf_at pos (Node p ch ifs) <->
  p = pos /\ NoDup (map fst ch) /\ Forall (fun e => wf_at (pos ++ [fst e]) (snd e)) ch.
Proof.
  cbn. split; intros [H1 [H2 H3]]; (split; [exact H1|]; split; [exact H2|]).
  - induction ch as [|e r IH]; [constructor|]. destruct H3 as [Ha Hb]. inversion H2; subst.
    constructor; [exact Ha | apply IH; assumption].
  - induction ch as [|e r IH]; [exact I|]. inversion H3; subst. inversion H2; subst.
    split; [assumption | apply IH; assumption].
Qed.

Lemma wf_npath pos n : wf_at pos n -> npath n = pos.
Proof. destruct n as [p ch ifs]. rewrite wf_at_unfold. intros [H _]. exact H. Qed.

Lemma wf_new pos : wf_at pos (new_node pos).
Proof. unfold new_node. rewrite wf_at_unfold. split; [reflexivity|]. split; constructor. Qed.

Lemma find_child_in i l c : find_child i l = Some c -> In (i, c) l.
Proof.
  induction l as [|[j c'] l IH]; cbn; [discriminate|].
  destruct (lbeq i j) eqn:E.
  - apply lbeq_eq in E; subst. intros H; inversion H; subst. left; reflexivity.
  - intros H; right; apply IH; exact H.
Qed.

Lemma wf_child pos n i c : wf_at pos n -> find_child i (children n) = Some c -> wf_at (pos ++ [i]) c.
Proof.
  destruct n as [p ch ifs]. rewrite wf_at_unfold. intros [_ [_ HF]] Hc. cbn in Hc.
  apply find_child_in in Hc. rewrite Forall_forall in HF. apply (HF (i, c) Hc).
Qed.

Lemma wf_get_child : forall m pos n c, wf_at pos n -> get_child n m = Some c -> wf_at (pos ++ m) c.
Proof.
  induction m as [|i m IH]; intros pos n c Hwf Hg; cbn in Hg.
  - inversion Hg; subst. rewrite app_nil_r. exact Hwf.
  - destruct (find_child i (children n)) as [c0|] eqn:Hc; [|discriminate].
    replace (pos ++ i :: m) with ((pos ++ [i]) ++ m) by (rewrite <- app_assoc; reflexivity).
    eapply IH; [eapply wf_child; eassumption | exact Hg].
Qed.

Lemma in_del_child i e l : In e (del_child i l) -> In e l /\ fst e <> i.
Proof.
  unfold del_child. rewrite filter_In. intros [H1 H2]. split; [exact H1|].
  apply negb_true_iff in H2. apply lbeq_false in H2. intros Heq. apply H2. symmetry. exact Heq.
Qed.

Lemma nodup_del_child i l : NoDup (map fst l) -> NoDup (map fst (del_child i l)).
Proof.
  induction l as [|[j c] l IH]; cbn; intros H; [constructor|]. inversion H; subst.
  destruct (lbeq i j); cbn; [apply IH; assumption|].
  constructor; [|apply IH; assumption].
  intros Hin. apply H2. apply in_map_iff in Hin as [e [He Hin]]. apply in_del_child in Hin as [Hin _].
  apply in_map_iff. exists e. split; assumption.
Qed.

Lemma wf_put_child pos n i c : wf_at pos n -> wf_at (pos ++ [i]) c -> wf_at pos (put_child i c n).
Proof.
  destruct n as [p ch ifs]. cbn [put_child]. rewrite !wf_at_unfold. intros [H1 [H2 H3]] Hc.
  split; [exact H1|]. split.
  - cbn. constructor; [|apply nodup_del_child; exact H2].
    intros Hin. apply in_map_iff in Hin as [e [He Hin]]. apply in_del_child in Hin as [_ Hne]. congruence.
  - constructor; [exact Hc|]. rewrite Forall_forall in *. intros e He. apply in_del_child in He as [He _]. apply H3; exact He.
Qed.

(* get_child_mut + a mutation that keeps the node well-formed keeps the tree well-formed; the
   `node_path` string is the position *)
Lemma with_node_wf {R} (f : node -> option path -> node * R)
  (Hf : forall c m pos, wf_at pos c -> wf_at pos (fst (f c m))) :
  forall p n create pos mgr n' r,
    wf_at pos n -> with_node n p create pos mgr f = Some (n', r) -> wf_at pos n'.
Proof.
  induction p as [|i rest IH]; intros n create pos mgr n' r Hwf H; cbn in H.
  - inversion H as [H1]. replace n' with (fst (f n mgr)) by (rewrite H1; reflexivity). apply Hf; exact Hwf.
  - set (mgr' := match find_iface OM (ifaces n) with Some _ => Some (npath n) | None => mgr end) in H.
    destruct (find_child i (children n)) as [c0|] eqn:Hc.
    + destruct (with_node c0 rest create (pos ++ [i]) mgr' f) as [[c' r']|] eqn:Hw; [|discriminate].
      inversion H; subst. apply wf_put_child; [exact Hwf|].
      eapply IH; [|exact Hw]. eapply wf_child; eassumption.
    + destruct create; [|discriminate].
      destruct (with_node (new_node (pos ++ [i])) rest true (pos ++ [i]) mgr' f) as [[c' r']|] eqn:Hw; [|discriminate].
      inversion H; subst. apply wf_put_child; [exact Hwf|].
      eapply IH; [|exact Hw]. apply wf_new.
Qed.

Lemma wf_add_arc k id c pos : wf_at pos c -> wf_at pos (fst (add_arc_interface k id c)).
Proof. destruct c as [p ch ifs]; cbn. destruct (find_iface k ifs); cbn; intros H; exact H. Qed.

Lemma wf_remove_iface k c pos : wf_at pos c -> wf_at pos (fst (remove_interface k c)).
Proof. destruct c as [p ch ifs]; cbn. destruct (find_iface k ifs); cbn; intros H; exact H. Qed.

Lemma wf_remove_node last c pos : wf_at pos c -> wf_at pos (fst (remove_node last c)).
Proof.
  destruct c as [p ch ifs]. unfold remove_node. destruct (find_child last ch); cbn [fst]; [|intros H; exact H].
  intros Hw. rewrite wf_at_unfold in Hw. rewrite wf_at_unfold. destruct Hw as [H1 [H2 H3]].
  split; [exact H1|]. split; [apply nodup_del_child; exact H2|].
  rewrite Forall_forall in *. intros e He. apply in_del_child in He as [He _]. apply H3; exact He.
Qed.

(* ---- what get_managed_objects lists ---- *)
Lemma v_get_app l1 l2 o : v_get (l1 ++ l2) o = match v_get l1 o with Some x => Some x | None => v_get l2 o end.
Proof.
  induction l1 as [|[o' m] l1 IH]; cbn; [reflexivity|]. destruct (path_eqb o o'); [reflexivity | exact IH].
Qed.

Lemma gmo_node_unfold p ch ifs : gmo_node (Node p ch ifs) = (p, user_ifaces ifs) :: gmo_children ch.
Proof.
  reflexivity.
Qed.

Lemma prefix_snoc_false pos i o : prefix pos o = false -> prefix (pos ++ [i]) o = false.
Proof.
  intros H. destruct (prefix (pos ++ [i]) o) eqn:E; [|reflexivity].
  revert o H E. induction pos as [|x pos IH]; intros o H E; cbn in *; [discriminate|].
  destruct o as [|y o]; [discriminate|].
  apply andb_true_iff in E as [E1 E2]. rewrite E1 in H. cbn in H. eapply IH; eassumption.
Qed.

Lemma path_neq_app (pos : path) (j : seg) (r : path) : pos ++ j :: r <> pos.
Proof. intros H. apply (f_equal (@length _)) in H. rewrite app_length in H. cbn in H. lia. Qed.

Lemma prefix_snoc_other pos i j r : i <> j -> prefix (pos ++ [i]) (pos ++ j :: r) = false.
Proof.
  intros Hne. replace (pos ++ j :: r) with (pos ++ [j] ++ r) by reflexivity.
  induction pos as [|x pos IH]; cbn.
  - destruct (lbeq i j) eqn:E; [apply lbeq_eq in E; contradiction | reflexivity].
  - rewrite lbeq_refl. exact IH.
Qed.

(* the entry a subtree lists for an object below it *)
Definition entry_of (c : node) (r : path) : option ifmap :=
  match get_child c r with Some c' => Some (user_ifaces (ifaces c')) | None => None end.

(* what is known of one child (i, c) placed below position pos *)
Definition child_ok (pos : path) (e : seg * node) : Prop :=
  (forall r, v_get (gmo_node (snd e)) ((pos ++ [fst e]) ++ r) = entry_of (snd e) r) /\
  (forall o, prefix (pos ++ [fst e]) o = false -> v_get (gmo_node (snd e)) o = None).

Lemma children_out pos ch o :
  Forall (child_ok pos) ch ->
  (forall e, In e ch -> prefix (pos ++ [fst e]) o = false) -> v_get (gmo_children ch) o = None.
Proof.
  induction ch as [|[i c] rest IH]; intros Hok Ho; [reflexivity|].
  cbn [gmo_children]. rewrite v_get_app. inversion Hok; subst.
  destruct H1 as [_ Hb]. cbn [fst snd] in Hb.
  rewrite (Hb o (Ho (i, c) (or_introl eq_refl))).
  apply IH; [assumption | intros e He; apply Ho; right; exact He].
Qed.

Lemma children_get pos ch :
  NoDup (map fst ch) -> Forall (child_ok pos) ch ->
  forall j r, v_get (gmo_children ch) (pos ++ j :: r) =
              match find_child j ch with Some c => entry_of c r | None => None end.
Proof.
  induction ch as [|[i c] rest IH]; intros Hnd Hok j r; [reflexivity|].
  cbn [gmo_children find_child]. rewrite v_get_app.
  inversion Hok; subst. inversion Hnd; subst. destruct H1 as [Ha Hb]. cbn [fst snd] in *.
  destruct (lbeq j i) eqn:Eji.
  - apply lbeq_eq in Eji; subst j.
    replace (pos ++ i :: r) with ((pos ++ [i]) ++ r) by (rewrite <- app_assoc; reflexivity).
    rewrite Ha. destruct (entry_of c r); [reflexivity|].
    apply (children_out pos); [assumption|].
    intros e He. rewrite <- app_assoc. cbn [app]. apply prefix_snoc_other.
    intros Heq. apply H3. apply in_map_iff. exists e. split; [exact Heq | exact He].
  - apply lbeq_false in Eji. rewrite Hb; [apply IH; assumption|].
    apply prefix_snoc_other. congruence.
Qed.

Lemma gmo_node_get : forall n pos i, wf_at (pos ++ [i]) n -> child_ok pos (i, n).
Proof.
  induction n as [p ch ifs IHch] using node_ind'. intros pos i Hwf.
  rewrite wf_at_unfold in Hwf. destruct Hwf as [-> [Hnd Hall]].
  assert (Hok : Forall (child_ok (pos ++ [i])) ch).
  { rewrite Forall_forall in *. intros [j c] He. apply (IHch (j, c) He). apply (Hall (j, c) He). }
  unfold child_ok; cbn [fst snd]. rewrite gmo_node_unfold. split.
  - intros r. cbn [v_get]. destruct r as [|j r].
    + rewrite app_nil_r, path_eqb_refl. reflexivity.
    + destruct (path_eqb ((pos ++ [i]) ++ j :: r) (pos ++ [i])) eqn:E;
        [apply path_eqb_eq in E; exfalso; exact (path_neq_app _ _ _ E)|].
      rewrite (children_get _ _ Hnd Hok). unfold entry_of. cbn [get_child children].
      destruct (find_child j ch); reflexivity.
  - intros o Ho. cbn [v_get].
    destruct (path_eqb o (pos ++ [i])) eqn:E; [apply path_eqb_eq in E; subst; rewrite prefix_refl in Ho; discriminate|].
    apply (children_out _ _ _ Hok). intros e He. apply prefix_snoc_false. exact Ho.
Qed.

Lemma wf_children_ok pos n : wf_at pos n -> NoDup (map fst (children n)) /\ Forall (child_ok pos) (children n).
Proof.
  destruct n as [p ch ifs]. rewrite wf_at_unfold. intros [_ [Hnd Hall]]. cbn [children]. split; [exact Hnd|].
  rewrite Forall_forall in *. intros [j c] He. apply gmo_node_get. apply (Hall (j, c) He).
Qed.

(* GetManagedObjects answered by the node at position m: objects strictly below m, each with the
   non-standard interfaces of its node; nothing else *)
Lemma gmo_get_below m n j r : wf_at m n ->
  v_get (get_managed_objects n) (m ++ j :: r) = entry_of n (j :: r).
Proof.
  intros Hwf. destruct (wf_children_ok _ _ Hwf) as [Hnd Hok]. unfold get_managed_objects.
  rewrite (children_get _ _ Hnd Hok). unfold entry_of. cbn [get_child]. destruct (find_child j (children n)); reflexivity.
Qed.

Lemma gmo_get_outside m n o : wf_at m n -> strict_prefix m o = false -> v_get (get_managed_objects n) o = None.
Proof.
  intros Hwf Ho. destruct (wf_children_ok _ _ Hwf) as [_ Hok]. unfold get_managed_objects.
  apply (children_out _ _ _ Hok). intros e He.
  destruct (prefix (m ++ [fst e]) o) eqn:E; [|reflexivity].
  apply prefix_app in E as [r ->]. rewrite <- app_assoc in Ho. rewrite strict_prefix_app_true in Ho; [discriminate|]. discriminate.
Qed.

Lemma nodup_app {A} (l1 l2 : list A) :
  NoDup l1 -> NoDup l2 -> (forall a, In a l1 -> In a l2 -> False) -> NoDup (l1 ++ l2).
Proof.
  induction l1 as [|x l1 IH]; intros H1 H2 Hd; cbn; [exact H2|].
  inversion H1; subst. constructor.
  - rewrite in_app_iff. intros [Hx | Hx]; [contradiction|]. apply (Hd x); [left; reflexivity | exact Hx].
  - apply IH; [assumption | assumption|]. intros a Ha1 Ha2. apply (Hd a); [right; exact Ha1 | exact Ha2].
Qed.

(* the object paths of a listing are pairwise distinct *)
Lemma gmo_keys_prefix : forall n pos, wf_at pos n -> forall o, In o (map fst (gmo_node n)) -> prefix pos o = true.
Proof.
  induction n as [p ch ifs IHch] using node_ind'. intros pos Hwf o Ho.
  rewrite wf_at_unfold in Hwf. destruct Hwf as [-> [_ Hall]]. rewrite gmo_node_unfold in Ho. cbn in Ho.
  destruct Ho as [<- | Ho]; [apply prefix_refl|].
  induction ch as [|[i c] rest IH]; [contradiction|].
  cbn [gmo_children] in Ho. rewrite map_app, in_app_iff in Ho.
  inversion IHch; subst. inversion Hall; subst. cbn [fst snd] in *.
  destruct Ho as [Ho | Ho]; [|apply IH; assumption].
  specialize (H1 _ H3 o Ho). apply prefix_app in H1 as [r ->]. rewrite <- app_assoc. apply prefix_app_true.
Qed.

Lemma gmo_children_keys pos ch :
  Forall (fun e => wf_at (pos ++ [fst e]) (snd e)) ch ->
  forall o, In o (map fst (gmo_children ch)) -> exists e r, In e ch /\ o = (pos ++ [fst e]) ++ r.
Proof.
  induction ch as [|[i c] rest IH]; intros Hall o Ho; [destruct Ho|].
  cbn [gmo_children] in Ho. rewrite map_app, in_app_iff in Ho. inversion Hall; subst. cbn [fst snd] in *.
  destruct Ho as [Ho | Ho].
  - pose proof (gmo_keys_prefix c _ H1 o Ho) as Hp. apply prefix_app in Hp as [r ->].
    exists (i, c), r. split; [left; reflexivity | reflexivity].
  - destruct (IH H2 o Ho) as [e [r [He Hr]]]. exists e, r. split; [right; exact He | exact Hr].
Qed.

Lemma gmo_node_nodup : forall n pos, wf_at pos n -> NoDup (map fst (gmo_node n)).
Proof.
  induction n as [p ch ifs IHch] using node_ind'. intros pos Hwf.
  rewrite wf_at_unfold in Hwf. destruct Hwf as [-> [Hnd Hall]]. rewrite gmo_node_unfold. cbn [map fst].
  constructor.
  - intros Hin. destruct (gmo_children_keys _ _ Hall _ Hin) as [e [r [_ Hr]]]. rewrite <- app_assoc in Hr. symmetry in Hr.
    exact (path_neq_app _ _ _ Hr).
  - induction ch as [|[i c] rest IH]; [constructor|].
    cbn [gmo_children]. rewrite map_app. inversion IHch; subst. inversion Hall; subst. inversion Hnd; subst. cbn [fst snd] in *.
    apply nodup_app; [eapply H1; eassumption | apply IH; assumption|].
    intros o Ho1 Ho2.
    pose proof (gmo_keys_prefix c _ H3 o Ho1) as Hp. apply prefix_app in Hp as [r ->].
    destruct (gmo_children_keys _ _ H4 _ Ho2) as [e [r' [He Hr']]].
    rewrite <- !app_assoc in Hr'. apply app_inv_head in Hr'. cbn in Hr'.
    inversion Hr'; subst. apply H5. apply in_map_iff. exists e. split; [reflexivity | exact He].
Qed.

Lemma gmo_nodup m n : wf_at m n -> NoDup (map fst (get_managed_objects n)).
Proof.
  intros Hwf. pose proof (gmo_node_nodup n m Hwf) as H. destruct n as [p ch ifs].
  rewrite gmo_node_unfold in H. cbn in H. inversion H; subst. exact H3.
Qed.
