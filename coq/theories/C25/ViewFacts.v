(* C25/ViewFacts.v — the client's views under signals (C25/Spec.v), and the triples of a listing
   in terms of the tree. *)
From ZV Require Import Base.Bytes Base.Res Base.WinnowFacts C24.Ops C24.Model C24.Facts
  C25.Model C25.Spec C25.System C25.Tree.

(* ---- interface maps *)
Lemma if_get_app a b k : if_get (a ++ b) k = match if_get a k with Some ps => Some ps | None => if_get b k end.
Proof.
  induction a as [|[k' ps] a IH]; cbn; [reflexivity|]. destruct (iface_eqb k k'); [reflexivity | exact IH].
Qed.

Lemma if_get_del_same m k : if_get (if_del m k) k = None.
Proof.
  induction m as [|[k' ps] m IH]; cbn; [reflexivity|].
  destruct (iface_eqb k k') eqn:E; cbn; [exact IH|]. rewrite E. exact IH.
Qed.

Lemma if_get_del_other m k k' : k' <> k -> if_get (if_del m k) k' = if_get m k'.
Proof.
  intros Hne. induction m as [|[k2 ps] m IH]; cbn; [reflexivity|].
  destruct (iface_eqb k k2) eqn:E; cbn.
  - apply iface_eqb_eq in E; subst k2.
    destruct (iface_eqb k' k) eqn:E2; [apply iface_eqb_eq in E2; contradiction | exact IH].
  - destruct (iface_eqb k' k2); [reflexivity | exact IH].
Qed.

Lemma if_get_fold_del ks : forall m k,
  if_get (fold_left if_del ks m) k = if existsb (iface_eqb k) ks then None else if_get m k.
Proof.
  induction ks as [|k0 ks IH]; intros m k; cbn; [reflexivity|].
  rewrite IH. destruct (iface_eqb k k0) eqn:E; cbn.
  - apply iface_eqb_eq in E; subst. rewrite if_get_del_same. destruct (existsb (iface_eqb k0) ks); reflexivity.
  - apply iface_eqb_false in E. rewrite if_get_del_other by exact E. reflexivity.
Qed.

(* ---- one view under one signal *)
Lemma triple_added v g o ifs o' k :
  triple (apply_view v (SAdded g o ifs)) o' k =
  if path_eqb o' o then match if_get ifs k with Some ps => Some ps | None => triple v o k end
  else triple v o' k.
Proof.
  unfold triple; cbn. destruct (path_eqb o' o) eqn:E; [|reflexivity].
  rewrite if_get_app. destruct (if_get ifs k); [reflexivity|].
  destruct (v_get v o); reflexivity.
Qed.

Lemma triple_removed v g o ks o' k :
  triple (apply_view v (SRemoved g o ks)) o' k =
  if path_eqb o' o && existsb (iface_eqb k) ks then None else triple v o' k.
Proof.
  unfold triple; cbn. destruct (v_get v o) as [m|] eqn:Ev; cbn.
  - destruct (path_eqb o' o) eqn:E; cbn; [|reflexivity].
    apply path_eqb_eq in E; subst o'. rewrite Ev, if_get_fold_del. reflexivity.
  - destruct (path_eqb o' o) eqn:E; cbn; [|reflexivity].
    apply path_eqb_eq in E; subst o'. rewrite Ev. destruct (existsb (iface_eqb k) ks); reflexivity.
Qed.

(* ---- the views under one signal, under the end-of-step filter *)
Lemma view_of_apply vs s m :
  view_of (apply_signal vs s) m = if path_eqb m (sig_mgr s) then apply_view (view_of vs (sig_mgr s)) s else view_of vs m.
Proof. unfold apply_signal, view_of; cbn. destruct (path_eqb m (sig_mgr s)); reflexivity. Qed.

Lemma vs_get_filter (f : path -> bool) vs m :
  vs_get (filter (fun e => f (fst e)) vs) m = if f m then vs_get vs m else None.
Proof.
  induction vs as [|[m' v] vs IH]; cbn; [destruct (f m); reflexivity|].
  destruct (f m') eqn:Ef; cbn.
  - destruct (path_eqb m m') eqn:E; [apply path_eqb_eq in E; subst; rewrite Ef; reflexivity | exact IH].
  - destruct (path_eqb m m') eqn:E; [apply path_eqb_eq in E; subst; rewrite IH, Ef; reflexivity | exact IH].
Qed.

(* ---- replaying the burst of a freshly registered manager *)
Definition burst (p : path) (l : view) : list signal := map (fun e => SAdded p (fst e) (snd e)) l.

Lemma v_get_in l o m : v_get l o = Some m -> In (o, m) l.
Proof.
  induction l as [|[o' m'] l IH]; cbn; [discriminate|].
  destruct (path_eqb o o') eqn:E.
  - apply path_eqb_eq in E; subst. intros H; inversion H; subst. left; reflexivity.
  - intros H; right; apply IH; exact H.
Qed.

Lemma v_get_not_in l o : ~ In o (map fst l) -> v_get l o = None.
Proof.
  intros H. destruct (v_get l o) eqn:E; [|reflexivity].
  apply v_get_in in E. exfalso. apply H. apply in_map_iff. exists (o, i). split; [reflexivity | exact E].
Qed.

Lemma apply_signals_cons vs s ss : apply_signals vs (s :: ss) = apply_signals (apply_signal vs s) ss.
Proof. reflexivity. Qed.
Lemma burst_cons p e l : burst p (e :: l) = SAdded p (fst e) (snd e) :: burst p l.
Proof. reflexivity. Qed.

(* all signals of a burst go to the view kept for p; nobody else's view changes *)
Lemma burst_other p l : forall vs m, m <> p -> view_of (apply_signals vs (burst p l)) m = view_of vs m.
Proof.
  induction l as [|e l IH]; intros vs m Hm; [reflexivity|].
  rewrite burst_cons, apply_signals_cons, IH by exact Hm. rewrite view_of_apply. cbn [sig_mgr].
  destruct (path_eqb m p) eqn:E; [apply path_eqb_eq in E; contradiction | reflexivity].
Qed.

Lemma burst_same p l : NoDup (map fst l) -> forall vs o k,
  triple (view_of (apply_signals vs (burst p l)) p) o k =
  match v_get l o with
  | Some m => match if_get m k with Some ps => Some ps | None => triple (view_of vs p) o k end
  | None => triple (view_of vs p) o k
  end.
Proof.
  induction l as [|[o1 m1] l IH]; intros Hnd vs o k; [reflexivity|].
  inversion Hnd; subst. rewrite burst_cons, apply_signals_cons. cbn [fst snd].
  rewrite IH by assumption. rewrite view_of_apply. cbn [sig_mgr]. rewrite path_eqb_refl.
  cbn [v_get]. destruct (path_eqb o o1) eqn:E.
  - apply path_eqb_eq in E; subst o1. rewrite (v_get_not_in l o H1).
    rewrite triple_added, path_eqb_refl. reflexivity.
  - rewrite triple_added, E. reflexivity.
Qed.

(* ---- the triples of a listing, from the tree ---- *)
(* what an object contributes: its non-standard interfaces with their current properties *)
Definition U (t : node) (o : path) (k : iface) : option props :=
  if is_std k then None else match ulookup t o k with Some id => Some (props_of k id) | None => None end.
(* what the manager at m should list *)
Definition L (t : node) (m o : path) (k : iface) : option props :=
  if strict_prefix m o then U t o k else None.

Lemma if_get_user_ifaces ifs k :
  if_get (user_ifaces ifs) k =
  if is_std k then None else match find_iface k ifs with Some id => Some (props_of k id) | None => None end.
Proof.
  unfold user_ifaces. induction ifs as [|[k' v] ifs IH]; cbn; [destruct (is_std k); reflexivity|].
  destruct (is_std k') eqn:Es; cbn.
  - rewrite IH. destruct (iface_eqb k k') eqn:E; [|reflexivity].
    apply iface_eqb_eq in E; subst. rewrite Es. reflexivity.
  - destruct (iface_eqb k k') eqn:E; [|exact IH].
    apply iface_eqb_eq in E; subst. rewrite Es. reflexivity.
Qed.

Lemma listing_some t m lst :
  listing t m = Some lst ->
  exists n, get_child t m = Some n /\ find_iface OM (ifaces n) <> None /\ lst = get_managed_objects n.
Proof.
  unfold listing, call_gmo. destruct (get_child t m) as [n|]; [|discriminate].
  destruct (find_iface OM (ifaces n)) eqn:E; [|discriminate].
  intros H; inversion H; subst. exists n. split; [reflexivity|]. split; [rewrite E; discriminate | reflexivity].
Qed.

Lemma answers_spec t m : answers t m = is_some (ulookup t m OM).
Proof.
  unfold answers, listing, call_gmo, ulookup. destruct (get_child t m) as [n|]; [|reflexivity].
  destruct (find_iface OM (ifaces n)); reflexivity.
Qed.

Lemma listing_triple t m lst :
  wf_at [] t -> listing t m = Some lst -> forall o k, triple lst o k = L t m o k.
Proof.
  intros Hwf Hl o k. destruct (listing_some _ _ _ Hl) as [n [Hn [_ ->]]].
  pose proof (wf_get_child m [] t n Hwf Hn) as Hwn. cbn in Hwn.
  unfold triple, L. destruct (strict_prefix m o) eqn:E.
  - apply strict_prefix_app in E as [r [Hr ->]]. destruct r as [|j r]; [contradiction|].
    rewrite (gmo_get_below m n j r Hwn). unfold entry_of, U, ulookup.
    rewrite get_child_app, Hn. destruct (get_child n (j :: r)); [apply if_get_user_ifaces | destruct (is_std k); reflexivity].
  - rewrite (gmo_get_outside m n o Hwn E). reflexivity.
Qed.
