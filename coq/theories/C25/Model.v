(* C25/Model.v — what the ObjectManager machinery of zbus does along a history, as the code is.
   The tree, `at`/`remove` with their signal emission (InterfacesAdded with `get_all` properties,
   InterfacesRemoved, the burst of InterfacesAdded when an ObjectManager is registered) and
   `get_managed_objects` are in C24/Model.v (they are the same Rust functions); this file adds the
   run that keeps, per step, the signals put on the wire and the tree against which a peer's
   `GetManagedObjects` call is answered (fdo/object_manager.rs).  No proofs here. *)
From ZV Require Import Base.Bytes Base.Res C24.Ops C24.Model.

(* one step of a history as seen from the wire *)
Record wstep := { w_res : sres; w_signals : list signal; w_tree : node }.

Fixpoint wrun (t : node) (h : list op) : list wstep :=
  match h with
  | [] => []
  | o :: r =>
      let '(t1, x, sigs) := mstep t o in
      {| w_res := res_obs x; w_signals := sigs; w_tree := t1 |} :: wrun t1 r
  end.

(* the reply to GetManagedObjects at manager path m: None when the call fails (no such object, or
   no ObjectManager there) *)
Definition listing (t : node) (m : path) : option (list (path * list (iface * props))) :=
  match call_gmo t m with Ok l => Some l | _ => None end.

(* ---- the known-deviation classes, decided on the server state before the step ---- *)
(* number of proper ancestors of p that carry an ObjectManager *)
Fixpoint mgrs_above (n : node) (p : path) : nat :=
  match p with
  | [] => 0
  | i :: rest =>
      (match find_iface OM (ifaces n) with Some _ => 1 | None => 0 end) +
      (match find_child i (children n) with Some c => mgrs_above c rest | None => 0 end)
  end.

Inductive dev25 := NestedManagers.

Definition not_km (k : kind) : bool := match k with KM => false | _ => true end.

(* The one class left after fix f5fe3276 (no node with children is deleted any more, so nothing
   disappears from a listing silently): an effective registration or removal of a user interface at a
   path that has two or more proper ancestors carrying an ObjectManager — only the nearest one emits. *)
Definition flag25 (t : node) (o : op) : option dev25 :=
  match o with
  | At p k _ =>
      match lookup t p (ik k) with
      | Ok _ => None                                      (* duplicate: refused, nothing emitted *)
      | _ => if not_km k && Nat.leb 2 (mgrs_above t p) then Some NestedManagers else None
      end
  | Rm p k =>
      match lookup t p (ik k) with
      | Ok _ => if not_km k && Nat.leb 2 (mgrs_above t p) then Some NestedManagers else None
      | _ => None                                         (* absent: fails, nothing emitted *)
      end
  end.

Fixpoint first_flag25 (t : node) (h : list op) : option dev25 :=
  match h with
  | [] => None
  | o :: r => match flag25 t o with Some d => Some d | None => first_flag25 (fst (fst (mstep t o))) r end
  end.
