(* C25/Spec.v — the client of an ObjectManager, and the property.
   The client keeps, per manager path, a view  object path -> interface -> properties.  It starts
   from the manager's listing and applies InterfacesAdded / InterfacesRemoved in the order received.
   While no manager answers at a path the client has no session there: its view is discarded, and
   the session that starts when a manager is registered begins with the empty listing followed by
   the signals the registration itself emits.
   The property: after every step, for every manager that answers, view = listing, compared as sets
   of (object, interface, properties) triples — which ignores interface-less paths and demands the
   current properties.  Nothing here mentions the server's tree. *)
From ZV Require Import Base.Bytes C24.Ops.

Definition ifmap := list (iface * props).
Definition view := list (path * ifmap).          (* object path -> interfaces *)
Definition views := list (path * view).          (* manager path -> view *)

(* association lists read with first-match lookup: a newer binding in front shadows older ones *)
Fixpoint if_get (m : ifmap) (k : iface) : option props :=
  match m with [] => None | (k', ps) :: r => if iface_eqb k k' then Some ps else if_get r k end.
Definition if_del (m : ifmap) (k : iface) : ifmap := filter (fun e => negb (iface_eqb k (fst e))) m.

Fixpoint v_get (v : view) (o : path) : option ifmap :=
  match v with [] => None | (o', m) :: r => if path_eqb o o' then Some m else v_get r o end.

Fixpoint vs_get (vs : views) (m : path) : option view :=
  match vs with [] => None | (m', v) :: r => if path_eqb m m' then Some v else vs_get r m end.

Definition view_of (vs : views) (m : path) : view := match vs_get vs m with Some v => v | None => [] end.

(* InterfacesAdded(obj, ifs): the object gains these interfaces, with these properties (replacing
   what was known of them).   InterfacesRemoved(obj, ks): a known object loses these interfaces. *)
Definition apply_view (v : view) (s : signal) : view :=
  match s with
  | SAdded _ o ifs =>
      let cur := match v_get v o with Some m => m | None => [] end in
      (o, ifs ++ cur) :: v
  | SRemoved _ o ks =>
      match v_get v o with
      | Some m => (o, fold_left if_del ks m) :: v
      | None => v
      end
  end.

Definition sig_mgr (s : signal) : path := match s with SAdded m _ _ => m | SRemoved m _ _ => m end.

(* a signal is applied to the view kept for its emitter *)
Definition apply_signal (vs : views) (s : signal) : views :=
  let m := sig_mgr s in (m, apply_view (view_of vs m) s) :: vs.

Definition apply_signals (vs : views) (ss : list signal) : views := fold_left apply_signal ss vs.

(* the triple-set reading of a view and of a listing *)
Definition triple (v : view) (o : path) (k : iface) : option props :=
  match v_get v o with Some m => if_get m k | None => None end.

(* view and listing agree: same (object, interface, properties) triples *)
Definition same_objects (v l : view) : Prop := forall o k, triple v o k = triple l o k.

(* executable comparison on a finite set of (object, interface) pairs *)
Definition keys_of (v : view) : list (path * iface) :=
  flat_map (fun e => map (fun x => (fst e, fst x)) (snd e)) v.
Definition same_objects_b (v l : view) : bool :=
  forallb (fun ok =>
             match triple v (fst ok) (snd ok), triple l (fst ok) (snd ok) with
             | None, None => true
             | Some a, Some b =>
                 (* property maps compared as lists: both sides come from the same get_all order *)
                 (Nat.eqb (length a) (length b)) &&
                 forallb (fun xy => lbeq (fst (fst xy)) (fst (snd xy)) && N.eqb (snd (fst xy)) (snd (snd xy))) (combine a b)
             | _, _ => false
             end) (keys_of v ++ keys_of l).

(* one step of the observer: apply the step's signals, then drop the sessions of the paths at
   which no manager answers ([answers m] = GetManagedObjects at m succeeded) *)
Definition observe_step (vs : views) (ss : list signal) (answers : path -> bool) : views :=
  filter (fun e => answers (fst e)) (apply_signals vs ss).
