(* C25/Run.v — line driver.
   case:    25 <op> <op> ...     (ops as in C24/Run.v)
   model:   what harness/hobjsrv prints in mode 25: steps joined by ';', step = res|S|V|G|E
              S signals of the step (sorted), V the client's views at the 6 universe paths,
              G the GetManagedObjects replies there, E per path '-' no manager / '=' / '!'
   spec:    "E!free": no step shows '!' (props/C25.py evaluates it on the harness output)
   class:   first known-deviation class of the history, or '-'                                  *)
From ZV Require Import Base.Bytes Base.Res C24.Ops C24.Model C24.Run C25.Model C25.Spec C25.System.

Definition path_text (p : path) : bytes :=
  match p with [] => B "/" | _ => flat_map (fun s => B "/" ++ s) p end.

Definition props_text (ps : props) : bytes :=
  match ps with
  | [] => []
  | _ => B "(" ++ join (B "&") (map (fun e => fst e ++ B "=" ++ dec_of_N (snd e)) ps) ++ B ")"
  end.

(* interfaces sorted by abbreviation, each with its properties *)
Definition ifmap_text (m : ifmap) : bytes :=
  join (B "+")
    (flat_map (fun e => match if_get m (fst e) with Some ps => [snd e ++ props_text ps] | None => [] end) iface_order).

Definition kset_text (ks : list iface) : bytes :=
  join (B "+") (flat_map (fun e => if existsb (iface_eqb (fst e)) ks then [snd e] else []) iface_order).

Definition signal_text (s : signal) : bytes :=
  match s with
  | SAdded m o ifs => B "A" ++ path_text m ++ B ">" ++ path_text o ++ B "=" ++ ifmap_text ifs
  | SRemoved m o ks => B "R" ++ path_text m ++ B ">" ++ path_text o ++ B "=" ++ kset_text ks
  end.

Definition sort_bytes (l : list bytes) : list bytes := map fst (sort_by_key (map (fun x => (x, tt)) l)).

(* a view or a listing, entries sorted by the text of the object path *)
Definition view_text (v : view) : bytes :=
  let keys := sort_bytes (map (fun e => path_text (fst e)) v) in
  (* de-duplicate shadowed keys: print the first-match value of every distinct key once *)
  let fix uniq (l : list bytes) (prev : option bytes) : list bytes :=
      match l with
      | [] => []
      | x :: r => match prev with
                  | Some y => if lbeq x y then uniq r prev else x :: uniq r (Some x)
                  | None => x :: uniq r (Some x)
                  end
      end in
  join (B "~")
    (map (fun kt => kt ++ B "=" ++
            ifmap_text (match find (fun e => lbeq (path_text (fst e)) kt) v with Some e => snd e | None => [] end))
         (uniq keys None)).

Definition step_text (vs : views) (w : wstep) : bytes :=
  let t := w_tree w in
  let s := join comma (sort_bytes (map signal_text (w_signals w))) in
  let v := join comma (map (fun m => view_text (view_of vs m)) upaths) in
  let g := join comma (map (fun m => match listing t m with Some l => view_text l | None => B "-" end) upaths) in
  let e := flat_map (fun m => match listing t m with
                              | None => B "-"
                              | Some l => if same_objects_b (view_of vs m) l then B "=" else B "!"
                              end) upaths in
  res_tok (w_res w) ++ B "|" ++ s ++ B "|" ++ v ++ B "|" ++ g ++ B "|" ++ e.

Fixpoint trace25 (vs : views) (ws : list wstep) : list bytes :=
  match ws with
  | [] => []
  | w :: r =>
      let vs1 := apply_signals vs (w_signals w) in
      step_text vs1 w :: trace25 (observe_step vs (w_signals w) (answers (w_tree w))) r
  end.

Definition class25_tok (d : option dev25) : bytes :=
  match d with
  | None => dash
  | Some NestedManagers => B "nested_managers"
  end.

Definition step0 : wstep := {| w_res := RBool true; w_signals := []; w_tree := root0 |}.

Definition run_case (line : bytes) : outp :=
  match words line with
  | m :: ws =>
      if lbeq m (B "25") then
        match parse_ops 1 ws with
        | Some h =>
            let first := B "-" ++ tl (step_text [] step0) in
            {| o_model := join semi (first :: trace25 [] (wrun root0 h));
               o_spec := B "E!free";
               o_class := class25_tok (first_flag25 root0 h) |}
        | None => bad_case
        end
      else bad_case
  | [] => bad_case
  end.

Definition run (line : bytes) : bytes := render (run_case line).
