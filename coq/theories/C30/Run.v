(* C30/Run.v — two-phase line driver.  Input:  <case> TAB <observation>   (syntax: harness/hdisp, C29/Parse.v)
     D cases (handlers that use the object server):
        model : does the dispatch model explain the observation — a complete run for OK, a run into a deadlock for HANG
        spec  : no hang and every call has its reply; `-` when a handler of an unsafe burst calls
                object_server().interface(), which the property text does not name
        class : `-` inside the class where freedom from deadlock is proved ([safe]); otherwise `handler_vs_introspect`
                (an unsafe burst without lookups contains Introspect traffic: known_needs_introspect_or_lookup)
     L cases (on-demand creation):  L <variant> <n>
        model : does the start-up model (C30/Model.v) explain which calls were answered
        spec  : every call sent after at() returned was answered
        class : lazy_start_race for the variants in which the peer may send before the dispatch task has subscribed *)
From ZV Require Import Base.Bytes C29.Model C29.Spec C29.Exec C29.Parse C29.Judge C29.Progress C29.Safe C29.Run
  C30.Model C30.Spec.

(* ------------------------------------------------------------------ D cases *)
Definition class_d (calls : list call) : bytes :=
  if safe calls then dash
  else if has_lookup calls then dash
  else B "handler_vs_introspect".

Definition spec_d (calls : list call) (hang : bool) (l : list oev) : bytes :=
  let evs := evs_of l in
  if negb (safe calls) && has_lookup calls then dash
  else if hang then B "deadlock:calls-without-reply"
  else if negb (replies_ok calls evs) then B "not-exactly-one-reply-per-call"
  else if negb (err_flags_ok calls l) then B "wrong-kind-of-reply"
  else tokOK.

(* The model has no object tree: a call is looked up successfully by construction.  The one place where the tree matters
   is a handler that removes its own interface (script op r2): a method call to that interface that arrives later is
   answered with UnknownInterface / UnknownObject by the dispatch task if its lookup comes after the removal, and runs
   normally otherwise.  The observation tells which: an error reply and no handler start.  Such a call is judged as a
   call to an unknown object.  (ObjectServer::remove itself is modelled as: root write lock to the end, NOTHING else —
   in particular it does not touch the lock of the interface it removes; the replay refuses a log in which a
   self-removing handler could only proceed otherwise, and a hang there is not explained by the model.) *)
Definition lookup_failed (l : list oev) (id : nat) : bool :=
  existsb (fun o => match o with OEv (EvR n) true => Nat.eqb n id | _ => false end) l &&
  negb (existsb (fun o => match o with OEv (EvS n) _ => Nat.eqb n id | _ => false end) l).

Fixpoint adjust (sr : list (nat * nat)) (l : list oev) (i : nat) (calls : list call) : list call :=
  match calls with
  | [] => []
  | c :: r =>
      (if is_method (c_kind c) && existsb (fun p => Nat.ltb (fst p) i && Nat.eqb (snd p) (c_if c)) sr && lookup_failed l (c_id c)
       then {| c_id := c_id c; c_kind := KUnknown; c_if := c_if c; c_spawn := false; c_noreply := false; c_script := [] |}
       else c) :: adjust sr l (S i) r
  end.

(* ------------------------------------------------------------------ L cases *)
Definition lst := (lz * list lzlabel)%type.

Definition ldo (c : cfg) (lb : lzlabel) (x : lst) : option lst :=
  match lz_step c lb (fst x) with Some s => Some (s, lb :: snd x) | None => None end.

Definition bind {A B} (o : option A) (f : A -> option B) : option B := match o with Some a => f a | None => None end.

(* read (and thereby drop) the calls at the front of the socket that were never answered, while unsubscribed *)
Fixpoint drop_front (c : cfg) (answered : list nat) (fuel : nat) (x : lst) : lst :=
  match fuel with
  | O => x
  | S f =>
      match sock (fst x) with
      | m :: _ => if negb (subscribed (fst x)) && negb (memn m answered)
                  then match ldo c LRead x with Some x1 => drop_front c answered f x1 | None => x end
                  else x
      | [] => x
      end
  end.

Definition ensure_subscribed (c : cfg) (answered : list nat) (x : lst) : option lst :=
  if subscribed (fst x) then Some x else ldo c LSubscribe (drop_front c answered 100 x).

(* read and take until call m has been taken *)
Fixpoint take_until (c : cfg) (m : nat) (fuel : nat) (x : lst) : option lst :=
  match fuel with
  | O => None
  | S f =>
      if memn m (taken (fst x)) then Some x
      else match chan (fst x) with
           | _ :: _ => bind (ldo c LTake x) (take_until c m f)
           | [] => bind (ldo c LRead x) (take_until c m f)
           end
  end.

Fixpoint flush (c : cfg) (fuel : nat) (x : lst) : lst :=
  match fuel with
  | O => x
  | S f =>
      match ldo c LTake x with
      | Some x1 => flush c f x1
      | None => match ldo c LRead x with Some x1 => flush c f x1 | None => x end
      end
  end.

Fixpoint lreplay (c : cfg) (answered : list nat) (l : list oev) (x : lst) : option lst :=
  match l with
  | [] => Some x
  | OAtDone :: r => bind (bind (ldo c LCreate x) (ldo c LAt)) (lreplay c answered r)
  | OSent m :: r =>
      let x0 := if late c && negb (subscribed (fst x)) then ensure_subscribed c answered x else Some x in
      bind x0 (fun x1 =>
        match to_send (fst x1) with
        | m' :: _ => if Nat.eqb m m' then bind (ldo c LSend x1) (lreplay c answered r) else None
        | [] => None
        end)
  | OEv (EvS m) _ :: r =>
      bind (bind (ensure_subscribed c answered x) (take_until c m 200)) (lreplay c answered r)
  | _ :: r => lreplay c answered r x
  end.

Definition nl_eqb (a b : list nat) : bool := Nat.eqb (length a) (length b) && forallb (fun p => Nat.eqb (fst p) (snd p)) (combine a b).

Definition lz_none_enabled (c : cfg) (s : lz) : bool :=
  forallb (fun lb => match lz_step c lb s with None => true | Some _ => false end) all_labels.

(* the answered calls were taken, the others dropped, nothing else can happen — judged on a re-run of the labels *)
Definition lz_certify (c : cfg) (msgs answered : list nat) (tr : list lzlabel) : bytes :=
  match lz_runs c tr (lz_init c msgs) with
  | None => B "replay-produced-an-illegal-step"
  | Some s =>
      if negb (nl_eqb (taken s) (filter (fun m => memn m answered) msgs)) then B "taken-differs-from-answered"
      else if negb (nl_eqb (dropped s) (filter (fun m => negb (memn m answered)) msgs)) then B "dropped-differs-from-unanswered"
      else if lz_none_enabled c s then tokOK else B "not-finished"
  end.

Definition explains_lazy (c : cfg) (n : nat) (l : list oev) : bytes :=
  let msgs := seq 0 n in
  let answered := flat_map (fun o => match o with OEv (EvS m) _ => [m] | _ => [] end) l in
  match lreplay c answered l (lz_init c msgs, []) with
  | None => B "refused:the-start-up-model-cannot-produce-this-log"
  | Some x =>
      (* the unanswered calls still in the socket can only have been dropped before the subscription *)
      match ensure_subscribed c answered x with
      | None => B "refused:no-subscription-possible"
      | Some x1 => lz_certify c msgs answered (rev (snd (flush c 400 x1)))
      end
  end.

Fixpoint required (seen_at : bool) (l : list oev) : list nat :=
  match l with
  | [] => []
  | OAtDone :: r => required true r
  | OSent m :: r => if seen_at then m :: required seen_at r else required seen_at r
  | _ :: r => required seen_at r
  end.

Definition spec_l (l : list oev) : bytes :=
  let replied := flat_map (fun o => match o with OEv (EvR m) false => [m] | _ => [] end) l in
  if forallb (fun m => memn m replied) (required false l) then tokOK
  else B "call-sent-after-registration-returned-was-not-dispatched".

Definition parse_lcase (line : bytes) : option (cfg * nat) :=
  match words line with
  | [l; v; n] =>
      if lbeq l (B "L") then
        match nat_of_dec n with
        | Some k =>
            if lbeq v (B "a") || lbeq v (B "d") then Some ({| builder := false; late := true |}, k)
            else if lbeq v (B "b") || lbeq v (B "c") then Some ({| builder := false; late := false |}, k)
            else None
        | None => None
        end
      else None
  | _ => None
  end.

Definition run_case (line : bytes) : outp :=
  match split_on tab line with
  | [case; obs] =>
      match parse_obs obs with
      | Some (hang, l) =>
          match parse_case case, parse_lcase case with
          | Some calls0, _ =>
              let calls := adjust (self_removers case) l 0 calls0 in
              let evs := evs_of l in
              {| o_model := if hang then explains_hang calls (replied evs) (soe evs) else explains_ok calls (soe evs);
                 o_spec := spec_d calls hang l;
                 o_class := class_d calls |}
          | None, Some (c, n) =>
              {| o_model := explains_lazy c n l;
                 o_spec := spec_l l;
                 o_class := if Known_lazy c then B "lazy_start_race" else dash |}
          | None, None => bad_case
          end
      | None => bad_case
      end
  | _ => bad_case
  end.

Definition run (line : bytes) : bytes := render (run_case line).
