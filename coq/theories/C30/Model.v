(* C30/Model.v — the second clause of C30: on-demand creation of the object server and the start of its dispatch task.
   (The first clause — handlers that use the object server — runs on the dispatch model of C29/Model.v, which already
   contains the lock scripts of ObjectServer::at / remove / interface, of Properties::get / set / get_all and of
   Introspectable::introspect.)  No proofs in this file.

   Mirrored code:
     zbus/src/connection/mod.rs   object_server() -> ensure_object_server(true) -> setup_object_server ->
                                  start_object_server(None): executor.spawn(async { let mut stream =
                                  conn.add_match(rule).await ..; while let Some(msg) = stream.next().await {..} })
                                  — object_server() returns as soon as the task is SPAWNED; nothing waits for add_match.
     zbus/src/object_server/mod.rs  at(): root write lock, insert, return — does not wait for the dispatch task either.
     zbus/src/connection/socket_reader.rs  receive_msg: read a message, then hand it to every sender in `msg_senders`
                                  whose rule matches; a method call for which no stream is subscribed is dropped
                                  (the unfiltered default receiver is inactive unless the user made a MessageStream).
     zbus/src/connection/builder.rs build_: with serve_at interfaces: start_object_server(Some(started_event));
                                  listener.await; only THEN init_socket_reader — the subscription exists before the
                                  first byte is read.

   Messages are numbers (call ids) in send order.  One step = one atomic action of the main task (create, at), the
   dispatch task (subscribe, take), the socket reader (start, read) or the peer (send). *)
From ZV Require Import Base.Bytes.

Record cfg := {
  builder : bool;   (* true: Builder::serve_at path (object server set up inside build()); false: on demand *)
  late : bool       (* true: the peer only sends once the dispatch task has subscribed (it waited long enough) *)
}.

Record lz := {
  created : bool;       (* conn.object_server() has been called: the dispatch task exists *)
  at_done : bool;       (* at() has returned *)
  subscribed : bool;    (* the dispatch task's add_match has completed *)
  reader_on : bool;     (* the socket reader task runs *)
  to_send : list nat;   (* the peer's calls not yet sent *)
  sock : list nat;      (* sent, not yet read by the socket reader *)
  chan : list nat;      (* in the dispatch task's stream *)
  taken : list nat;     (* taken by the dispatch task (it will dispatch them: C29 model) *)
  dropped : list nat;   (* read while no stream was subscribed: lost *)
  after_at : list nat   (* ghost: the calls that were sent after at() had returned *)
}.

Definition lz_init (c : cfg) (msgs : list nat) : lz :=
  {| created := builder c; at_done := builder c; subscribed := false; reader_on := negb (builder c);
     to_send := msgs; sock := []; chan := []; taken := []; dropped := []; after_at := [] |}.

Inductive lzlabel := LCreate | LAt | LSubscribe | LReaderStart | LSend | LRead | LTake.

Definition lz_step (c : cfg) (lb : lzlabel) (s : lz) : option lz :=
  match lb with
  | LCreate =>
      if created s then None
      else Some {| created := true; at_done := at_done s; subscribed := subscribed s; reader_on := reader_on s;
                   to_send := to_send s; sock := sock s; chan := chan s; taken := taken s; dropped := dropped s;
                   after_at := after_at s |}
  | LAt =>
      if created s && negb (at_done s)
      then Some {| created := created s; at_done := true; subscribed := subscribed s; reader_on := reader_on s;
                   to_send := to_send s; sock := sock s; chan := chan s; taken := taken s; dropped := dropped s;
                   after_at := after_at s |}
      else None
  | LSubscribe =>
      if created s && negb (subscribed s)
      then Some {| created := created s; at_done := at_done s; subscribed := true; reader_on := reader_on s;
                   to_send := to_send s; sock := sock s; chan := chan s; taken := taken s; dropped := dropped s;
                   after_at := after_at s |}
      else None
  | LReaderStart =>
      (* builder path: init_socket_reader comes after `listener.await` on the started event *)
      if negb (reader_on s) && (negb (builder c) || subscribed s)
      then Some {| created := created s; at_done := at_done s; subscribed := subscribed s; reader_on := true;
                   to_send := to_send s; sock := sock s; chan := chan s; taken := taken s; dropped := dropped s;
                   after_at := after_at s |}
      else None
  | LSend =>
      match to_send s with
      | m :: r =>
          if negb (late c) || subscribed s
          then Some {| created := created s; at_done := at_done s; subscribed := subscribed s; reader_on := reader_on s;
                       to_send := r; sock := sock s ++ [m]; chan := chan s; taken := taken s; dropped := dropped s;
                       after_at := if at_done s then after_at s ++ [m] else after_at s |}
          else None
      | [] => None
      end
  | LRead =>
      match sock s with
      | m :: r =>
          if reader_on s
          then Some {| created := created s; at_done := at_done s; subscribed := subscribed s; reader_on := reader_on s;
                       to_send := to_send s; sock := r;
                       chan := if subscribed s then chan s ++ [m] else chan s; taken := taken s;
                       dropped := if subscribed s then dropped s else dropped s ++ [m];
                       after_at := after_at s |}
          else None
      | [] => None
      end
  | LTake =>
      match chan s with
      | m :: r =>
          if subscribed s
          then Some {| created := created s; at_done := at_done s; subscribed := subscribed s; reader_on := reader_on s;
                       to_send := to_send s; sock := sock s; chan := r; taken := taken s ++ [m]; dropped := dropped s;
                       after_at := after_at s |}
          else None
      | [] => None
      end
  end.

Fixpoint lz_runs (c : cfg) (tr : list lzlabel) (s : lz) : option lz :=
  match tr with
  | [] => Some s
  | lb :: r => match lz_step c lb s with Some s' => lz_runs c r s' | None => None end
  end.

Definition lz_reach (c : cfg) (msgs : list nat) (tr : list lzlabel) (s : lz) : Prop := lz_runs c tr (lz_init c msgs) = Some s.

Definition lz_stuck (c : cfg) (s : lz) : Prop := forall lb, lz_step c lb s = None.

Definition all_labels : list lzlabel := [LCreate; LAt; LSubscribe; LReaderStart; LSend; LRead; LTake].
