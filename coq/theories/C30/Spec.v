(* C30/Spec.v — what the property says.

   "Method and property handlers can register or remove objects and emit signals through the object server without
    deadlocking, and every method call that arrives after a registration has returned is dispatched, including when the
    object server was created on demand just before."

   First clause, on the dispatch model (C29/Model.v): from every reachable state some step is enabled unless every
   task has finished — for every burst whose handler scripts use the operations the text names (awaits incl. signal
   emission, at, remove), whatever the kinds of the calls (methods, property getters and setters).
   Second clause, on the start-up model (C30/Model.v): a call sent after at() returned is never dropped, and is
   eventually taken by the dispatch task. *)
From ZV Require Import Base.Bytes C29.Model C29.Spec C29.Progress C29.Safe C30.Model.

Definition no_deadlock (calls : list call) : Prop :=
  forall tr s, reach calls tr s -> (exists lb s', step lb s = Some s') \/ all_done s.

(* the operations named by the property text *)
Definition in_text (c : call) : bool := forallb plain_op (c_script c).

Definition C30_full_statement : Prop :=
  forall calls, NoDup (map c_id calls) -> forallb in_text calls = true -> no_deadlock calls.

(* the known-deviation class: the code paths of the burst do not respect one lock order.  Since the repair of
   Properties::get / set / get_all (/repo d9501501) a burst is in the class only if it contains Introspect traffic on
   an interface whose handlers register / remove objects, or object_server().interface() lookups that close a cycle
   (C30/Proofs.v: handlers_only bursts are never in it) *)
Definition Known_C30 (calls : list call) : bool := negb (safe calls).

(* ---- finer classes, used by the line driver to name the finding ---- *)
Definition has_lookup (calls : list call) : bool :=
  existsb (fun c => existsb (fun o => match o with OIface _ => true | _ => false end) (c_script c)) calls.
Definition has_introspect (calls : list call) : bool :=
  existsb (fun c => match c_kind c with KIntro => true | _ => false end) calls.

(* ---- second clause ---- *)
Definition never_dropped (c : cfg) (msgs : list nat) : Prop :=
  forall tr s, lz_reach c msgs tr s -> forall m, In m (after_at s) -> ~ In m (dropped s).

Definition C30_lazy_full_statement : Prop := forall c msgs, NoDup msgs -> never_dropped c msgs.

(* known-deviation class of the second clause: on-demand creation with the peer free to send at once *)
Definition Known_lazy (c : cfg) : bool := negb (builder c) && negb (late c).
