(* C30/Proofs.v — freedom from deadlock of handlers that use the object server (on the dispatch model of C29), the
   refutations found by the faithful model, and the start-up clause. *)
From ZV Require Import Base.Bytes C29.Model C29.Spec C29.Steps C29.Progress C29.Exec C29.Judge C29.Safe C29.Proofs
  C30.Model C30.Spec.

(* =============================== first clause =============================== *)

Theorem nodeadlock_partial calls : Known_C30 calls = false -> no_deadlock calls.
Proof.
  unfold Known_C30. intros H. apply negb_false_iff in H. intros tr s Hr. now apply (safe_progress calls tr s).
Qed.

(* method AND property handlers that await / register / remove / emit: the property's first clause, for every burst
   without Introspect traffic *)
Theorem nodeadlock_handlers calls : handlers_only calls = true -> no_deadlock calls.
Proof. intros H. apply nodeadlock_partial. unfold Known_C30. now rewrite (handlers_only_safe calls H). Qed.

Theorem nodeadlock_methods calls : methods_only calls = true -> no_deadlock calls.
Proof. intros H. apply nodeadlock_handlers. now apply methods_are_handlers. Qed.

Theorem known_needs_introspect_or_lookup calls :
  Known_C30 calls = true -> has_introspect calls = true \/ has_lookup calls = true.
Proof.
  intros Hk. destruct (has_introspect calls) eqn:Hi; [now left|]. destruct (has_lookup calls) eqn:Hl; [now right|]. exfalso.
  assert (Hh : handlers_only calls = true).
  { unfold handlers_only. apply forallb_forall. intros c Hc. unfold plain_handler.
    assert (Hk' : match c_kind c with KIntro => true | _ => false end = false).
    { destruct (match c_kind c with KIntro => true | _ => false end) eqn:E; [|reflexivity].
      assert (has_introspect calls = true); [|congruence]. unfold has_introspect. apply existsb_exists. now exists c. }
    destruct (c_kind c); try discriminate; apply forallb_forall; intros o Ho; destruct o; try reflexivity;
      (assert (has_lookup calls = true); [|congruence]); unfold has_lookup; apply existsb_exists; exists c; (split; [assumption|]);
      apply existsb_exists; eexists; (split; [exact Ho|reflexivity]). }
  unfold Known_C30 in Hk. rewrite (handlers_only_safe calls Hh) in Hk. discriminate.
Qed.

(* a deadlock found by the model: the handler events up to it, and a run that ends stuck with calls unfinished *)
Definition deadlocks (calls : list call) (obs : list ev) : Prop :=
  exists tr s, reach calls tr s /\ filter is_soe (log s) = obs /\ stuck s /\ ~ all_done s /\
               forall c, In c calls -> count_ev (EvR (c_id c)) (log s) = 0.

Lemma deadlock_witness calls obs : explains_hang calls [] obs = tokOK -> deadlocks calls obs.
Proof.
  unfold explains_hang. destruct (replay [] obs 0 (init calls, [])) as [x|why n].
  2:{ intros H. exfalso. revert H. apply not_ok. exact I. }
  destruct (fst (search [] 16 x 3000)) as [y|]; [|intros H; exfalso; revert H; apply not_ok; exact I].
  unfold certify_dead. destruct (runs (rev (snd y)) (init calls)) as [s|] eqn:Hr; [|intros H; exfalso; revert H; apply not_ok; exact I].
  destruct (evl_eqb (soe (log s)) obs) eqn:He; cbn [negb]; [|intros H; exfalso; revert H; apply not_ok; exact I].
  destruct (replies_match calls [] (log s)) eqn:Hm; cbn [negb]; [|intros H; exfalso; revert H; apply not_ok; exact I].
  destruct (none_enabled s) eqn:Hn; cbn [andb]; [|intros H; exfalso; revert H; apply not_ok; exact I].
  destruct (all_done_b s) eqn:Hd; cbn [negb]; [intros H; exfalso; revert H; apply not_ok; exact I|].
  intros _. exists (rev (snd y)), s. split; [exact Hr|]. split; [now apply evl_eqb_eq|].
  assert (Hw : wf s) by (eapply wf_reach; exact Hr).
  split; [apply stuck_b_sound; [assumption|exact Hn]|]. split.
  - intros [Hp [Hf Hi]].
    assert (Hb : all_done_b s = true); [|congruence].
    unfold all_done_b. rewrite Hf, Hi. cbn [is_nil]. rewrite !andb_true_r. apply forallb_forall. intros t _. now rewrite Hp.
  - intros c Hc. unfold replies_match in Hm. rewrite forallb_forall in Hm. specialize (Hm c Hc). cbn in Hm.
    now apply Nat.eqb_eq in Hm.
Qed.

Definition mk (id : nat) (k : ckind) (i : nat) (sc : list op) : call :=
  {| c_id := id; c_kind := k; c_if := i; c_spawn := true; c_noreply := false; c_script := sc |}.

(* What the repair of Properties::get / set / get_all (/repo d9501501) left: Introspectable::introspect (and
   ObjectManager::get_managed_objects, same shape, not modelled) still keeps the root read guard while it read-locks the
   interfaces of the node.
   (1) a METHOD handler (&mut self) that registers an object while Introspect walks the same node: Introspect holds the
       root read guard and waits for the interface lock, the method holds the interface write lock and waits for the
       root write lock.  Harness case  D i -,-,-,- m0:z30.a0 x0 *)
Definition w_introspect : list call := [mk 0 KMut 0 [OAwait 1; OAt]; mk 1 KIntro 0 []].
(* (2) the same with a property SETTER (&mut self) as the handler.  D i -,-,-,- s0:z30.a0 x0 *)
Definition w_setter_introspect : list call := [mk 0 KSetMut 0 [OAwait 1; ORemove]; mk 1 KIntro 0 []].
(* (3) with &self methods a third call waiting for the interface write lock is enough (write-preferring lock) *)
Definition w_ref_introspect : list call := [mk 0 KRef 0 [OAwait 1; OAt]; mk 1 KMut 0 []; mk 2 KIntro 0 []].

Lemma w_introspect_dead : deadlocks w_introspect [EvS 0; EvO 0 0].
Proof. apply deadlock_witness. vm_compute. reflexivity. Qed.
Lemma w_setter_introspect_dead : deadlocks w_setter_introspect [EvS 0; EvO 0 0].
Proof. apply deadlock_witness. vm_compute. reflexivity. Qed.
Lemma w_ref_introspect_dead : deadlocks w_ref_introspect [EvS 0; EvO 0 0].
Proof. apply deadlock_witness. vm_compute. reflexivity. Qed.

Lemma deadlock_refutes calls obs : deadlocks calls obs -> ~ no_deadlock calls.
Proof.
  intros [tr [s [Hr [_ [Hst [Hnd _]]]]]] H. destruct (H tr s Hr) as [[lb [s' Hs]]|Hd]; [|contradiction].
  rewrite (Hst lb) in Hs. discriminate.
Qed.

Theorem full_refuted : ~ C30_full_statement.
Proof.
  intros H. apply (deadlock_refutes w_introspect _ w_introspect_dead). apply H.
  - cbn. repeat constructor; cbn; intuition discriminate.
  - reflexivity.
Qed.

(* the witnesses are in the known class, as they must be *)
Example witnesses_known :
  Known_C30 w_introspect = true /\ Known_C30 w_setter_introspect = true /\ Known_C30 w_ref_introspect = true.
Proof. vm_compute. repeat split; reflexivity. Qed.

(* the bursts that deadlocked before the repair are now outside the known class and run to completion (two schedules):
   a setter that registers, a getter that removes, a method that registers while Properties.Get is in flight, the same
   with &self methods and a pending writer *)
Definition was_setter : list call := [mk 0 KSetMut 0 [OAt]].
Definition was_getter : list call := [mk 0 KGet 0 [ORemove]].
Definition was_method : list call := [mk 0 KMut 0 [OAwait 1; OAt]; mk 1 KGet 0 []].
Definition was_method_ref : list call := [mk 0 KRef 0 [OAwait 1; OAt]; mk 1 KMut 0 []; mk 2 KGet 0 []].
Example repaired_safe :
  Known_C30 was_setter = false /\ Known_C30 was_getter = false /\ Known_C30 was_method = false /\ Known_C30 was_method_ref = false.
Proof. vm_compute. repeat split; reflexivity. Qed.
Example repaired_run :
  forallb (fun cs => ex_check cs (auto_run 2000 (init cs) []) && ex_check cs (auto_run_rev 2000 (init cs) []))
          [was_setter; was_getter; was_method; was_method_ref] = true.
Proof. vm_compute. reflexivity. Qed.

(* non-vacuity of the partial theorem beyond handlers_only: Introspect traffic next to handlers that register objects on
   OTHER interfaces, property handlers that register on their own *)
Definition ex_mixed : list call :=
  [mk 0 KGet 0 [OAwait 2; OAt]; mk 1 KSetMut 0 [OAwait 1; ORemove]; mk 2 KMut 1 [OAt; ORemove]; mk 3 KGetAll 0 [OAt];
   {| c_id := 4; c_kind := KRef; c_if := 2; c_spawn := false; c_noreply := false; c_script := [OAt] |}; mk 5 KIntro 3 []; mk 6 KMut 1 [OIface 3]].
Example ex_mixed_safe : Known_C30 ex_mixed = false /\ handlers_only ex_mixed = false.
Proof. vm_compute. split; reflexivity. Qed.
Example ex_mixed_runs : ex_check ex_mixed (auto_run 2000 (init ex_mixed) []) = true /\
                        ex_check ex_mixed (auto_run_rev 2000 (init ex_mixed) []) = true.
Proof. vm_compute. split; reflexivity. Qed.

(* =============================== second clause =============================== *)

Section Lazy.
  Variable c : cfg.
  Variable msgs : list nat.

  Record LInv (s : lz) : Prop := {
    l_flow : msgs = dropped s ++ taken s ++ chan s ++ sock s ++ to_send s;
    l_unsub : subscribed s = false -> taken s = [] /\ chan s = [];
    l_builder : builder c = true -> reader_on s = true -> subscribed s = true;
    l_late : late c = true -> subscribed s = false -> sock s = [];
    l_nodrop : builder c || late c = true -> dropped s = [];
    l_created : subscribed s = true -> created s = true
  }.

  Lemma linv_init : LInv (lz_init c msgs).
  Proof.
    split; cbn; auto.
    - intros Hb Hr. rewrite Hb in Hr. discriminate.
    - discriminate.
  Qed.

  Lemma linv_step s lb s' : LInv s -> lz_step c lb s = Some s' -> LInv s'.
  Proof.
    intros [F U Bd L N C] H. destruct lb; cbn in H.
    - destruct (created s) eqn:Ec; [discriminate|]. inversion H; subst; clear H. split; cbn; auto.
    - destruct (created s && negb (at_done s)); [|discriminate]. inversion H; subst; clear H. split; cbn; auto.
    - destruct (created s) eqn:Ec; cbn in H; [|discriminate]. destruct (subscribed s) eqn:Es; cbn in H; [discriminate|].
      inversion H; subst; clear H. destruct (U eq_refl) as [U1 U2]. split; cbn; auto; try discriminate.
    - destruct (reader_on s) eqn:Er; cbn in H; [discriminate|].
      destruct (negb (builder c) || subscribed s) eqn:Eb; [|discriminate]. inversion H; subst; clear H.
      split; cbn; auto. intros Hb _. rewrite Hb in Eb. cbn in Eb. exact Eb.
    - destruct (to_send s) as [|m r] eqn:Et; [discriminate|].
      destruct (negb (late c) || subscribed s) eqn:El; [|discriminate]. inversion H; subst; clear H.
      split; cbn; auto.
      + rewrite F. rewrite <- !app_assoc. reflexivity.
      + intros Hl Hs. rewrite Hl, Hs in El. discriminate.
    - destruct (sock s) as [|m r] eqn:Ek; [discriminate|]. destruct (reader_on s) eqn:Er; [|discriminate].
      inversion H; subst; clear H. destruct (subscribed s) eqn:Es.
      + split; cbn; auto; try discriminate.
        * rewrite F. rewrite <- !app_assoc. reflexivity.
      + destruct (U eq_refl) as [U1 U2]. split; cbn; auto.
        * rewrite F, U1, U2. cbn. rewrite <- !app_assoc. reflexivity.
        * intros Hl _. specialize (L Hl eq_refl). discriminate.
        * intros Hbl. exfalso. apply orb_prop in Hbl. destruct Hbl as [Hb|Hl].
          -- specialize (Bd Hb eq_refl). discriminate.
          -- specialize (L Hl eq_refl). discriminate.
    - destruct (chan s) as [|m r] eqn:Ech; [discriminate|]. destruct (subscribed s) eqn:Es; [|discriminate].
      inversion H; subst; clear H. split; cbn; auto; try discriminate.
      rewrite F. rewrite <- !app_assoc. reflexivity.
  Qed.

  Lemma linv_reach tr s : lz_reach c msgs tr s -> LInv s.
  Proof.
    unfold lz_reach. revert s. induction tr as [|lb tr IH] using rev_ind; intros s H.
    - cbn in H. inversion H; subst. apply linv_init.
    - assert (Happ : forall t1 t2 s0, lz_runs c (t1 ++ t2) s0 = match lz_runs c t1 s0 with Some s1 => lz_runs c t2 s1 | None => None end).
      { induction t1 as [|x t1 IH1]; intros t2 s0; cbn; [reflexivity|]. destruct (lz_step c x s0); auto. }
      rewrite Happ in H. destruct (lz_runs c tr (lz_init c msgs)) as [s1|] eqn:E; [|discriminate].
      cbn in H. destruct (lz_step c lb s1) as [s2|] eqn:E2; [|discriminate]. inversion H; subst.
      eapply linv_step; [apply IH; reflexivity|exact E2].
  Qed.

  (* in a state where nothing can happen, everything that was not dropped has been taken, in send order *)
  Lemma stuck_taken s : LInv s -> lz_stuck c s -> msgs = dropped s ++ taken s.
  Proof.
    intros [F U Bd L N C] Hst.
    pose proof (Hst LCreate) as H1. pose proof (Hst LSubscribe) as H2. pose proof (Hst LReaderStart) as H3.
    pose proof (Hst LSend) as H4. pose proof (Hst LRead) as H5. pose proof (Hst LTake) as H6. cbn in *.
    destruct (created s) eqn:Ec; [|discriminate]. cbn in H2.
    destruct (subscribed s) eqn:Es; [|discriminate].
    destruct (reader_on s) eqn:Er; cbn in H3; [|rewrite orb_true_r in H3; discriminate].
    destruct (sock s) as [|m r]; [|discriminate].
    destruct (chan s) as [|m r]; [|discriminate].
    destruct (to_send s) as [|m r]; [|rewrite orb_true_r in H4; discriminate].
    rewrite F. cbn. now rewrite app_nil_r.
  Qed.

  (* something can happen as long as a sent or unsent call has not been handled *)
  Lemma lazy_progress s : LInv s -> (exists lb s', lz_step c lb s = Some s') \/ msgs = dropped s ++ taken s.
  Proof.
    intros I.
    destruct (created s) eqn:Ec; [|left; exists LCreate; cbn; rewrite Ec; eexists; reflexivity].
    destruct (subscribed s) eqn:Es; [|left; exists LSubscribe; cbn; rewrite Ec, Es; eexists; reflexivity].
    destruct (reader_on s) eqn:Er; [|left; exists LReaderStart; cbn; rewrite Er, Es, orb_true_r; eexists; reflexivity].
    destruct (sock s) as [|m r] eqn:Ek; [|left; exists LRead; cbn; rewrite Ek, Er; eexists; reflexivity].
    destruct (chan s) as [|m r] eqn:Ech; [|left; exists LTake; cbn; rewrite Ech, Es; eexists; reflexivity].
    destruct (to_send s) as [|m r] eqn:Et; [|left; exists LSend; cbn; rewrite Et, Es, orb_true_r; eexists; reflexivity].
    right. destruct I as [F _ _ _ _ _]. rewrite F, Ek, Ech, Et. cbn. now rewrite app_nil_r.
  Qed.
End Lazy.

(* the start-up clause where it holds: object server set up by the builder, or the peer sends once the dispatch task
   has subscribed — nothing is ever dropped, progress until every call has been taken, in order *)
Theorem lazy_start_partial c msgs tr s : Known_lazy c = false -> lz_reach c msgs tr s ->
  dropped s = [] /\ ((exists lb s', lz_step c lb s = Some s') \/ taken s = msgs).
Proof.
  intros Hk Hr. pose proof (linv_reach c msgs tr s Hr) as I.
  assert (Hbl : builder c || late c = true).
  { unfold Known_lazy in Hk. destruct (builder c), (late c); cbn in *; auto; discriminate. }
  pose proof (l_nodrop c msgs s I Hbl) as Hd. split; [exact Hd|].
  destruct (lazy_progress c msgs s I) as [H|H]; [now left|right]. rewrite Hd in H. cbn in H. congruence.
Qed.

(* once the dispatch task has subscribed nothing more is dropped (on-demand creation included) *)
Theorem subscribed_no_more_drops c lb s s' : subscribed s = true -> lz_step c lb s = Some s' ->
  subscribed s' = true /\ dropped s' = dropped s.
Proof.
  intros Hs H. destruct lb; cbn in H.
  - destruct (created s); [discriminate|]. inversion H; subst; cbn; auto.
  - destruct (created s && negb (at_done s)); [|discriminate]. inversion H; subst; cbn; auto.
  - rewrite Hs in H. rewrite andb_false_r in H. discriminate.
  - destruct (negb (reader_on s) && (negb (builder c) || subscribed s)); [|discriminate]. inversion H; subst; cbn; auto.
  - destruct (to_send s); [discriminate|]. destruct (negb (late c) || subscribed s); [|discriminate]. inversion H; subst; cbn; auto.
  - destruct (sock s); [discriminate|]. destruct (reader_on s); [|discriminate]. inversion H; subst; cbn. rewrite Hs. auto.
  - destruct (chan s); [discriminate|]. rewrite Hs in H. inversion H; subst; cbn; auto.
Qed.

(* the refutation: on-demand creation, the peer sends right after at() returned, the socket reader gets to the call
   before the dispatch task has subscribed.  Harness case:  L c 2 *)
Definition on_demand : cfg := {| builder := false; late := false |}.
Definition race : list lzlabel := [LCreate; LAt; LSend; LRead; LSubscribe].

Theorem lazy_start_refuted :
  exists tr s, lz_reach on_demand [0] tr s /\ In 0 (after_at s) /\ In 0 (dropped s) /\ taken s = [] /\
               lz_stuck on_demand s.
Proof.
  exists race. eexists. split; [reflexivity|]. cbn. repeat split; auto. intros lb. destruct lb; reflexivity.
Qed.

Theorem lazy_full_refuted : ~ C30_lazy_full_statement.
Proof.
  intros H. destruct lazy_start_refuted as [tr [s [Hr [Ha [Hd _]]]]].
  apply (H on_demand [0] ltac:(repeat constructor; cbn; tauto) tr s Hr 0 Ha Hd).
Qed.

(* non-vacuity of the partial theorem: the builder path takes three calls, in order *)
Example builder_run :
  lz_runs {| builder := true; late := false |}
    [LSend; LSubscribe; LSend; LReaderStart; LRead; LTake; LSend; LRead; LRead; LTake; LTake]
    (lz_init {| builder := true; late := false |} [7; 8; 9])
  = Some {| created := true; at_done := true; subscribed := true; reader_on := true; to_send := []; sock := [];
            chan := []; taken := [7; 8; 9]; dropped := []; after_at := [7; 8; 9] |}.
Proof. reflexivity. Qed.
