(* C30/RunSound.v — the verdict of the start-up replay (C30/Run.v explains_lazy) is backed by a run of the model. *)
From ZV Require Import Base.Bytes C29.Model C29.Spec C29.Parse C29.Judge C29.Proofs C30.Model C30.Spec C30.Run.

Lemma nl_eqb_eq a : forall b, nl_eqb a b = true -> a = b.
Proof.
  unfold nl_eqb. induction a as [|x a IH]; intros [|y b]; cbn; try discriminate; [reflexivity|].
  intros H. apply andb_prop in H. destruct H as [Hl H]. apply andb_prop in H. destruct H as [Hx Hr].
  apply Nat.eqb_eq in Hx. subst y. f_equal. apply IH. now rewrite Hl, Hr.
Qed.

Lemma lz_none_enabled_sound c s : lz_none_enabled c s = true -> lz_stuck c s.
Proof.
  unfold lz_none_enabled. rewrite forallb_forall. intros H lb. specialize (H lb).
  assert (Hin : In lb all_labels) by (destruct lb; cbn; tauto). specialize (H Hin).
  destruct (lz_step c lb s); [discriminate|reflexivity].
Qed.

Definition answered_of (l : list oev) : list nat := flat_map (fun o => match o with OEv (EvS m) _ => [m] | _ => [] end) l.

Theorem explains_lazy_sound c n l : explains_lazy c n l = tokOK ->
  exists tr s, lz_reach c (seq 0 n) tr s /\
    taken s = filter (fun m => memn m (answered_of l)) (seq 0 n) /\
    dropped s = filter (fun m => negb (memn m (answered_of l))) (seq 0 n) /\ lz_stuck c s.
Proof.
  unfold explains_lazy. fold (answered_of l).
  destruct (lreplay c (answered_of l) l (lz_init c (seq 0 n), [])) as [x|]; [|intros H; exfalso; revert H; apply not_ok; exact I].
  destruct (ensure_subscribed c (answered_of l) x) as [x1|]; [|intros H; exfalso; revert H; apply not_ok; exact I].
  unfold lz_certify. set (tr := rev (snd (flush c 400 x1))).
  destruct (lz_runs c tr (lz_init c (seq 0 n))) as [s|] eqn:Hr; [|intros H; exfalso; revert H; apply not_ok; exact I].
  destruct (nl_eqb (taken s) _) eqn:H1; cbn [negb]; [|intros H; exfalso; revert H; apply not_ok; exact I].
  destruct (nl_eqb (dropped s) _) eqn:H2; cbn [negb]; [|intros H; exfalso; revert H; apply not_ok; exact I].
  destruct (lz_none_enabled c s) eqn:H3; [|intros H; exfalso; revert H; apply not_ok; exact I].
  intros _. exists tr, s. split; [exact Hr|]. split; [now apply nl_eqb_eq|]. split; [now apply nl_eqb_eq|].
  now apply lz_none_enabled_sound.
Qed.
