(* C13/Run.v — line driver:
     p <ctx> <hex>     one message through Message::from_bytes   (spec: the reference reader's view, unknown parts ignored)
     s <hex> <hex> ... raw messages on a connection, then EOF     (spec: every message of a known type delivered, others dropped) *)
From ZV Require Import Base.Bytes Base.Res Base.Sig C11.Model C11.Spec C11.Run C13.Model C13.Spec.
Open Scope N_scope.

Definition render_item (i : item) : bytes :=
  match i with
  | IMsg n => B "M" ++ dec_of_N n | IErrMsg => B "E:msg" | IErrIo => B "E:io" | IEnd => B "N"
  | IHang => B "HANG" | IFuel => B "FUEL"
  end.
Definition is_hang (i : item) : bool := match i with IHang => true | _ => false end.
(* a dead reader shows as a hang whatever was delivered before (delivery of the last messages races with the crash) *)
Definition render_items (l : list item) : bytes :=
  if existsb is_hang l then B "HANG" else join (B ",") (map render_item l).

Fixpoint unhex_all (l : list bytes) : option bytes :=
  match l with
  | [] => Some []
  | h :: r => match bytes_of_hex h, unhex_all r with Some a, Some b => Some (a ++ b) | _, _ => None end
  end.

Definition spec_p (b : bytes) : bytes :=
  match spec_parse b with
  | Some m =>
      if (1 <=? sm_type m) && (sm_type m <=? 4)
      then B "OK:" ++ dump_hview (sm_view m) ++ B ":" ++ dump_body (sm_body m) (hv_sig (sm_view m)) 0
      else dash                       (* dropping a message of unknown type is the reader's business *)
  | None => dash
  end.

Definition run_case (line : bytes) : outp :=
  let ws := words line in
  match ws with
  | k :: args =>
      if lbeq k (B "p") then
        match parse_p ws with
        | Some (ctx, b) =>
            {| o_model := out_parse_res (from_raw_parts ctx b) 0; o_spec := spec_p b; o_class := class13_name (classify13 b) |}
        | None => bad_case
        end
      else if lbeq k (B "s") then
        match unhex_all args with
        | Some stream =>
            {| o_model := render_items (read_stream stream);
               o_spec := match spec_stream (S (length stream)) stream with Some l => render_items l | None => dash end;
               o_class := class13_name (stream_class13 (S (length stream)) stream) |}
        | None => bad_case
        end
      else bad_case
  | [] => bad_case
  end.

Definition run (line : bytes) : bytes := render (run_case line).
