(* C13/Proofs.v — forward compatibility: unknown header fields and flag bits are tolerated (proved for every message and
   every stream the reference reader accepts); messages of unknown type are still not skipped (refuted, with the
   partial statement that remains). *)
From ZV Require Import Base.Bytes Base.Res Base.Sig C10.Model C11.Model C11.Spec C11.Lemmas C11.AtPos C11.Invariants C11.Proofs
     C13.Model C13.Spec C13.Refine C13.Tolerant C13.Stream.
From Coq Require Import Lia ZifyBool ZifyN ZifyNat.
Open Scope N_scope.

(* ---------- the full statement ---------- *)
(* whatever the reference reader of the specification accepts (unknown field codes skipped, unknown flag bits ignored) ... *)
Definition C13_message_statement : Prop :=
  forall b sm, spec_parse b = Some sm -> 1 <= sm_type sm <= 4 ->
    exists m, from_raw_parts (ph_endian (hv_ph (sm_view sm))) b = Ok m /\ header m = Ok (sm_view sm) /\ body m = Ok (sm_body sm).
(* ... and a stream of such messages is delivered message by message, those of unknown type being dropped *)
Definition C13_stream_statement : Prop :=
  forall stream l, spec_stream (S (length stream)) stream = Some l -> read_stream stream = l.
Definition C13_full_statement : Prop := C13_message_statement /\ C13_stream_statement.

(* ---------- witnesses (also in known_findings/C13.jsonl, run on the real code) ---------- *)
Definition unhex (s : string) : bytes := match bytes_of_hex (B s) with Some b => b | None => [] end.

Definition n1 : bytes := unhex "6c01000100000000010000002d00000001016f00040000002f612f620000000002017300070000006f72672e612e4200030173000400000050696e6700000000".
Definition n3 : bytes := unhex "6c04000100000000030000002d00000001016f00040000002f612f620000000002017300070000006f72672e612e4200030173000400000050696e6700000000".
(* header field code 10 carrying a u32 *)
Definition odd_field : bytes := unhex "6c01000100000000020000003800000001016f00040000002f612f620000000002017300070000006f72672e612e4200030173000400000050696e67000000000a01750007000000".
(* flag bit 0x08 *)
Definition odd_flag : bytes := unhex "6c01080100000000020000002d00000001016f00040000002f612f620000000002017300070000006f72672e612e4200030173000400000050696e6700000000".
(* message type 5 *)
Definition odd_type : bytes := unhex "6c05000100000000020000002d00000001016f00040000002f612f620000000002017300070000006f72672e612e4200030173000400000050696e6700000000".

(* ---------- unknown header fields and unknown flag bits are tolerated (since fix 9e1c6e56 / 0d33c3d1) ---------- *)
(* the message part of the full statement holds: whatever the reference reader accepts with a known type is accepted,
   with the same header (unknown fields dropped, unknown flag bits masked) and the same body *)
Theorem message_tolerant : C13_message_statement.
Proof.
  intros b sm Hs Hty. destruct (message_ok b sm Hs Hty) as (m & Hp & Hh & Hb & _). eauto.
Qed.

Lemma stream_loop : forall fuel stream l, spec_stream fuel stream = Some l -> stream_types_known fuel stream = true ->
  reader_loop fuel stream = l.
Proof.
  induction fuel as [|f IH]; intros stream l Hs Hk; [discriminate|].
  cbn [spec_stream] in Hs. destruct stream as [|c t] eqn:Est.
  { injection Hs as <-. reflexivity. }
  rewrite <- Est in *.
  destruct (spec_frame_len stream) as [n|] eqn:Efl; [|discriminate].
  destruct (n <=? len stream) eqn:En; [|discriminate].
  destruct (spec_parse (takeN n stream)) as [sm|] eqn:Esp; [|discriminate].
  destruct (spec_stream f (dropN n stream)) as [rest|] eqn:Er; [|discriminate].
  destruct (spec_parse_reads _ _ Esp) as (e & c0 & fl & ver & bl & flen & Hr & _ & Hlen & _).
  assert (Hn16 : 16 <= n).
  { destruct Hr. rewrite len_take in hr_len16 by lia. exact hr_len16. }
  cbn [stream_types_known] in Hk. rewrite Efl in Hk. replace ((n <=? len stream) && (0 <? n)) with true in Hk by lia.
  rewrite Esp in Hk. apply andb_prop in Hk. destruct Hk as [Hty Hk].
  rewrite Hty in Hs. injection Hs as <-.
  assert (Hty' : 1 <= sm_type sm <= 4) by lia.
  cbn [reader_loop]. rewrite (frame_spec stream n sm Efl ltac:(lia) Esp Hty').
  destruct (message_ok _ _ Esp Hty') as (m & Hp & Hh & _ & _ & Hsn).
  rewrite Hp, Hh, Hsn. f_equal. apply IH; assumption.
Qed.

(* the stream part holds for every stream whose messages all have a known type, whatever fields and flags they carry *)
Theorem stream_tolerant stream l : spec_stream (S (length stream)) stream = Some l ->
  stream_types_known (S (length stream)) stream = true -> read_stream stream = l.
Proof. intros Hs Hk. unfold read_stream. apply stream_loop; assumption. Qed.

Theorem unknown_field_ok b sm : spec_parse b = Some sm -> 0 < sm_unknown_fields sm -> 1 <= sm_type sm <= 4 ->
  exists m, from_raw_parts (ph_endian (hv_ph (sm_view sm))) b = Ok m /\ header m = Ok (sm_view sm) /\ body m = Ok (sm_body sm).
Proof. intros Hs _ Hty. exact (message_tolerant b sm Hs Hty). Qed.

Theorem unknown_flag_ok b sm : spec_parse b = Some sm -> 8 <= sm_raw_flags sm -> 1 <= sm_type sm <= 4 ->
  exists m, from_raw_parts (ph_endian (hv_ph (sm_view sm))) b = Ok m /\ header m = Ok (sm_view sm) /\ body m = Ok (sm_body sm)
            /\ ph_flags (hv_ph (sm_view sm)) = sm_raw_flags sm mod 8.
Proof.
  intros Hs _ Hty. destruct (message_tolerant b sm Hs Hty) as (m & Hp & Hh & Hb). exists m. repeat split; auto.
  unfold spec_parse in Hs.
  repeat match type of Hs with
         | match ?x with _ => _ end = _ => destruct x; try discriminate
         | (if ?x then _ else _) = _ => destruct x; try discriminate
         end.
  injection Hs as <-. reflexivity.
Qed.

(* the former witnesses (known_findings/C13.jsonl, status fixed): both are delivered and the stream goes on *)
Example former_witnesses_tolerated :
  (exists sm, spec_parse odd_field = Some sm /\ sm_unknown_fields sm = 1) /\
  (exists sm, spec_parse odd_flag = Some sm /\ sm_raw_flags sm = 8) /\
  read_stream (n1 ++ odd_field ++ n3) = [IMsg 1; IMsg 2; IMsg 3; IErrIo; IEnd] /\
  read_stream (n1 ++ odd_flag ++ n3) = [IMsg 1; IMsg 2; IMsg 3; IErrIo; IEnd].
Proof.
  repeat (match goal with |- _ /\ _ => split end); try (eexists; split); vm_compute; reflexivity.
Qed.

(* ---------- unknown message types: still not skipped ---------- *)
Theorem unknown_type_refuted :
  exists b sm, spec_parse b = Some sm /\ sm_type sm = 5 /\ sm_raw_flags sm = 0 /\ sm_unknown_fields sm = 0
               /\ read_stream (n1 ++ b ++ n3) = [IMsg 1; IErrMsg; IEnd]
               /\ spec_stream 400 (n1 ++ b ++ n3) = Some [IMsg 1; IMsg 3; IErrIo; IEnd].
Proof. exists odd_type. eexists. repeat (match goal with |- _ /\ _ => split end); vm_compute; reflexivity. Qed.

Theorem full_refuted : ~ C13_full_statement.
Proof.
  intros [_ Hst].
  assert (Hs : spec_stream (S (length (n1 ++ odd_type ++ n3))) (n1 ++ odd_type ++ n3) = Some [IMsg 1; IMsg 3; IErrIo; IEnd])
    by (vm_compute; reflexivity).
  apply Hst in Hs.
  assert (Hr : read_stream (n1 ++ odd_type ++ n3) = [IMsg 1; IErrMsg; IEnd]) by (vm_compute; reflexivity).
  rewrite Hr in Hs. discriminate.
Qed.

(* ---------- what remains: messages the library builds (codes 1..9, flags <= 7, types 1..4) ---------- *)
Record built := { bm_hdr : hdr; bm_sig : sig; bm_body : bytes; bm_nfds : N }.
Definition built_ok (x : built) : Prop :=
  hdr_valid (bm_hdr x) = true /\ body_valid (bm_sig x) (bm_nfds x) = true
  /\ len (spec_message (bm_hdr x) (bm_sig x) (bm_body x) (bm_nfds x)) <= max_message_size.
Definition built_bytes (x : built) : bytes := spec_message (bm_hdr x) (bm_sig x) (bm_body x) (bm_nfds x).

Lemma frame_built x rest : built_ok x ->
  next_frame (built_bytes x ++ rest) = FrMsg (h_endian (bm_hdr x)) (built_bytes x) rest.
Proof.
  intros (Hh & Hb & Hsz). destruct x as [h bsig bd nfds]. unfold built_bytes in *. cbn [bm_hdr bm_sig bm_body bm_nfds] in *.
  pose proof Hh as Hh'. unfold hdr_valid in Hh'. repeat (apply andb_prop in Hh'; destruct Hh' as [Hh' ?]).
  assert (Hty : 1 <= h_type h <= 4) by lia. assert (Hfl : h_flags h <= 7) by lia. assert (Hsn : 1 <= h_serial h < two32) by lia.
  assert (Hv1 : 1 < 256) by reflexivity.
  clear - Hh Hb Hsz Hty Hfl Hsn Hv1.
  set (e := h_endian h). set (l := spec_fields h bsig nfds). set (arr := spec_array e l).
  set (b := spec_message h bsig bd nfds) in *.
  set (tail := zeros (padding (len (spec_header h (len bd) l)) 8) ++ bd).
  set (P16 := [endian_byte e; nb (h_type h); nb (h_flags h); nb 1] ++ u32_bytes e (len bd) ++ u32_bytes e (h_serial h) ++ u32_bytes e (len arr)).
  assert (Eb : b = P16 ++ arr ++ tail).
  { subst b tail P16. unfold spec_message, pad8, spec_header. fold e l arr. rewrite <- !app_assoc. reflexivity. }
  assert (HP16 : len P16 = 16) by (subst P16; rewrite !len_app, !len_u32; reflexivity).
  assert (Hlb : len b = 16 + len arr + padding (16 + len arr) 8 + len bd).
  { rewrite Eb. subst tail. unfold spec_header. fold e l arr. rewrite !len_app, HP16, len_zeros, !len_u32. change (len [_;_;_;_]) with 4.
    replace (4 + (4 + (4 + (4 + len arr)))) with (16 + len arr) by lia. lia. }
  assert (Hsz2 : len bd < two32 /\ len arr < two32) by (unfold max_message_size, two32 in *; lia).
  unfold next_frame. rewrite len_app. replace (len b + len rest <? 16) with false by lia.
  assert (Et : takeN 16 (b ++ rest) = P16).
  { rewrite Eb, <- app_assoc. rewrite <- HP16. apply takeN_app. }
  rewrite Et.
  assert (Hpr : primary_read P16 = Ok ({| ph_endian := e; ph_type := h_type h; ph_flags := h_flags h; ph_version := 1;
                                          ph_body_len := len bd; ph_serial := h_serial h |}, len arr)).
  { unfold primary_read. subst P16. cbn [app]. rewrite endian_rt.
    change (endian_byte e :: nb (h_type h) :: nb (h_flags h) :: nb 1 :: u32_bytes e (len bd) ++ u32_bytes e (h_serial h) ++ u32_bytes e (len arr))
      with ([endian_byte e; nb (h_type h); nb (h_flags h); nb 1] ++ u32_bytes e (len bd) ++ u32_bytes e (h_serial h) ++ u32_bytes e (len arr)).
    assert (Hfl' : h_flags h < 256) by lia.
    rewrite (de_primary_at e e (h_type h) (h_flags h) 1 (len bd) (h_serial h) _ Hty Hfl' Hv1 (proj1 Hsz2) Hsn).
    rewrite (N.mod_small (h_flags h) 8) by lia.
    cbn [bind N.eqb Pos.eqb negb]. unfold data_slice.
    rewrite !len_app, !len_u32. change (len [_;_;_;_]) with 4. cbn [N.add N.ltb N.compare Pos.add Pos.succ Pos.compare Pos.compare_cont bind].
    assert (Hat : at_pos ([endian_byte e; nb (h_type h); nb (h_flags h); nb 1] ++ u32_bytes e (len bd) ++ u32_bytes e (h_serial h) ++ u32_bytes e (len arr)) 12 (u32_bytes e (len arr))).
    { replace ([endian_byte e; nb (h_type h); nb (h_flags h); nb 1] ++ u32_bytes e (len bd) ++ u32_bytes e (h_serial h) ++ u32_bytes e (len arr))
        with (([endian_byte e; nb (h_type h); nb (h_flags h); nb 1] ++ u32_bytes e (len bd) ++ u32_bytes e (h_serial h)) ++ u32_bytes e (len arr) ++ [])
        by (rewrite app_nil_r, <- !app_assoc; reflexivity).
      match goal with |- at_pos (?p ++ _ ++ _) _ _ => replace 12 with (len p) by (rewrite !len_app, !len_u32; reflexivity) end.
      apply at_pos_intro. }
    rewrite (de_u32_at' e _ 12 (len arr) Hat) by (reflexivity || lia). reflexivity. }
  rewrite Hpr. cbn [ph_body_len ph_endian].
  replace (16 + len arr + padding (16 + len arr) 8 + len bd) with (len b) by lia.
  replace (max_message_size <? len b) with false by lia.
  replace (len b + len rest <? len b) with false by lia.
  rewrite takeN_app, dropN_app. reflexivity.
Qed.

Lemma loop_built : forall msgs fuel, Forall built_ok msgs -> (length msgs < fuel)%nat ->
  reader_loop fuel (concat (map built_bytes msgs)) = map (fun x => IMsg (h_serial (bm_hdr x))) msgs ++ [IErrIo; IEnd].
Proof.
  induction msgs as [|x r IH]; intros fuel Hall Hf.
  - destruct fuel; [cbn in Hf; lia|]. reflexivity.
  - inversion Hall as [|? ? Hx Hr]; subst. destruct fuel as [|fuel]; [cbn in Hf; lia|].
    cbn [map concat reader_loop]. rewrite (frame_built x _ Hx).
    destruct Hx as (Hh & Hb & Hsz).
    destruct (parse_spec_message _ _ _ _ Hh Hb Hsz) as (fs & Hj & Hinv & _ & Hp).
    unfold built_bytes at 1. rewrite Hp.
    rewrite (header_parsed _ _ _ _ fs Hh) by (auto; unfold max_message_size, two32 in *; lia).
    cbn [parsed_msg m_ph ph_serial app]. f_equal. apply IH; [exact Hr|cbn in Hf; lia].
Qed.

(* every message has at least its 16 fixed bytes: the default fuel of [read_stream] is enough *)
Lemma built_len x : built_ok x -> 16 <= len (built_bytes x).
Proof.
  intros _. unfold built_bytes, spec_message, pad8, spec_header. rewrite !len_app, !len_u32. change (len [_;_;_;_]) with 4. lia.
Qed.
Lemma concat_len msgs : Forall built_ok msgs -> 16 * N.of_nat (length msgs) <= len (concat (map built_bytes msgs)).
Proof.
  induction 1 as [|x r Hx Hr IH]; [cbn; lia|]. cbn [map concat length]. rewrite len_app. pose proof (built_len x Hx). lia.
Qed.

Theorem known_stream msgs : Forall built_ok msgs ->
  read_stream (concat (map built_bytes msgs)) = map (fun x => IMsg (h_serial (bm_hdr x))) msgs ++ [IErrIo; IEnd].
Proof.
  intros Hall. unfold read_stream. apply loop_built; [exact Hall|].
  pose proof (concat_len msgs Hall). unfold len in H. lia.
Qed.

Theorem known_message x : built_ok x ->
  exists m, from_raw_parts (h_endian (bm_hdr x)) (built_bytes x) = Ok m
            /\ header m = Ok (view (bm_hdr x) (bm_sig x) (bm_body x) (bm_nfds x)) /\ body m = Ok (bm_body x).
Proof.
  intros (Hh & Hb & Hsz). destruct (roundtrip _ _ _ _ Hh Hb Hsz) as (bytes & off & m & Hbb & Hp & Hhd & Hbd & _).
  rewrite (build_bytes_spec _ _ _ _ Hh Hb Hsz) in Hbb. injection Hbb as <- <-. eauto.
Qed.

(* non-vacuity: a two-message stream *)
Definition ex1 : built :=
  {| bm_hdr := {| h_endian := LE; h_type := 1; h_flags := 0; h_serial := 1; h_path := Some (B "/a/b"); h_iface := Some (B "org.a.B");
                  h_member := Some (B "Ping"); h_errname := None; h_reply := None; h_dest := None; h_sender := None |};
     bm_sig := SUnit; bm_body := []; bm_nfds := 0 |}.
Definition ex2 : built :=
  {| bm_hdr := {| h_endian := BE; h_type := 2; h_flags := 0; h_serial := 2; h_path := None; h_iface := None; h_member := None;
                  h_errname := None; h_reply := Some 1; h_dest := Some (B ":1.5"); h_sender := None |};
     bm_sig := SStr; bm_body := enc_s BE (B "hi"); bm_nfds := 0 |}.
Example ex_built_ok : Forall built_ok [ex1; ex2].
Proof. repeat constructor; vm_compute; congruence. Qed.
Example ex1_is_n1 : built_bytes ex1 = n1.
Proof. vm_compute. reflexivity. Qed.
