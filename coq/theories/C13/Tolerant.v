(* C13/Tolerant.v — one header field, the field array, and a whole message: the model of the repaired code accepts
   everything the reference reader accepts (unknown field codes and flag bits included), with the same header view. *)
From ZV Require Import Base.Bytes Base.Res Base.Sig C10.Model C10.Spec C10.Proofs C11.Model C11.Spec C11.Lemmas C11.SigProofs
     C11.NamesAscii C11.Invariants C11.Proofs C13.Refine.
From Coq Require Import Lia ZifyBool ZifyN ZifyNat.
Open Scope N_scope.

(* the reference reader's fields, as the offset-free record of C11/Proofs.v *)
Definition sproj (a : sfields) : pfields :=
  {| p_path := s_path a; p_iface := s_iface a; p_member := s_member a; p_errname := s_errname a; p_reply := s_reply a;
     p_dest := s_dest a; p_sender := s_sender a; p_sig := match s_sig a with Some g => g | None => SUnit end; p_fds := s_fds a |}.

(* ---------- the variant of a header field ---------- *)
Lemma de_str_narrow_info e b p1 sg st p2 : de_str false e b p1 = Ok (sg, st, p2) ->
  exists lb, nth_error b (N.to_nat p1) = Some lb /\ bn lb = len sg /\ p2 = p1 + 1 + len sg + 1 /\ p2 <= len b
             /\ takeN (len sg) (dropN (p1 + 1) b) = sg.
Proof.
  intros H. pose proof (de_str_ok _ _ _ _ _ _ _ H) as (Ha & Hb & Hc & Hd & _).
  unfold de_str in H. apply bind_ok in H. destruct H as ([n p0] & H0 & H).
  pose proof (de_u8_nth _ _ _ _ H0) as (c & Hc1 & Hc2). apply de_u8_ok in H0. destruct H0 as (-> & _ & _).
  apply bind_ok in H. destruct H as ([s' q] & Hs & H). apply next_slice_ok in Hs. destruct Hs as (-> & _ & Es & Hl).
  destruct (has_nul s'); [discriminate|]. apply bind_ok in H. destruct H as ([z q2] & Hz & H).
  destruct (negb _); [discriminate|]. destruct (utf8_valid s'); [|discriminate]. injection H as <- <- <-.
  apply next_slice_ok in Hz. destruct Hz as (-> & Hz & _).
  exists c. rewrite Hl. repeat split; auto; try lia.
Qed.

(* what de_variant does once the signature is known to be the single complete type [vs] and the value starts at [vstart] *)
Definition variant_tail (vs : sig) (e : endian) (b : bytes) (vstart : N) : R (fval * N) :=
  match vs with
  | SStr => let* (s, st, p2) := de_str true e b vstart in Ok (FStr s st, p2)
  | SObjPath =>
      let* (s, st, p2) := de_str true e b vstart in
      if validate_object_path s then Ok (FPath s st, p2) else Err EData
  | SSig =>
      let* (s, _, p2) := de_str false e b vstart in
      match parse_sig s with Some g => Ok (FSig g, p2) | None => Err EData end
  | SU32 => let* (n, p2) := de_u32 e b vstart in Ok (FU32 n, p2)
  | _ => let* p2 := de_value 64 vs field_value_depths e b vstart in Ok (FOther, p2)
  end.

Lemma de_variant_tail e b p1 sg p2 vs :
  sp_string false e b p1 = Some (sg, p2) -> parse_sig sg = Some vs -> vs <> SUnit -> lbeq (show vs) sg = true ->
  de_variant e b p1 = variant_tail vs e b p2.
Proof.
  intros Hs Hp Hu Hl. apply sp_string_ok in Hs. destruct Hs as (st & Hs).
  destruct (de_str_narrow_info _ _ _ _ _ _ Hs) as (lb & Hn & Hlb & -> & Hle & Ht).
  apply lbeq_eq in Hl.
  unfold de_variant. rewrite Hs. cbn [bind]. rewrite Hp, Hn, Hlb.
  replace (len b <? p1 + 1 + len sg) with false by lia. rewrite Ht, Hp.
  replace ((match vs with SUnit => true | _ => false end) || negb (len (show vs) =? len sg)) with false.
  2:{ rewrite Hl, N.eqb_refl. destruct vs; try reflexivity. congruence. }
  replace (len b <? p1 + 1 + len sg + 1) with false by lia.
  unfold variant_tail. reflexivity.
Qed.

(* an ignored field: any valid value *)
Lemma tail_unknown vs e b p2 p3 : sp_value vs field_value_depths e b p2 = Some p3 -> exists v, variant_tail vs e b p2 = Ok (v, p3).
Proof.
  intros H. destruct vs; try (apply (sp_value_ok 64) in H; cbn [variant_tail]; rewrite H; cbn [bind]; eexists; reflexivity);
    cbn [sp_value] in H; cbn [variant_tail].
  - (* u32 *) destruct (sp_fixed b p2 4) as [[l q]|] eqn:E; [|discriminate]. injection H as ->.
    assert (Hu : sp_u32 e b p2 = Some (rd_u32 e l, p3)) by (unfold sp_u32; rewrite E; reflexivity).
    apply sp_u32_ok in Hu. rewrite Hu. cbn [bind]. eexists. reflexivity.
  - (* str *) destruct (sp_string true e b p2) as [[s q]|] eqn:E; [|discriminate]. injection H as ->.
    apply sp_string_ok in E. destruct E as (st & ->). cbn [bind]. eexists. reflexivity.
  - (* sig *) destruct (sp_string false e b p2) as [[s q]|] eqn:E; [|discriminate].
    apply sp_string_ok in E. destruct E as (st & ->). cbn [bind]. destruct (parse_sig s); [|discriminate]. injection H as ->. eexists. reflexivity.
  - (* path *) destruct (sp_string true e b p2) as [[s q]|] eqn:E; [|discriminate].
    apply sp_string_ok in E. destruct E as (st & ->). cbn [bind]. rewrite object_path_ok. destruct (spec_object_path s); [|discriminate].
    injection H as ->. eexists. reflexivity.
Qed.

(* a known field *)
Lemma proj_eqs fs a : proj fs = sproj a ->
  omf (f_path fs) = s_path a /\ omf (f_iface fs) = s_iface a /\ omf (f_member fs) = s_member a /\ omf (f_errname fs) = s_errname a
  /\ f_reply fs = s_reply a /\ omf (f_dest fs) = s_dest a /\ omf (f_sender fs) = s_sender a
  /\ f_sig fs = (match s_sig a with Some g => g | None => SUnit end) /\ f_fds fs = s_fds a.
Proof. unfold proj, sproj. intros [= -> -> -> -> -> -> -> -> ->]. repeat split. Qed.

Ltac fin_known E1 E2 E3 E4 E5 E6 E7 E8 E9 :=
  unfold proj, sproj;
  cbn [f_path f_iface f_member f_errname f_reply f_dest f_sender f_sig f_fds
       s_path s_iface s_member s_errname s_reply s_dest s_sender s_sig s_fds omf option_map fst];
  rewrite ?E1, ?E2, ?E3, ?E4, ?E5, ?E6, ?E7, ?E8, ?E9; reflexivity.

Lemma tail_known code vs e b p2 a a' p3 fs : 1 <= code <= 9 -> proj fs = sproj a -> sp_known code vs e b p2 a = Some (a', p3) ->
  exists v fs', variant_tail vs e b p2 = Ok (v, p3) /\ set_field fs code v = Ok fs' /\ proj fs' = sproj a'.
Proof.
  intros Hc Hj H. destruct (proj_eqs _ _ Hj) as (E1 & E2 & E3 & E4 & E5 & E6 & E7 & E8 & E9).
  unfold sp_known in H.
  assert (Hcases : code = 1 \/ code = 2 \/ code = 3 \/ code = 4 \/ code = 5 \/ code = 6 \/ code = 7 \/ code = 8 \/ code = 9) by lia.
  clear Hc.
  destruct Hcases as [->|[->|[->|[->|[->|[->|[->|[->| ->]]]]]]]]; destruct vs; try discriminate; cbn [variant_tail].
  all: try (destruct (sp_string true e b p2) as [[s q]|] eqn:Es; [|discriminate];
            match type of H with (if ?c then _ else _) = _ => destruct c eqn:Ec; [|discriminate] end;
            injection H as <- <-; apply andb_prop in Ec; destruct Ec as [Ev Enone];
            apply sp_string_ok in Es; destruct Es as (st & Es); rewrite Es; cbn [bind]).
  all: try (destruct (sp_u32 e b p2) as [[n q]|] eqn:Es; [|discriminate];
            match type of H with (if ?c then _ else _) = _ => destruct c eqn:Ec; [|discriminate] end;
            injection H as <- <-; apply sp_u32_ok in Es; rewrite Es; cbn [bind]).
  all: try (destruct (sp_string false e b p2) as [[s q]|] eqn:Es; [|discriminate];
            destruct (parse_sig s) as [g|] eqn:Eg; [|discriminate];
            match type of H with (if ?c then _ else _) = _ => destruct c eqn:Ec; [|discriminate] end;
            injection H as <- <-; apply sp_string_ok in Es; destruct Es as (st & Es); rewrite Es; cbn [bind]; rewrite Eg).
  - (* 1 path *) rewrite object_path_ok, Ev. eexists. eexists. split; [reflexivity|]. cbn [set_field]. split; [reflexivity|].
    fin_known E1 E2 E3 E4 E5 E6 E7 E8 E9.
  - (* 2 interface *) eexists. eexists. split; [reflexivity|]. cbn [set_field]. rewrite interface_ok, Ev. cbn [negb]. split; [reflexivity|].
    fin_known E1 E2 E3 E4 E5 E6 E7 E8 E9.
  - (* 3 member *) eexists. eexists. split; [reflexivity|]. cbn [set_field]. rewrite member_ok, Ev. cbn [negb]. split; [reflexivity|].
    fin_known E1 E2 E3 E4 E5 E6 E7 E8 E9.
  - (* 4 error name *) eexists. eexists. split; [reflexivity|]. cbn [set_field]. unfold validate_error. rewrite interface_ok, Ev. cbn [negb]. split; [reflexivity|].
    fin_known E1 E2 E3 E4 E5 E6 E7 E8 E9.
  - (* 5 reply serial *) apply andb_prop in Ec. destruct Ec as [En0 _]. eexists. eexists. split; [reflexivity|]. cbn [set_field].
    apply Bool.negb_true_iff in En0. rewrite En0. split; [reflexivity|].
    fin_known E1 E2 E3 E4 E5 E6 E7 E8 E9.
  - (* 6 destination *) eexists. eexists. split; [reflexivity|]. cbn [set_field]. rewrite bus_ok, Ev. split; [reflexivity|].
    fin_known E1 E2 E3 E4 E5 E6 E7 E8 E9.
  - (* 7 sender *) eexists. eexists. split; [reflexivity|]. cbn [set_field]. rewrite unique_ok, Ev. cbn [negb]. split; [reflexivity|].
    fin_known E1 E2 E3 E4 E5 E6 E7 E8 E9.
  - (* 8 signature *) eexists. eexists. split; [reflexivity|]. cbn [set_field]. split; [reflexivity|].
    fin_known E1 E2 E3 E4 E5 E6 E7 E8 E9.
  - (* 9 unix fds *) eexists. eexists. split; [reflexivity|]. cbn [set_field]. split; [reflexivity|].
    fin_known E1 E2 E3 E4 E5 E6 E7 E8 E9.
Qed.

(* ---------- one element of the field array, the whole array ---------- *)
Lemma field_step e b pos a a' q fs : 1 <= pos -> proj fs = sproj a -> sp_field e b pos a = Some (a', q) ->
  exists code v, de_field e b pos = Ok (code, v, q) /\ code <> 0 /\
    ((9 < code /\ sproj a' = sproj a) \/ (code <= 9 /\ exists fs', set_field fs code v = Ok fs' /\ proj fs' = sproj a')).
Proof.
  intros Hpos Hj H. unfold sp_field in H.
  destruct (sp_align b pos 8) as [p|] eqn:Ea; [|discriminate].
  destruct (sp_byte b p) as [[code p1]|] eqn:Eb; [|discriminate].
  destruct (sp_string false e b p1) as [[sg p2]|] eqn:Es; [|discriminate].
  destruct (parse_sig sg) as [vs|] eqn:Ep; [|discriminate].
  assert (Hb : vs <> SUnit /\
               (if lbeq (show vs) sg then
                  if code =? 0 then None
                  else if code <=? 9 then sp_known code vs e b p2 a
                  else match sp_value vs field_value_depths e b p2 with
                       | Some p3 => Some ({| s_path := s_path a; s_iface := s_iface a; s_member := s_member a; s_errname := s_errname a;
                                             s_reply := s_reply a; s_dest := s_dest a; s_sender := s_sender a; s_sig := s_sig a;
                                             s_fds := s_fds a; s_unk := s_unk a + 1 |}, p3)
                       | None => None
                       end
                else None) = Some (a', q)).
  { destruct vs; try discriminate; (split; [discriminate|exact H]). }
  clear H. destruct Hb as [Hu H].
  destruct (lbeq (show vs) sg) eqn:El; [|discriminate].
  destruct (code =? 0) eqn:E0; [discriminate|].
  apply sp_align_ok in Ea. destruct Ea as [Ea _]. apply sp_byte_ok in Eb.
  pose proof (de_variant_tail e b p1 sg p2 vs Es Ep Hu El) as Hv.
  unfold de_field. rewrite Ea. cbn [bind]. rewrite Eb. cbn [bind]. rewrite Hv.
  exists code. destruct (code <=? 9) eqn:E9.
  - destruct (tail_known code vs e b p2 a a' q fs ltac:(lia) Hj H) as (v & fs' & Ht & Hs & Hj').
    exists v. rewrite Ht. cbn [bind]. split; [reflexivity|]. split; [lia|]. right. split; [lia|]. eauto.
  - destruct (sp_value vs field_value_depths e b p2) as [p3|] eqn:Ev; [|discriminate]. injection H as <- <-.
    destruct (tail_unknown _ _ _ _ _ Ev) as (v & Ht). exists v. rewrite Ht. cbn [bind].
    split; [reflexivity|]. split; [lia|]. left. split; [lia|reflexivity].
Qed.

Lemma fields_loop e b endp : forall fuel pos a a' fs, 1 <= pos -> proj fs = sproj a ->
  sp_fields fuel e b endp pos a = Some a' ->
  exists fs', de_fields_loop fuel e b endp pos fs = Ok (fs', endp) /\ proj fs' = sproj a'.
Proof.
  induction fuel as [|f IH]; intros pos a a' fs Hpos Hj H; cbn [sp_fields de_fields_loop] in *.
  - destruct (pos =? endp) eqn:E; [|discriminate]. injection H as <-. exists fs. split; [f_equal; f_equal; lia|exact Hj].
  - destruct (pos =? endp) eqn:E; [injection H as <-; exists fs; split; [f_equal; f_equal; lia|exact Hj]|].
    destruct (sp_field e b pos a) as [[a1 p3]|] eqn:Ef; [|discriminate].
    destruct (p3 <=? endp) eqn:El; [|discriminate].
    destruct (field_step e b pos a a1 p3 fs Hpos Hj Ef) as (code & v & Hd & Hc0 & Hcase).
    rewrite Hd. cbn [bind]. replace (endp <? p3) with false by lia. replace (code =? 0) with false by lia.
    apply de_field_ok in Hd; [|exact Hpos]. destruct Hd as (_ & Hlt & _).
    destruct Hcase as [[H9 Hs]|[H9 (fs1 & Hs & Hj1)]].
    + replace (9 <? code) with true by lia. apply (IH p3 a1 a' fs); [lia|rewrite Hs; exact Hj|exact H].
    + replace (9 <? code) with false by lia. rewrite Hs. cbn [bind]. apply (IH p3 a1 a' fs1); [lia|exact Hj1|exact H].
Qed.

(* ---------- a whole message ---------- *)
Lemma sp_u32_at e b pos n p : pos mod 4 = 0 -> sp_u32 e b pos = Some (n, p) -> de_u32 e b pos = Ok (n, pos + 4) /\ p = pos + 4 /\ pos + 4 <= len b /\ n < two32.
Proof.
  intros Hal H. pose proof (sp_u32_ok _ _ _ _ _ H) as Hd. pose proof (de_u32_ok _ _ _ _ _ Hd) as (_ & Hle & Hn).
  unfold sp_u32, sp_fixed in H. destruct (sp_align b pos 4) as [p0|] eqn:Ea; [|discriminate].
  apply sp_align_ok in Ea. destruct Ea as [_ ->]. rewrite (padding_0 pos 4) in H by (lia || exact Hal).
  unfold sp_take in H. destruct (pos + 0 + 4 <=? len b); [|discriminate]. injection H as _ <-.
  replace (pos + 0 + 4) with (pos + 4) in * by lia. auto.
Qed.
Lemma sp_byte_at b pos n p : sp_byte b pos = Some (n, p) -> de_u8 b pos = Ok (n, pos + 1) /\ n < 256.
Proof.
  intros H. apply sp_byte_ok in H. pose proof (de_u8_ok _ _ _ _ H) as (-> & _ & Hn). auto.
Qed.
Lemma endian_of_byte_inv c e : endian_of_byte c = Some e -> c = endian_byte e.
Proof.
  unfold endian_of_byte. destruct (beq c "l") eqn:E1; [intros [= <-]; apply Byte.byte_dec_bl in E1; exact E1|].
  destruct (beq c "B") eqn:E2; [intros [= <-]; apply Byte.byte_dec_bl in E2; exact E2|discriminate].
Qed.
Lemma ovalid_optb v o : ovalid v o -> optb v (omf o) = true.
Proof. destruct o as [[s st]|]; cbn; auto. Qed.

Theorem message_ok b sm : spec_parse b = Some sm -> 1 <= sm_type sm <= 4 ->
  exists m, from_raw_parts (ph_endian (hv_ph (sm_view sm))) b = Ok m /\ header m = Ok (sm_view sm) /\ body m = Ok (sm_body sm)
            /\ m_bytes m = b /\ ph_serial (m_ph m) = ph_serial (hv_ph (sm_view sm)).
Proof.
  intros H Hty. unfold spec_parse in H.
  destruct b as [|c0 r] eqn:Eb; [discriminate|]. rewrite <- Eb in *.
  destruct (endian_of_byte c0) as [e|] eqn:Ee; [|discriminate].
  destruct (sp_byte b 1) as [[ty q1]|] eqn:E1; [|discriminate].
  destruct (sp_byte b 2) as [[fl q2]|] eqn:E2; [|discriminate].
  destruct (sp_byte b 3) as [[ver q3]|] eqn:E3; [|discriminate].
  destruct (sp_u32 e b 4) as [[bl q4]|] eqn:E4; [|discriminate].
  destruct (sp_u32 e b 8) as [[sn q8]|] eqn:E8; [|discriminate].
  destruct (sp_u32 e b 12) as [[flen p]|] eqn:E12; [|discriminate].
  destruct ((ver =? 1) && negb (sn =? 0) && negb (ty =? 0) && (len b <=? max_message_size)) eqn:Ec; [|discriminate].
  apply andb_prop in Ec. destruct Ec as [Ec Emax]. apply andb_prop in Ec. destruct Ec as [Ec _].
  apply andb_prop in Ec. destruct Ec as [Ever Esn].
  destruct (sp_fields (S (length b)) e b (p + flen) p sfields_empty) as [a|] eqn:Ef; [|discriminate].
  destruct (sp_align b (p + flen) 8) as [off|] eqn:Eo; [|discriminate].
  destruct (off + bl =? len b) eqn:Elen; [|discriminate]. injection H as <-.
  cbn [sm_type sm_view sm_body hv_ph ph_endian ph_serial] in *.
  apply sp_byte_at in E1. destruct E1 as [D1 Hty']. apply sp_byte_at in E2. destruct E2 as [D2 Hfl]. apply sp_byte_at in E3. destruct E3 as [D3 Hver].
  apply sp_u32_at in E4; [|reflexivity]. destruct E4 as (D4 & _ & _ & Hbl).
  apply sp_u32_at in E8; [|reflexivity]. destruct E8 as (D8 & _ & _ & Hsn).
  apply sp_u32_at in E12; [|reflexivity]. destruct E12 as (D12 & -> & Hl16 & Hflen).
  change (12 + 4) with 16 in *. change (8 + 4) with 12 in *. change (4 + 4) with 8 in *.
  change (1 + 1) with 2 in *. change (2 + 1) with 3 in *. change (3 + 1) with 4 in *.
  apply sp_align_ok in Eo. destruct Eo as [_ Eoff].
  assert (D0 : de_u8 b 0 = Ok (bn c0, 1)).
  { rewrite Eb. change (c0 :: r) with ([] ++ c0 :: r). apply (de_u8_at [] c0 r 0). reflexivity. }
  (* primary header *)
  assert (Hprim : de_primary e b = Ok ({| ph_endian := e; ph_type := ty; ph_flags := fl mod 8; ph_version := ver; ph_body_len := bl; ph_serial := sn |}, 12)).
  { unfold de_primary. rewrite parse_padding_aligned by (reflexivity || lia). cbn [bind].
    rewrite D0. cbn [bind]. rewrite nb_bn, Ee. rewrite D1. cbn [bind].
    replace ((1 <=? ty) && (ty <=? 4)) with true by lia. cbn [negb].
    rewrite D2. cbn [bind]. rewrite D3. cbn [bind]. rewrite D4. cbn [bind]. rewrite D8. cbn [bind].
    apply Bool.negb_true_iff in Esn. rewrite Esn. reflexivity. }
  (* fields *)
  destruct (fields_loop e b (16 + flen) (S (length b)) 16 sfields_empty a fields_empty ltac:(lia) eq_refl Ef) as (fs & Hloop & Hj).
  assert (Hdf : de_fields e b = Ok (fs, 16 + flen)).
  { unfold de_fields. rewrite D12. cbn [bind]. rewrite parse_padding_aligned by (reflexivity || lia). cbn [bind]. exact Hloop. }
  pose proof (de_fields_ok _ _ _ _ Hdf) as Hinv.
  assert (Hlen32 : len b < two32) by (unfold max_message_size, two32 in *; lia).
  (* the message *)
  exists {| m_ph := {| ph_endian := e; ph_type := ty; ph_flags := fl mod 8; ph_version := ver; ph_body_len := bl; ph_serial := sn |};
            m_qf := quick_fields b fs; m_bytes := b; m_body_offset := off |}.
  split; [|split; [|split; [|split; reflexivity]]].
  - unfold from_raw_parts. rewrite Eb at 1. rewrite Ee, endian_eqb_refl. cbn [negb].
    rewrite Hprim. cbn [bind N.eqb Pos.eqb negb].
    unfold data_slice. replace (len b <? 12) with false by lia. cbn [bind]. rewrite D12. cbn [bind]. rewrite Hdf. cbn [bind].
    cbv zeta. rewrite <- Eoff. replace (len b <? off) with false by lia. reflexivity.
  - destruct Hinv as (I1 & I2 & I3 & I4 & I5 & I6 & V1 & V2 & V3 & V4 & V5 & V6).
    destruct (proj_eqs _ _ Hj) as (P1 & P2 & P3 & P4 & P5 & P6 & P7 & P8 & P9).
    unfold header. cbn [m_bytes m_qf m_ph quick_fields q_path q_iface q_member q_errname q_reply q_dest q_sender q_sig q_fds].
    rewrite (fp_read_exact validate_object_path _ _ I1 Hlen32 (ovalid_optb _ _ V1)). cbn [bind].
    rewrite (fp_read_exact validate_interface _ _ I2 Hlen32 (ovalid_optb _ _ V2)). cbn [bind].
    rewrite (fp_read_exact validate_member _ _ I3 Hlen32 (ovalid_optb _ _ V3)). cbn [bind].
    rewrite (fp_read_exact validate_error _ _ I4 Hlen32 (ovalid_optb _ _ V4)). cbn [bind].
    rewrite (fp_read_exact validate_bus _ _ I5 Hlen32 (ovalid_optb _ _ V5)). cbn [bind].
    rewrite (fp_read_exact validate_unique _ _ I6 Hlen32 (ovalid_optb _ _ V6)). cbn [bind].
    rewrite P1, P2, P3, P4, P5, P6, P7, P8, P9. reflexivity.
  - unfold body, data_slice. cbn [m_bytes m_body_offset]. replace (len b <? off) with false by lia. reflexivity.
Qed.
