(* C13/Tolerant.v — one header field, the field array, and a whole message: the model of the repaired code accepts
   everything the reference reader accepts (unknown field codes and flag bits included), with the same header view. *)
From ZV Require Import Base.Bytes Base.Res Base.Sig C10.Model C10.Spec C10.Proofs C11.Model C11.Spec C11.Lemmas C11.SigProofs
     C11.NamesAscii C11.Invariants C11.Proofs C13.Refine.
From Coq Require Import Lia ZifyBool ZifyN ZifyNat.
Open Scope N_scope.

(* the reference reader's fields, as the offset-free record of C11/Proofs.v *)
Definition sproj (a : sfields) : pfields :=
  {| p_path := s_path a; p_iface := s_iface a; p_member := s_member a; p_errname := s_errname a; p_reply := s_reply a;
     p_dest := s_dest a; p_sender := s_sender a; p_sig := match s_sig a with Some g => g | None => SUnit end; p_fds := s_fds a |}.

(* ---------- the variant of a header field ---------- *)
Lemma de_str_narrow_info e b p1 sg st p2 : de_str false e b p1 = Ok (sg, st, p2) ->
  exists lb, nth_error b (N.to_nat p1) = Some lb /\ bn lb = len sg /\ p2 = p1 + 1 + len sg + 1 /\ p2 <= len b
             /\ takeN (len sg) (dropN (p1 + 1) b) = sg.
Proof.
  intros H. pose proof (de_str_ok _ _ _ _ _ _ _ H) as (Ha & Hb & Hc & Hd & _).
  unfold de_str in H. apply bind_ok in H. destruct H as ([n p0] & H0 & H).
  pose proof (de_u8_nth _ _ _ _ H0) as (c & Hc1 & Hc2). apply de_u8_ok in H0. destruct H0 as (-> & _ & _).
  apply bind_ok in H. destruct H as ([s' q] & Hs & H). apply next_slice_ok in Hs. destruct Hs as (-> & _ & Es & Hl).
  destruct (has_nul s'); [discriminate|]. apply bind_ok in H. destruct H as ([z q2] & Hz & H).
  destruct (negb _); [discriminate|]. destruct (utf8_valid s'); [|discriminate]. injection H as <- <- <-.
  apply next_slice_ok in Hz. destruct Hz as (-> & Hz & _).
  exists c. rewrite Hl. repeat split; auto; try lia.
Qed.

(* what de_variant does once the signature is known to be the single complete type [vs] and the value starts at [vstart] *)
Definition variant_tail (vs : sig) (e : endian) (b : bytes) (vstart : N) : R (fval * N) :=
  match vs with
  | SStr => let* (s, st, p2) := de_str true e b vstart in Ok (FStr s st, p2)
  | SObjPath =>
      let* (s, st, p2) := de_str true e b vstart in
      if validate_object_path s then Ok (FPath s st, p2) else Err EData
  | SSig =>
      let* (s, _, p2) := de_str false e b vstart in
      match parse_sig s with Some g => Ok (FSig g, p2) | None => Err EData end
  | SU32 => let* (n, p2) := de_u32 e b vstart in Ok (FU32 n, p2)
  | _ => let* p2 := de_value 64 vs field_value_depths e b vstart in Ok (FOther, p2)
  end.

Lemma de_variant_tail e b p1 sg p2 vs :
  sp_string false e b p1 = Some (sg, p2) -> parse_sig sg = Some vs -> vs <> SUnit -> lbeq (show vs) sg = true ->
  de_variant e b p1 = variant_tail vs e b p2.
Proof.
  intros Hs Hp Hu Hl. apply sp_string_ok in Hs. destruct Hs as (st & Hs).
  destruct (de_str_narrow_info _ _ _ _ _ _ Hs) as (lb & Hn & Hlb & -> & Hle & Ht).
  apply lbeq_eq in Hl.
  unfold de_variant. rewrite Hs. cbn [bind]. rewrite Hp, Hn, Hlb.
  replace (len b <? p1 + 1 + len sg) with false by lia. rewrite Ht, Hp.
  replace ((match vs with SUnit => true | _ => false end) || negb (len (show vs) =? len sg)) with false.
  2:{ rewrite Hl, N.eqb_refl. destruct vs; try reflexivity. congruence. }
  replace (len b <? p1 + 1 + len sg + 1) with false by lia.
  unfold variant_tail. reflexivity.
Qed.

(* an ignored field: any valid value *)
Lemma tail_unknown vs e b p2 p3 : sp_value vs field_value_depths e b p2 = Some p3 -> exists v, variant_tail vs e b p2 = Ok (v, p3).
Proof.
  intros H. destruct vs; try (apply (sp_value_ok 64) in H; cbn [variant_tail]; rewrite H; cbn [bind]; eexists; reflexivity);
    cbn [sp_value] in H; cbn [variant_tail].
  - (* u32 *) destruct (sp_fixed b p2 4) as [[l q]|] eqn:E; [|discriminate]. injection H as ->.
    assert (Hu : sp_u32 e b p2 = Some (rd_u32 e l, p3)) by (unfold sp_u32; rewrite E; reflexivity).
    apply sp_u32_ok in Hu. rewrite Hu. cbn [bind]. eexists. reflexivity.
  - (* str *) destruct (sp_string true e b p2) as [[s q]|] eqn:E; [|discriminate]. injection H as ->.
    apply sp_string_ok in E. destruct E as (st & ->). cbn [bind]. eexists. reflexivity.
  - (* sig *) destruct (sp_string false e b p2) as [[s q]|] eqn:E; [|discriminate].
    apply sp_string_ok in E. destruct E as (st & ->). cbn [bind]. destruct (parse_sig s); [|discriminate]. injection H as ->. eexists. reflexivity.
  - (* path *) destruct (sp_string true e b p2) as [[s q]|] eqn:E; [|discriminate].
    apply sp_string_ok in E. destruct E as (st & ->). cbn [bind]. rewrite object_path_ok. destruct (spec_object_path s); [|discriminate].
    injection H as ->. eexists. reflexivity.
Qed.

(* a known field *)
Lemma proj_eqs fs a : proj fs = sproj a ->
  omf (f_path fs) = s_path a /\ omf (f_iface fs) = s_iface a /\ omf (f_member fs) = s_member a /\ omf (f_errname fs) = s_errname a
  /\ f_reply fs = s_reply a /\ omf (f_dest fs) = s_dest a /\ omf (f_sender fs) = s_sender a
  /\ f_sig fs = (match s_sig a with Some g => g | None => SUnit end) /\ f_fds fs = s_fds a.
Proof. unfold proj, sproj. intros [= -> -> -> -> -> -> -> -> ->]. repeat split. Qed.

Ltac fin_known E1 E2 E3 E4 E5 E6 E7 E8 E9 :=
  unfold proj, sproj;
  cbn [f_path f_iface f_member f_errname f_reply f_dest f_sender f_sig f_fds
       s_path s_iface s_member s_errname s_reply s_dest s_sender s_sig s_fds omf option_map fst];
  rewrite ?E1, ?E2, ?E3, ?E4, ?E5, ?E6, ?E7, ?E8, ?E9; reflexivity.

Lemma tail_known code vs e b p2 a a' p3 fs : 1 <= code <= 9 -> proj fs = sproj a -> sp_known code vs e b p2 a = Some (a', p3) ->
  exists v fs', variant_tail vs e b p2 = Ok (v, p3) /\ set_field fs code v = Ok fs' /\ proj fs' = sproj a'.
Proof.
  intros Hc Hj H. destruct (proj_eqs _ _ Hj) as (E1 & E2 & E3 & E4 & E5 & E6 & E7 & E8 & E9).
  unfold sp_known in H.
  assert (Hcases : code = 1 \/ code = 2 \/ code = 3 \/ code = 4 \/ code = 5 \/ code = 6 \/ code = 7 \/ code = 8 \/ code = 9) by lia.
  clear Hc.
  destruct Hcases as [->|[->|[->|[->|[->|[->|[->|[->| ->]]]]]]]]; destruct vs; try discriminate; cbn [variant_tail].
  all: try (destruct (sp_string true e b p2) as [[s q]|] eqn:Es; [|discriminate];
            match type of H with (if ?c then _ else _) = _ => destruct c eqn:Ec; [|discriminate] end;
            injection H as <- <-; apply andb_prop in Ec; destruct Ec as [Ev Enone];
            apply sp_string_ok in Es; destruct Es as (st & Es); rewrite Es; cbn [bind]).
  all: try (destruct (sp_u32 e b p2) as [[n q]|] eqn:Es; [|discriminate];
            match type of H with (if ?c then _ else _) = _ => destruct c eqn:Ec; [|discriminate] end;
            injection H as <- <-; apply sp_u32_ok in Es; rewrite Es; cbn [bind]).
  all: try (destruct (sp_string false e b p2) as [[s q]|] eqn:Es; [|discriminate];
            destruct (parse_sig s) as [g|] eqn:Eg; [|discriminate];
            match type of H with (if ?c then _ else _) = _ => destruct c eqn:Ec; [|discriminate] end;
            injection H as <- <-; apply sp_string_ok in Es; destruct Es as (st & Es); rewrite Es; cbn [bind]; rewrite Eg).
  - (* 1 path *) rewrite object_path_ok, Ev. eexists. eexists. split; [reflexivity|]. cbn [set_field]. split; [reflexivity|].
    fin_known E1 E2 E3 E4 E5 E6 E7 E8 E9.
  - (* 2 interface *) eexists. eexists. split; [reflexivity|]. cbn [set_field]. rewrite interface_ok, Ev. cbn [negb]. split; [reflexivity|].
    fin_known E1 E2 E3 E4 E5 E6 E7 E8 E9.
  - (* 3 member *) eexists. eexists. split; [reflexivity|]. cbn [set_field]. rewrite member_ok, Ev. cbn [negb]. split; [reflexivity|].
    fin_known E1 E2 E3 E4 E5 E6 E7 E8 E9.
  - (* 4 error name *) eexists. eexists. split; [reflexivity|]. cbn [set_field]. unfold validate_error. rewrite interface_ok, Ev. cbn [negb]. split; [reflexivity|].
    fin_known E1 E2 E3 E4 E5 E6 E7 E8 E9.
  - (* 5 reply serial *) apply andb_prop in Ec. destruct Ec as [En0 _]. eexists. eexists. split; [reflexivity|]. cbn [set_field].
    apply Bool.negb_true_iff in En0. rewrite En0. split; [reflexivity|].
    fin_known E1 E2 E3 E4 E5 E6 E7 E8 E9.
  - (* 6 destination *) eexists. eexists. split; [reflexivity|]. cbn [set_field]. rewrite bus_ok, Ev. split; [reflexivity|].
    fin_known E1 E2 E3 E4 E5 E6 E7 E8 E9.
  - (* 7 sender *) eexists. eexists. split; [reflexivity|]. cbn [set_field]. rewrite unique_ok, Ev. cbn [negb]. split; [reflexivity|].
    fin_known E1 E2 E3 E4 E5 E6 E7 E8 E9.
  - (* 8 signature *) eexists. eexists. split; [reflexivity|]. cbn [set_field]. split; [reflexivity|].
    fin_known E1 E2 E3 E4 E5 E6 E7 E8 E9.
  - (* 9 unix fds *) eexists. eexists. split; [reflexivity|]. cbn [set_field]. split; [reflexivity|].
    fin_known E1 E2 E3 E4 E5 E6 E7 E8 E9.
Qed.
