(* C13/Model.v — the reader side of a connection fed with a raw byte stream followed by end-of-stream:
   socket::ReadHalf::receive_message (framing) + Message::from_raw_parts + SocketReader::receive_msg (first error is
   broadcast, then every sender is dropped and the task returns).  No proofs here.

   Assumed contract of the socket (C14's subject): `recvmsg` hands over the bytes of the stream in order, in pieces of
   any size, and returns 0 at end-of-stream; the loop's outcome then depends on the concatenated stream only.
   Every connection owns two rule-filtered senders (method returns / errors, Connection::new), so the reader task
   evaluates `rule.matches(&msg)`, whose first statement is `msg.header()`: if that panics the task dies on the
   executor thread and nothing is delivered any more — the model's [IHang]. *)
From ZV Require Import Base.Bytes Base.Res Base.Sig C11.Model C11.Spec.
Open Scope N_scope.

(* PrimaryHeader::read(&bytes[..16]) *)
Definition primary_read (buf : bytes) : R (phdr * N) :=
  match buf with
  | [] => Panic PIndex
  | c :: _ =>
      match endian_of_byte c with
      | None => Err EIncorrectEndian
      | Some e =>
          let* (ph, size) := de_primary e buf in
          if negb (size =? 12) then Panic PAssert
          else
            let* _ := data_slice buf 12 in
            let* (fl, _) := de_u32 e buf 12 in
            Ok (ph, fl)
      end
  end.

Inductive frame_res := FrEof | FrErr | FrPanic | FrMsg (e : endian) (bytes rest : bytes).

(* receive_message: 16 bytes, total length from the fixed header, the rest of the message *)
Definition next_frame (stream : bytes) : frame_res :=
  if len stream <? 16 then FrEof                                   (* recvmsg returned 0 before a full fixed header *)
  else
    match primary_read (takeN 16 stream) with
    | Panic _ => FrPanic
    | Err _ => FrErr
    | Ok (ph, fields_len) =>
        let header_len := 16 + fields_len in
        let total := header_len + padding header_len 8 + ph_body_len ph in
        if max_message_size <? total then FrErr                    (* ExcessData *)
        else if len stream <? total then FrEof
        else FrMsg (ph_endian ph) (takeN total stream) (dropN total stream)
    end.

Fixpoint reader_loop (fuel : nat) (stream : bytes) : list item :=
  match fuel with
  | O => [IFuel]
  | S f =>
      match next_frame stream with
      | FrEof => [IErrIo; IEnd]
      | FrErr => [IErrMsg; IEnd]
      | FrPanic => [IHang]
      | FrMsg e bytes rest =>
          match from_raw_parts e bytes with
          | Panic _ => [IHang]
          | Err _ => [IErrMsg; IEnd]
          | Ok m =>
              match header m with
              | Panic _ => [IHang]                                  (* rule.matches(msg) in the reader task *)
              | _ => IMsg (ph_serial (m_ph m)) :: reader_loop f rest
              end
          end
      end
  end.

Definition read_stream (stream : bytes) : list item := reader_loop (S (length stream)) stream.
