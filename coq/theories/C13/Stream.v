(* C13/Stream.v — framing: the reader of the model cuts a stream exactly where the reference reader does. *)
From ZV Require Import Base.Bytes Base.Res Base.Sig C10.Model C11.Model C11.Spec C11.Lemmas C11.Invariants C11.Proofs
     C13.Model C13.Spec C13.Refine C13.Tolerant.
From Coq Require Import Lia ZifyBool ZifyN ZifyNat.
Open Scope N_scope.

(* ---------- reading inside a prefix ---------- *)
Lemma take_take_nat {A} : forall (s : list A) (n p k : nat), (p + n <= k)%nat ->
  firstn n (skipn p (firstn k s)) = firstn n (skipn p s).
Proof.
  induction s as [|x t IH]; intros n p k H.
  - rewrite firstn_nil, !skipn_nil. reflexivity.
  - destruct k as [|k']; [replace p with 0%nat by lia; replace n with 0%nat by lia; reflexivity|].
    cbn [firstn]. destruct p as [|p'].
    + cbn [skipn]. destruct n as [|n']; [reflexivity|]. cbn [firstn]. f_equal.
      specialize (IH n' 0%nat k'). cbn [skipn] in IH. apply IH. lia.
    + cbn [skipn]. apply IH. lia.
Qed.
Lemma take_take (s : bytes) pos n k : pos + n <= k -> takeN n (dropN pos (takeN k s)) = takeN n (dropN pos s).
Proof. intros H. unfold takeN, dropN. apply take_take_nat. lia. Qed.
Lemma len_take (s : bytes) k : k <= len s -> len (takeN k s) = k.
Proof. apply len_takeN. Qed.

Lemma next_slice_prefix s k pos n : pos + n <= k -> k <= len s -> next_slice (takeN k s) pos n = next_slice s pos n.
Proof.
  intros H Hk. unfold next_slice. rewrite len_take by exact Hk.
  replace (k <? pos + n) with false by lia. replace (len s <? pos + n) with false by lia. rewrite take_take by exact H. reflexivity.
Qed.
Lemma parse_padding_prefix s k pos a : pos + padding pos a <= k -> k <= len s -> parse_padding (takeN k s) pos a = parse_padding s pos a.
Proof.
  intros H Hk. unfold parse_padding. destruct (padding pos a =? 0); [reflexivity|]. rewrite len_take by exact Hk.
  replace (k <? pos + padding pos a) with false by lia. replace (len s <? pos + padding pos a) with false by lia.
  rewrite take_take by exact H. reflexivity.
Qed.
Lemma de_u8_prefix s k pos : pos + 1 <= k -> k <= len s -> de_u8 (takeN k s) pos = de_u8 s pos.
Proof. intros H Hk. unfold de_u8. rewrite next_slice_prefix by assumption. reflexivity. Qed.
Lemma de_u32_prefix e s k pos : pos mod 4 = 0 -> pos + 4 <= k -> k <= len s -> de_u32 e (takeN k s) pos = de_u32 e s pos.
Proof.
  intros Hal H Hk. unfold de_u32. rewrite !parse_padding_aligned by (lia || exact Hal). cbn [bind].
  rewrite next_slice_prefix by assumption. reflexivity.
Qed.

(* ---------- the fixed header of a message the reference reader accepts ---------- *)
Record hdr_reads (e : endian) (b : bytes) (c0 : byte) (ty fl ver bl sn flen : N) : Prop := {
  hr_first : exists r, b = c0 :: r;
  hr_endian : endian_of_byte c0 = Some e;
  hr_0 : de_u8 b 0 = Ok (bn c0, 1); hr_1 : de_u8 b 1 = Ok (ty, 2); hr_2 : de_u8 b 2 = Ok (fl, 3); hr_3 : de_u8 b 3 = Ok (ver, 4);
  hr_4 : de_u32 e b 4 = Ok (bl, 8); hr_8 : de_u32 e b 8 = Ok (sn, 12); hr_12 : de_u32 e b 12 = Ok (flen, 16);
  hr_sn : sn <> 0; hr_len16 : 16 <= len b }.

Lemma primary_from_reads e b c0 ty fl ver bl sn flen : hdr_reads e b c0 ty fl ver bl sn flen -> 1 <= ty <= 4 ->
  de_primary e b = Ok ({| ph_endian := e; ph_type := ty; ph_flags := fl mod 8; ph_version := ver; ph_body_len := bl; ph_serial := sn |}, 12).
Proof.
  intros [_ He D0 D1 D2 D3 D4 D8 _ Hsn _] Hty.
  unfold de_primary. rewrite parse_padding_aligned by (reflexivity || lia). cbn [bind].
  rewrite D0. cbn [bind]. rewrite nb_bn, He. rewrite D1. cbn [bind].
  replace ((1 <=? ty) && (ty <=? 4)) with true by lia. cbn [negb].
  rewrite D2. cbn [bind]. rewrite D3. cbn [bind]. rewrite D4. cbn [bind]. rewrite D8. cbn [bind].
  replace (sn =? 0) with false by lia. reflexivity.
Qed.

Lemma spec_parse_reads b sm : spec_parse b = Some sm ->
  exists e c0 fl ver bl flen,
    hdr_reads e b c0 (sm_type sm) fl ver bl (ph_serial (hv_ph (sm_view sm))) flen
    /\ ph_endian (hv_ph (sm_view sm)) = e
    /\ len b = 16 + flen + padding (16 + flen) 8 + bl /\ len b <= max_message_size.
Proof.
  intros H. unfold spec_parse in H.
  destruct b as [|c0 r] eqn:Eb; [discriminate|]. rewrite <- Eb in *.
  destruct (endian_of_byte c0) as [e|] eqn:Ee; [|discriminate].
  destruct (sp_byte b 1) as [[ty q1]|] eqn:E1; [|discriminate].
  destruct (sp_byte b 2) as [[fl q2]|] eqn:E2; [|discriminate].
  destruct (sp_byte b 3) as [[ver q3]|] eqn:E3; [|discriminate].
  destruct (sp_u32 e b 4) as [[bl q4]|] eqn:E4; [|discriminate].
  destruct (sp_u32 e b 8) as [[sn q8]|] eqn:E8; [|discriminate].
  destruct (sp_u32 e b 12) as [[flen p]|] eqn:E12; [|discriminate].
  destruct ((ver =? 1) && negb (sn =? 0) && negb (ty =? 0) && (len b <=? max_message_size)) eqn:Ec; [|discriminate].
  apply andb_prop in Ec. destruct Ec as [Ec Emax]. apply andb_prop in Ec. destruct Ec as [Ec _].
  apply andb_prop in Ec. destruct Ec as [Ever Esn].
  destruct (sp_fields (S (length b)) e b (p + flen) p sfields_empty) as [a|] eqn:Ef; [|discriminate].
  destruct (sp_align b (p + flen) 8) as [off|] eqn:Eo; [|discriminate].
  destruct (off + bl =? len b) eqn:Elen; [|discriminate]. injection H as <-.
  cbn [sm_type sm_view hv_ph ph_endian ph_serial].
  apply sp_byte_at in E1. destruct E1 as [D1 _]. apply sp_byte_at in E2. destruct E2 as [D2 _]. apply sp_byte_at in E3. destruct E3 as [D3 _].
  apply sp_u32_at in E4; [|reflexivity]. destruct E4 as (D4 & _ & _ & _).
  apply sp_u32_at in E8; [|reflexivity]. destruct E8 as (D8 & _ & _ & _).
  apply sp_u32_at in E12; [|reflexivity]. destruct E12 as (D12 & -> & Hl16 & _).
  change (12 + 4) with 16 in *. change (8 + 4) with 12 in *. change (4 + 4) with 8 in *.
  change (1 + 1) with 2 in *. change (2 + 1) with 3 in *. change (3 + 1) with 4 in *.
  apply sp_align_ok in Eo. destruct Eo as [_ Eoff].
  exists e, c0, fl, ver, bl, flen. split; [|split; [reflexivity|split; lia]].
  constructor; auto; try lia.
  - exists r. exact Eb.
  - rewrite Eb. change (c0 :: r) with ([] ++ c0 :: r). apply (de_u8_at [] c0 r 0). reflexivity.
Qed.

(* ---------- one frame ---------- *)
Lemma frame_spec stream n sm : spec_frame_len stream = Some n -> n <= len stream -> spec_parse (takeN n stream) = Some sm ->
  1 <= sm_type sm <= 4 ->
  next_frame stream = FrMsg (ph_endian (hv_ph (sm_view sm))) (takeN n stream) (dropN n stream).
Proof.
  intros Hfl Hn Hsp Hty. set (fr := takeN n stream) in *.
  assert (Hlfr : len fr = n) by (apply len_take; exact Hn).
  destruct (spec_parse_reads fr sm Hsp) as (e & c0 & fl & ver & bl & flen & Hr & He & Hlen & Hmax).
  rewrite He. pose proof Hr as [[r Efr] Hend D0 D1 D2 D3 D4 D8 D12 Hsn Hl16].
  assert (H16 : 16 <= n) by lia.
  assert (Ex : takeN 16 stream = takeN 16 fr).
  { subst fr. unfold takeN. rewrite firstn_firstn. f_equal. lia. }
  (* the reads inside the first 16 bytes *)
  assert (Hr16 : hdr_reads e (takeN 16 fr) c0 (sm_type sm) fl ver bl (ph_serial (hv_ph (sm_view sm))) flen).
  { constructor; auto.
    - rewrite Efr. unfold takeN. cbn. eexists. reflexivity.
    - rewrite de_u8_prefix by lia. exact D0.
    - rewrite de_u8_prefix by lia. exact D1.
    - rewrite de_u8_prefix by lia. exact D2.
    - rewrite de_u8_prefix by lia. exact D3.
    - rewrite de_u32_prefix by (reflexivity || lia). exact D4.
    - rewrite de_u32_prefix by (reflexivity || lia). exact D8.
    - rewrite de_u32_prefix by (reflexivity || lia). exact D12.
    - rewrite len_take by lia. lia. }
  (* the declared lengths read from the stream are the ones read from the frame *)
  assert (Hn' : n = 16 + flen + padding (16 + flen) 8 + bl) by lia.
  unfold next_frame. replace (len stream <? 16) with false by lia. rewrite Ex.
  unfold primary_read. pose proof Hr16 as Hr16'. destruct Hr16 as [[r16 E16] _ _ _ _ _ _ _ D12' _ Hl]. rewrite E16. rewrite <- E16. rewrite Hend.
  rewrite (primary_from_reads e (takeN 16 fr) c0 (sm_type sm) fl ver bl _ flen Hr16' Hty).
  cbn [bind N.eqb Pos.eqb negb]. unfold data_slice. replace (len (takeN 16 fr) <? 12) with false by lia. cbn [bind].
  rewrite D12'. cbn [bind ph_body_len ph_endian].
  rewrite <- Hn'. replace (max_message_size <? n) with false by lia. replace (len stream <? n) with false by lia.
  reflexivity.
Qed.
