(* C13/Spec.v — forward compatibility: which inputs are "valid except for something unknown to this version". *)
From ZV Require Import Base.Bytes Base.Res Base.Sig C11.Model C11.Spec.
Open Scope N_scope.

Inductive c13class := UFlag | UType | UField | UNone.

(* decided by the reference reader of C11/Spec.v alone (not by the model of the code) *)
Definition classify13 (b : bytes) : c13class :=
  match spec_parse b with
  | Some m => if 8 <=? sm_raw_flags m then UFlag
              else if 4 <? sm_type m then UType
              else if 0 <? sm_unknown_fields m then UField
              else UNone
  | None => UNone
  end.

Definition class13_name (c : c13class) : bytes :=
  match c with UFlag => B "unknown_flag" | UType => B "unknown_type" | UField => B "unknown_field" | UNone => B "-" end.

(* class of a stream = class of its first odd message *)
Fixpoint stream_class13 (fuel : nat) (stream : bytes) : c13class :=
  match fuel with
  | O => UNone
  | S f =>
      match spec_frame_len stream with
      | Some n =>
          if (n <=? len stream) && (0 <? n) then
            match classify13 (takeN n stream) with
            | UNone => stream_class13 f (dropN n stream)
            | c => c
            end
          else UNone
      | None => UNone
      end
  end.

(* every message of the stream (as the reference reader frames it) has a type known to this version *)
Fixpoint stream_types_known (fuel : nat) (stream : bytes) : bool :=
  match fuel with
  | O => true
  | S f =>
      match spec_frame_len stream with
      | Some n =>
          if (n <=? len stream) && (0 <? n) then
            match spec_parse (takeN n stream) with
            | Some m => (1 <=? sm_type m) && (sm_type m <=? 4) && stream_types_known f (dropN n stream)
            | None => true
            end
          else true
      | None => true
      end
  end.
