(* C13/Refine.v — whatever the reference reader of C11/Spec.v accepts, the model of the code accepts, with the same
   result: primitives, values of any variant-free type, one header field, the field array. *)
From ZV Require Import Base.Bytes Base.Res Base.Sig C10.Model C10.Spec C10.Proofs C11.Model C11.Spec C11.Lemmas C11.SigProofs
     C11.NamesAscii C11.Invariants C11.Proofs.
From Coq Require Import Lia ZifyBool ZifyN ZifyNat.
Open Scope N_scope.

(* ---------- primitives ---------- *)
Lemma sp_take_ok b pos n s p : sp_take b pos n = Some (s, p) -> next_slice b pos n = Ok (s, p).
Proof.
  unfold sp_take, next_slice. destruct (pos + n <=? len b) eqn:E; [|discriminate]. intros [= <- <-].
  replace (len b <? pos + n) with false by lia. reflexivity.
Qed.
Lemma sp_align_ok b pos a p : sp_align b pos a = Some p -> parse_padding b pos a = Ok p /\ p = pos + padding pos a.
Proof.
  unfold sp_align, sp_take, parse_padding. destruct (pos + padding pos a <=? len b) eqn:E; [|discriminate].
  destruct (all_zero _) eqn:Ez; [|discriminate]. intros [= <-].
  destruct (padding pos a =? 0) eqn:E0.
  - split; [f_equal; lia|reflexivity].
  - replace (len b <? pos + padding pos a) with false by lia. split; reflexivity.
Qed.
Lemma sp_fixed_ok b pos a l p : sp_fixed b pos a = Some (l, p) -> de_fixed b pos a = Ok p.
Proof.
  unfold sp_fixed, de_fixed. destruct (sp_align b pos a) as [p0|] eqn:Ea; [|discriminate]. intros H.
  apply sp_align_ok in Ea. destruct Ea as [-> _]. cbn [bind]. apply sp_take_ok in H. rewrite H. reflexivity.
Qed.
Lemma sp_u32_ok e b pos n p : sp_u32 e b pos = Some (n, p) -> de_u32 e b pos = Ok (n, p).
Proof.
  unfold sp_u32, sp_fixed, de_u32. destruct (sp_align b pos 4) as [p0|] eqn:Ea; [|discriminate].
  destruct (sp_take b p0 4) as [[l p1]|] eqn:Et; [|discriminate]. intros [= <- <-].
  apply sp_align_ok in Ea. destruct Ea as [-> _]. cbn [bind]. apply sp_take_ok in Et. rewrite Et. reflexivity.
Qed.
Lemma sp_byte_ok b pos n p : sp_byte b pos = Some (n, p) -> de_u8 b pos = Ok (n, p).
Proof.
  unfold sp_byte, de_u8. destruct (sp_take b pos 1) as [[l p1]|] eqn:Et; [|discriminate].
  destruct l as [|c l']; [discriminate|]. intros [= <- <-]. apply sp_take_ok in Et. rewrite Et. reflexivity.
Qed.
Lemma sp_string_ok w e b pos s p : sp_string w e b pos = Some (s, p) -> exists st, de_str w e b pos = Ok (s, st, p).
Proof.
  unfold sp_string, de_str. intros H.
  destruct (if w then sp_u32 e b pos else sp_byte b pos) as [[n p0]|] eqn:En; [|discriminate].
  assert (Hn : (if w then de_u32 e b pos else de_u8 b pos) = Ok (n, p0)).
  { destruct w; [apply sp_u32_ok|apply sp_byte_ok]; exact En. }
  destruct (sp_take b p0 n) as [[s' p1]|] eqn:Es; [|discriminate].
  destruct (sp_take b p1 1) as [[z p2]|] eqn:Ez; [|discriminate].
  destruct z as [|z0 [|? ?]]; try discriminate.
  destruct ((bn z0 =? 0) && negb (has_nul s') && utf8_valid s') eqn:Ec; [|discriminate]. injection H as <- <-.
  apply andb_prop in Ec. destruct Ec as [Ec Eu]. apply andb_prop in Ec. destruct Ec as [E0 Enul].
  apply sp_take_ok in Es. apply sp_take_ok in Ez. apply Bool.negb_true_iff in Enul.
  eexists. destruct w; cbv beta iota in Hn |- *; rewrite Hn; cbn [bind]; rewrite Es; cbn [bind]; rewrite Enul; rewrite Ez; cbn [bind];
    unfold all_zero; cbn [forallb]; rewrite E0; cbn [andb negb]; rewrite Eu; reflexivity.
Qed.

Lemma sp_inc_arr d d' : sp_inc 1 d = Some d' -> inc_array d = Ok d'.
Proof.
  unfold sp_inc, inc_array, depth_check. cbn [d_struct d_array d_variant].
  destruct (_ && _) eqn:E; [|discriminate]. intros [= <-]. cbn [d_struct d_array d_variant].
  replace (32 <? d_struct d) with false by lia. replace (32 <? d_array d + 1) with false by lia.
  replace (64 <? _) with false by lia. reflexivity.
Qed.
Lemma sp_inc_struct d d' : sp_inc 0 d = Some d' -> inc_struct d = Ok d'.
Proof.
  unfold sp_inc, inc_struct, depth_check. cbn [d_struct d_array d_variant].
  destruct (_ && _) eqn:E; [|discriminate]. intros [= <-]. cbn [d_struct d_array d_variant].
  replace (32 <? d_struct d + 1) with false by lia. replace (32 <? d_array d) with false by lia.
  replace (64 <? _) with false by lia. reflexivity.
Qed.

(* ---------- values ---------- *)
Lemma sp_arr_loop_ok selem elem b al endp : (forall q p, selem q = Some p -> elem q = Ok p) ->
  forall k q p, sp_arr_loop selem b al endp k q = Some p -> arr_loop elem b al endp k q = Ok p.
Proof.
  intros He. induction k as [|k IH]; intros q p H; cbn [sp_arr_loop arr_loop] in *; destruct (q =? endp); try discriminate;
    try (injection H as <-; reflexivity).
  destruct (sp_align b q al) as [q1|] eqn:Ea; [|discriminate]. apply sp_align_ok in Ea. destruct Ea as [-> _]. cbn [bind].
  destruct (selem q1) as [q2|] eqn:Ee; [|discriminate]. rewrite (He _ _ Ee). cbn [bind].
  destruct (q2 <=? endp) eqn:El; [|discriminate]. replace (endp <? q2) with false by lia. apply IH. exact H.
Qed.
Lemma sp_dict_loop_ok skd svd kd vd b endp : (forall q p, skd q = Some p -> kd q = Ok p) -> (forall q p, svd q = Some p -> vd q = Ok p) ->
  forall k q p, sp_dict_loop skd svd b endp k q = Some p -> dict_loop kd vd b endp k q = Ok p.
Proof.
  intros Hk Hv. induction k as [|k IH]; intros q p H; cbn [sp_dict_loop dict_loop] in *; destruct (q =? endp); try discriminate;
    try (injection H as <-; reflexivity).
  destruct (sp_align b q 8) as [q1|] eqn:Ea; [|discriminate]. apply sp_align_ok in Ea. destruct Ea as [-> _]. cbn [bind].
  destruct (skd q1) as [q2|] eqn:Ek; [|discriminate]. rewrite (Hk _ _ Ek). cbn [bind].
  destruct (q2 <=? endp) eqn:El; [|discriminate]. replace (endp <? q2) with false by lia.
  destruct (svd q2) as [q3|] eqn:Ev; [|discriminate]. rewrite (Hv _ _ Ev). cbn [bind].
  destruct (q3 <=? endp) eqn:El3; [|discriminate]. replace (endp <? q3) with false by lia. apply IH. exact H.
Qed.
Lemma sp_struct_go_ok sfld fld l : Forall (fun f => forall q p, sfld f q = Some p -> fld f q = Ok p) l ->
  forall q p, sp_struct_go sfld l q = Some p -> struct_go fld l q = Ok p.
Proof.
  induction 1 as [|f r Hf Hr IH]; intros q p H; cbn [sp_struct_go struct_go] in *; [injection H as <-; reflexivity|].
  destruct (sfld f q) as [q'|] eqn:E; [|discriminate]. rewrite (Hf _ _ E). cbn [bind]. apply IH. exact H.
Qed.

(* a valid value of any variant-free, descriptor-free type is decoded, to the same extent *)
Lemma sp_value_ok vf : forall s d e b pos p, sp_value s d e b pos = Some p -> de_value vf s d e b pos = Ok p.
Proof.
  induction s using sig_ind'; intros d e b pos p Hs; rewrite de_value_eq; cbn [sp_value] in Hs; try discriminate.
  - (* u8 *) destruct (sp_take b pos 1) as [[l q]|] eqn:E; [|discriminate]. injection Hs as <-.
    apply sp_take_ok in E. rewrite E. reflexivity.
  - (* bool *) destruct (sp_u32 e b pos) as [[n q]|] eqn:E; [|discriminate]. apply sp_u32_ok in E. rewrite E. cbn [bind]. destruct (n <=? 1); congruence.
  - destruct (sp_fixed b pos 2) as [[l q]|] eqn:E; [|discriminate]. injection Hs as <-. eapply sp_fixed_ok; eauto.
  - destruct (sp_fixed b pos 2) as [[l q]|] eqn:E; [|discriminate]. injection Hs as <-. eapply sp_fixed_ok; eauto.
  - destruct (sp_fixed b pos 4) as [[l q]|] eqn:E; [|discriminate]. injection Hs as <-. eapply sp_fixed_ok; eauto.
  - destruct (sp_fixed b pos 4) as [[l q]|] eqn:E; [|discriminate]. injection Hs as <-. eapply sp_fixed_ok; eauto.
  - destruct (sp_fixed b pos 8) as [[l q]|] eqn:E; [|discriminate]. injection Hs as <-. eapply sp_fixed_ok; eauto.
  - destruct (sp_fixed b pos 8) as [[l q]|] eqn:E; [|discriminate]. injection Hs as <-. eapply sp_fixed_ok; eauto.
  - destruct (sp_fixed b pos 8) as [[l q]|] eqn:E; [|discriminate]. injection Hs as <-. eapply sp_fixed_ok; eauto.
  - (* str *) destruct (sp_string true e b pos) as [[s' q]|] eqn:E; [|discriminate]. injection Hs as <-.
    apply sp_string_ok in E. destruct E as (st & ->). reflexivity.
  - (* sig *) destruct (sp_string false e b pos) as [[s' q]|] eqn:E; [|discriminate].
    apply sp_string_ok in E. destruct E as (st & ->). cbn [bind]. destruct (parse_sig s'); congruence.
  - (* path *) destruct (sp_string true e b pos) as [[s' q]|] eqn:E; [|discriminate].
    apply sp_string_ok in E. destruct E as (st & ->). cbn [bind]. rewrite object_path_ok. destruct (spec_object_path s'); congruence.
  - (* array *)
    destruct (sp_inc 1 d) as [d'|] eqn:Ed; [|discriminate]. destruct (sp_u32 e b pos) as [[n p1]|] eqn:Eu; [|discriminate].
    destruct (sp_align b p1 (align_dbus s)) as [start|] eqn:Ea; [|discriminate].
    pose proof (sp_u32_ok _ _ _ _ _ Eu) as Hu. unfold de_u32 in Hu. apply bind_ok in Hu. destruct Hu as (p0 & Hp0 & Hu).
    rewrite Hp0. cbn [bind]. rewrite (sp_inc_arr _ _ Ed). cbn [bind].
    assert (Hu' : de_u32 e b p0 = Ok (n, p1)).
    { unfold de_u32. apply parse_padding_mod in Hp0; [|lia]. subst p0.
      rewrite parse_padding_aligned by (try lia; apply padding_aligned; lia). cbn [bind]. exact Hu. }
    rewrite Hu'. cbn [bind]. apply sp_align_ok in Ea. destruct Ea as [-> _]. cbn [bind].
    eapply sp_arr_loop_ok; [|exact Hs]. intros q p'. apply IHs.
  - (* dict *)
    destruct (sp_inc 1 d) as [d'|] eqn:Ed; [|discriminate]. destruct (sp_u32 e b pos) as [[n p1]|] eqn:Eu; [|discriminate].
    destruct (sp_align b p1 8) as [start|] eqn:Ea; [|discriminate].
    pose proof (sp_u32_ok _ _ _ _ _ Eu) as Hu. unfold de_u32 in Hu. apply bind_ok in Hu. destruct Hu as (p0 & Hp0 & Hu).
    rewrite Hp0. cbn [bind]. rewrite (sp_inc_arr _ _ Ed). cbn [bind].
    assert (Hu' : de_u32 e b p0 = Ok (n, p1)).
    { unfold de_u32. apply parse_padding_mod in Hp0; [|lia]. subst p0.
      rewrite parse_padding_aligned by (try lia; apply padding_aligned; lia). cbn [bind]. exact Hu. }
    rewrite Hu'. cbn [bind]. apply sp_align_ok in Ea. destruct Ea as [-> _]. cbn [bind].
    eapply sp_dict_loop_ok; [| |exact Hs]; intros q p'; [apply IHs1|apply IHs2].
  - (* struct *)
    destruct (sp_align b pos 8) as [p0|] eqn:Ea; [|discriminate]. destruct (sp_inc 0 d) as [d'|] eqn:Ed; [|discriminate].
    apply sp_align_ok in Ea. destruct Ea as [-> _]. cbn [bind]. rewrite (sp_inc_struct _ _ Ed). cbn [bind].
    eapply sp_struct_go_ok; [|exact Hs]. revert H. apply Forall_impl. intros f Hf q p'. apply Hf.
Qed.
