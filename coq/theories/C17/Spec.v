(* C17/Spec.v — what the property demands of the client side of the SASL handshake, written from the property
   text and the D-Bus specification, not from the code.

   The server's stream is a sequence of lines terminated by CR LF, followed by D-Bus messages.
   * The first line must be  OK <guid>  with a valid GUID (32 hex digits), equal to the expected one when one was
     given; anything else must make the handshake fail.
   * If (and only if) the transport can pass fds the client has asked NEGOTIATE_UNIX_FD, and the second line answers
     it:  AGREE_UNIX_FD enables fd passing,  ERROR <..> leaves it disabled;  on anything else the client may fail
     or go on without fd passing, but must not enable it.
   * Everything after these lines (and every fd received) belongs to the message stream.
   * No input makes the client panic.

   From C16 the words-of-a-line reading ([tokens], [cut_line], [is_ascii]) and the observation record are reused;
   from Model only the observable [outcome]. *)
From ZV Require Import Base.Bytes C16.Model C16.Spec C17.Model.

Record cctx := mkCctx { y_expected : option bytes; y_fdcap : bool }.

(* the GUID of an  OK <guid> [...]  line *)
Definition ok_guid (body : bytes) : option bytes :=
  match tokens body with
  | w :: g :: _ => if lbeq w (B "OK") && guid_ok g then Some g else None
  | _ => None
  end.

Definition guid_expected (y : cctx) (g : bytes) : bool :=
  match y_expected y with None => true | Some e => lbeq e g end.

Inductive answer := AAgree | ARefuse | AOther.
Definition fd_answer (body : bytes) : answer :=
  match tokens body with
  | w :: _ => if lbeq w (B "AGREE_UNIX_FD") then AAgree else if lbeq w (B "ERROR") then ARefuse else AOther
  | [] => AOther
  end.

Inductive cverdict :=
| CVDone (fd : bool) (tail : bytes)     (* completes; fd passing enabled?; the rest is the message stream *)
| CVFail                                 (* must end with an error *)
| CVNoFd (tail : bytes)                  (* may fail, or complete without fd passing and with this rest *)
| CVUnclear.                             (* only: no panic *)

(* one handshake line: the body of a well-terminated ASCII line and what follows it *)
Inductive line_res :=
| LEof                     (* the stream ends inside the line *)
| LUnclear (rest : bytes)  (* LF without CR (also a bare LF), or non-ASCII bytes *)
| LLine (body rest : bytes).

Definition next_line (s : bytes) : line_res :=
  match cut_line s with
  | None => LEof
  | Some (seg, rest) =>
      match rev seg with
      | [] => LUnclear rest
      | last :: rbody =>
          if negb (beq last x0d) then LUnclear rest
          else if negb (is_ascii (rev rbody)) then LUnclear rest
          else LLine (rev rbody) rest
      end
  end.

Definition spec_client (y : cctx) (s : bytes) : cverdict :=
  match next_line s with
  | LEof => CVFail
  | LUnclear _ => CVUnclear
  | LLine body rest =>
      match ok_guid body with
      | None => CVFail
      | Some g =>
          if negb (guid_expected y g) then CVFail
          else if negb (y_fdcap y) then CVDone false rest
          else
            match next_line rest with
            | LEof => CVFail
            | LUnclear _ => CVUnclear
            | LLine body2 rest2 =>
                match fd_answer body2 with
                | AAgree => CVDone true rest2
                | ARefuse => CVDone false rest2
                | AOther => CVNoFd rest2
                end
            end
      end
  end.

(* the oracle on an observation; [all_fds]: every fd the server attached to the stream, in order *)
Definition done_with (fd : bool) (tail : bytes) (all_fds : list N) (o : obs) : bool :=
  match ob_stat o with
  | StDone => Bool.eqb fd (ob_fd o) && lbeq tail (ob_tail o) && list_N_eqb all_fds (ob_fds o)
  | _ => false
  end.

Definition cconforms (v : cverdict) (all_fds : list N) (o : obs) : bool :=
  match v with
  | CVDone fd tail => done_with fd tail all_fds o
  | CVFail => match ob_stat o with StErr => true | _ => false end
  | CVNoFd tail => match ob_stat o with StErr => true | _ => done_with false tail all_fds o end
  | CVUnclear => match ob_stat o with StPanic => false | _ => true end
  end.

Definition cctx_of (cfg : ccfg) : cctx := mkCctx (cc_expected cfg) (cc_fdcap cfg).
