(* C17/Run.v — line driver (two-phase):
   "C <mech> <guid> <fdcap> <flatpak> <wmax> <obs> <chunks> TAB <observation>". *)
From ZV Require Import Base.Bytes Base.Res C16.Model C16.Wire C17.Model.

(* the harness renders the client's own uid as "@" *)
Definition my_id : bytes := B "@".

Definition parse_guid_tok (t : bytes) : option (option bytes) :=
  if lbeq t (B "-") then Some None else Some (Some t).

Definition parse_client_case (c : bytes) : option (ccfg * bool * list chunk) :=
  match words c with
  | [s; m; g; f; fp; _; o; ch] =>
      if lbeq s (B "C") then
        match parse_mech m, parse_guid_tok g, parse_bit f, parse_bit fp, parse_chunks ch with
        | Some (bm, sm), Some eg, Some fd, Some fl, Some cs =>
            let real := lbeq o (B "G") in
            (* a real unix socket can always pass fds, and delivers the script as one chunk *)
            let fd' := if real then true else fd in
            let cs' := if real then (match stream_of cs with [] => [] | b => [mkChunk b []] end) else cs in
            Some (mkCcfg bm sm eg fd' fl my_id, real, cs')
        | _, _, _, _, _ => None
        end
      else None
  | _ => None
  end.

Definition run_case (line : bytes) : outp :=
  let '(c, obs) := first_tab_split line in
  match parse_client_case c with
  | None => bad_case
  | Some (cfg, real, cs) =>
      let pred := render_outcome real (run_client cfg cs) in
      {| o_model := if lbeq pred obs then B "OK" else B "MODEL-PREDICTS:" ++ pred;
         o_spec := dash; o_class := dash |}
  end.

Definition run (line : bytes) : bytes := render (run_case line).
