(* C17/Run.v — line driver (two-phase):
   "C <mech> <guid> <fdcap> <flatpak> <wmax> <obs> <chunks> TAB <observation>". *)
From ZV Require Import Base.Bytes Base.Res C16.Model C16.Wire C16.Spec C16.Run C17.Model C17.Spec.

(* the harness renders the client's own uid as "@" *)
Definition my_id : bytes := B "@".

Definition parse_guid_tok (t : bytes) : option (option bytes) :=
  if lbeq t (B "-") then Some None else Some (Some t).

Definition parse_client_case (c : bytes) : option (ccfg * bool * list chunk) :=
  match words c with
  | [s; m; g; f; fp; _; o; ch] =>
      if lbeq s (B "C") then
        match parse_mech m, parse_guid_tok g, parse_bit f, parse_bit fp, parse_chunks ch with
        | Some (bm, sm), Some eg, Some fd, Some fl, Some cs =>
            let real := lbeq o (B "G") in
            (* a real unix socket can always pass fds, and delivers the script as one chunk *)
            let fd' := if real then true else fd in
            let cs' := if real then (match stream_of cs with [] => [] | b => [mkChunk b []] end) else cs in
            Some (mkCcfg bm sm eg fd' fl my_id, real, cs')
        | _, _, _, _, _ => None
        end
      else None
  | _ => None
  end.

Definition cverdict_tok (v : cverdict) : bytes :=
  match v with CVDone _ _ => B "DONE" | CVFail => B "FAIL" | CVNoFd _ => B "FAIL-OR-DONE-WITHOUT-FD" | CVUnclear => B "UNCLEAR" end.

(* in the real-socket mode the harness cannot see the leftover: compare status and fd flag only *)
Definition short_conforms (v : cverdict) (o : obs) : bool :=
  match v with
  | CVDone fd _ => match ob_stat o with StDone => Bool.eqb fd (ob_fd o) | _ => false end
  | CVNoFd _ => match ob_stat o with StErr => true | StDone => negb (ob_fd o) | StPanic => false end
  | _ => cconforms v [] o
  end.

Definition run_case (line : bytes) : outp :=
  let '(c, obstr) := first_tab_split line in
  match parse_client_case c with
  | None => bad_case
  | Some (cfg, real, cs) =>
      let pred := render_outcome real (run_client cfg cs) in
      let v := spec_client (cctx_of cfg) (stream_of cs) in
      let in_contract := chunks_nonempty cs in
      let sp := if negb in_contract then dash else
                match parse_observation obstr with
                | None => B "SPEC:unreadable-observation"
                | Some o =>
                    match obs_of_observation o with
                    | None => B "SPEC:unreadable-observation"
                    | Some ob =>
                        if (if real then short_conforms v ob else cconforms v (fds_of cs) ob) then B "OK"
                        else B "SPEC-EXPECTS:" ++ cverdict_tok v
                    end
                end in
      {| o_model := if lbeq pred obstr then B "OK" else B "MODEL-PREDICTS:" ++ pred;
         o_spec := sp; o_class := dash |}
  end.

Definition run (line : bytes) : bytes := render (run_case line).
