(* C17/Proofs.v — the model of the client against the specification.
   First the client's outcome is put in closed form as a function of the concatenated stream (bytes and fds) only;
   every theorem is then read off that form. *)
From ZV Require Import Base.Bytes Base.Res C16.Model C16.Spec C16.LineFacts C16.SplitProofs C16.ParseFacts C16.Proofs
  C17.Model C17.Spec.
From Coq Require Import Lia.

(* ---------------------------------------------------------------- writes and reads, seen through the view *)
Lemma write_commands_view : forall c cmds extra,
  view_of (write_commands c cmds extra) =
  mkView (fst (fold_commands (first_command c) cmds [])) (pending c) (pending_fds c) (cap_unix_fd c) (mechanism c)
         (sock_out c ++ snd (fold_commands (first_command c) cmds []) ++ extra).
Proof.
  intros [b f cap m fc i o] cmds extra. unfold write_commands. cbn [first_command].
  destruct (fold_commands fc cmds []) as [first buf]. reflexivity.
Qed.

Lemma write_commands_in : forall c cmds extra, sock_in (write_commands c cmds extra) = sock_in c.
Proof.
  intros c cmds extra. unfold write_commands. destruct (fold_commands (first_command c) cmds []). reflexivity.
Qed.

Lemma read_commands_one_spec : forall c, in_contract c ->
  match line_pure (first_command c) (pending c) with
  | None => read_commands c 1 = Err EHandshake
  | Some (Err e) => read_commands c 1 = Err e
  | Some (Panic p) => read_commands c 1 = Panic p
  | Some (Ok (cmd, rest)) =>
      exists c', read_commands c 1 = Ok ([cmd], c') /\ in_contract c' /\
                 view_of c' = mkView false rest (pending_fds c) (cap_unix_fd c) (mechanism c) (sock_out c)
  end.
Proof.
  intros c Hc. unfold read_commands. pose proof (read_loop_spec (sock_in c) c Hc) as H.
  unfold pending, pending_fds. unfold stream_of, fds_of in H. exact H.
Qed.

(* a common whose view is known *)
Definition has_view (c : common) (first : bool) (s : bytes) (fds : list N) (cap : bool) (m : mech) (out : bytes) : Prop :=
  in_contract c /\ view_of c = mkView first s fds cap m out.

Lemma has_view_fields : forall c first s fds cap m out,
  has_view c first s fds cap m out ->
  first_command c = first /\ pending c = s /\ pending_fds c = fds /\ cap_unix_fd c = cap /\ mechanism c = m /\ sock_out c = out.
Proof. intros c first s fds cap m out [_ H]. unfold view_of in H. injection H as ? ? ? ? ? ?. auto 10. Qed.

Lemma has_view_write : forall c first s fds cap m out cmds,
  has_view c first s fds cap m out ->
  has_view (write_commands c cmds []) (fst (fold_commands first cmds [])) s fds cap m
           (out ++ snd (fold_commands first cmds [])).
Proof.
  intros c first s fds cap m out cmds H. destruct (has_view_fields _ _ _ _ _ _ _ H) as [A [B [C [D [E F]]]]].
  destruct H as [Hc _]. split.
  - unfold in_contract in *. rewrite write_commands_in. exact Hc.
  - rewrite write_commands_view, A, B, C, D, E, F, app_nil_r. reflexivity.
Qed.

Lemma has_view_cap : forall c first s fds cap m out b,
  has_view c first s fds cap m out -> has_view (set_cap_unix_fd c b) first s fds b m out.
Proof.
  intros [bb f cap0 m0 fc i o] first s fds cap m out b [Hc Hv]. split; [exact Hc|].
  unfold view_of, pending, pending_fds in *. cbn in *. injection Hv as ? ? ? ? ? ?. subst. reflexivity.
Qed.

Lemma has_view_read : forall c s fds cap m out,
  has_view c false s fds cap m out ->
  match line_pure false s with
  | None => read_command c = Err EHandshake
  | Some (Err e) => read_command c = Err e
  | Some (Panic p) => read_command c = Panic p
  | Some (Ok (cmd, rest)) => exists c', read_command c = Ok (cmd, c') /\ has_view c' false rest fds cap m out
  end.
Proof.
  intros c s fds cap m out H. destruct (has_view_fields _ _ _ _ _ _ _ H) as [A [B [C [D [E F]]]]].
  destruct H as [Hc _]. pose proof (read_command_spec c Hc) as R. unfold read_spec in R.
  rewrite A, B, C, D, E, F in R.
  destruct (line_pure false s) as [[[cmd rest]|e|p]|]; exact R.
Qed.

Lemma has_view_reads : forall c s fds cap m out,
  has_view c false s fds cap m out ->
  match line_pure false s with
  | None => read_commands c 1 = Err EHandshake
  | Some (Err e) => read_commands c 1 = Err e
  | Some (Panic p) => read_commands c 1 = Panic p
  | Some (Ok (cmd, rest)) => exists c', read_commands c 1 = Ok ([cmd], c') /\ has_view c' false rest fds cap m out
  end.
Proof.
  intros c s fds cap m out H. destruct (has_view_fields _ _ _ _ _ _ _ H) as [A [B [C [D [E F]]]]].
  destruct H as [Hc _]. pose proof (read_commands_one_spec c Hc) as R.
  rewrite A, B, C, D, E, F in R.
  destruct (line_pure false s) as [[[cmd rest]|e|p]|]; exact R.
Qed.

(* ---------------------------------------------------------------- the client in closed form *)
Definition auth_cmd (cfg : ccfg) : command :=
  match cc_mech cfg with
  | Anonymous => Auth (Some Anonymous) (Some (B "zbus"))
  | External => Auth (Some External) (Some (cc_my_id cfg))
  end.

Definition line_of (c : command) : bytes := command_to_bytes c ++ CRLF.

Definition out_auth (cfg : ccfg) : bytes := NUL :: line_of (auth_cmd cfg).

(* the GUID the client holds after OK <g> *)
Definition guid_check (expected : option bytes) (g : bytes) : bool :=
  match expected with Some e => lbeq e g | None => true end.
Definition guid_held (expected : option bytes) (g : bytes) : bytes :=
  match expected with Some e => e | None => g end.

Definition secondary_closed (cfg : ccfg) (g : bytes) (rest : bytes) (fds : list N) : outcome :=
  let out1 := out_auth cfg in
  if cc_fdcap cfg then
    if cc_flatpak cfg then
      let out2 := out1 ++ line_of NegotiateUnixFD in
      match line_pure false rest with
      | None => OErr EHandshake out2
      | Some (Err e) => OErr e out2
      | Some (Panic _) => OPanic out2
      | Some (Ok (cmd2, rest2)) =>
          match cmd2 with
          | AgreeUnixFD => ODone (out2 ++ line_of Begin) true rest2 fds
          | ErrorC _ => ODone (out2 ++ line_of Begin) false rest2 fds
          | _ => OErr EHandshake out2
          end
      end
    else
      let out3 := out1 ++ line_of NegotiateUnixFD ++ line_of Begin in
      match line_pure false rest with
      | None => OErr EHandshake out3
      | Some (Err e) => OErr e out3
      | Some (Panic _) => OPanic out3
      | Some (Ok (cmd2, rest2)) =>
          match cmd2 with
          | OkC g' => if lbeq (guid_held (cc_expected cfg) g) g' then ODone out3 false rest2 fds else OErr EHandshake out3
          | AgreeUnixFD => ODone out3 true rest2 fds
          | ErrorC _ => ODone out3 false rest2 fds
          | _ => OErr EHandshake out3
          end
      end
  else ODone (out1 ++ line_of Begin) false rest fds.

Definition client_closed (cfg : ccfg) (s : bytes) (fds : list N) : outcome :=
  let out1 := out_auth cfg in
  match line_pure false s with
  | None => OErr EHandshake out1
  | Some (Err e) => OErr e out1
  | Some (Panic _) => OPanic out1
  | Some (Ok (cmd, rest)) =>
      match cmd with
      | OkC g => if guid_check (cc_expected cfg) g then secondary_closed cfg g rest fds else OErr EHandshake out1
      | _ => OErr EHandshake out1
      end
  end.

Lemma auth_cmd_model : forall cfg (c : common), mechanism c = cc_mech cfg ->
  (match mechanism c with
   | Anonymous => Auth (Some (mechanism c)) (Some (B "zbus"))
   | External => Auth (Some (mechanism c)) (Some (cc_my_id cfg))
   end) = auth_cmd cfg.
Proof. intros cfg c H. unfold auth_cmd. rewrite H. destruct (cc_mech cfg); reflexivity. Qed.

Lemma auth_cmd_model' : forall cfg (c : common), mechanism c = cc_mech cfg ->
  (match mechanism c with
   | Anonymous => Auth (Some Anonymous) (Some (B "zbus"))
   | External => Auth (Some External) (Some (cc_my_id cfg))
   end) = auth_cmd cfg.
Proof. intros cfg c H. unfold auth_cmd. rewrite H. reflexivity. Qed.

Lemma run_client_closed : forall cfg cs,
  chunks_nonempty cs = true -> run_client cfg cs = client_closed cfg (stream_of cs) (fds_of cs).
Proof.
  intros cfg cs Hn. set (s := stream_of cs). set (fds := fds_of cs). set (m := cc_mech cfg).
  unfold run_client, client_closed.
  set (k0 := client_init cfg cs).
  assert (V0 : has_view (k_common k0) true s fds false m []).
  { split; [exact Hn|]. reflexivity. }
  assert (Hm0 : mechanism (k_common k0) = cc_mech cfg) by reflexivity.
  (* what goes out first *)
  unfold auth_written. rewrite (auth_cmd_model' cfg _ Hm0).
  unfold authenticate. rewrite (auth_cmd_model cfg _ Hm0).
  set (c1 := write_command (k_common k0) (auth_cmd cfg)).
  assert (V1 : has_view c1 false s fds false m (out_auth cfg)).
  { pose proof (has_view_write _ _ _ _ _ _ _ [auth_cmd cfg] V0) as H. exact H. }
  destruct (has_view_fields _ _ _ _ _ _ _ V1) as [_ [_ [_ [_ [_ Hout1]]]]]. rewrite Hout1.
  pose proof (has_view_read _ _ _ _ _ _ V1) as R1.
  destruct (line_pure false s) as [[[cmd rest]|e|p]|]; try (rewrite R1; reflexivity).
  destruct R1 as [c2 [R1 V2]]. rewrite R1. cbn [bind].
  destruct cmd as [req resp| | |d|e| |ms|g|]; try reflexivity.
  (* OK <g> *)
  unfold set_guid, k_with_common. cbn [k_server_guid k_common]. change (k_server_guid k0) with (cc_expected cfg).
  unfold guid_check.
  assert (Sec : forall sg, sg = guid_held (cc_expected cfg) g ->
            (match send_secondary_commands cfg (mkClient c2 (Some sg)) with
             | Ok (k2, n) =>
                 let fin := fun k : client =>
                   let c := k_common k in
                   match k_server_guid k with
                   | Some _ => ODone (sock_out c) (cap_unix_fd c) (pending c) (pending_fds c)
                   | None => OPanic (sock_out c)
                   end in
                 if 0 <? n then finish (receive_secondary_responses k2 n) (sock_out (k_common k2)) fin else fin k2
             | Err e => OErr e (secondary_written_on_error cfg (mkClient c2 (Some sg)))
             | Panic _ => OPanic (secondary_written_on_error cfg (mkClient c2 (Some sg)))
             end) = secondary_closed cfg g rest fds).
  { intros sg Hsg. unfold send_secondary_commands, secondary_closed, secondary_written_on_error. cbn [k_common].
    destruct (cc_fdcap cfg).
    - destruct (cc_flatpak cfg).
      + (* one command at a time *)
        set (c3 := write_command c2 NegotiateUnixFD).
        assert (V3 : has_view c3 false rest fds false m (out_auth cfg ++ line_of NegotiateUnixFD)).
        { exact (has_view_write _ _ _ _ _ _ _ [NegotiateUnixFD] V2). }
        destruct (has_view_fields _ _ _ _ _ _ _ V3) as [_ [_ [_ [_ [_ Hout3]]]]]. rewrite Hout3.
        pose proof (has_view_read _ _ _ _ _ _ V3) as R3.
        destruct (line_pure false rest) as [[[cmd2 rest2]|e|p]|]; try (rewrite R3; reflexivity).
        destruct R3 as [c4 [R3 V4]]. rewrite R3. cbn [bind].
        destruct cmd2 as [req resp| | |d|e| |ms|g'|]; try reflexivity.
        * (* ERROR *)
          cbn [bind k_with_common k_common k_server_guid Nat.ltb Nat.leb].
          pose proof (has_view_write _ _ _ _ _ _ _ [Begin] V4) as V5.
          destruct (has_view_fields _ _ _ _ _ _ _ V5) as [_ [B5 [C5 [D5 [_ F5]]]]].
          rewrite F5, D5, B5, C5. reflexivity.
        * (* AGREE_UNIX_FD *)
          cbn [bind k_with_common k_common k_server_guid Nat.ltb Nat.leb].
          pose proof (has_view_write _ _ _ _ _ _ _ [Begin] (has_view_cap _ _ _ _ _ _ _ true V4)) as V5.
          destruct (has_view_fields _ _ _ _ _ _ _ V5) as [_ [B5 [C5 [D5 [_ F5]]]]].
          rewrite F5, D5, B5, C5. reflexivity.
      + (* pipelined *)
        cbn [k_with_common k_common k_server_guid Nat.ltb Nat.leb].
        set (c3 := write_commands c2 [NegotiateUnixFD; Begin] []).
        assert (V3 : has_view c3 false rest fds false m (out_auth cfg ++ line_of NegotiateUnixFD ++ line_of Begin)).
        { exact (has_view_write _ _ _ _ _ _ _ [NegotiateUnixFD; Begin] V2). }
        destruct (has_view_fields _ _ _ _ _ _ _ V3) as [_ [_ [_ [_ [_ Hout3]]]]]. rewrite Hout3.
        unfold receive_secondary_responses, k_with_common. cbn [k_common k_server_guid].
        pose proof (has_view_reads _ _ _ _ _ _ V3) as R3.
        destruct (line_pure false rest) as [[[cmd2 rest2]|e|p]|]; try (rewrite R3; reflexivity).
        destruct R3 as [c4 [R3 V4]]. rewrite R3. cbn [bind finish secondary_loop k_with_common k_common k_server_guid].
        destruct (has_view_fields _ _ _ _ _ _ _ V4) as [_ [B4 [C4 [D4 [_ F4]]]]].
        destruct cmd2 as [req resp| | |d|e| |ms|g'|]; cbn [bind finish]; try reflexivity.
        * (* ERROR *) cbn [k_common k_server_guid]. rewrite F4, D4, B4, C4. reflexivity.
        * (* OK again *)
          unfold set_guid. cbn [k_server_guid k_common]. rewrite Hsg.
          destruct (lbeq (guid_held (cc_expected cfg) g) g'); cbn [bind finish k_common k_server_guid]; [|reflexivity].
          rewrite F4, D4, B4, C4. reflexivity.
        * (* AGREE_UNIX_FD *)
          unfold k_with_common. cbn [k_common k_server_guid].
          destruct (has_view_fields _ _ _ _ _ _ _ (has_view_cap _ _ _ _ _ _ _ true V4)) as [_ [B5 [C5 [D5 [_ F5]]]]].
          rewrite F5, D5, B5, C5. reflexivity.
    - cbn [k_with_common k_common k_server_guid Nat.ltb Nat.leb].
      pose proof (has_view_write _ _ _ _ _ _ _ [Begin] V2) as V5.
      destruct (has_view_fields _ _ _ _ _ _ _ V5) as [_ [B5 [C5 [D5 [_ F5]]]]].
      rewrite F5, D5, B5, C5. reflexivity. }
  destruct (cc_expected cfg) as [e|] eqn:Eexp.
  - destruct (lbeq e g); cbn [finish]; [|reflexivity]. apply Sec. reflexivity.
  - cbn [finish]. apply Sec. reflexivity.
Qed.

Theorem client_split_independence : forall cfg cs1 cs2,
  chunks_nonempty cs1 = true -> chunks_nonempty cs2 = true ->
  stream_of cs1 = stream_of cs2 -> fds_of cs1 = fds_of cs2 ->
  run_client cfg cs1 = run_client cfg cs2.
Proof. intros cfg cs1 cs2 N1 N2 Hs Hf. rewrite !run_client_closed by assumption. rewrite Hs, Hf. reflexivity. Qed.

(* ---------------------------------------------------------------- the parser on reply lines *)
Definition keyword (c : command) : bytes :=
  match c with
  | Auth _ _ => B "AUTH" | Cancel => B "CANCEL" | Begin => B "BEGIN" | Data _ => B "DATA" | ErrorC _ => B "ERROR"
  | NegotiateUnixFD => B "NEGOTIATE_UNIX_FD" | Rejected _ => B "REJECTED" | OkC _ => B "OK" | AgreeUnixFD => B "AGREE_UNIX_FD"
  end.

Lemma command_keyword : forall body cmd,
  command_of_str (body ++ CRLF) = Ok cmd ->
  exists args, tokens body = keyword cmd :: args /\
               (forall g, cmd = OkC g -> exists more, args = g :: more /\ guid_ok g = true).
Proof.
  intros body cmd. unfold command_of_str. rewrite tokens_line.
  destruct (tokens body) as [|w args]; [discriminate|].
  destruct (lbeq w (B "AUTH")) eqn:E1.
  { apply lbeq_eq in E1. subst w. intro H. exists args. split.
    - destruct args as [|m rest]; [injection H as <-; reflexivity|].
      destruct rest as [|h r]; [injection H as <-; reflexivity|].
      destruct (hex_decode h); cbn [bind] in H; try discriminate. injection H as <-. reflexivity.
    - intros g Hg. subst cmd. destruct args as [|m rest]; [discriminate|].
      destruct rest as [|h r]; [discriminate|]. destruct (hex_decode h); cbn [bind] in H; discriminate. }
  destruct (lbeq w (B "CANCEL")) eqn:E2.
  { apply lbeq_eq in E2. subst w. intro H. injection H as <-. exists args. split; [reflexivity | discriminate]. }
  destruct (lbeq w (B "BEGIN")) eqn:E3.
  { apply lbeq_eq in E3. subst w. intro H. injection H as <-. exists args. split; [reflexivity | discriminate]. }
  destruct (lbeq w (B "DATA")) eqn:E4.
  { apply lbeq_eq in E4. subst w. intro H. exists args. split.
    - destruct args as [|h r]; [injection H as <-; reflexivity|].
      destruct (hex_decode h); cbn [bind] in H; try discriminate. injection H as <-. reflexivity.
    - intros g Hg. subst cmd. destruct args as [|h r]; [discriminate|].
      destruct (hex_decode h); cbn [bind] in H; discriminate. }
  destruct (lbeq w (B "ERROR")) eqn:E5.
  { apply lbeq_eq in E5. subst w. intro H. injection H as <-. exists args. split; [reflexivity | discriminate]. }
  destruct (lbeq w (B "NEGOTIATE_UNIX_FD")) eqn:E6.
  { apply lbeq_eq in E6. subst w. intro H. injection H as <-. exists args. split; [reflexivity | discriminate]. }
  destruct (lbeq w (B "REJECTED")) eqn:E7.
  { apply lbeq_eq in E7. subst w. intro H. injection H as <-. exists args. split; [reflexivity | discriminate]. }
  destruct (lbeq w (B "OK")) eqn:E8.
  { apply lbeq_eq in E8. subst w. intro H. destruct args as [|g0 more]; [discriminate|].
    destruct (guid_valid g0) eqn:Eg; [|discriminate]. injection H as <-. exists (g0 :: more). split; [reflexivity|].
    intros g Hg. injection Hg as <-. exists more. split; [reflexivity | exact Eg]. }
  destruct (lbeq w (B "AGREE_UNIX_FD")) eqn:E9.
  { apply lbeq_eq in E9. subst w. intro H. injection H as <-. exists args. split; [reflexivity | discriminate]. }
  discriminate.
Qed.

(* the converse for the two words the client is waiting for *)
Lemma command_of_ok : forall body g more,
  tokens body = B "OK" :: g :: more -> guid_ok g = true -> command_of_str (body ++ CRLF) = Ok (OkC g).
Proof.
  intros body g more Ht Hg. unfold command_of_str. rewrite tokens_line, Ht. cbn.
  change (guid_valid g) with (guid_ok g). rewrite Hg. reflexivity.
Qed.

Lemma ok_guid_spec : forall body,
  match command_of_str (body ++ CRLF) with
  | Ok (OkC g) => ok_guid body = Some g
  | _ => ok_guid body = None
  end.
Proof.
  intro body. destruct (command_of_str (body ++ CRLF)) as [cmd|e|p] eqn:E.
  - destruct (command_keyword _ _ E) as [args [Ht Hok]]. unfold ok_guid. rewrite Ht.
    destruct cmd; cbn [keyword]; try (destruct args; reflexivity).
    destruct (Hok guid eq_refl) as [more [-> Hg]]. cbn. rewrite Hg. reflexivity.
  - (* a parse error: either not OK at all, or OK without a valid GUID *)
    unfold command_of_str in E. rewrite tokens_line in E. unfold ok_guid.
    destruct (tokens body) as [|w args]; [reflexivity|].
    destruct (lbeq w (B "OK")) eqn:Ew; [|destruct args; reflexivity].
    apply lbeq_eq in Ew. subst w. cbn in E. destruct args as [|g more]; [reflexivity|].
    cbn. change (guid_ok g) with (guid_valid g). destruct (guid_valid g); [discriminate | reflexivity].
  - pose proof (command_of_line body) as H. rewrite E in H. contradiction.
Qed.

Lemma fd_answer_spec : forall body,
  match command_of_str (body ++ CRLF) with
  | Ok AgreeUnixFD => fd_answer body = AAgree
  | Ok (ErrorC _) => fd_answer body = ARefuse
  | _ => fd_answer body = AOther
  end.
Proof.
  intro body. destruct (command_of_str (body ++ CRLF)) as [cmd|e|p] eqn:E.
  - destruct (command_keyword _ _ E) as [args [Ht _]]. unfold fd_answer. rewrite Ht. destruct cmd; reflexivity.
  - unfold command_of_str in E. rewrite tokens_line in E. unfold fd_answer.
    destruct (tokens body) as [|w args]; [reflexivity|].
    destruct (lbeq w (B "AGREE_UNIX_FD")) eqn:E1.
    { apply lbeq_eq in E1. subst w. discriminate. }
    destruct (lbeq w (B "ERROR")) eqn:E2; [|reflexivity].
    apply lbeq_eq in E2. subst w. discriminate.
  - pose proof (command_of_line body) as H. rewrite E in H. contradiction.
Qed.

(* ---------------------------------------------------------------- the code's line reader against the spec's [next_line] *)
Lemma line_next : forall s,
  match next_line s with
  | LEof => line_pure false s = None
  | LUnclear rest =>
      exists r, line_pure false s = Some r /\ (forall cmd rest', r = Ok (cmd, rest') -> rest' = rest)
  | LLine body rest => line_pure false s = Some (map_res (fun cmd => (cmd, rest)) (command_of_str (body ++ CRLF)))
  end.
Proof.
  intro s. unfold next_line.
  destruct (cut_line s) as [[seg rest]|] eqn:Hc.
  2:{ apply line_pure_none. apply cut_line_none. exact Hc. }
  destruct (rev seg) as [|last rbody] eqn:Hr.
  { assert (seg = []) by (apply rev_nil_iff; exact Hr). subst. rewrite (line_pure_cut_empty _ _ Hc).
    eexists. split; [reflexivity|]. intros; discriminate. }
  rewrite (line_pure_cut _ _ _ _ _ Hc Hr). change x0d with CR.
  destruct (negb (beq last CR)) eqn:Ecr.
  { eexists. split; [reflexivity|]. intros; discriminate. }
  apply negb_false_iff in Ecr. apply beq_eq in Ecr. subst last.
  destruct (negb (is_ascii (rev rbody))) eqn:Ea.
  { eexists. split; [reflexivity|]. destruct (negb (utf8_valid (rev rbody ++ [CR; LF]))); [intros; discriminate|].
    destruct (command_of_str (rev rbody ++ [CR; LF])) as [cmd|e|p] eqn:E; cbn [map_res]; try (intros; discriminate).
    intros cmd' rest' H. injection H as _ <-. reflexivity. }
  apply negb_false_iff in Ea.
  assert (Hutf : utf8_valid (rev rbody ++ [CR; LF]) = true).
  { apply ascii_utf8. rewrite is_ascii_app, Ea. reflexivity. }
  rewrite Hutf. reflexivity.
Qed.

Lemma next_line_decomp : forall s body rest,
  next_line s = LLine body rest -> s = body ++ [x0d; x0a] ++ rest /\ no_lf body = true /\ is_ascii body = true.
Proof.
  intros s body rest H. unfold next_line in H.
  destruct (cut_line s) as [[seg rest']|] eqn:Hc; [|discriminate].
  destruct (rev seg) as [|last rbody] eqn:Hr; [discriminate|].
  destruct (negb (beq last x0d)) eqn:Ecr; [discriminate|].
  destruct (negb (is_ascii (rev rbody))) eqn:Ea; [discriminate|]. injection H as <- <-.
  apply negb_false_iff in Ecr. apply beq_eq in Ecr. subst last. apply negb_false_iff in Ea.
  assert (Hseg : seg = rev rbody ++ [x0d]) by (rewrite <- (rev_involutive seg), Hr; reflexivity).
  destruct (cut_line_some _ _ _ Hc) as [_ Hs]. split; [|split; [|exact Ea]].
  - rewrite Hs, Hseg, <- app_assoc. reflexivity.
  - pose proof (cut_line_no_lf _ _ _ Hc) as Hn. rewrite Hseg, no_lf_app in Hn. apply andb_true_iff in Hn. tauto.
Qed.

(* the line reader never panics (the guard lf_index == 0) *)
Lemma line_pure_no_panic : forall first s p, line_pure first s <> Some (Panic p).
Proof.
  intros first s p. unfold line_pure.
  destruct (position_lf s) as [[|k]|]; try discriminate.
  destruct (negb (beq (nth k s NUL) CR)); [discriminate|].
  destruct (first && negb (beq (nth 0 s NUL) NUL)); [discriminate|].
  destruct (negb (utf8_valid _)); [discriminate|].
  destruct (command_of_str _) eqn:E; cbn; try discriminate.
  exfalso. exact (command_of_str_no_panic _ _ E).
Qed.

(* ---------------------------------------------------------------- no panic *)
Lemma secondary_no_panic : forall cfg g rest fds w, secondary_closed cfg g rest fds <> OPanic w.
Proof.
  intros cfg g rest fds w. unfold secondary_closed.
  destruct (cc_fdcap cfg); [|discriminate].
  destruct (cc_flatpak cfg);
    (destruct (line_pure false rest) as [[[cmd2 rest2]|e|p]|] eqn:L; try discriminate;
     [ destruct cmd2; try discriminate; destruct (lbeq _ _); discriminate
     | exfalso; exact (line_pure_no_panic _ _ _ L) ]).
Qed.

Lemma closed_no_panic : forall cfg s fds w, client_closed cfg s fds <> OPanic w.
Proof.
  intros cfg s fds w. unfold client_closed.
  destruct (line_pure false s) as [[[cmd rest]|e|p]|] eqn:L; try discriminate.
  - destruct cmd; try discriminate. destruct (guid_check _ _); [|discriminate]. apply secondary_no_panic.
  - exfalso. exact (line_pure_no_panic _ _ _ L).
Qed.

Theorem client_nopanic : forall cfg cs, chunks_nonempty cs = true -> is_panic (run_client cfg cs) = false.
Proof.
  intros cfg cs Hn. rewrite (run_client_closed _ _ Hn).
  pose proof (closed_no_panic cfg (stream_of cs) (fds_of cs)) as H.
  destruct (client_closed cfg (stream_of cs) (fds_of cs)); try reflexivity. exfalso. apply (H w). reflexivity.
Qed.

(* ---------------------------------------------------------------- conformance, on every stream *)
Lemma done_with_refl : forall w fd tail fds, done_with fd tail fds (obs_of (ODone w fd tail fds)) = true.
Proof. intros. unfold done_with. cbn. rewrite Bool.eqb_reflx, lbeq_refl, list_N_eqb_refl. reflexivity. Qed.

Lemma cconforms_unclear : forall fds o, (forall w, o <> OPanic w) -> cconforms CVUnclear fds (obs_of o) = true.
Proof. intros fds o H. destruct o; cbn; try reflexivity. exfalso. apply (H w). reflexivity. Qed.

Lemma guid_check_expected : forall cfg g, guid_check (cc_expected cfg) g = guid_expected (cctx_of cfg) g.
Proof. reflexivity. Qed.

Lemma secondary_conforms : forall cfg g rest fds,
  cc_fdcap cfg = true ->
  cconforms (match next_line rest with
             | LEof => CVFail
             | LUnclear _ => CVUnclear
             | LLine body2 rest2 =>
                 match fd_answer body2 with
                 | AAgree => CVDone true rest2
                 | ARefuse => CVDone false rest2
                 | AOther => CVNoFd rest2
                 end
             end) fds (obs_of (secondary_closed cfg g rest fds)) = true.
Proof.
  intros cfg g rest fds Hfd.
  pose proof (line_next rest) as L.
  destruct (next_line rest) as [|rest2|body2 rest2].
  - unfold secondary_closed. rewrite Hfd, L. destruct (cc_flatpak cfg); reflexivity.
  - apply cconforms_unclear. intro w. apply secondary_no_panic.
  - pose proof (fd_answer_spec body2) as A.
    unfold secondary_closed. rewrite Hfd, L.
    destruct (command_of_str (body2 ++ CRLF)) as [cmd2|e|p] eqn:Ec; cbn [map_res].
    + destruct cmd2; rewrite A; destruct (cc_flatpak cfg); cbn [cconforms];
        try reflexivity; try apply done_with_refl.
      destruct (lbeq _ _); [apply done_with_refl | reflexivity].
    + rewrite A. destruct (cc_flatpak cfg); reflexivity.
    + exfalso. exact (command_of_str_no_panic _ _ Ec).
Qed.

Theorem client_conforms : forall cfg cs,
  chunks_nonempty cs = true ->
  cconforms (spec_client (cctx_of cfg) (stream_of cs)) (fds_of cs) (obs_of (run_client cfg cs)) = true.
Proof.
  intros cfg cs Hn. rewrite (run_client_closed _ _ Hn).
  set (s := stream_of cs) in *. set (fds := fds_of cs).
  unfold spec_client.
  pose proof (line_next s) as L.
  destruct (next_line s) as [|rest|body rest].
  - unfold client_closed. rewrite L. reflexivity.
  - apply cconforms_unclear. intro w. apply closed_no_panic.
  - pose proof (ok_guid_spec body) as G. unfold client_closed. rewrite L.
    destruct (command_of_str (body ++ CRLF)) as [cmd|e|p] eqn:Ec; cbn [map_res].
    + destruct cmd; try (rewrite G; reflexivity).
      rewrite G. rewrite guid_check_expected.
      destruct (guid_expected (cctx_of cfg) guid); cbn [negb]; [|reflexivity].
      change (y_fdcap (cctx_of cfg)) with (cc_fdcap cfg).
      destruct (cc_fdcap cfg) eqn:Hfd; cbn [negb].
      * apply secondary_conforms. exact Hfd.
      * unfold secondary_closed. rewrite Hfd. apply done_with_refl.
    + rewrite G. reflexivity.
    + exfalso. exact (command_of_str_no_panic _ _ Ec).
Qed.

(* ---------------------------------------------------------------- completion, at full strength *)
(* a successfully read line is a CR LF terminated, LF-free body that the parser accepts *)
Lemma line_pure_ok : forall s cmd rest,
  line_pure false s = Some (Ok (cmd, rest)) ->
  exists body, s = body ++ [x0d; x0a] ++ rest /\ no_lf body = true /\ command_of_str (body ++ CRLF) = Ok cmd.
Proof.
  intros s cmd rest H.
  destruct (cut_line s) as [[seg rest']|] eqn:Hc.
  2:{ rewrite (line_pure_none _ _ (cut_line_none _ Hc)) in H. discriminate. }
  destruct (rev seg) as [|last rbody] eqn:Hr.
  { assert (seg = []) by (apply rev_nil_iff; exact Hr). subst. rewrite (line_pure_cut_empty _ _ Hc) in H. discriminate. }
  rewrite (line_pure_cut _ _ _ _ _ Hc Hr) in H. injection H as H.
  destruct (negb (beq last CR)) eqn:Ecr; [discriminate|].
  apply negb_false_iff in Ecr. apply beq_eq in Ecr. subst last.
  destruct (negb (utf8_valid (rev rbody ++ [CR; LF]))); [discriminate|].
  destruct (command_of_str (rev rbody ++ [CR; LF])) as [cmd'|e|p] eqn:Ec; cbn in H; try discriminate.
  injection H as -> ->. exists (rev rbody).
  assert (Hseg : seg = rev rbody ++ [x0d]) by (rewrite <- (rev_involutive seg), Hr; reflexivity).
  destruct (cut_line_some _ _ _ Hc) as [_ Hs]. split; [|split].
  - rewrite Hs, Hseg, <- app_assoc. reflexivity.
  - pose proof (cut_line_no_lf _ _ _ Hc) as Hn. rewrite Hseg, no_lf_app in Hn. apply andb_true_iff in Hn. tauto.
  - exact Ec.
Qed.

Definition agrees (body : bytes) : Prop := exists more, tokens body = B "AGREE_UNIX_FD" :: more.

Lemma secondary_done : forall cfg g rest fds w fd tail fds',
  secondary_closed cfg g rest fds = ODone w fd tail fds' ->
  fds' = fds /\
  if cc_fdcap cfg
  then exists body2, rest = body2 ++ [x0d; x0a] ++ tail /\ no_lf body2 = true /\ (fd = true <-> agrees body2)
  else fd = false /\ tail = rest.
Proof.
  intros cfg g rest fds w fd tail fds' H. unfold secondary_closed in H.
  destruct (cc_fdcap cfg).
  2:{ injection H as _ <- <- <-. auto. }
  assert (K : forall cmd2 rest2, line_pure false rest = Some (Ok (cmd2, rest2)) ->
              fds' = fds -> tail = rest2 -> (fd = true <-> cmd2 = AgreeUnixFD) ->
              fds' = fds /\ exists body2, rest = body2 ++ [x0d; x0a] ++ tail /\ no_lf body2 = true /\ (fd = true <-> agrees body2)).
  { intros cmd2 rest2 L Hf Ht Hfd. split; [exact Hf|]. subst tail.
    destruct (line_pure_ok _ _ _ L) as [body2 [Hs [Hn Hc]]]. exists body2. split; [exact Hs|]. split; [exact Hn|].
    destruct (command_keyword _ _ Hc) as [args [Ht _]]. rewrite Hfd. unfold agrees. split.
    - intros ->. exists args. exact Ht.
    - intros [more Hm]. rewrite Ht in Hm. destruct cmd2; cbn in Hm; try discriminate. reflexivity. }
  destruct (cc_flatpak cfg);
    destruct (line_pure false rest) as [[[cmd2 rest2]|e|p]|] eqn:L; try discriminate;
    destruct cmd2; try discriminate;
    try (destruct (lbeq _ _); [|discriminate]);
    injection H as _ <- <- <-; apply (K _ _ eq_refl eq_refl eq_refl); split; intro; discriminate || reflexivity.
Qed.

Theorem client_done_sound : forall cfg cs w fd tail fds,
  chunks_nonempty cs = true ->
  run_client cfg cs = ODone w fd tail fds ->
  exists body1 g more rest1,
    stream_of cs = body1 ++ [x0d; x0a] ++ rest1 /\ no_lf body1 = true /\
    tokens body1 = B "OK" :: g :: more /\ guid_ok g = true /\
    (forall e, cc_expected cfg = Some e -> e = g) /\
    fds = fds_of cs /\
    (if cc_fdcap cfg
     then exists body2, rest1 = body2 ++ [x0d; x0a] ++ tail /\ no_lf body2 = true /\ (fd = true <-> agrees body2)
     else fd = false /\ tail = rest1).
Proof.
  intros cfg cs w fd tail fds Hn H. rewrite (run_client_closed _ _ Hn) in H. unfold client_closed in H.
  destruct (line_pure false (stream_of cs)) as [[[cmd rest]|e|p]|] eqn:L; try discriminate.
  destruct cmd as [| | | | | | |g|]; try discriminate.
  destruct (guid_check (cc_expected cfg) g) eqn:Hg; [|discriminate].
  destruct (line_pure_ok _ _ _ L) as [body1 [Hs [Hnl Hc]]].
  destruct (command_keyword _ _ Hc) as [args [Ht Hok]]. destruct (Hok g eq_refl) as [more [-> Hgv]].
  destruct (secondary_done _ _ _ _ _ _ _ _ H) as [Hf Hsec].
  exists body1, g, more, rest. repeat split; try assumption.
  intros e He. unfold guid_check in Hg. rewrite He in Hg. apply lbeq_eq. exact Hg.
Qed.

(* ... and the converse: a proper acceptance completes, with the prescribed fd capability and leftover *)
Theorem client_complete : forall cfg cs fd tail,
  chunks_nonempty cs = true ->
  spec_client (cctx_of cfg) (stream_of cs) = CVDone fd tail ->
  exists w, run_client cfg cs = ODone w fd tail (fds_of cs).
Proof.
  intros cfg cs fd tail Hn Hv. pose proof (client_conforms cfg cs Hn) as Hc. rewrite Hv in Hc.
  destruct (run_client cfg cs) as [w fd' tail' fds'|e w|w]; cbn in Hc; try discriminate.
  unfold done_with in Hc. cbn in Hc.
  apply andb_true_iff in Hc. destruct Hc as [Hc Hfds]. apply andb_true_iff in Hc. destruct Hc as [Hfd Htail].
  apply Bool.eqb_prop in Hfd. apply lbeq_eq in Htail. subst.
  assert (fds_of cs = fds').
  { clear -Hfds. revert fds' Hfds. induction (fds_of cs) as [|a l IH]; intros [|b l'] H; cbn in H; try discriminate; [reflexivity|].
    apply andb_true_iff in H. destruct H as [H1 H2]. apply N.eqb_eq in H1. subst. f_equal. apply IH. exact H2. }
  subst. eauto.
Qed.

(* whatever is not a proper acceptance fails *)
Theorem client_fails : forall cfg cs,
  chunks_nonempty cs = true ->
  spec_client (cctx_of cfg) (stream_of cs) = CVFail ->
  is_done (run_client cfg cs) = false /\ is_panic (run_client cfg cs) = false.
Proof.
  intros cfg cs Hn Hv. pose proof (client_conforms cfg cs Hn) as Hc. rewrite Hv in Hc.
  destruct (run_client cfg cs); cbn in *; try discriminate. split; reflexivity.
Qed.

(* ---------------------------------------------------------------- instances (non-vacuity) *)
Definition guid0 : bytes := B "0123456789abcdef0123456789abcdef".
Definition ex_stream : bytes := B "OK " ++ guid0 ++ [x0d; x0a] ++ B "AGREE_UNIX_FD" ++ [x0d; x0a] ++ B "lmsg".
Definition ex_chunks1 : list chunk := [mkChunk (firstn 20 ex_stream) []; mkChunk (skipn 20 ex_stream) [3%N; 4%N]].
Definition ex_chunks2 : list chunk :=
  [mkChunk (firstn 36 ex_stream) []; mkChunk (firstn 2 (skipn 36 ex_stream)) [3%N]; mkChunk (skipn 38 ex_stream) [4%N]].
Definition ex_cfg : ccfg := mkCcfg None Anonymous (Some guid0) true false (B "@").

Example ex_client :
  chunks_nonempty ex_chunks1 = true /\ chunks_nonempty ex_chunks2 = true /\
  stream_of ex_chunks1 = stream_of ex_chunks2 /\ fds_of ex_chunks1 = fds_of ex_chunks2 /\
  spec_client (cctx_of ex_cfg) (stream_of ex_chunks1) = CVDone true (B "lmsg") /\
  run_client ex_cfg ex_chunks2 =
    ODone (x00 :: B "AUTH ANONYMOUS 7a627573" ++ [x0d; x0a] ++ B "NEGOTIATE_UNIX_FD" ++ [x0d; x0a] ++ B "BEGIN" ++ [x0d; x0a])
          true (B "lmsg") [3%N; 4%N].
Proof. repeat split; vm_compute; reflexivity. Qed.

(* a GUID other than the expected one: must fail, and does *)
Example ex_client_mismatch :
  let s := B "OK 1123456789abcdef0123456789abcdef" ++ [x0d; x0a] ++ B "AGREE_UNIX_FD" ++ [x0d; x0a] in
  spec_client (cctx_of ex_cfg) s = CVFail /\ is_done (run_client ex_cfg [mkChunk s []]) = false.
Proof. repeat split; vm_compute; reflexivity. Qed.

(* the repaired defect: a bare LF where the answer to NEGOTIATE_UNIX_FD should start is an error, not a panic *)
Example ex_client_bare_lf :
  run_client ex_cfg [mkChunk (B "OK " ++ guid0 ++ [x0d; x0a; x0a]) []] =
  OErr EHandshake (x00 :: B "AUTH ANONYMOUS 7a627573" ++ [x0d; x0a] ++ B "NEGOTIATE_UNIX_FD" ++ [x0d; x0a] ++ B "BEGIN" ++ [x0d; x0a]).
Proof. vm_compute. reflexivity. Qed.
