(* C17/Model.v — executable mirror of zbus/src/connection/handshake/client.rs (Client::{set_guid, authenticate,
   send_secondary_commands, receive_secondary_responses, perform}) over the shared line reader / command
   model of C16/Model.v.  No proofs in this file.  p2p connections only (bus = false: no Hello). *)
From ZV Require Import Base.Bytes Base.Res C16.Model.

Record client := mkClient {
  k_common : common;
  k_server_guid : option bytes
}.

Record ccfg := mkCcfg {
  cc_builder_mech : option mech;     (* Builder::auth_mechanism, if called *)
  cc_socket_mech : mech;             (* ReadHalf::auth_mechanism of the socket *)
  cc_expected : option bytes;        (* the GUID of the address, if any *)
  cc_fdcap : bool;                   (* ReadHalf::can_pass_unix_fd *)
  cc_flatpak : bool;                 (* is_flatpak(): FLATPAK_ID is set *)
  cc_my_id : bytes                   (* sasl_auth_id(): the decimal effective uid *)
}.

Definition cc_mech (cfg : ccfg) : mech :=
  match cc_builder_mech cfg with Some m => m | None => cc_socket_mech cfg end.

Definition k_with_common (k : client) (c : common) : client := mkClient c (k_server_guid k).

(* Client::set_guid *)
Definition set_guid (k : client) (guid : bytes) : res herr client :=
  match k_server_guid k with
  | Some g => if lbeq g guid then Ok k else Err EHandshake          (* "Server GUID mismatch" *)
  | None => Ok (mkClient (k_common k) (Some guid))
  end.

(* Client::authenticate *)
Definition authenticate (cfg : ccfg) (k : client) : res herr client :=
  let m := mechanism (k_common k) in
  let auth_cmd := match m with
                  | Anonymous => Auth (Some m) (Some (B "zbus"))
                  | External => Auth (Some m) (Some (cc_my_id cfg))
                  end in
  let c := write_command (k_common k) auth_cmd in
  let* (reply, c') := read_command c in
  let k' := k_with_common k c' in
  match reply with
  | OkC guid => set_guid k' guid
  | Rejected _ => Err EHandshake
  | ErrorC _ => Err EHandshake
  | _ => Err EHandshake                                              (* "Unexpected command from server" *)
  end.

(* Client::send_secondary_commands; returns the number of responses to wait for *)
Definition send_secondary_commands (cfg : ccfg) (k : client) : res herr (client * nat) :=
  let c := k_common k in
  if cc_fdcap cfg then
    if cc_flatpak cfg then
      let c1 := write_command c NegotiateUnixFD in
      let* (reply, c2) := read_command c1 in
      let* c3 := match reply with
                 | AgreeUnixFD => Ok (set_cap_unix_fd c2 true)
                 | ErrorC _ => Ok c2
                 | _ => Err EHandshake
                 end in
      Ok (k_with_common k (write_commands c3 [Begin] []), 0)
    else Ok (k_with_common k (write_commands c [NegotiateUnixFD; Begin] []), 1)
  else Ok (k_with_common k (write_commands c [Begin] []), 0).

(* the `for response in ...` loop of receive_secondary_responses *)
Fixpoint secondary_loop (k : client) (rs : list command) : res herr client :=
  match rs with
  | [] => Ok k
  | r :: rest =>
      let* k' := match r with
                 | OkC guid => set_guid k guid
                 | AgreeUnixFD => Ok (k_with_common k (set_cap_unix_fd (k_common k) true))
                 | ErrorC _ => Ok k
                 | _ => Err EHandshake
                 end in
      secondary_loop k' rest
  end.

Definition receive_secondary_responses (k : client) (n : nat) : res herr client :=
  let* (rs, c) := read_commands (k_common k) n in
  secondary_loop (k_with_common k c) rs.

(* Client::perform; an error keeps what had been written by then *)
Definition client_init (cfg : ccfg) (cs : list chunk) : client :=
  mkClient (common_new (cc_mech cfg) cs) (cc_expected cfg).

Definition auth_written (cfg : ccfg) (k : client) : bytes :=
  sock_out (write_command (k_common k)
              (match mechanism (k_common k) with
               | Anonymous => Auth (Some Anonymous) (Some (B "zbus"))
               | External => Auth (Some External) (Some (cc_my_id cfg))
               end)).

Definition secondary_written_on_error (cfg : ccfg) (k : client) : bytes :=
  (* send_secondary_commands fails only in the flatpak branch, after NEGOTIATE_UNIX_FD went out *)
  sock_out (write_command (k_common k) NegotiateUnixFD).

Definition finish (r : res herr client) (w_on_error : bytes) (k : client -> outcome) : outcome :=
  match r with
  | Ok x => k x
  | Err e => OErr e w_on_error
  | Panic _ => OPanic w_on_error
  end.

Definition run_client (cfg : ccfg) (cs : list chunk) : outcome :=
  let k0 := client_init cfg cs in
  finish (authenticate cfg k0) (auth_written cfg k0) (fun k1 =>
    match send_secondary_commands cfg k1 with
    | Err e => OErr e (secondary_written_on_error cfg k1)
    | Panic _ => OPanic (secondary_written_on_error cfg k1)
    | Ok (k2, n) =>
        let fin (k : client) :=
          let c := k_common k in
          match k_server_guid k with
          | None => OPanic (sock_out c)                               (* self.server_guid.unwrap() *)
          | Some _ => ODone (sock_out c) (cap_unix_fd c) (pending c) (pending_fds c)
          end in
        if Nat.ltb 0 n
        then finish (receive_secondary_responses k2 n) (sock_out (k_common k2)) fin
        else fin k2
    end).
