(* C12/Spec.v — "parsing hostile message bytes never crashes": the statement.
   (Before the fix: commits e5b4d5a2 and b3fdf920 three classes of inputs crashed: no input at all, input ending inside
   the padding before the body, and a header string field that is not a valid name; since then the statement holds
   for every input and this file no longer defines any known-deviation class.) *)
From ZV Require Import Base.Bytes Base.Res Base.Sig C10.Model C11.Model.
Open Scope N_scope.

Definition no_panic {A} (r : R A) : Prop := forall p, r <> Panic p.

(* every accessor the property names: header (all fields), body, Display, Debug, body deserialization *)
Definition accessors_no_panic (m : msg) : Prop :=
  no_panic (header m) /\ no_panic (body m) /\ no_panic (display m) /\ no_panic (debug_ok m) /\ no_panic (body_deser m).

Definition C12_statement_for (ctx : endian) (b : bytes) : Prop :=
  no_panic (from_raw_parts ctx b) /\ forall m, from_raw_parts ctx b = Ok m -> accessors_no_panic m.

Definition C12_full_statement : Prop := forall ctx b, C12_statement_for ctx b.
