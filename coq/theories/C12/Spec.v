(* C12/Spec.v — "parsing hostile message bytes never crashes": the statement, and the decidable classes of inputs on
   which the code as it is does crash (each named by its cause in the input, not by the crash). *)
From ZV Require Import Base.Bytes Base.Res Base.Sig C10.Model C11.Model.
Open Scope N_scope.

Definition no_panic {A} (r : R A) : Prop := forall p, r <> Panic p.

(* every accessor the property names: header (all fields), body, Display, Debug, body deserialization *)
Definition accessors_no_panic (m : msg) : Prop :=
  no_panic (header m) /\ no_panic (body m) /\ no_panic (display m) /\ no_panic (debug_ok m) /\ no_panic (body_deser m).

Definition C12_statement_for (ctx : endian) (b : bytes) : Prop :=
  no_panic (from_raw_parts ctx b) /\ forall m, from_raw_parts ctx b = Ok m -> accessors_no_panic m.

Definition C12_full_statement : Prop := forall ctx b, C12_statement_for ctx b.

(* ---- known deviation classes ---- *)
(* the bytes a cached field position denotes, if the field is present *)
Definition fp_slice (b : bytes) (fp : fieldpos) : option bytes :=
  let (s, e) := fp in
  if (s <=? 1) && (e =? 0) then None else Some (takeN (e - s) (dropN s b)).
Definition fp_invalid (validate : bytes -> bool) (b : bytes) (fp : fieldpos) : bool :=
  match fp_slice b fp with Some s => negb (validate s) | None => false end.
(* a header string field accepted at parse time without validation that is not a valid name of its kind
   (interface, member, error name, sender: `TryFrom<Value>` derived on the name types does not validate) *)
Definition bad_name (m : msg) : bool :=
  let b := m_bytes m in let q := m_qf m in
  fp_invalid validate_object_path b (q_path q) || fp_invalid validate_interface b (q_iface q)
  || fp_invalid validate_member b (q_member q) || fp_invalid validate_error b (q_errname q)
  || fp_invalid validate_bus b (q_dest q) || fp_invalid validate_unique b (q_sender q).

Inductive c12class := KEmpty | KShortBody | KBadName | KNone.

Definition classify12 (ctx : endian) (b : bytes) : c12class :=
  match b with
  | [] => KEmpty                                          (* no byte at all: from_raw_parts indexes bytes[0] *)
  | _ =>
      match from_raw_parts ctx b with
      | Ok m => if len b <? m_body_offset m then KShortBody   (* the input ends inside the padding before the body *)
                else if bad_name m then KBadName
                else KNone
      | _ => KNone
      end
  end.

Definition Known_C12 (ctx : endian) (b : bytes) : bool :=
  match classify12 ctx b with KNone => false | _ => true end.

Definition class12_name (c : c12class) : bytes :=
  match c with KEmpty => B "empty_input" | KShortBody => B "short_body" | KBadName => B "invalid_name" | KNone => B "-" end.
