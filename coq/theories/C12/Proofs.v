(* C12/Proofs.v — the three crash classes are real (witnesses), and they are the only ones. *)
From ZV Require Import Base.Bytes Base.Res Base.Sig C10.Model C11.Model C11.Lemmas C11.Invariants C12.Spec.
From Coq Require Import Lia ZifyBool ZifyN ZifyNat.
Open Scope N_scope.

(* ---------- from_raw_parts ---------- *)
Lemma from_raw_parts_no_panic ctx b p : b <> [] -> from_raw_parts ctx b <> Panic p.
Proof.
  intros Hne. unfold from_raw_parts. destruct b as [|b0 r]; [congruence|].
  destruct (endian_of_byte b0); [|discriminate]. destruct (negb _); [discriminate|].
  intros H. apply bind_panic in H. destruct H as [H|([ph size] & Hp & H)]; [eapply de_primary_no_panic; eauto|].
  apply de_primary_ok in Hp. destruct Hp as (-> & Hlen & _). cbn [N.eqb negb Pos.eqb] in H.
  unfold data_slice in H. destruct (len (b0 :: r) <? 12) eqn:E; [lia|]. cbn [bind] in H.
  apply bind_panic in H. destruct H as [H|([fl q] & _ & H)]; [eapply de_u32_no_panic; eauto|].
  apply bind_panic in H. destruct H as [H|([fs q'] & _ & H)]; [eapply de_fields_no_panic; eauto|].
  discriminate.
Qed.

Lemma from_raw_parts_ok ctx b m : from_raw_parts ctx b = Ok m ->
  m_bytes m = b /\ exists fs, fields_inv b fs /\ m_qf m = quick_fields b fs.
Proof.
  unfold from_raw_parts. destruct b as [|b0 r]; [discriminate|].
  destruct (endian_of_byte b0); [|discriminate]. destruct (negb _); [discriminate|].
  intros H. apply bind_ok in H. destruct H as ([ph size] & Hp & H).
  destruct (negb (size =? 12)); [discriminate|].
  apply bind_ok in H. destruct H as (? & _ & H).
  apply bind_ok in H. destruct H as ([fl q] & _ & H).
  apply bind_ok in H. destruct H as (? & _ & H).
  apply bind_ok in H. destruct H as ([fs q'] & Hf & H). injection H as <-. cbn.
  split; [reflexivity|]. exists fs. split; [eapply de_fields_ok; eauto|reflexivity].
Qed.

(* ---------- cached field positions ---------- *)
Lemma fp_read_new v b o : ostr_at b o ->
  fp_read v b (fp_new b o) = Ok None
  \/ exists s, fp_slice b (fp_new b o) = Some s /\ fp_read v b (fp_new b o) = if v s then Ok (Some s) else Panic PUnwrap.
Proof.
  destruct o as [[s st]|]; [|left; reflexivity].
  cbn [ostr_at fp_new]. intros (H2 & Hle & Hs & Hu). unfold fp_build.
  destruct ((st <=? len b) && (st + len s <=? len b) && (st <? two32) && (st + len s <? two32)); [|left; reflexivity].
  right. exists s. unfold fp_slice, fp_read.
  destruct ((st <=? 1) && (st + len s =? 0)) eqn:E; [lia|].
  destruct ((st + len s <? st) || (len b <? st + len s)) eqn:E2; [lia|].
  replace (st + len s - st) with (len s) by lia. rewrite Hs, Hu. split; reflexivity.
Qed.

Lemma fp_read_good v b o : ostr_at b o -> fp_invalid v b (fp_new b o) = false -> exists r, fp_read v b (fp_new b o) = Ok r.
Proof.
  intros Ho Hi. destruct (fp_read_new v b o Ho) as [H|(s & Hs & H)]; [eauto|].
  unfold fp_invalid in Hi. rewrite Hs in Hi. rewrite H. destruct (v s); [eauto|discriminate].
Qed.

(* ---------- accessors ---------- *)
Lemma header_ok ctx b m : from_raw_parts ctx b = Ok m -> bad_name m = false -> exists h, header m = Ok h.
Proof.
  intros Hp Hb. apply from_raw_parts_ok in Hp. destruct Hp as (Hbytes & fs & Hinv & Hq).
  unfold bad_name in Hb. rewrite Hbytes, Hq in Hb. cbn [quick_fields q_path q_iface q_member q_errname q_dest q_sender] in Hb.
  repeat (apply Bool.orb_false_iff in Hb; destruct Hb as [Hb ?]).
  destruct Hinv as (I1 & I2 & I3 & I4 & I5 & I6 & _).
  unfold header. rewrite Hbytes, Hq. cbn [quick_fields q_path q_iface q_member q_errname q_dest q_sender q_reply q_sig q_fds].
  destruct (fp_read_good validate_object_path b _ I1 Hb) as (r1 & ->). cbn [bind].
  destruct (fp_read_good validate_interface b _ I2 H3) as (r2 & ->). cbn [bind].
  destruct (fp_read_good validate_member b _ I3 H2) as (r3 & ->). cbn [bind].
  destruct (fp_read_good validate_error b _ I4 H1) as (r4 & ->). cbn [bind].
  destruct (fp_read_good validate_bus b _ I5 H0) as (r5 & ->). cbn [bind].
  destruct (fp_read_good validate_unique b _ I6 H) as (r6 & ->). cbn [bind].
  eauto.
Qed.

Lemma body_ok m : m_body_offset m <= len (m_bytes m) -> exists bd, body m = Ok bd.
Proof. intros H. unfold body, data_slice. destruct (len (m_bytes m) <? m_body_offset m) eqn:E; [lia|eauto]. Qed.

Lemma accessors_ok ctx b m : from_raw_parts ctx b = Ok m -> bad_name m = false -> m_body_offset m <= len b -> accessors_no_panic m.
Proof.
  intros Hp Hb Hoff. destruct (header_ok ctx b m Hp Hb) as (h & Hh).
  assert (Hbytes : m_bytes m = b) by (apply from_raw_parts_ok in Hp; tauto).
  destruct (body_ok m) as (bd & Hbd); [rewrite Hbytes; exact Hoff|].
  unfold accessors_no_panic, no_panic, display, debug_ok, body_deser. rewrite Hh, Hbd. cbn [bind].
  repeat split; intros p; try discriminate.
  destruct (ph_type (m_ph m) =? 1); cbn [bind]; [discriminate|].
  destruct (ph_type (m_ph m) =? 2); cbn [bind]; [discriminate|].
  destruct (ph_type (m_ph m) =? 3); cbn [bind]; discriminate.
Qed.

(* ---------- the theorem for everything outside the known classes ---------- *)
Theorem partial ctx b : Known_C12 ctx b = false -> C12_statement_for ctx b.
Proof.
  unfold Known_C12, classify12, C12_statement_for. intros HK.
  destruct b as [|b0 r]; [discriminate|].
  split.
  - intros p. apply from_raw_parts_no_panic. discriminate.
  - intros m Hm. rewrite Hm in HK.
    destruct (len (b0 :: r) <? m_body_offset m) eqn:E; [discriminate|].
    destruct (bad_name m) eqn:Eb; [discriminate|].
    eapply accessors_ok; eauto. lia.
Qed.

(* the field loop's fuel is never what stops it: [Err EFuel] is not an outcome of parsing *)
Theorem no_fuel ctx b : from_raw_parts ctx b <> Err EFuel.
Proof.
  unfold from_raw_parts. destruct b as [|b0 r]; [discriminate|].
  destruct (endian_of_byte b0); [|discriminate]. destruct (negb _); [discriminate|].
  intros H. apply bind_fuel in H. destruct H as [H|([ph size] & _ & H)].
  - revert H. unfold de_primary, de_u32, de_u8, next_slice, parse_padding.
    repeat match goal with |- context [match ?x with _ => _ end] => destruct x; cbn [bind negb]; try discriminate end.
  - destruct (negb _); [discriminate|].
    apply bind_fuel in H. destruct H as [H|(? & _ & H)].
    { revert H. unfold data_slice. destruct (_ <? _); discriminate. }
    apply bind_fuel in H. destruct H as [H|([? ?] & _ & H)].
    { revert H. unfold de_u32, parse_padding, next_slice.
      repeat match goal with |- context [match ?x with _ => _ end] => destruct x; cbn [bind]; try discriminate end. }
    apply bind_fuel in H. destruct H as [H|(? & _ & H)].
    { revert H. unfold data_slice. destruct (_ <? _); discriminate. }
    apply bind_fuel in H. destruct H as [H|([? ?] & _ & H)]; [eapply de_fields_no_fuel; eauto|discriminate].
Qed.

(* ---------- witnesses (the same bytes are in known_findings/C12.jsonl and were run on the real code) ---------- *)
Definition unhex (s : string) : bytes := match bytes_of_hex (B s) with Some b => b | None => [] end.

(* a method call whose 29-byte field array ends at offset 45; the input stops at 46 instead of 48 *)
Definition wit_short : bytes :=
  unhex "6c01000100000000010000001d00000001016f00040000002f612f6200000000030173000400000050696e670000".
(* MEMBER = "a.b" : accepted by the derived TryFrom<Value>, refused by MemberName::try_from in FieldPos::read *)
Definition wit_name : bytes :=
  unhex "6c01000100000000010000001c00000001016f00040000002f612f62000000000301730003000000612e620000000000".

Theorem empty_refuted : exists ctx p, from_raw_parts ctx [] = Panic p.
Proof. exists LE, PIndex. reflexivity. Qed.

Theorem short_body_refuted : exists ctx b m p, from_raw_parts ctx b = Ok m /\ body m = Panic p.
Proof. exists LE, wit_short. eexists. exists PAssert. split; vm_compute; reflexivity. Qed.

Theorem invalid_name_refuted : exists ctx b m p, from_raw_parts ctx b = Ok m /\ header m = Panic p.
Proof. exists LE, wit_name. eexists. exists PUnwrap. split; vm_compute; reflexivity. Qed.

Theorem full_refuted : ~ C12_full_statement.
Proof.
  intros H. destruct (H LE []) as [Hn _]. apply (Hn PIndex). reflexivity.
Qed.

(* non-vacuity: a 76-byte signal with four fields and a body is outside every known class, and is accepted *)
Definition ex_msg : bytes :=
  unhex "6c04000104000000070000003700000001016f00040000002f612f62000000000201730003000000612e6200000000000301730001000000530000000000000008016700017500002a000000".
Example ex_not_known : Known_C12 LE ex_msg = false /\ exists m, from_raw_parts LE ex_msg = Ok m.
Proof. split; [vm_compute; reflexivity|]. eexists. vm_compute. reflexivity. Qed.
