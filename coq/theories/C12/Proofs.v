(* C12/Proofs.v — no input makes message creation or any accessor of an accepted message panic. *)
From ZV Require Import Base.Bytes Base.Res Base.Sig C10.Model C11.Model C11.Lemmas C11.Invariants C12.Spec.
From Coq Require Import Lia ZifyBool ZifyN ZifyNat.
Open Scope N_scope.

(* ---------- from_raw_parts ---------- *)
Lemma from_raw_parts_no_panic ctx b p : from_raw_parts ctx b <> Panic p.
Proof.
  unfold from_raw_parts. destruct b as [|b0 r]; [discriminate|].
  destruct (endian_of_byte b0); [|discriminate]. destruct (negb _); [discriminate|].
  intros H. apply bind_panic in H. destruct H as [H|([ph size] & Hp & H)]; [eapply de_primary_no_panic; eauto|].
  apply de_primary_ok in Hp. destruct Hp as (-> & Hlen & _). cbn [N.eqb negb Pos.eqb] in H.
  unfold data_slice in H. destruct (len (b0 :: r) <? 12) eqn:E; [lia|]. cbn [bind] in H.
  apply bind_panic in H. destruct H as [H|([fl q] & _ & H)]; [eapply de_u32_no_panic; eauto|].
  apply bind_panic in H. destruct H as [H|([fs q'] & _ & H)]; [eapply de_fields_no_panic; eauto|].
  match type of H with (if ?c then _ else _) = _ => destruct c; discriminate H end.
Qed.

(* an accepted message: its cached fields denote valid names found in the buffer, and the body offset lies inside it *)
Lemma from_raw_parts_ok ctx b m : from_raw_parts ctx b = Ok m ->
  m_bytes m = b /\ m_body_offset m <= len b /\ exists fs, fields_inv b fs /\ m_qf m = quick_fields b fs.
Proof.
  unfold from_raw_parts. destruct b as [|b0 r]; [discriminate|].
  destruct (endian_of_byte b0); [|discriminate]. destruct (negb _); [discriminate|].
  intros H. apply bind_ok in H. destruct H as ([ph size] & Hp & H).
  destruct (negb (size =? 12)); [discriminate|].
  apply bind_ok in H. destruct H as (? & _ & H).
  apply bind_ok in H. destruct H as ([fl q] & _ & H).
  apply bind_ok in H. destruct H as (? & _ & H).
  apply bind_ok in H. destruct H as ([fs q'] & Hf & H). cbv zeta in H.
  destruct (len (b0 :: r) <? _) eqn:E; [discriminate|]. apply N.ltb_ge in E. injection H as <-.
  split; [reflexivity|]. split; [exact E|]. exists fs. split; [eapply de_fields_ok; eauto|reflexivity].
Qed.

(* ---------- cached field positions ---------- *)
Lemma fp_read_valid v b o : ostr_at b o -> ovalid v o -> exists r, fp_read v b (fp_new b o) = Ok r.
Proof.
  destruct o as [[s st]|]; [|intros _ _; eexists; reflexivity].
  cbn [ostr_at ovalid fp_new]. intros (H2 & Hle & Hs & Hu) Hv. unfold fp_build.
  destruct ((st <=? len b) && (st + len s <=? len b) && (st <? two32) && (st + len s <? two32)); [|eexists; reflexivity].
  unfold fp_read.
  destruct ((st <=? 1) && (st + len s =? 0)) eqn:E; [lia|].
  destruct ((st + len s <? st) || (len b <? st + len s)) eqn:E2; [lia|].
  replace (st + len s - st) with (len s) by lia. rewrite Hs, Hu, Hv. eexists. reflexivity.
Qed.

(* ---------- accessors ---------- *)
Lemma header_ok ctx b m : from_raw_parts ctx b = Ok m -> exists h, header m = Ok h.
Proof.
  intros Hp. apply from_raw_parts_ok in Hp. destruct Hp as (Hbytes & _ & fs & Hinv & Hq).
  destruct Hinv as (I1 & I2 & I3 & I4 & I5 & I6 & V1 & V2 & V3 & V4 & V5 & V6).
  unfold header. rewrite Hbytes, Hq. cbn [quick_fields q_path q_iface q_member q_errname q_dest q_sender q_reply q_sig q_fds].
  destruct (fp_read_valid validate_object_path b _ I1 V1) as (r1 & ->). cbn [bind].
  destruct (fp_read_valid validate_interface b _ I2 V2) as (r2 & ->). cbn [bind].
  destruct (fp_read_valid validate_member b _ I3 V3) as (r3 & ->). cbn [bind].
  destruct (fp_read_valid validate_error b _ I4 V4) as (r4 & ->). cbn [bind].
  destruct (fp_read_valid validate_bus b _ I5 V5) as (r5 & ->). cbn [bind].
  destruct (fp_read_valid validate_unique b _ I6 V6) as (r6 & ->). cbn [bind].
  eauto.
Qed.

Lemma body_ok ctx b m : from_raw_parts ctx b = Ok m -> exists bd, body m = Ok bd.
Proof.
  intros Hp. apply from_raw_parts_ok in Hp. destruct Hp as (Hbytes & Hoff & _).
  unfold body, data_slice. rewrite Hbytes. destruct (len b <? m_body_offset m) eqn:E; [lia|eauto].
Qed.

Lemma accessors_ok ctx b m : from_raw_parts ctx b = Ok m -> accessors_no_panic m.
Proof.
  intros Hp. destruct (header_ok ctx b m Hp) as (h & Hh). destruct (body_ok ctx b m Hp) as (bd & Hbd).
  unfold accessors_no_panic, no_panic, display, debug_ok, body_deser. rewrite Hh, Hbd. cbn [bind].
  repeat split; intros p; try discriminate.
  destruct (ph_type (m_ph m) =? 1); cbn [bind]; [discriminate|].
  destruct (ph_type (m_ph m) =? 2); cbn [bind]; [discriminate|].
  destruct (ph_type (m_ph m) =? 3); cbn [bind]; discriminate.
Qed.

(* ---------- C12 at full strength ---------- *)
Theorem nopanic : C12_full_statement.
Proof.
  intros ctx b. split.
  - intros p. apply from_raw_parts_no_panic.
  - intros m Hm. eapply accessors_ok; eauto.
Qed.

(* the loop and nesting bounds of the model are never what stops it: [Err EFuel] is not an outcome of parsing *)
Theorem no_fuel ctx b : from_raw_parts ctx b <> Err EFuel.
Proof.
  unfold from_raw_parts. destruct b as [|b0 r]; [discriminate|].
  destruct (endian_of_byte b0); [|discriminate]. destruct (negb _); [discriminate|].
  intros H. apply bind_fuel in H. destruct H as [H|([ph size] & _ & H)].
  - revert H. unfold de_primary, de_u32, de_u8, next_slice, parse_padding.
    repeat match goal with |- context [match ?x with _ => _ end] => destruct x; cbn [bind negb]; try discriminate end.
  - destruct (negb _); [discriminate|].
    apply bind_fuel in H. destruct H as [H|(? & _ & H)].
    { revert H. unfold data_slice. destruct (_ <? _); discriminate. }
    apply bind_fuel in H. destruct H as [H|([? ?] & _ & H)].
    { revert H. unfold de_u32, parse_padding, next_slice.
      repeat match goal with |- context [match ?x with _ => _ end] => destruct x; cbn [bind]; try discriminate end. }
    apply bind_fuel in H. destruct H as [H|(? & _ & H)].
    { revert H. unfold data_slice. destruct (_ <? _); discriminate. }
    apply bind_fuel in H. destruct H as [H|([? ?] & _ & H)]; [eapply de_fields_no_fuel; eauto|].
    match type of H with (if ?c then _ else _) = _ => destruct c; discriminate H end.
Qed.

(* ---------- the former witnesses (known_findings/C12.jsonl, status fixed) are now rejected ---------- *)
Definition unhex (s : string) : bytes := match bytes_of_hex (B s) with Some b => b | None => [] end.
(* a method call whose 29-byte field array ends at offset 45; the input stops at 46 instead of 48 *)
Definition wit_short : bytes :=
  unhex "6c01000100000000010000001d00000001016f00040000002f612f6200000000030173000400000050696e670000".
(* MEMBER = "a.b" *)
Definition wit_name : bytes :=
  unhex "6c01000100000000010000001c00000001016f00040000002f612f62000000000301730003000000612e620000000000".
Example former_witnesses_rejected :
  (exists e, from_raw_parts LE [] = Err e) /\ (exists e, from_raw_parts LE wit_short = Err e) /\ (exists e, from_raw_parts LE wit_name = Err e).
Proof. repeat (match goal with |- _ /\ _ => split end); eexists; vm_compute; reflexivity. Qed.

(* non-vacuity: an accepted 124-byte signal: flags 0x0a (one unknown bit), path, an unknown field 200 carrying an array of
   (string, u32) structures, interface, member, signature "u", body 42 *)
Definition ex_msg : bytes :=
  unhex "6c040a0104000000070000006700000001016f00040000002f612f6200000000c8056128737529001c000000000000000100000078000000050000000000000002000000797a000006000000000000000201730003000000612e6200000000000301730001000000530000000000000008016700017500002a000000".
Example ex_accepted : exists m h bd, from_raw_parts LE ex_msg = Ok m /\ header m = Ok h /\ body m = Ok bd.
Proof. eexists. eexists. eexists. repeat (match goal with |- _ /\ _ => split end); vm_compute; reflexivity. Qed.
