(* C12/Run.v — line driver: `p <ctx> <hex>` (Message::from_bytes, then every accessor) and `s <hex> ...` (raw messages on
   a live connection: a crash of the reader task would show as HANG).  Spec column: NOPANIC.  No known-deviation class
   remains (fix: commits e5b4d5a2, b3fdf920), so the class column is always "-". *)
From ZV Require Import Base.Bytes Base.Res Base.Sig C11.Model C11.Spec C11.Run C13.Model C13.Run.
Open Scope N_scope.

Definition run_case (line : bytes) : outp :=
  let ws := words line in
  match ws with
  | k :: args =>
      if lbeq k (B "p") then
        match parse_p ws with
        | Some (ctx, b) => {| o_model := out_parse_res (from_raw_parts ctx b) 0; o_spec := B "NOPANIC"; o_class := dash |}
        | None => bad_case
        end
      else if lbeq k (B "s") then
        match unhex_all args with
        | Some stream => {| o_model := render_items (read_stream stream); o_spec := B "NOPANIC"; o_class := dash |}
        | None => bad_case
        end
      else bad_case
  | [] => bad_case
  end.

Definition run (line : bytes) : bytes := render (run_case line).
