(* C12/Run.v — line driver: `p <ctx> <hex>` (Message::from_bytes, then every accessor) and, for the witness that the
   crash is reachable from a socket, `s <hex> ...` (raw messages on a connection).  Spec column: NOPANIC. *)
From ZV Require Import Base.Bytes Base.Res Base.Sig C11.Model C11.Spec C11.Run C12.Spec C13.Model C13.Run.
Open Scope N_scope.

(* class of a stream: class of the first frame in a known class *)
Fixpoint stream_class12 (fuel : nat) (stream : bytes) : c12class :=
  match fuel with
  | O => KNone
  | S f =>
      match next_frame stream with
      | FrMsg e bytes rest =>
          match classify12 e bytes with
          | KNone => match from_raw_parts e bytes with Ok _ => stream_class12 f rest | _ => KNone end
          | c => c
          end
      | _ => KNone
      end
  end.

Definition run_case (line : bytes) : outp :=
  let ws := words line in
  match ws with
  | k :: args =>
      if lbeq k (B "p") then
        match parse_p ws with
        | Some (ctx, b) =>
            {| o_model := out_parse_res (from_raw_parts ctx b) 0; o_spec := B "NOPANIC"; o_class := class12_name (classify12 ctx b) |}
        | None => bad_case
        end
      else if lbeq k (B "s") then
        match unhex_all args with
        | Some stream =>
            {| o_model := render_items (read_stream stream); o_spec := B "NOPANIC";
               o_class := class12_name (stream_class12 (S (length stream)) stream) |}
        | None => bad_case
        end
      else bad_case
  | [] => bad_case
  end.

Definition run (line : bytes) : bytes := render (run_case line).
