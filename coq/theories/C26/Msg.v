(* C26/Msg.v — what crosses the connection and what the handlers record, shared by the models of
   C26 / C27 / C28 / C33.  Executable definitions only. *)
From ZV Require Import Base.Bytes C26.Desc.

(* error names the models produce; messages are compared only for errors raised by a handler *)
Inductive ename :=
| EUnknownObject | EUnknownInterface | EUnknownMethod | EUnknownProperty   (* org.freedesktop.DBus.Error.* *)
| EFailed | ENotSupported | EInvalidArgs
| EZBus                                                                     (* org.freedesktop.zbus.Error *)
| EStuck.                     (* never produced on well-formed states; lemmas exclude it (no totalised defaults) *)

Definition ename_eqb (a b : ename) : bool :=
  match a, b with
  | EUnknownObject, EUnknownObject | EUnknownInterface, EUnknownInterface | EUnknownMethod, EUnknownMethod
  | EUnknownProperty, EUnknownProperty | EFailed, EFailed | ENotSupported, ENotSupported
  | EInvalidArgs, EInvalidArgs | EZBus, EZBus | EStuck, EStuck => true
  | _, _ => false
  end.

(* a reply message: METHOD_RETURN with the top-level values of its body, or ERROR *)
Inductive reply :=
| RRet (vals : list val)
| RErr (e : ename) (msg : option bytes).       (* msg = Some m: raised by a handler (compared); None: by zbus *)

Record sigmsg := { sg_path : bytes; sg_iface : bytes; sg_member : bytes; sg_body : list val }.

(* one entry per handler invocation; the tag is the path the instance was registered at *)
Inductive logent :=
| LMethod (tag : bytes) (name : bytes) (args : list val)
| LGet (tag : bytes) (name : bytes)
| LSet (tag : bytes) (name : bytes) (v : val).

(* what user code does (the bodies of the impl block's functions): quantified over in the theorems,
   instantiated with the harness's standard handlers (C26/Std.v) in the line driver *)
Inductive hres := HOk (outs : list val) | HErr (e : ename) (msg : bytes).
Record behaviour := {
  bh_method : bytes -> bytes -> list val -> hres;                 (* interface, member, arguments *)
  bh_gfail : bytes -> bytes -> val -> option (ename * bytes);     (* interface, property, stored value: a fallible getter's error *)
  bh_sfail : bytes -> bytes -> val -> option (ename * bytes)      (* interface, property, new value: a fallible setter's error *)
}.

Record effects := { ef_replies : list reply; ef_log : list logent; ef_signals : list sigmsg }.

Definition no_effects : effects := {| ef_replies := []; ef_log := []; ef_signals := [] |}.
Definition reply_only (r : reply) : effects := {| ef_replies := [r]; ef_log := []; ef_signals := [] |}.

(* the body signature as it is written into the header (Signature::to_string_no_parens of the body type):
   the concatenation of the top-level values' signatures *)
Definition body_sig (vs : list val) : bytes := flat_map vsig vs.

(* ---------------------------------------------------------------- signatures as zvariant sees them *)
(* A parsed body signature: no complete type, one, or several (several parse to a structure, and so does
   a single structure type: "us" and "(us)" are the SAME parsed signature). *)
Inductive sg := SgUnit | SgOne (s : bytes) | SgStruct (fields : list bytes).

Fixpoint lbeq_list (a b : list bytes) : bool :=
  match a, b with
  | [], [] => true
  | x :: a', y :: b' => lbeq x y && lbeq_list a' b'
  | _, _ => false
  end.

Definition sg_eqb (a b : sg) : bool :=
  match a, b with
  | SgUnit, SgUnit => true
  | SgOne x, SgOne y => lbeq x y
  | SgStruct x, SgStruct y => lbeq_list x y
  | _, _ => false
  end.

(* the text of a parsed signature (Display, with the parentheses of a structure) *)
Definition sg_text (a : sg) : bytes :=
  match a with SgUnit => [] | SgOne s => s | SgStruct fs => B "(" ++ concat fs ++ B ")" end.

(* <T as Type>::SIGNATURE *)
Definition sg_of_ty (t : ty) : sg :=
  match struct_fields t with Some fs => SgStruct fs | None => SgOne (sigstr t) end.
(* <(T1, .., Tn) as Type>::SIGNATURE; `(T)` is just T; `()` is the unit signature *)
Definition sg_of_tys (ts : list ty) : sg :=
  match ts with [] => SgUnit | _ => SgStruct (map sigstr ts) end.
Definition sg_of_args (ts : list ty) : sg :=
  match ts with [t] => sg_of_ty t | _ => sg_of_tys ts end.

(* the header's signature string parsed back: of the values actually in the body *)
Definition sg_of_vals (vs : list val) : sg :=
  match vs with
  | [] => SgUnit
  | [v] => match vfields v with Some fs => SgStruct fs | None => SgOne (vsig v) end
  | _ => SgStruct (map vsig vs)
  end.

(* zvariant `DynamicDeserialize for T: Type`: deserializer_for_signature(expected = T::SIGNATURE, got):
   equal, or `expected` is a structure with exactly one field equal to `got` *)
Definition dyn_sig_ok (expected got : sg) : bool :=
  sg_eqb expected got ||
  match expected with
  | SgStruct [f] => lbeq f (sg_text got)
  | _ => false
  end.
