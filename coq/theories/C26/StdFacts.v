(* C26/StdFacts.v — the standard handler behaviour (C26/Std.v) respects the Rust signatures: it is an
   instance of the behaviours the theorems quantify over (used by the Examples and the refutation witnesses). *)
From ZV Require Import Base.Bytes Base.WinnowFacts C26.Desc C26.Tree C26.Msg C26.Std C27.Model C28.Model C26.Model.
From ZV Require Import C28.Spec C26.Spec C26.Facts C26.Proofs.

Lemma derive_typed t h : has_ty (derive t h) t = true.
Proof. destruct t; cbn; try reflexivity. Qed.

Lemma derive_outs_typed ts : forall h, typed (derive_outs ts h) ts.
Proof. induction ts as [|t r IH]; intro h; cbn; constructor; [apply derive_typed|apply IH]. Qed.

Lemma nodup_find_self {A} (name : A -> bytes) (l : list A) x :
  nodupb (map name l) = true -> In x l -> find (fun y => lbeq (name y) (name x)) l = Some x.
Proof.
  induction l as [|y l IH]; cbn [map find In]; [tauto|]. intros Hd [->|Hin].
  - now rewrite lbeq_refl.
  - apply nodupb_cons in Hd as [Hn Hd]. destruct (lbeq (name y) (name x)) eqn:E; [|auto].
    exfalso. apply lbeq_true in E. rewrite E in Hn.
    assert (existsb (lbeq (name x)) (map name l) = true) as K.
    { apply existsb_exists. exists (name x). split; [now apply in_map|apply lbeq_refl]. }
    congruence.
Qed.

Lemma std_respects d :
  nodupb (map md_name (id_methods d)) = true -> bh_respects (std_bh [d]) d.
Proof.
  intros Hd md Hin. cbn [std_bh bh_method]. unfold std_method. cbn [find]. rewrite lbeq_refl.
  unfold find_method. rewrite (nodup_find_self md_name _ _ Hd Hin). split.
  - intros Hf args e m. rewrite Hf. cbn. discriminate.
  - intros args outs. destruct (md_fall md && _); [discriminate|]. destruct (md_fall md && _); [discriminate|].
    intro H. inversion H. apply derive_outs_typed.
Qed.
