(* C26/Runner.v — the line driver shared by C26 / C27 / C28 / C33 (each property's Run.v selects its mode).
   case:   <mode> <desc> <layout> <op> <op> ...        (see harness/hiface/src/main.rs for the syntax)
   model:  what harness/hiface prints: one observation per op joined by ';'
   spec:   per op what the property text demands ('-' = not constrained; '*' = any content; a leading '?'
           on the reply = optional because NO_REPLY_EXPECTED was set), joined by ';'
   class:  per op the known-deviation class it falls in or '-', joined by ';'                         *)
From ZV Require Import Base.Bytes Base.Res C26.Desc C26.Tree C26.Msg C26.Std C27.Model C28.Model C26.Model C33.Model.
From ZV Require Import C28.Spec C26.Spec C27.Spec C33.Spec C27.Reader.
From ZV Require C10.Model C06.Model C34.Model.

(* ---------------------------------------------------------------- parsing: values *)
Definition in_u8 (n : N) : bool := (n <? 256)%N.
Definition in_u32 (n : N) : bool := (n <? two32)%N.
Definition in_i64 (z : Z) : bool := ((-9223372036854775808 <=? z) && (z <=? 9223372036854775807))%Z.

Definition unhex_str (h : bytes) : option bytes := bytes_of_hex h.

Fixpoint all_some {A} (l : list (option A)) : option (list A) :=
  match l with
  | [] => Some []
  | Some x :: r => match all_some r with Some xs => Some (x :: xs) | None => None end
  | None :: _ => None
  end.

Definition split1 (sep : byte) (l : bytes) : option (bytes * bytes) :=
  match split_on sep l with
  | a :: b :: r => Some (a, join [sep] (b :: r))
  | _ => None
  end.

Definition dot : byte := "."%byte.

Fixpoint parse_val (l : bytes) : option val :=
  match l with
  | [] => None
  | k :: r =>
      if beq k "v"%byte then option_map VV (parse_val r)
      else if beq k "y"%byte then match N_of_dec r with Some n => if in_u8 n then Some (VY n) else None | None => None end
      else if beq k "u"%byte then match N_of_dec r with Some n => if in_u32 n then Some (VU n) else None | None => None end
      else if beq k "x"%byte then match Z_of_dec r with Some z => if in_i64 z then Some (VX z) else None | None => None end
      else if beq k "b"%byte then (if lbeq r (B "0") then Some (VB false) else if lbeq r (B "1") then Some (VB true) else None)
      else if beq k "s"%byte then option_map VS (unhex_str r)
      else if beq k "o"%byte then
        match unhex_str r with Some p => if C10.Model.validate_object_path p then Some (VO p) else None | None => None end
      else if beq k "A"%byte then
        match r with
        | [] => Some (VA [])
        | _ => match all_some (map N_of_dec (split_on dot r)) with
               | Some ns => if forallb in_u32 ns then Some (VA ns) else None
               | None => None
               end
        end
      else if beq k "R"%byte then
        match split1 dot r with
        | Some (n, s) => match N_of_dec n, unhex_str s with
                         | Some n, Some s => if in_u32 n then Some (VR n s) else None
                         | _, _ => None
                         end
        | None => None
        end
      else if beq k "D"%byte then
        match r with
        | [] => Some (VD [])
        | _ =>
            match all_some (map (fun e => match split1 dot e with
                                          | Some (k, v) => match unhex_str k, N_of_dec v with
                                                           | Some k, Some v => if in_u32 v then Some (k, v) else None
                                                           | _, _ => None
                                                           end
                                          | None => None
                                          end) (split_on "+"%byte r)) with
            | Some es => if nodupb (map fst es) then Some (VD es) else None
            | None => None
            end
        end
      else None
  end.

Definition parse_args (s : bytes) : option (list val) :=
  match s with [] => Some [] | _ => all_some (map parse_val (split_on ","%byte s)) end.

(* ---------------------------------------------------------------- parsing: descriptions *)
Definition parse_ty (c : byte) : option ty :=
  if beq c "y"%byte then Some TY else if beq c "u"%byte then Some TU else if beq c "x"%byte then Some TX
  else if beq c "b"%byte then Some TB else if beq c "s"%byte then Some TS else if beq c "o"%byte then Some TO
  else if beq c "v"%byte then Some TV else if beq c "A"%byte then Some TA else if beq c "R"%byte then Some TR
  else if beq c "N"%byte then Some TN else if beq c "D"%byte then Some TD else None.

Definition parse_tys (s : bytes) : option (list ty) :=
  if lbeq s (B "-") then Some [] else all_some (map parse_ty s).

Definition named_args (ts : list ty) : list (bytes * ty) :=
  map (fun e => (B "a" ++ dec_of_N (N.of_nat (fst e)), snd e)) (combine (seq 0 (length ts)) ts).

Definition parse_doc (s : bytes) : option (list bytes) :=
  if lbeq s (B "-") then Some []
  else all_some (map (fun x => if lbeq x (B "e") then Some [] else unhex_str x) (split_on "_"%byte s)).

Definition has_flag (c : byte) (s : bytes) : bool := existsb (beq c) s.

Definition parse_out (s : bytes) : option oshape :=
  match s with
  | [c] => if beq c "-"%byte then Some OUnit else if beq c "t"%byte then Some (OTuple []) else None
  | c :: r =>
      if beq c "1"%byte then match r with [t] => option_map OSingle (parse_ty t) | _ => None end
      else if beq c "t"%byte then option_map OTuple (all_some (map parse_ty r))
      else None
  | [] => None
  end.

Definition parse_acc (s : bytes) : option access :=
  if lbeq s (B "r") then Some AR else if lbeq s (B "w") then Some AW else if lbeq s (B "rw") then Some ARW else None.
Definition parse_emits (s : bytes) : option emits :=
  if lbeq s (B "t") then Some ETrue else if lbeq s (B "i") then Some EInval
  else if lbeq s (B "c") then Some EConst else if lbeq s (B "f") then Some EFalse else None.

Inductive part := PM (m : mdesc) | PP (p : pdesc) | PS (s : sdesc).

Definition parse_part (s : bytes) : option part :=
  match split_on dot s with
  | [k; name; ins; out; fl; doc] =>
      if lbeq k (B "m") then
        match parse_tys ins, parse_out out, parse_doc doc with
        | Some ts, Some o, Some d =>
            Some (PM {| md_name := name; md_ins := named_args ts; md_out := o; md_mut := has_flag "m"%byte fl;
                        md_fall := has_flag "f"%byte fl; md_async := has_flag "a"%byte fl; md_doc := d |})
        | _, _, _ => None
        end
      else None
  | [k; name; t; acc; em; fl; doc] =>
      if lbeq k (B "p") then
        match t, parse_acc acc, parse_emits em, parse_doc doc with
        | [tc], Some a, Some e, Some d =>
            match parse_ty tc with
            | Some ty =>
                Some (PP {| pd_name := name; pd_ty := ty; pd_acc := a; pd_emits := e;
                            pd_gfall := has_flag "g"%byte fl; pd_sfall := has_flag "s"%byte fl;
                            pd_smut := has_flag "m"%byte fl; pd_gasync := has_flag "a"%byte fl;
                            pd_sasync := has_flag "b"%byte fl; pd_doc := d |})
            | None => None
            end
        | _, _, _, _ => None
        end
      else None
  | [k; name; args; doc] =>
      if lbeq k (B "s") then
        match parse_tys args, parse_doc doc with
        | Some ts, Some d => Some (PS {| sd_name := name; sd_args := named_args ts; sd_doc := d |})
        | _, _ => None
        end
      else None
  | _ => None
  end.

Definition zv_prefix : bytes := B "org.zv.".

Definition parse_desc (s : bytes) : option idesc :=
  match split_on "/"%byte s with
  | name :: parts =>
      match all_some (map parse_part parts) with
      | Some ps =>
          Some {| id_name := zv_prefix ++ name;
                  id_methods := flat_map (fun p => match p with PM m => [m] | _ => [] end) ps;
                  id_signals := flat_map (fun p => match p with PS m => [m] | _ => [] end) ps;
                  id_props := flat_map (fun p => match p with PP m => [m] | _ => [] end) ps |}
      | None => None
      end
  | [] => None
  end.

(* the description must be one the emitter can turn into a compiling program (props/ifacegen.py) *)
Definition desc_ok (d : idesc) : bool :=
  (* `-> (u32, String)` IS the tuple output: OSingle TR is not a Rust program; tuples cannot be property types *)
  forallb (fun m => match md_out m with OSingle TR => false | _ => true end) (id_methods d) &&
  forallb (fun p => match pd_ty p with TR | TL | TP => false | _ => true end) (id_props d) &&
  C10.Model.validate_interface (id_name d) &&
  nodupb (map md_name (id_methods d) ++ map sd_name (id_signals d) ++ map pd_name (id_props d)) &&
  forallb (fun m => C10.Model.validate_member (md_name m)) (id_methods d) &&
  forallb (fun m => C10.Model.validate_member (sd_name m)) (id_signals d) &&
  forallb (fun p => C10.Model.validate_member (pd_name p)) (id_props d).

Definition other_desc : idesc :=
  {| id_name := B "org.zv.Other";
     id_methods := [{| md_name := B "MHello"; md_ins := []; md_out := OSingle TS; md_mut := false; md_fall := false;
                       md_async := false; md_doc := [] |}];
     id_signals := []; id_props := [] |}.

(* ---------------------------------------------------------------- parsing: layout and ops *)
Definition parse_layout (d : idesc) (s : bytes) : option node :=
  match s with
  | c :: r =>
      if beq c "L"%byte then
        match r with
        | [] => Some empty_node
        | _ =>
            fold_left (fun acc e =>
                         match acc, split_on "="%byte e with
                         | Some root, [p; k] =>
                             if C10.Model.validate_object_path p then
                               if lbeq k (B "D") then Some (fst (add_at root (segs_of p) (new_inst d p)))
                               else if lbeq k (B "O") then Some (fst (add_at root (segs_of p) (new_inst other_desc p)))
                               else None
                             else None
                         | _, _ => None
                         end) (split_on ","%byte r) (Some empty_node)
        end
      else None
  | [] => None
  end.

Inductive op :=
| OCall (c : call)
| OIntro (path : bytes)
| OPm (path name : bytes) (args : list val)
| OPg (path name : bytes)
| OPs (path name : bytes) (v : val)
| OSg (path name : bytes) (args : list val)
| OPn (slot : bytes) (cached : bool) (path : bytes)
| OQg (slot name : bytes)
| OQs (slot name : bytes) (v : val).

Definition opt_field (valid : bytes -> bool) (s : bytes) : option (option bytes) :=
  if lbeq s (B "-") then Some None else if valid s then Some (Some s) else None.

Definition ab (s : bytes) : bool := lbeq s (B "a") || lbeq s (B "b").

Definition parse_op (w : bytes) : option op :=
  match split_on ":"%byte w with
  | [k; p; i; m; fl; args] =>
      if lbeq k (B "c") then
        match opt_field C10.Model.validate_object_path p, opt_field C10.Model.validate_interface i,
              opt_field C10.Model.validate_member m, parse_args args with
        | Some p, Some i, Some m, Some a =>
            if lbeq fl (B "n") then Some (OCall {| c_path := p; c_iface := i; c_member := m; c_noreply := true; c_args := a |})
            else if lbeq fl (B "-") then Some (OCall {| c_path := p; c_iface := i; c_member := m; c_noreply := false; c_args := a |})
            else None
        | _, _, _, _ => None
        end
      else None
  | [k; p] => if lbeq k (B "i") && C10.Model.validate_object_path p then Some (OIntro p) else None
  | [k; x; p; n; a] =>
      if lbeq k (B "pn") then
        (* pn:<slot>:<a|b>:<c|n>:<path> *)
        if ab p && (lbeq n (B "c") || lbeq n (B "n")) && C10.Model.validate_object_path a
        then Some (OPn x (lbeq n (B "c")) a) else None
      else if ab x && C10.Model.validate_object_path p then
        if lbeq k (B "pm") then option_map (OPm p n) (parse_args a)
        else if lbeq k (B "ps") then option_map (OPs p n) (parse_val a)
        else if lbeq k (B "sg") then option_map (OSg p n) (parse_args a)
        else None
      else None
  | [k; x; p; n] =>
      if lbeq k (B "qs") then option_map (OQs x p) (parse_val n)
      else if lbeq k (B "pg") && ab x && C10.Model.validate_object_path p then Some (OPg p n) else None
  | [k; x; p] => if lbeq k (B "qg") then Some (OQg x p) else None
  | _ => None
  end.

(* ---------------------------------------------------------------- rendering *)
Definition ename_text (e : ename) : bytes :=
  match e with
  | EUnknownObject => B "UnknownObject" | EUnknownInterface => B "UnknownInterface"
  | EUnknownMethod => B "UnknownMethod" | EUnknownProperty => B "UnknownProperty"
  | EFailed => B "Failed" | ENotSupported => B "NotSupported" | EInvalidArgs => B "InvalidArgs"
  | EZBus => B "ZBus" | EStuck => B "MODEL-STUCK"
  end.

Definition star : bytes := B "*".
Definition msg_text (m : option bytes) : bytes := match m with Some x => hexb x | None => star end.

Definition render_reply (r : reply) : bytes :=
  match r with
  | RRet vals => B "R" ++ body_sig vals ++ B "=" ++ toks vals
  | RErr e m => B "E" ++ ename_text e ++ B "=" ++ msg_text m
  end.
Definition render_replies (rs : list reply) : bytes :=
  match rs with [] => B "N" | _ => join (B "&") (map render_reply rs) end.

Definition render_log1 (l : logent) : bytes :=
  match l with
  | LMethod tag name args => tag ++ B "#" ++ entry_text name args
  | LGet tag name => tag ++ B "#get_" ++ name
  | LSet tag name v => tag ++ B "#set_" ++ name ++ B "=" ++ tok v
  end.
Definition render_log (l : list logent) : bytes := join (B "&") (map render_log1 l).

Definition render_sig (m : sigmsg) : bytes :=
  sg_member m ++ B "@" ++ sg_path m ++ B "/" ++ sg_iface m ++ B "(" ++ body_sig (sg_body m) ++ B "=" ++ toks (sg_body m) ++ B ")".
Definition render_sigs (l : list sigmsg) : bytes := join (B "&") (map render_sig l).

Definition bar : bytes := B "|".

Definition render_effects (ef : effects) : bytes :=
  render_replies (ef_replies ef) ++ bar ++ render_log (ef_log ef) ++ bar ++ render_sigs (ef_signals ef).

Fixpoint render_xreply (x : xreply) : bytes :=
  match x with
  | XNone => B "N"
  | XRet vals => render_reply (RRet vals)
  | XRetAny s => B "R" ++ s ++ B "=*"
  | XErr e m => B "E" ++ ename_text e ++ B "=" ++ msg_text m
  | XErrAny => B "E*"
  | XOpt r => B "?" ++ render_xreply r
  end.
Definition render_expect (x : expect) : bytes :=
  render_xreply (x_reply x) ++ bar ++ render_log (x_log x) ++ bar ++ render_sigs (x_signals x).

Definition render_pres (r : pres) : bytes :=
  match r with
  | POk vals => B "O" ++ toks vals
  | PErr e m => B "E" ++ ename_text e ++ B "=" ++ msg_text m
  | PBad => B "ZVariant"
  | PNone => B "T"
  end.

(* ---------------------------------------------------------------- introspection: canonical forms *)
Definition canon_arg (a : C34.Model.arg bytes) : bytes :=
  (match C34.Model.ar_name bytes a with Some n => n | None => B "-" end) ++ B "=" ++ C34.Model.ar_ty bytes a.
Definition is_in (a : C34.Model.arg bytes) : bool := match C34.Model.ar_dir bytes a with Some C34.Model.DIn => true | _ => false end.
Definition canon_method (m : C34.Model.method bytes) : bytes :=
  C34.Model.m_name bytes m ++ B "(" ++ join (B ",") (map canon_arg (filter is_in (C34.Model.m_args bytes m))) ++ B ">" ++
  join (B ",") (map canon_arg (filter (fun a => negb (is_in a)) (C34.Model.m_args bytes m))) ++ B ")".
Definition canon_signal (m : C34.Model.signal bytes) : bytes :=
  C34.Model.s_name bytes m ++ B "(" ++ join (B ",") (map canon_arg (C34.Model.s_args bytes m)) ++ B ")".
Definition canon_prop (p : C34.Model.property bytes) : bytes :=
  C34.Model.p_name bytes p ++ B "=" ++ C34.Model.p_ty bytes p ++ B "/" ++
  (match C34.Model.p_access bytes p with C34.Model.ARead => B "r" | C34.Model.AWrite => B "w" | C34.Model.AReadWrite => B "rw" end) ++ B "/" ++
  (match find (fun a => lbeq (C34.Model.an_name a) annot_name) (C34.Model.p_anns bytes p) with Some a => C34.Model.an_value a | None => B "true" end).
Definition canon_iface (i : C34.Model.iface bytes) : bytes :=
  C34.Model.i_name bytes i ++ B ":M" ++ join (B "+") (map canon_method (C34.Model.i_methods bytes i)) ++
  B ":S" ++ join (B "+") (map canon_signal (C34.Model.i_signals bytes i)) ++
  B ":P" ++ join (B "+") (map canon_prop (C34.Model.i_props bytes i)).

Definition sort_strs (l : list bytes) : list bytes := map fst (sort_by_key (map (fun s => (s, tt)) l)).

Fixpoint canon_node (n : C34.Model.node bytes) : bytes :=
  match n with
  | C34.Model.Node _ _ ifs ns =>
      B "[" ++ join (B "~") (sort_strs (map canon_iface ifs)) ++ B "]{" ++
      join (B "~") (map (fun e => fst e ++ snd e)
                      (sort_by_key ((fix go (l : list (C34.Model.node bytes)) : list (bytes * bytes) :=
                                       match l with
                                       | [] => []
                                       | (C34.Model.Node _ nm _ _ as c) :: r =>
                                           ((match nm with Some s => s | None => B "?" end), canon_node c) :: go r
                                       end) ns))) ++ B "}"
  end.

(* the hex of the text of every org.zv.* interface in the subtree, at its indentation; sorted *)
Definition is_zv (d : idesc) : bool := starts_with zv_prefix (id_name d).
Fixpoint frags (level : nat) (n : node) : list bytes :=
  match n with
  | Node ifs kids =>
      map (fun i => hexb (iface_text (level + 2) (in_desc i))) (filter (fun i => is_zv (in_desc i)) ifs) ++
      (fix go (l : list (bytes * node)) : list bytes :=
         match l with [] => [] | (_, c) :: r => frags (level + 2) c ++ go r end) kids
  end.

Definition intro_model (n : node) : bytes :=
  let item := node_item None n in
  let z := match erase item with
           | [t] => match read_doc t with Ok d => canon_node d | _ => B "BADXML" end
           | _ => B "BADXML"
           end in
  B "I" ++ z ++ bar ++ join (B ".") (sort_strs (frags 0 n)) ++ bar ++ (if xi_wf item then z else B "BADXML").

Definition intro_spec (n : node) : bytes :=
  let z := canon_node (d_node None n) in B "I" ++ z ++ bar ++ star ++ bar ++ z.

(* ---------------------------------------------------------------- classes *)
Definition class26_tok (d : dev26) : bytes :=
  match d with
  | MissingInterface => B "missing_interface"
  | NoargExtra => B "noarg_extra_args"
  | StructFlattened => B "sole_struct_flattened"
  | SingleStructReturn => B "single_struct_return"
  end.

Section Run.
  Variable d : idesc.
  Definition bh : behaviour := std_bh [d; other_desc].

  (* ---- C28's classes (decided on the current state) *)
  Inductive dev28 := GetallOmitsFailed | ChangedGetterFails | VariantTyped.
  Definition class28_tok (x : dev28) : bytes :=
    match x with
    | GetallOmitsFailed => B "getall_omits_failed"
    | ChangedGetterFails => B "changed_getter_fails"
    | VariantTyped => B "variant_typed_property"
    end.
  Definition is_tv (t : ty) : bool := ty_eqb t TV.

  Definition class_set (i : inst) (p : pdesc) (sent : val) : option dev28 :=
    if writable p && is_tv (pd_ty p) then Some VariantTyped
    else if writable p && has_ty sent (pd_ty p) then
      match setter_error bh i p sent with
      | Some _ => None
      | None =>
          match eff_emits p, getter_error bh i p sent with
          | ETrue, Some _ => Some ChangedGetterFails
          | _, _ => None
          end
      end
    else None.

  Definition class28 (root : node) (c : call) : option dev28 :=
    match c_path c, c_member c, c_args c with
    | Some path, Some member, VS iface :: rest =>
        match registered root path iface with
        | Some i =>
            match rest with
            | [VS pname] =>
                match find_prop (in_desc i) pname with
                | Some p => if readable p && is_tv (pd_ty p) then Some VariantTyped else None
                | None => None
                end
            | [] =>
                if existsb (fun p => readable p &&
                                       match get_val (pd_name p) (in_vals i) with
                                       | Some v => match getter_error bh i p v with Some _ => true | None => false end
                                       | None => false
                                       end) (id_props (in_desc i))
                then Some GetallOmitsFailed
                else if existsb (fun p => readable p && is_tv (pd_ty p)) (id_props (in_desc i)) then Some VariantTyped
                else None
            | [VS pname; VV sent] =>
                match find_prop (in_desc i) pname with
                | Some p => class_set i p sent
                | None => None
                end
            | _ => None
            end
        | None => None
        end
    | _, _, _ => None
    end.

  (* one op: (model, spec, class, new state); None = BADCASE *)
  Definition typed_args (ts : list (bytes * ty)) (args : list val) : bool :=
    (length ts =? length args)%nat && forallb (fun e => has_ty (fst e) (snd (snd e))) (combine args ts).

  (* which part of a raw call's expectation belongs to which property (the same op can occur in every mode):
       26  everything except well-typed Properties calls (C28's subject)
       27  the accepted / sent TYPES: the error name of a rejected call and C28's behavioural classes are not its
           subject; a single-structure return is exempted by the property text
       28  well-typed Properties calls; an ill-typed one must just be answered with an error
       33  raw calls are only there to read the state back                                                       *)
  Definition relax_err (x : expect) : expect :=
    match x_reply x with
    | XErr EInvalidArgs None => {| x_reply := XErrAny; x_log := x_log x; x_signals := x_signals x; x_root := x_root x |}
    | XOpt (XErr EInvalidArgs None) =>
        {| x_reply := XOpt XErrAny; x_log := x_log x; x_signals := x_signals x; x_root := x_root x |}
    | _ => x
    end.

  Definition call_spec (mode : bytes) (root : node) (c : call) : bytes * bytes :=
    let sp := spec26 bh root c in
    let r x := match x with Some e => render_expect e | None => dash end in
    let c28 := match class28 root c with Some x => class28_tok x | None => dash end in
    if lbeq mode (B "26") then
      if is_props_call root c then (dash, dash)
      else (r sp, match class26 root c with Some x => class26_tok x | None => dash end)
    else if lbeq mode (B "27") then
      if is_props_call root c then
        match class28 root c with
        | Some GetallOmitsFailed | Some ChangedGetterFails => (dash, dash)
        | _ => (r (option_map relax_err sp), c28)
        end
      else
        match class26 root c with
        | Some SingleStructReturn => (dash, dash)
        | Some x => (r sp, class26_tok x)
        | None => (r sp, dash)
        end
    else if lbeq mode (B "28") then
      if is_props_call root c then (r (option_map relax_err sp), c28)
      else
        match target_method root c with
        | Some (FStd d0, _) => if lbeq (id_name d0) props_name then (r (option_map relax_err sp), dash) else (dash, dash)
        | _ => (dash, dash)
        end
    else (dash, dash).

  Definition step (mode : bytes) (root : node) (o : op) : option (bytes * bytes * bytes * node * list sigmsg) :=
    match o with
    | OPn _ _ _ | OQg _ _ | OQs _ _ _ => None
    | OCall c =>
        let '(ef, root') := dispatch bh root c in
        let '(sp, cl) := call_spec mode root c in
        Some (render_effects ef, sp, cl, root', ef_signals ef)
    | OIntro path =>
        match get_child root (segs_of path) with
        | Some n =>
            Some (intro_model n ++ bar ++ bar, intro_spec n ++ bar ++ bar, dash, root, [])
        | None =>
            Some (B "EUnknownObject=*||||", B "EUnknownObject=*||||", dash, root, [])
        end
    | OPm path name args =>
        match find_method d name with
        | Some md =>
            if typed_args (md_ins md) args then
              let '(r, ef, root') := proxy_call bh root path d md args in
              let sp := match registered root path (id_name d) with
                        | Some i => let x := spec_proxy_call bh i md args in
                                    render_pres (px_res x) ++ bar ++ render_log (px_log x) ++ bar
                        | None => dash
                        end in
              Some (render_pres r ++ bar ++ render_log (ef_log ef) ++ bar ++ render_sigs (ef_signals ef), sp, dash, root', ef_signals ef)
            else None
        | None => None
        end
    | OPg path name =>
        match find_prop d name with
        | Some p =>
            if readable p then
              let '(r, ef, root') := proxy_get bh root path d p in
              let sp := match registered root path (id_name d) with
                        | Some i => let x := spec_proxy_get bh i p in
                                    render_pres (px_res x) ++ bar ++ render_log (px_log x) ++ bar
                        | None => dash
                        end in
              Some (render_pres r ++ bar ++ render_log (ef_log ef) ++ bar ++ render_sigs (ef_signals ef), sp, dash, root', ef_signals ef)
            else None
        | None => None
        end
    | OPs path name v =>
        match find_prop d name with
        | Some p =>
            if writable p && has_ty v (pd_ty p) then
              let '(r, ef, root') := proxy_set bh root path d p v in
              let '(sp, cl) := match registered root path (id_name d) with
                               | Some i => let x := spec_proxy_set bh i p v in
                                           (render_pres (px_res x) ++ bar ++ render_log (px_log x) ++ bar ++ star,
                                            match setter_error bh i p v, eff_emits p, getter_error bh i p v with
                                            | None, ETrue, Some _ => class28_tok ChangedGetterFails
                                            | _, _, _ => dash
                                            end)
                               | None => (dash, dash)
                               end in
              Some (render_pres r ++ bar ++ render_log (ef_log ef) ++ bar ++ render_sigs (ef_signals ef), sp, cl, root', ef_signals ef)
            else None
        | None => None
        end
    | OSg path name args =>
        match find_signal d name with
        | Some s =>
            if typed_args (sd_args s) args then
              match emit_signal path d name args with
              | Some m =>
                  let r := match proxy_recv path d s m with Some r => r | None => PNone end in
                  Some (render_pres r ++ bar ++ bar ++ render_sig m,
                        render_pres (spec_proxy_recv args) ++ bar ++ bar ++ star, dash, root, [m])
              | None => None
              end
            else None
        | None => None
        end
    end.

  (* ---- persistent proxy instances (slots) with their property caches *)
  Record slot := { sl_name : bytes; sl_path : bytes; sl_cached : bool; sl_cache : pcache }.

  Definition find_slot (n : bytes) (l : list slot) : option slot := find (fun s => lbeq (sl_name s) n) l.
  Definition set_slot_cache (n : bytes) (c : pcache) (l : list slot) : list slot :=
    map (fun s => if lbeq (sl_name s) n
                  then {| sl_name := sl_name s; sl_path := sl_path s; sl_cached := sl_cached s; sl_cache := c |} else s) l.
  (* every cache catches up with the signals of the op (the driver synchronises after every op) *)
  Definition apply_signals (sigs : list sigmsg) (l : list slot) : list slot :=
    map (fun s => {| sl_name := sl_name s; sl_path := sl_path s; sl_cached := sl_cached s;
                     sl_cache := fold_left (cache_apply d (sl_path s)) sigs (sl_cache s) |}) l.

  Definition star3 : bytes := star ++ bar ++ star.

  Definition slot_step (root : node) (slots : list slot) (o : op)
    : option (bytes * bytes * bytes * node * list sigmsg * list slot) :=
    match o with
    | OPn name cached path =>
        match find_slot name slots with
        | Some _ => None
        | None => Some (B "O||", dash, dash, root, [],
                        slots ++ [{| sl_name := name; sl_path := path; sl_cached := cached; sl_cache := CNone |}])
        end
    | OQg name pname =>
        match find_slot name slots, find_prop d pname with
        | Some s, Some p =>
            if readable p then
              let '(r, ef, root', c') :=
                if sl_cached s then cached_get bh root (sl_path s) d p (sl_cache s)
                else let '(r, ef, root') := proxy_get bh root (sl_path s) d p in (r, ef, root', sl_cache s) in
              let '(sp, cl) :=
                match registered root (sl_path s) (id_name d) with
                | Some i =>
                    (* a `const` property may legitimately be served from the cache for ever *)
                    if sl_cached s && match eff_emits p with EConst => true | _ => false end then (dash, dash)
                    else (render_pres (px_res (spec_proxy_get bh i p)) ++ bar ++ star3,
                          match eff_emits p, get_val pname (in_vals i) with
                          | ETrue, Some v => if sl_cached s then
                                               match getter_error bh i p v with
                                               | Some _ => class28_tok ChangedGetterFails
                                               | None => dash
                                               end
                                             else dash
                          | _, _ => dash
                          end)
                | None => (dash, dash)
                end in
              Some (render_pres r ++ bar ++ render_log (ef_log ef) ++ bar ++ render_sigs (ef_signals ef), sp, cl, root',
                    ef_signals ef, set_slot_cache name c' slots)
            else None
        | _, _ => None
        end
    | OQs name pname v =>
        match find_slot name slots, find_prop d pname with
        | Some s, Some p =>
            if writable p && has_ty v (pd_ty p) then
              let '(r, ef, root') := proxy_set bh root (sl_path s) d p v in
              let '(sp, cl) := match registered root (sl_path s) (id_name d) with
                               | Some i => let x := spec_proxy_set bh i p v in
                                           (render_pres (px_res x) ++ bar ++ render_log (px_log x) ++ bar ++ star,
                                            match setter_error bh i p v, eff_emits p, getter_error bh i p v with
                                            | None, ETrue, Some _ => class28_tok ChangedGetterFails
                                            | _, _, _ => dash
                                            end)
                               | None => (dash, dash)
                               end in
              Some (render_pres r ++ bar ++ render_log (ef_log ef) ++ bar ++ render_sigs (ef_signals ef), sp, cl, root',
                    ef_signals ef, slots)
            else None
        | _, _ => None
        end
    | _ => match step (B "33") root o with
           | Some (m, sp, cl, root', sigs) => Some (m, sp, cl, root', sigs, slots)
           | None => None
           end
    end.

  Fixpoint steps (mode : bytes) (root : node) (slots : list slot) (os : list op) : option (list (bytes * bytes * bytes)) :=
    match os with
    | [] => Some []
    | o :: r =>
        match (match o with
               | OPn _ _ _ | OQg _ _ | OQs _ _ _ => slot_step root slots o
               | _ => match step mode root o with
                      | Some (m, sp, cl, root', sigs) => Some (m, sp, cl, root', sigs, slots)
                      | None => None
                      end
               end) with
        | Some (m, s, c, root', sigs, slots') =>
            match steps mode root' (apply_signals sigs slots') r with Some l => Some ((m, s, c) :: l) | None => None end
        | None => None
        end
    end.
End Run.

Definition semi : bytes := B ";".

Definition valid_mode (m : bytes) : bool :=
  lbeq m (B "26") || lbeq m (B "27") || lbeq m (B "28") || lbeq m (B "33").

Definition run_case (line : bytes) : outp :=
  match words line with
  | m :: dt :: lt :: ops =>
      if valid_mode m then
        match parse_desc dt with
        | Some d =>
            if desc_ok d then
              match parse_layout d lt, all_some (map parse_op ops) with
              | Some root, Some os =>
                  match steps d m root [] os with
                  | Some l => {| o_model := join semi (map (fun e => fst (fst e)) l);
                                 o_spec := join semi (map (fun e => snd (fst e)) l);
                                 o_class := join semi (map snd l) |}
                  | None => bad_case
                  end
              | _, _ => bad_case
              end
            else bad_case
        | None => bad_case
        end
      else bad_case
  | _ => bad_case
  end.

Definition run (line : bytes) : bytes := render (run_case line).

(* a case of another property's mode is not this property's case *)
Definition run_mode (mode : bytes) (line : bytes) : bytes :=
  match words line with
  | m :: _ => if lbeq m mode then run line else render bad_case
  | [] => render bad_case
  end.
