(* C26/Proofs.v — method dispatch answers each call exactly once and correctly: theorems over ALL
   interface descriptions, ALL node trees, ALL calls and ALL handler behaviours. *)
From ZV Require Import Base.Bytes Base.WinnowFacts C26.Desc C26.Tree C26.Msg C27.Model C28.Model C26.Model.
From ZV Require Import C28.Spec C26.Spec C26.Facts.
From ZV Require C10.Model.
From Coq Require Import Lia.

Ltac case_all :=
  repeat match goal with
         | |- context [match ?x with _ => _ end] => destruct x eqn:?
         | |- context [if ?x then _ else _] => destruct x eqn:?
         end.

(* user code respects its Rust signature: a non-fallible method returns a value, and results have the declared types *)
Definition bh_respects (bh : behaviour) (d : idesc) : Prop :=
  forall md, In md (id_methods d) ->
    (md_fall md = false -> forall args e m, bh_method bh (id_name d) (md_name md) args <> HErr e m) /\
    (forall args outs, bh_method bh (id_name d) (md_name md) args = HOk outs -> typed outs (out_types (md_out md))).

Section P.
  Variable bh : behaviour.

  (* ================================================================ exactly one reply *)
  Definition once (c : call) (ef : effects) : Prop :=
    (c_noreply c = false -> length (ef_replies ef) = 1) /\ length (ef_replies ef) <= 1.

  Lemma once_finish c lg sg r : once c (finish c lg sg r).
  Proof. unfold once, finish. cbn. destruct (c_noreply c); cbn; split; intros; try discriminate; lia. Qed.

  Lemma once_reply_only c r : once c (reply_only r).
  Proof. unfold once. cbn. split; intros; lia. Qed.

  Lemma once_run_method i md c : once c (run_method bh i md c).
  Proof. unfold run_method. case_all; auto using once_finish, once_reply_only. Qed.

  Lemma once_user_call i m c : once c (user_call bh i m c).
  Proof. unfold user_call. case_all; auto using once_run_method, once_reply_only. Qed.

  Lemma once_std_call root n path d m c : once c (fst (std_call bh root n path d m c)).
  Proof. unfold std_call, of_presult. case_all; cbn [fst]; auto using once_finish, once_reply_only. Qed.

  Theorem once_dispatch root c : once c (fst (dispatch bh root c)).
  Proof.
    unfold dispatch. case_all; cbn [fst]; auto using once_user_call, once_reply_only, once_std_call.
  Qed.

  (* ================================================================ argument checking *)
  Lemma types_match_sigs md args :
    types_match md args = true -> map vsig args = map sigstr (in_tys md).
  Proof.
    unfold types_match, in_tys. intro H. apply lbeq_list_eq in H. rewrite H. now rewrite map_map.
  Qed.

  Lemma sigs_length {A C} (f : A -> bytes) (g : C -> bytes) l l' : map f l = map g l' -> length l = length l'.
  Proof. intro H. apply (f_equal (@length _)) in H. now rewrite !map_length in H. Qed.

  (* one value of a type: its parsed signature is the type's *)
  Lemma sg_single v t : vsig v = sigstr t -> sg_of_vals [v] = sg_of_ty t.
  Proof.
    intro H. unfold sg_of_vals, sg_of_ty.
    destruct t; destruct v; cbn in H; try discriminate; reflexivity.
  Qed.

  (* declared types are accepted *)
  Lemma types_match_args_ok md args : types_match md args = true -> args_ok md args = true.
  Proof.
    intro H. pose proof (types_match_sigs _ _ H) as Hs. unfold args_ok.
    destruct (in_tys md) as [|t [|t2 ts]] eqn:E; [reflexivity| |].
    - destruct args as [|v [|? ?]]; try discriminate. cbn in Hs. inversion Hs.
      unfold dyn_sig_ok. cbn [sg_of_args]. rewrite (sg_single v t) by assumption. now rewrite sg_eqb_refl.
    - destruct args as [|v [|v2 vs]]; try discriminate.
      unfold dyn_sig_ok, sg_of_args, sg_of_tys, sg_of_vals. rewrite Hs. now rewrite sg_eqb_refl.
  Qed.

  (* and then they are handed over unchanged *)
  Lemma types_match_unpack md args : types_match md args = true -> unpack (in_tys md) args = args.
  Proof.
    intro H. pose proof (types_match_sigs _ _ H) as Hs.
    destruct (in_tys md) as [|t [|t2 ts]] eqn:E.
    - destruct args; [reflexivity|discriminate].
    - destruct args as [|v [|? ?]]; try discriminate. cbn. destruct v; reflexivity.
    - destruct args as [|v [|v2 vs]]; try discriminate. cbn. destruct v; reflexivity.
  Qed.

  (* what IS accepted (for a method with declared inputs): the declared types, or the two flattenings *)
  Definition flattened (md : mdesc) (args : list val) : Prop :=
    (exists t n s, in_tys md = [t] /\ struct_fields t <> None /\ args = [VU n; VS s]) \/
    (exists n s, map sigstr (in_tys md) = [B "u"; B "s"] /\ args = [VR n s]).

  Lemma vsig_u v : vsig v = B "u" -> exists n, v = VU n.
  Proof. destruct v; cbn; try discriminate. eauto. Qed.
  Lemma vsig_s v : vsig v = B "s" -> exists n, v = VS n.
  Proof. destruct v; cbn; try discriminate. eauto. Qed.

  Lemma sigstr_not_paren_wrapped t v : sigstr t = B "(" ++ vsig v ++ B ")" -> False.
  Proof. destruct t; destruct v; cbn; discriminate. Qed.

  Lemma args_ok_inv md args :
    in_tys md <> [] -> args_ok md args = true -> types_match md args = true \/ flattened md args.
  Proof.
    intros Hne H. unfold args_ok in H.
    assert (Tm : map vsig args = map sigstr (in_tys md) -> types_match md args = true).
    { intro E. unfold types_match. apply lbeq_list_eq. unfold in_tys in E. now rewrite map_map in E. }
    destruct (in_tys md) as [|t [|t2 ts]] eqn:E; [congruence| |].
    - (* one declared argument *)
      unfold dyn_sig_ok, sg_of_args in H. apply orb_true_iff in H as [H|H].
      + apply sg_eqb_eq in H. unfold sg_of_ty in H.
        destruct args as [|v [|v2 vs]]; cbn [sg_of_vals] in H.
        * destruct (struct_fields t); discriminate.
        * left. apply Tm. cbn.
          destruct (struct_fields t) eqn:St, (vfields v) eqn:Vf; try discriminate.
          -- apply vfields_struct in Vf as (n & s & -> & ->). destruct t; cbn in St; try discriminate; reflexivity.
          -- inversion H. congruence.
        * destruct (struct_fields t) eqn:St; [|discriminate]. inversion H as [Hf]. clear H.
          assert (l = [B "u"; B "s"]) as -> by (destruct t; cbn in St; try discriminate; now inversion St).
          cbn in Hf. destruct vs as [|? ?]; [|discriminate]. inversion Hf as [[Hu Hs]].
          symmetry in Hu, Hs. apply vsig_u in Hu as [n ->]. apply vsig_s in Hs as [s ->].
          right. left. exists t, n, s. repeat split; congruence.
      + unfold sg_of_ty in H. destruct (struct_fields t) as [fs|] eqn:St; [|discriminate].
        assert (fs = [B "u"; B "s"]) as -> by (destruct t; cbn in St; try discriminate; now inversion St).
        discriminate.
    - (* several declared arguments *)
      unfold dyn_sig_ok, sg_of_args, sg_of_tys in H. apply orb_true_iff in H as [H|H].
      2:{ destruct ts; discriminate. }
      apply sg_eqb_eq in H. destruct args as [|v [|v2 vs]]; cbn [sg_of_vals] in H; try discriminate.
      + destruct (vfields v) eqn:Vf; [|discriminate]. apply vfields_struct in Vf as (n & s & -> & ->).
        right. right. exists n, s. split; [congruence|reflexivity].
      + left. apply Tm. congruence.
  Qed.

  (* ================================================================ the main theorem: routing and replies *)
  Definition tree_respects (root : node) : Prop :=
    forall segs n i, get_child root segs = Some n -> In i (node_ifs n) -> bh_respects bh (in_desc i).

  Lemma find_inst_in n iface i : find_inst n iface = Some i -> In i (node_ifs n) /\ id_name (in_desc i) = iface.
  Proof. unfold find_inst. intro H. apply find_some in H as [H1 H2]. apply lbeq_true in H2. auto. Qed.

  Lemma flagged_meets_ret noreply vals c lg sg :
    c_noreply c = noreply -> reply_meets (flagged noreply (XRet vals)) (ef_replies (finish c lg sg (RRet vals))).
  Proof. intros <-. unfold finish, flagged. cbn. destruct (c_noreply c); cbn; reflexivity. Qed.

  Lemma flagged_meets_err noreply e m c lg sg :
    c_noreply c = noreply -> reply_meets (flagged noreply (XErr e (Some m))) (ef_replies (finish c lg sg (RErr e (Some m)))).
  Proof. intros <-. unfold finish, flagged. cbn. destruct (c_noreply c); cbn; auto. Qed.

  Lemma flagged_meets_err_sent noreply e :
    reply_meets (flagged noreply (XErr e None)) [RErr e None].
  Proof. unfold flagged. destruct noreply; cbn; eauto. Qed.

  Lemma flagged_meets_retany noreply s vals c lg sg :
    c_noreply c = noreply -> body_sig vals = s ->
    reply_meets (flagged noreply (XRetAny s)) (ef_replies (finish c lg sg (RRet vals))).
  Proof. intros <- <-. unfold finish, flagged. cbn. destruct (c_noreply c); cbn; eauto. Qed.

  (* a result of a non-structure single type, or of a tuple type, travels as it is *)
  Lemma wire_out_id o outs :
    typed outs (out_types o) ->
    (forall t, o = OSingle t -> struct_fields t = None) -> wire_out o outs = outs.
  Proof.
    intros Ht Hs. destruct o as [|t|ts]; cbn [wire_out]; try reflexivity.
    cbn in Ht. inversion Ht as [|v t' r r' Hv Hr]; subst. inversion Hr; subst.
    pose proof (has_ty_nonstruct _ _ Hv (Hs t eq_refl)) as K. destruct v; try reflexivity. discriminate.
  Qed.

  Lemma std_methods_async d m md :
    In d std_ifaces -> find_method d m = Some md -> gen_call d m = DAsync md.
  Proof.
    intros Hd Hf. unfold gen_call. rewrite Hf. apply find_method_name in Hf as [_ Hin].
    destruct Hd as [<-|[<-|[<-|[]]]]; cbn in Hin; intuition; subst; reflexivity.
  Qed.

  Lemma find_std iface d : find (fun d => lbeq (id_name d) iface) std_ifaces = Some d -> In d std_ifaces /\ id_name d = iface.
  Proof. intro H. apply find_some in H as [H1 H2]. apply lbeq_true in H2. auto. Qed.

  Theorem dispatch_partial root c x :
    tree_respects root ->
    class26 root c = None -> is_props_call root c = false ->
    spec26 bh root c = Some x -> meets x (dispatch bh root c).
  Proof.
    intros Hres Hcl Hpc Hsp.
    unfold spec26 in Hsp. unfold class26 in Hcl. unfold is_props_call in Hpc. unfold target_method in Hcl, Hpc.
    destruct (c_path c) as [path|] eqn:Ep; [|discriminate].
    destruct (c_member c) as [member|] eqn:Em; [|discriminate].
    destruct (c_iface c) as [iface|] eqn:Ei; [|discriminate].
    unfold dispatch. rewrite Ep, Ei, Em. unfold node_at in *.
    destruct (get_child root (segs_of path)) as [n|] eqn:En.
    2:{ inversion Hsp; subst x. unfold meets. cbn. repeat split. apply flagged_meets_err_sent. }
    unfold iface_at in *.
    destruct (find_inst n iface) as [i|] eqn:Ef.
    - (* a registered interface *)
      cbn [found_desc] in *. unfold user_call, gen_call.
      destruct (find_method (in_desc i) member) as [md|] eqn:Fm.
      2:{ inversion Hsp; subst x. unfold meets. cbn. repeat split. apply flagged_meets_err_sent. }
      unfold run_expect in Hsp.
      destruct (types_match md (c_args c)) eqn:Tm.
      2:{ (* a type mismatch outside the two leniency classes: rejected with InvalidArgs, handler not run *)
          destruct (args_ok md (c_args c)) eqn:Ea.
          { exfalso. destruct (md_ins md); discriminate. }
          inversion Hsp; subst x.
          destruct (md_mut md) eqn:Mm; [rewrite (gen_call_mut_same _ _ _ Fm Mm)|];
            unfold run_method; rewrite Ea; unfold meets; cbn; repeat split; apply flagged_meets_err_sent. }
      inversion Hsp; subst x; clear Hsp.
      apply find_inst_in in Ef as [Hin Hname].
      pose proof (find_method_name _ _ _ Fm) as [Hmn Hmin].
      destruct (Hres _ _ _ En Hin md Hmin) as [Hfall Htyped].
      destruct (md_mut md) eqn:Mm; [rewrite (gen_call_mut_same _ _ _ Fm Mm)|].
      all: unfold run_method; rewrite (types_match_args_ok _ _ Tm), (types_match_unpack _ _ Tm);
        unfold iname;
        destruct (bh_method bh (id_name (in_desc i)) (md_name md) (c_args c)) as [outs|e m] eqn:Eb;
        unfold meets; cbn [fst snd x_reply x_log x_signals x_root ef_log ef_signals finish];
        try (rewrite (wire_out_id (md_out md) outs (Htyped _ _ Eb));
             [|intros t Ho; rewrite Ho in Hcl; destruct (struct_fields t); [discriminate|reflexivity]]);
        try (destruct (md_fall md) eqn:Fl; [|exfalso; exact (Hfall eq_refl _ _ _ Eb)]);
        repeat split; unfold declared_out;
        first [apply (flagged_meets_ret (c_noreply c) outs c); reflexivity
              |apply (flagged_meets_err (c_noreply c) e m c); reflexivity].
    - (* a standard interface, or none *)
      destruct (find (fun d => lbeq (id_name d) iface) std_ifaces) as [d|] eqn:Fs.
      2:{ inversion Hsp; subst x. unfold meets. cbn. repeat split. apply flagged_meets_err_sent. }
      cbn [found_desc] in *. apply find_std in Fs as [Hd Hdn].
      destruct (find_method d member) as [md|] eqn:Fm.
      2:{ inversion Hsp; subst x. unfold std_call, gen_call. rewrite Fm. unfold meets. cbn. repeat split.
          apply flagged_meets_err_sent. }
      unfold run_expect in Hsp.
      destruct (types_match md (c_args c)) eqn:Tm.
      2:{ destruct (args_ok md (c_args c)) eqn:Ea.
          { exfalso. destruct (md_ins md); discriminate. }
          inversion Hsp; subst x. unfold std_call. rewrite (std_methods_async _ _ _ Hd Fm), Ea.
          unfold meets. cbn. repeat split. apply flagged_meets_err_sent. }
      rewrite andb_true_r in Hpc.
      unfold std_call. rewrite (std_methods_async _ _ _ Hd Fm), (types_match_args_ok _ _ Tm).
      unfold std_expect in Hsp.
      pose proof (find_method_name _ _ _ Fm) as [Hmn _].
      destruct (lbeq (id_name d) peer_name) eqn:Ipeer.
      + rewrite Hmn in Hsp. destruct (lbeq member (B "Ping")); inversion Hsp; subst x; unfold meets; cbn; repeat split;
          unfold flagged; destruct (c_noreply c); cbn; eauto.
      + destruct (lbeq (id_name d) intro_name) eqn:Iintro.
        * inversion Hsp; subst x; unfold meets; cbn; repeat split;
            unfold flagged; destruct (c_noreply c); cbn; eauto.
        * exfalso. destruct Hd as [<-|[<-|[<-|[]]]]; cbn in Ipeer, Iintro, Hpc; discriminate.
  Qed.

  (* ================================================================ wrong argument types: rejected, handler not run *)
  Theorem badargs_rejected root c path iface member n i md :
    c_path c = Some path -> c_iface c = Some iface -> c_member c = Some member ->
    get_child root (segs_of path) = Some n -> find_inst n iface = Some i ->
    find_method (in_desc i) member = Some md ->
    in_tys md <> [] -> types_match md (c_args c) = false -> ~ flattened md (c_args c) ->
    dispatch bh root c = (reply_only (RErr EInvalidArgs None), root).
  Proof.
    intros Ep Ei Em En Ef Fm Hne Tm Hfl.
    unfold dispatch. rewrite Ep, Ei, Em, En, Ef. unfold user_call, gen_call. rewrite Fm.
    assert (Ha : args_ok md (c_args c) = false).
    { destruct (args_ok md (c_args c)) eqn:Ea; [|reflexivity].
      destruct (args_ok_inv _ _ Hne Ea) as [K|K]; [congruence|contradiction]. }
    destruct (md_mut md) eqn:Mm.
    - rewrite (gen_call_mut_same _ _ _ Fm Mm). unfold run_method. now rewrite Ha.
    - unfold run_method. now rewrite Ha.
  Qed.

  (* ================================================================ the handler runs iff everything matches *)
  Definition method_ran (ef : effects) : Prop := exists t n a, In (LMethod t n a) (ef_log ef).

  Lemma gen_get_all_aux_no_method i ps t n a : ~ In (LMethod t n a) (fst (gen_get_all_aux bh i ps)).
  Proof.
    induction ps as [|p r IH]; cbn; [auto|]. destruct (gen_get_all_aux bh i r) as [lg m] eqn:E. cbn in IH.
    destruct (readable p); [|exact IH]. destruct (run_getter bh i p); cbn; intros [H|H]; try discriminate; auto.
  Qed.

  Lemma gen_get_no_method i pname lg r t n a : gen_get bh i pname = Some (lg, r) -> ~ In (LMethod t n a) lg.
  Proof.
    unfold gen_get. destruct (getter_of (in_desc i) pname); [|discriminate]. intro H. inversion H; subst.
    cbn. intuition discriminate.
  Qed.

  Lemma do_set_no_method path i p sent t n a : ~ In (LMethod t n a) (sr_log (do_set bh path i p sent)).
  Proof. unfold do_set. case_all; cbn; intuition discriminate. Qed.

  Lemma props_no_method root path iface pname sent t n a :
    ~ In (LMethod t n a) (pr_log (props_get bh root path iface pname)) /\
    ~ In (LMethod t n a) (pr_log (props_get_all bh root path iface)) /\
    ~ In (LMethod t n a) (pr_log (props_set bh root path iface pname sent)).
  Proof.
    split; [|split].
    - unfold props_get. destruct (lookup_iface root path iface); cbn; try tauto.
      destruct (gen_get bh i pname) as [[lg r]|] eqn:E; cbn; [|tauto]. eapply gen_get_no_method; eauto.
    - unfold props_get_all, gen_get_all. destruct (lookup_iface root path iface); cbn; try tauto.
      pose proof (gen_get_all_aux_no_method i (id_props (in_desc i)) t n a) as K.
      destruct (gen_get_all_aux bh i (id_props (in_desc i))). exact K.
    - unfold props_set. destruct (lookup_iface root path iface); cbn; try tauto.
      destruct (gen_set (in_desc i) pname); cbn; try tauto; [|apply do_set_no_method].
      destruct (gen_set_mut (in_desc i) pname); cbn; try tauto. apply do_set_no_method.
  Qed.

  Theorem handler_runs_iff root c :
    match class26 root c with Some MissingInterface | Some NoargExtra | Some StructFlattened => False | _ => True end ->
    (method_ran (fst (dispatch bh root c)) <->
     exists path iface member n i md,
       c_path c = Some path /\ c_iface c = Some iface /\ c_member c = Some member /\
       get_child root (segs_of path) = Some n /\ find_inst n iface = Some i /\
       find_method (in_desc i) member = Some md /\ types_match md (c_args c) = true /\
       ef_log (fst (dispatch bh root c)) = [LMethod (in_tag i) member (c_args c)]).
  Proof.
    intro Hcl. split.
    2:{ intros (path & iface & member & n & i & md & _ & _ & _ & _ & _ & _ & _ & Hl).
        exists (in_tag i), member, (c_args c). rewrite Hl. now left. }
    intros (t & nm & a & Hin). revert Hin Hcl. unfold dispatch, class26, target_method, node_at, iface_at.
    destruct (c_path c) as [path|] eqn:Ep; [|cbn; tauto].
    destruct (c_iface c) as [iface|] eqn:Ei; [|cbn; tauto].
    destruct (c_member c) as [member|] eqn:Em; [|cbn; tauto].
    destruct (get_child root (segs_of path)) as [n|] eqn:En; [|cbn; tauto].
    destruct (find_inst n iface) as [i|] eqn:Ef.
    - cbn [fst found_desc]. unfold user_call, gen_call.
      destruct (find_method (in_desc i) member) as [md|] eqn:Fm; [|cbn; tauto].
      pose proof (find_method_name _ _ _ Fm) as [Hmn _].
      destruct (md_mut md) eqn:Mm; [rewrite (gen_call_mut_same _ _ _ Fm Mm)|].
      all: unfold run_method; destruct (args_ok md (c_args c)) eqn:Ea; [|cbn; tauto];
        intros Hin Hcl; destruct (types_match md (c_args c)) eqn:Tm;
        [exists path, iface, member, n, i, md; repeat split; auto;
         rewrite (types_match_unpack _ _ Tm), Hmn; destruct (bh_method bh (iname i) member (c_args c)); reflexivity
        |exfalso; destruct (md_ins md); cbn in Hcl; exact Hcl].
    - destruct (find (fun d => lbeq (id_name d) iface) std_ifaces) as [d|] eqn:Fs; [|cbn; tauto].
      intros Hin _. exfalso. revert Hin. unfold std_call, of_presult.
      destruct (props_no_method root path iface member (VU 0) t nm a) as (_ & _ & _).
      case_all; cbn; try tauto.
      all: match goal with
           | |- In _ (pr_log (props_get _ ?r ?p ?i ?x)) -> _ => apply (props_no_method r p i x (VU 0) t nm a)
           | |- In _ (pr_log (props_get_all _ ?r ?p ?i)) -> _ => apply (props_no_method r p i [] (VU 0) t nm a)
           | |- In _ (pr_log (props_set _ ?r ?p ?i ?x ?s)) -> _ => apply (props_no_method r p i x s t nm a)
           end.
  Qed.
End P.
