(* C26/Run.v — the line driver of C26: the shared driver (C26/Runner.v) restricted to cases of mode 26. *)
From ZV Require Import Base.Bytes C26.Runner.

Definition run (line : bytes) : bytes := run_mode (B "26") line.
