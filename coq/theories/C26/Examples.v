(* C26/Examples.v — concrete instances: the hypotheses of the theorems are satisfiable (non-vacuity), and
   the witnesses that refute the full statement in each known-deviation class. *)
From ZV Require Import Base.Bytes Base.WinnowFacts C26.Desc C26.Tree C26.Msg C26.Std C27.Model C28.Model C26.Model.
From ZV Require Import C28.Spec C26.Spec C26.Facts C26.Proofs C26.StdFacts.

(* a tree with one registration holds exactly that instance *)
Lemma single_tree segs0 i0 : forall segs n i,
  get_child (fst (add_at empty_node segs0 i0)) segs = Some n -> In i (node_ifs n) -> i = i0.
Proof.
  induction segs0 as [|s0 r0 IH]; intros segs n i.
  - cbn. destruct segs; cbn; [|discriminate]. intros H. inversion H; subst. cbn. intros [E|[]]. now subst.
  - cbn [add_at]. replace (find_kid s0 (node_kids empty_node)) with (@None node) by reflexivity.
    destruct (add_at empty_node r0 i0) as [c' b] eqn:E.
    cbn [fst node_ifs node_kids set_kid empty_node]. destruct segs as [|s r]; cbn [get_child node_kids find_kid].
    + intro H. inversion H; subst. cbn. tauto.
    + destruct (lbeq s0 s); [|discriminate]. intros H Hin. eapply IH; eauto.
Qed.

Definition mk (n : bytes) (ins : list (bytes * ty)) (o : oshape) (mu fall : bool) : mdesc :=
  {| md_name := n; md_ins := ins; md_out := o; md_mut := mu; md_fall := fall; md_async := false; md_doc := [] |}.

Definition ex_d : idesc :=
  {| id_name := B "org.zv.Ex";
     id_methods := [mk (B "MTwo") [(B "a0", TU); (B "a1", TS)] (OTuple [TS; TU]) false false;
                    mk (B "MNoargs") [] OUnit true false;
                    mk (B "MNamed") [(B "a0", TU)] (OSingle TN) false false;
                    mk (B "MFall") [(B "a0", TU)] (OSingle TU) true true];
     id_signals := []; id_props := [] |}.

Definition ex_path : bytes := B "/zv/a".
Definition ex_root : node := fst (add_at empty_node (segs_of ex_path) (new_inst ex_d ex_path)).
Definition ex_bh : behaviour := std_bh [ex_d].

Lemma ex_respects : tree_respects ex_bh ex_root.
Proof.
  intros segs n i Hg Hin. rewrite (single_tree _ _ _ _ _ Hg Hin). cbn [new_inst in_desc].
  apply std_respects. reflexivity.
Qed.

Definition ex_call (member : bytes) (noreply : bool) (args : list val) : call :=
  {| c_path := Some ex_path; c_iface := Some (id_name ex_d); c_member := Some member; c_noreply := noreply; c_args := args |}.

(* ---- the theorem's hypotheses hold, and the conclusion says something, on a correct call … *)
Example ex_good :
  let c := ex_call (B "MTwo") false [VU 5; VS (B "x")] in
  class26 ex_root c = None /\ is_props_call ex_root c = false /\
  exists x, spec26 ex_bh ex_root c = Some x /\
            x_log x = [LMethod ex_path (B "MTwo") [VU 5; VS (B "x")]] /\
            (exists s n, x_reply x = XRet [VS s; VU n]) /\ meets x (dispatch ex_bh ex_root c).
Proof.
  cbn zeta. split; [reflexivity|]. split; [reflexivity|]. eexists. split; [reflexivity|].
  split; [reflexivity|]. split; [vm_compute; eauto|].
  apply dispatch_partial; [apply ex_respects|reflexivity|reflexivity|reflexivity].
Qed.

(* … on a `&mut self` fallible method with the no-reply flag … *)
Example ex_noreply :
  let c := ex_call (B "MFall") true [VU 7] in
  class26 ex_root c = None /\ ef_replies (fst (dispatch ex_bh ex_root c)) = [] /\
  ef_log (fst (dispatch ex_bh ex_root c)) = [LMethod ex_path (B "MFall") [VU 7]].
Proof. cbn zeta. repeat split; reflexivity. Qed.

(* … and on wrong routing *)
Example ex_routing :
  fst (dispatch ex_bh ex_root {| c_path := Some (B "/zv"); c_iface := Some (id_name ex_d); c_member := Some (B "MTwo");
                                 c_noreply := false; c_args := [] |}) = reply_only (RErr EUnknownInterface None) /\
  fst (dispatch ex_bh ex_root {| c_path := Some (B "/nope"); c_iface := Some (id_name ex_d); c_member := Some (B "MTwo");
                                 c_noreply := true; c_args := [] |}) = reply_only (RErr EUnknownObject None) /\
  fst (dispatch ex_bh ex_root (ex_call (B "MThree") false [])) = reply_only (RErr EUnknownMethod None).
Proof. repeat split; reflexivity. Qed.

(* ---------------------------------------------------------------- the refutations *)
Definition refutes (c : call) : Prop :=
  tree_respects ex_bh ex_root /\ exists x, spec26 ex_bh ex_root c = Some x /\ ~ meets x (dispatch ex_bh ex_root c).

Ltac refute := split; [apply ex_respects|]; eexists; split; [reflexivity|]; unfold meets; vm_compute; intros (H & _);
               repeat match goal with H : exists _, _ |- _ => destruct H end; try discriminate; intuition discriminate.

(* wrong argument types: since fix 86474bc3 the former witness of the class invalid_args_name meets the
   specification — exactly one InvalidArgs error, the handler does not run *)
Example invalid_args_answered :
  let c := ex_call (B "MTwo") false [VS (B "x")] in
  class26 ex_root c = None /\
  exists x, spec26 ex_bh ex_root c = Some x /\ x_reply x = XErr EInvalidArgs None /\ x_log x = [] /\
            meets x (dispatch ex_bh ex_root c) /\
            dispatch ex_bh ex_root c = (reply_only (RErr EInvalidArgs None), ex_root).
Proof.
  cbn zeta. split; [reflexivity|]. eexists. split; [reflexivity|]. split; [reflexivity|]. split; [reflexivity|].
  split; [|reflexivity]. apply dispatch_partial; [apply ex_respects|reflexivity|reflexivity|reflexivity].
Qed.

(* a method without inputs runs whatever the body holds *)
Lemma noarg_extra_refuted : refutes (ex_call (B "MNoargs") false [VU 1]).
Proof. refute. Qed.
Lemma noarg_extra_runs :
  ef_log (fst (dispatch ex_bh ex_root (ex_call (B "MNoargs") false [VU 1]))) = [LMethod ex_path (B "MNoargs") []].
Proof. reflexivity. Qed.

(* one structure (us) is accepted where two arguments u, s are declared *)
Lemma struct_flattened_refuted : refutes (ex_call (B "MTwo") false [VR 5 (B "x")]).
Proof. refute. Qed.
Lemma struct_flattened_runs :
  ef_log (fst (dispatch ex_bh ex_root (ex_call (B "MTwo") false [VR 5 (B "x")]))) =
  [LMethod ex_path (B "MTwo") [VU 5; VS (B "x")]].
Proof. reflexivity. Qed.

(* a call without INTERFACE is answered with Failed although exactly one interface has the member *)
Lemma missing_interface_refuted :
  refutes {| c_path := Some ex_path; c_iface := None; c_member := Some (B "MNoargs"); c_noreply := false; c_args := [] |}.
Proof. refute. Qed.

(* a single named structure is declared as one (us) out argument but travels as two values u, s *)
Lemma single_struct_return_refuted : refutes (ex_call (B "MNamed") false [VU 1]).
Proof. refute. Qed.

(* ---------------------------------------------------------------- the refutations, in the form Properties/C26.v states them *)
Ltac pack c :=
  exists ex_bh, ex_root, c;
  match goal with
  | R : refutes c |- _ => destruct R as (R1 & x & R2 & R3); exists x
  end.

Lemma noarg_extra_args_refuted_full :
  exists (bh : behaviour) (root : node) (c : call) (x : expect),
    tree_respects bh root /\ class26 root c = Some NoargExtra /\
    spec26 bh root c = Some x /\ ~ meets x (dispatch bh root c) /\
    exists t n, ef_log (fst (dispatch bh root c)) = [LMethod t n []].
Proof.
  pose proof noarg_extra_refuted as R. pack (ex_call (B "MNoargs") false [VU 1]).
  refine (conj R1 (conj eq_refl (conj R2 (conj R3 _)))). exists ex_path, (B "MNoargs"). reflexivity.
Qed.

Lemma sole_struct_flattened_refuted_full :
  exists (bh : behaviour) (root : node) (c : call) (x : expect),
    tree_respects bh root /\ class26 root c = Some StructFlattened /\
    spec26 bh root c = Some x /\ ~ meets x (dispatch bh root c) /\
    exists t n a, ef_log (fst (dispatch bh root c)) = [LMethod t n a] /\ a <> c_args c.
Proof.
  pose proof struct_flattened_refuted as R. pack (ex_call (B "MTwo") false [VR 5 (B "x")]).
  refine (conj R1 (conj eq_refl (conj R2 (conj R3 _)))).
  exists ex_path, (B "MTwo"), [VU 5; VS (B "x")]. split; [reflexivity|discriminate].
Qed.

Lemma missing_interface_refuted_full :
  exists (bh : behaviour) (root : node) (c : call) (x : expect),
    tree_respects bh root /\ class26 root c = Some MissingInterface /\
    spec26 bh root c = Some x /\ ~ meets x (dispatch bh root c).
Proof.
  pose proof missing_interface_refuted as R.
  pack {| c_path := Some ex_path; c_iface := None; c_member := Some (B "MNoargs"); c_noreply := false; c_args := [] |}.
  exact (conj R1 (conj eq_refl (conj R2 R3))).
Qed.

Lemma single_struct_return_refuted_full :
  exists (bh : behaviour) (root : node) (c : call) (x : expect),
    tree_respects bh root /\ class26 root c = Some SingleStructReturn /\
    spec26 bh root c = Some x /\ ~ meets x (dispatch bh root c).
Proof. pose proof single_struct_return_refuted as R. pack (ex_call (B "MNamed") false [VU 1]). exact (conj R1 (conj eq_refl (conj R2 R3))). Qed.

Lemma full_statement_refuted :
  ~ (forall (bh : behaviour) (root : node) (c : call) (x : expect),
       tree_respects bh root -> is_props_call root c = false ->
       spec26 bh root c = Some x -> meets x (dispatch bh root c)).
Proof.
  intro F. destruct noarg_extra_refuted as (R1 & x & R2 & R3). apply R3. apply F; auto.
Qed.
