(* C26/Spec.v — what the property text demands of method dispatch, written against the flat view
   "which interface description is registered at which path" and the DECLARED signatures:
     the handler runs exactly when path, interface, member and argument types match a registered method
     (argument types: one top-level body value per declared argument, of exactly the declared type);
     then, unless NO_REPLY_EXPECTED, exactly one reply: the result with the declared output types, or the
     handler's error;
     otherwise the handler does not run and exactly one standard error answers: UnknownObject (no such
     object), UnknownInterface, UnknownMethod, InvalidArgs (member known, argument types differ).
   A METHOD_CALL without PATH or MEMBER is not a D-Bus message; nothing is demanded of it. *)
From ZV Require Import Base.Bytes C26.Desc C26.Tree C26.Msg C27.Model C28.Spec.
From ZV Require C10.Model.
From ZV Require Import C26.Model.

Section Spec.
  Variable bh : behaviour.

  (* one body value per declared argument, each of exactly the declared type *)
  Definition types_match (md : mdesc) (args : list val) : bool :=
    lbeq_list (map vsig args) (map (fun a => sigstr (snd a)) (md_ins md)).

  (* the result encoded with the declared output types: one top-level value per declared out argument *)
  Definition declared_out (o : oshape) (outs : list val) : list val := outs.

  Definition node_at (root : node) (path : bytes) : option node := get_child root (segs_of path).

  (* the interfaces of the object: what was registered there plus the three every object has *)
  Inductive found := FUser (i : inst) | FStd (d : idesc).
  Definition iface_at (n : node) (iface : bytes) : option found :=
    match find_inst n iface with
    | Some i => Some (FUser i)
    | None => match find (fun d => lbeq (id_name d) iface) std_ifaces with Some d => Some (FStd d) | None => None end
    end.
  Definition found_desc (f : found) : idesc := match f with FUser i => in_desc i | FStd d => d end.

  Definition quiet26 (c : call) (root : node) (r : xreply) : option expect :=
    Some {| x_reply := flagged (c_noreply c) r; x_log := []; x_signals := []; x_root := root |}.

  (* the standard interfaces' own methods, once routing and argument types are right *)
  Definition std_expect (root n : node) (path : bytes) (d : idesc) (md : mdesc) (c : call) : option expect :=
    if lbeq (id_name d) peer_name then
      if lbeq (md_name md) (B "Ping") then quiet26 c root (XRet []) else quiet26 c root (XRetAny (B "s"))
    else if lbeq (id_name d) intro_name then quiet26 c root (XRetAny (B "s"))
    else
      match c_args c with
      | VS iface :: rest =>
          if C10.Model.validate_interface iface then
            match rest with
            | [VS pname] => Some (spec_get bh (c_noreply c) root path iface pname)
            | [VS pname; VV sent] => Some (spec_set bh (c_noreply c) root path iface pname sent)
            | [] => Some (spec_get_all bh (c_noreply c) root path iface)
            | _ => None
            end
          else quiet26 c root (XErr EInvalidArgs None)     (* not an interface name: an invalid argument *)
      | _ => None
      end.

  Definition run_expect (root : node) (path : bytes) (n : node) (f : found) (md : mdesc) (c : call) : option expect :=
    if types_match md (c_args c) then
      match f with
      | FStd d => std_expect root n path d md c
      | FUser i =>
          Some {| x_reply :=
                    flagged (c_noreply c)
                      match bh_method bh (id_name (in_desc i)) (md_name md) (c_args c) with
                      | HOk outs => XRet (declared_out (md_out md) outs)
                      | HErr e m => XErr e (Some m)
                      end;
                  x_log := [LMethod (in_tag i) (md_name md) (c_args c)];
                  x_signals := []; x_root := root |}
      end
    else quiet26 c root (XErr EInvalidArgs None).

  (* None: the property text does not constrain this call *)
  Definition spec26 (root : node) (c : call) : option expect :=
    match c_path c, c_member c with
    | Some path, Some member =>
        match node_at root path with
        | None => quiet26 c root (XErr EUnknownObject None)
        | Some n =>
            match c_iface c with
            | Some iface =>
                match iface_at n iface with
                | None => quiet26 c root (XErr EUnknownInterface None)
                | Some f =>
                    match find_method (found_desc f) member with
                    | None => quiet26 c root (XErr EUnknownMethod None)
                    | Some md => run_expect root path n f md c
                    end
                end
            | None =>
                (* INTERFACE is optional in a method call: if exactly one interface of the object has the
                   member, that method is meant; none: UnknownMethod; several: not constrained *)
                let cands := filter (fun f => match find_method (found_desc f) member with Some _ => true | None => false end)
                                    (map FStd std_ifaces ++ map FUser (node_ifs n)) in
                match cands with
                | [] => quiet26 c root (XErr EUnknownMethod None)
                | [f] => match find_method (found_desc f) member with
                         | Some md => run_expect root path n f md c
                         | None => None
                         end
                | _ => None
                end
            end
        end
    | _, _ => None
    end.

  (* ---------------------------------------------------------------- the known-deviation classes *)
  Inductive dev26 := MissingInterface | NoargExtra | StructFlattened | SingleStructReturn.

  (* the method the model would run, if any (used only to classify) *)
  Definition target_method (root : node) (c : call) : option (found * mdesc) :=
    match c_path c, c_iface c, c_member c with
    | Some path, Some iface, Some member =>
        match node_at root path with
        | Some n => match iface_at n iface with
                    | Some f => match find_method (found_desc f) member with Some md => Some (f, md) | None => None end
                    | None => None
                    end
        | None => None
        end
    | _, _, _ => None
    end.

  Definition class26 (root : node) (c : call) : option dev26 :=
    match c_path c, c_member c, c_iface c with
    | Some _, Some _, None => Some MissingInterface
    | _, _, _ =>
        match target_method root c with
        | Some (f, md) =>
            if types_match md (c_args c) then
              match f, md_out md with
              | FUser _, OSingle t => match struct_fields t with Some _ => Some SingleStructReturn | None => None end
              | _, _ => None
              end
            else
              match md_ins md with
              | [] => Some NoargExtra
              | _ => if args_ok md (c_args c) then Some StructFlattened else None
              end
        | None => None
        end
    end.

  (* a well-typed call of a Properties method: what must happen is C28's subject (spec_get / spec_set /
     spec_get_all above are its statements), with C28's own known classes *)
  Definition is_props_call (root : node) (c : call) : bool :=
    match target_method root c with
    | Some (FStd d, md) => lbeq (id_name d) props_name && types_match md (c_args c)
    | _ => false
    end.
End Spec.
