(* C26/Facts.v — small facts shared by the proofs of C26 / C27 / C28 / C33: boolean equalities, lookups,
   value typing, the signature conventions. *)
From ZV Require Import Base.Bytes Base.WinnowFacts C26.Desc C26.Tree C26.Msg C27.Model C28.Model C26.Model.
From Coq Require Import Lia.

Lemma lbeq_refl a : lbeq a a = true.
Proof. now apply lbeq_eq. Qed.

Lemma lbeq_true a b : lbeq a b = true -> a = b.
Proof. apply lbeq_eq. Qed.

Lemma lbeq_false a b : lbeq a b = false -> a <> b.
Proof. intros H E. subst. rewrite lbeq_refl in H. discriminate. Qed.

Lemma lbeq_sym a b : lbeq a b = lbeq b a.
Proof.
  destruct (lbeq a b) eqn:E.
  - apply lbeq_true in E. subst. symmetry. apply lbeq_refl.
  - destruct (lbeq b a) eqn:F; [|reflexivity]. apply lbeq_true in F. subst. now rewrite lbeq_refl in E.
Qed.

Lemma lbeq_list_eq a : forall b, lbeq_list a b = true <-> a = b.
Proof.
  induction a as [|x a IH]; intros [|y b]; cbn; split; intro H; try reflexivity; try discriminate.
  - apply andb_true_iff in H as [H1 H2]. apply lbeq_true in H1. apply IH in H2. congruence.
  - inversion H; subst. rewrite lbeq_refl. cbn. now apply IH.
Qed.

Lemma lbeq_list_refl a : lbeq_list a a = true.
Proof. now apply lbeq_list_eq. Qed.

(* ---------------------------------------------------------------- find *)
Lemma find_name_eq {A} (name : A -> bytes) (m : bytes) (l : list A) x :
  find (fun y => lbeq (name y) m) l = Some x -> name x = m /\ In x l.
Proof.
  intro H. apply find_some in H as [Hin H]. apply lbeq_true in H. auto.
Qed.

Lemma find_method_name d m md : find_method d m = Some md -> md_name md = m /\ In md (id_methods d).
Proof. apply find_name_eq. Qed.
Lemma find_prop_name d m p : find_prop d m = Some p -> pd_name p = m /\ In p (id_props d).
Proof. apply find_name_eq. Qed.
Lemma find_signal_name d m s : find_signal d m = Some s -> sd_name s = m /\ In s (id_signals d).
Proof. apply find_name_eq. Qed.

(* the first element with the name, when it also satisfies q, is the first one satisfying q and the name *)
Lemma find_first_and {A} (name : A -> bytes) (q : A -> bool) m l x :
  find (fun y => lbeq (name y) m) l = Some x -> q x = true ->
  find (fun y => q y && lbeq (name y) m) l = Some x.
Proof.
  induction l as [|y l IH]; cbn; [discriminate|]. intros H Hq.
  destruct (lbeq (name y) m) eqn:E.
  - inversion H; subst. now rewrite Hq.
  - rewrite andb_false_r. auto.
Qed.

Lemma gen_call_mut_same d m md :
  find_method d m = Some md -> md_mut md = true -> gen_call_mut d m = Some md.
Proof. intros H Hm. unfold gen_call_mut. now apply (find_first_and md_name md_mut). Qed.

(* with pairwise distinct names, "first with the name and q" is "first with the name, if it satisfies q" *)
Lemma nodupb_cons x l : nodupb (x :: l) = true -> existsb (lbeq x) l = false /\ nodupb l = true.
Proof. cbn. intro H. apply andb_true_iff in H as [H1 H2]. apply negb_true_iff in H1. auto. Qed.

Lemma find_unique {A} (name : A -> bytes) (q : A -> bool) m l :
  nodupb (map name l) = true ->
  find (fun y => q y && lbeq (name y) m) l =
  match find (fun y => lbeq (name y) m) l with Some x => if q x then Some x else None | None => None end.
Proof.
  induction l as [|y l IH]; cbn [map find]; [reflexivity|]. intro H. apply nodupb_cons in H as [Hn Hd].
  destruct (lbeq (name y) m) eqn:E.
  - destruct (q y) eqn:Q; cbn; [reflexivity|].
    (* no later element has the name *)
    apply lbeq_true in E. subst m.
    assert (forall l', existsb (lbeq (name y)) (map name l') = false ->
                       find (fun z => q z && lbeq (name z) (name y)) l' = None) as K.
    { induction l' as [|z l' IH']; cbn; [reflexivity|]. intro Hx. apply orb_false_iff in Hx as [H1 H2].
      rewrite lbeq_sym, H1, andb_false_r. auto. }
    now apply K.
  - rewrite andb_false_r. auto.
Qed.

(* ---------------------------------------------------------------- typing *)
Definition typed (outs : list val) (ts : list ty) : Prop := Forall2 (fun v t => has_ty v t = true) outs ts.

Lemma has_ty_sig v t : has_ty v t = true -> vsig v = sigstr t.
Proof. apply lbeq_true. Qed.

Lemma typed_sigs outs ts : typed outs ts -> map vsig outs = map sigstr ts.
Proof. induction 1 as [|v t outs ts H _ IH]; cbn; [reflexivity|]. now rewrite (has_ty_sig _ _ H), IH. Qed.

Lemma typed_length outs ts : typed outs ts -> length outs = length ts.
Proof. induction 1; cbn; congruence. Qed.

(* a value of a structure type is the structure; a value of a non-structure type is not *)
Lemma has_ty_struct v t : has_ty v t = true -> struct_fields t <> None -> exists n s, v = VR n s.
Proof.
  intros H Hs. apply has_ty_sig in H. destruct t; cbn in Hs; try congruence; destruct v; cbn in H; try discriminate; eauto.
Qed.
Lemma has_ty_nonstruct v t : has_ty v t = true -> struct_fields t = None -> vfields v = None.
Proof.
  intros H Hs. apply has_ty_sig in H. destruct t; cbn in Hs; try discriminate; destruct v; cbn in H; try discriminate; reflexivity.
Qed.
Lemma vfields_struct v fs : vfields v = Some fs -> exists n s, v = VR n s /\ fs = [B "u"; B "s"].
Proof. destruct v; cbn; try discriminate. intro H. inversion H. eauto. Qed.

(* ---------------------------------------------------------------- signatures *)
Lemma sg_eqb_refl a : sg_eqb a a = true.
Proof. destruct a; cbn; auto using lbeq_refl, lbeq_list_refl. Qed.

Lemma sg_eqb_eq a b : sg_eqb a b = true -> a = b.
Proof.
  destruct a, b; cbn; try discriminate; intro H; try reflexivity.
  - apply lbeq_true in H. congruence.
  - apply lbeq_list_eq in H. congruence.
Qed.
