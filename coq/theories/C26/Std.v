(* C26/Std.v — the STANDARD handler behaviour: what the function bodies written by the emitter
   (props/ifacegen.py) do, a mirror of harness/hiface/rt/src/lib.rs (`digest`, `entry`, `method_failure`,
   `getter_fails`, `setter_fails`, `derive`).  Results are derived deterministically from the arguments so
   that both sides of the correspondence can compute them.  The theorems quantify over ALL behaviours; this
   one is only used by the line driver.  Executable definitions only. *)
From ZV Require Import Base.Bytes C26.Desc C26.Tree C26.Msg.

Definition two32 : N := 4294967296.

(* h := 7; for each byte: h := (h * 31 + byte) mod 2^32 *)
Definition digest (s : bytes) : N := fold_left (fun h b => ((h * 31 + bn b) mod two32)%N) s 7%N.

Definition derive (t : ty) (h : N) : val :=
  match t with
  | TY => VY (h mod 256)
  | TU => VU h
  | TX => VX (- Z.of_N h - 1)
  | TB => VB (N.odd h)
  | TS => VS (B "r" ++ dec_of_N h)
  | TO => VO (B "/r/n" ++ dec_of_N h)
  | TA => VA (map (fun j => ((h + N.of_nat j) mod two32)%N) (seq 0 (N.to_nat (h mod 3))))
  | TR | TN => VR h (B "p" ++ dec_of_N h)
  | TD => VD (if N.even h then [(B "k" ++ dec_of_N (h mod 10), h); (B "a", 1%N)] else [])
  | TV => VV (if N.even h then VU h else VS (B "v" ++ dec_of_N h))
  | TL => VL []
  | TP => VP []
  end.

Fixpoint derive_outs (ts : list ty) (h : N) : list val :=
  match ts with
  | [] => []
  | t :: r => derive t h :: derive_outs r ((h + 1) mod two32)%N
  end.

Definition entry_text (name : bytes) (args : list val) : bytes := name ++ B "(" ++ toks args ++ B ")".

Section Std.
  Variable descs : list idesc.

  Definition std_method (iface member : bytes) (args : list val) : hres :=
    match find (fun d => lbeq (id_name d) iface) descs with
    | None => HOk []
    | Some d =>
        match find_method d member with
        | None => HOk []
        | Some md =>
            let h := digest (entry_text member args) in
            if md_fall md && (h mod 3 =? 0)%N then HErr EFailed (B "f" ++ dec_of_N h)
            else if md_fall md && (h mod 3 =? 1)%N then HErr ENotSupported (B "n" ++ dec_of_N h)
            else HOk (derive_outs (out_types (md_out md)) h)
        end
    end.

  Definition std_gfail (iface pname : bytes) (v : val) : option (ename * bytes) :=
    if (digest (tok v) mod 4 =? 0)%N then Some (EFailed, B "g" ++ pname) else None.
  Definition std_sfail (iface pname : bytes) (v : val) : option (ename * bytes) :=
    if (digest (tok v) mod 4 =? 1)%N then Some (EFailed, B "s" ++ pname) else None.

  Definition std_bh : behaviour := {| bh_method := std_method; bh_gfail := std_gfail; bh_sfail := std_sfail |}.
End Std.

(* `Srv::new`: every property starts at the value derived from the digest of its name *)
Definition init_vals (d : idesc) : list (bytes * val) :=
  map (fun p => (pd_name p, derive (pd_ty p) (digest (pd_name p)))) (id_props d).
Definition new_inst (d : idesc) (tag : bytes) : inst := {| in_desc := d; in_tag := tag; in_vals := init_vals d |}.
