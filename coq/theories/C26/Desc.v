(* C26/Desc.v — the description language the theorems of C26, C27, C28 and C33 quantify over:
   D-Bus types of a fixed menu, values, and interface descriptions (what a `#[zbus::interface]` impl
   block declares).  The Rust source of an interface is generated FROM a description by
   props/ifacegen.py (the trusted emitter); the models in C26/C27/C28/C33 say what the macros make of it.
   Executable definitions only. *)
From ZV Require Import Base.Bytes.

(* ---------------------------------------------------------------- types *)
(* y u x b s o v  au  as  (us) as a tuple  (us) as a named struct  a{su}  a{sv} *)
Inductive ty := TY | TU | TX | TB | TS | TO | TV | TA | TL | TR | TN | TD | TP.

Definition ty_eqb (a b : ty) : bool :=
  match a, b with
  | TY, TY | TU, TU | TX, TX | TB, TB | TS, TS | TO, TO | TV, TV | TA, TA | TL, TL | TR, TR | TN, TN
  | TD, TD | TP, TP => true
  | _, _ => false
  end.

(* <T as zvariant::Type>::SIGNATURE, as text *)
Definition sigstr (t : ty) : bytes :=
  match t with
  | TY => B "y" | TU => B "u" | TX => B "x" | TB => B "b" | TS => B "s" | TO => B "o" | TV => B "v"
  | TA => B "au" | TL => B "as" | TR => B "(us)" | TN => B "(us)" | TD => B "a{su}" | TP => B "a{sv}"
  end.

(* the fields of a structure type (the only structure of the menu is (us)) *)
Definition struct_fields (t : ty) : option (list bytes) :=
  match t with TR | TN => Some [B "u"; B "s"] | _ => None end.

(* ---------------------------------------------------------------- values (what travels in a message body) *)
Inductive val :=
| VY (n : N) | VU (n : N) | VX (z : Z) | VB (b : bool) | VS (s : bytes) | VO (s : bytes)
| VV (v : val)
| VA (l : list N) | VL (l : list bytes)
| VR (n : N) (s : bytes)                   (* the structure (us): tuple and named struct are the same on the wire *)
| VD (l : list (bytes * N))
| VP (l : list (bytes * val)).

Definition vsig (v : val) : bytes :=
  match v with
  | VY _ => B "y" | VU _ => B "u" | VX _ => B "x" | VB _ => B "b" | VS _ => B "s" | VO _ => B "o"
  | VV _ => B "v" | VA _ => B "au" | VL _ => B "as" | VR _ _ => B "(us)" | VD _ => B "a{su}" | VP _ => B "a{sv}"
  end.

Definition vfields (v : val) : option (list bytes) :=
  match v with VR _ _ => Some [B "u"; B "s"] | _ => None end.

(* v is a value of the Rust type t (conversion from the decoded D-Bus value succeeds) *)
Definition has_ty (v : val) (t : ty) : bool := lbeq (vsig v) (sigstr t).

(* ---------------------------------------------------------------- canonical tokens (rt.rs `Val::tok`) *)
Fixpoint bytes_leb (a b : bytes) : bool :=
  match a, b with
  | [], _ => true
  | _ :: _, [] => false
  | x :: a', y :: b' => if (bn x <? bn y)%N then true else if (bn y <? bn x)%N then false else bytes_leb a' b'
  end.

Fixpoint insert_sorted {A} (e : bytes * A) (l : list (bytes * A)) : list (bytes * A) :=
  match l with
  | [] => [e]
  | x :: r => if bytes_leb (fst e) (fst x) then e :: l else x :: insert_sorted e r
  end.
Definition sort_by_key {A} (l : list (bytes * A)) : list (bytes * A) := fold_right insert_sorted [] l.

Definition hexb (s : bytes) : bytes := hex_of_bytes s.

Fixpoint tok (v : val) : bytes :=
  match v with
  | VY n => B "y" ++ dec_of_N n
  | VU n => B "u" ++ dec_of_N n
  | VX z => B "x" ++ dec_of_Z z
  | VB b => B "b" ++ (if b then B "1" else B "0")
  | VS s => B "s" ++ hexb s
  | VO s => B "o" ++ hexb s
  | VV w => B "v" ++ tok w
  | VA l => B "A" ++ join (B ".") (map dec_of_N l)
  | VL l => B "L" ++ join (B ".") (map hexb l)
  | VR n s => B "R" ++ dec_of_N n ++ B "." ++ hexb s
  | VD l => B "D" ++ join (B "+") (map (fun e => hexb (fst e) ++ B "." ++ dec_of_N (snd e)) (sort_by_key l))
  | VP l => B "P" ++ join (B "+")
                       (map (fun e => hexb (fst e) ++ B "=" ++ snd e)
                          (sort_by_key ((fix go (l : list (bytes * val)) : list (bytes * bytes) :=
                                           match l with [] => [] | (k, w) :: r => (k, tok w) :: go r end) l)))
  end.

Definition toks (vs : list val) : bytes := join (B ",") (map tok vs).

(* ---------------------------------------------------------------- interface descriptions *)
Inductive oshape := OUnit | OSingle (t : ty) | OTuple (ts : list ty).
(* `fn f(..)` / `-> T` / `-> (T1, .., Tn)` (n = 0 is `-> ()`, n = 1 is `-> (T,)`) ; with md_fall: `-> fdo::Result<..>` *)

Record mdesc := {
  md_name : bytes;                      (* the D-Bus member name (PascalCase of the fn name) *)
  md_ins : list (bytes * ty);           (* argument names and types, in order *)
  md_out : oshape;
  md_mut : bool;                        (* &mut self *)
  md_fall : bool;                       (* returns fdo::Result *)
  md_async : bool;
  md_doc : list bytes                   (* the #[doc = ".."] attribute values *)
}.

Inductive access := AR | AW | ARW.
Inductive emits := ETrue | EInval | EConst | EFalse.

Record pdesc := {
  pd_name : bytes;
  pd_ty : ty;
  pd_acc : access;                      (* AR: getter only; AW: setter only; ARW: both *)
  pd_emits : emits;                     (* emits_changed_signal on the getter *)
  pd_gfall : bool; pd_sfall : bool;     (* getter / setter returns fdo::Result *)
  pd_smut : bool;                       (* setter takes &mut self *)
  pd_gasync : bool; pd_sasync : bool;
  pd_doc : list bytes
}.

Record sdesc := { sd_name : bytes; sd_args : list (bytes * ty); sd_doc : list bytes }.

Record idesc := {
  id_name : bytes;                      (* the interface name *)
  id_methods : list mdesc;              (* in source order; the emitter writes methods, then signals, then properties *)
  id_signals : list sdesc;
  id_props : list pdesc
}.

Definition readable (p : pdesc) : bool := match pd_acc p with AW => false | _ => true end.
Definition writable (p : pdesc) : bool := match pd_acc p with AR => false | _ => true end.

(* the macro forces `false` when there is no getter *)
Definition eff_emits (p : pdesc) : emits := if readable p then pd_emits p else EFalse.

Definition out_types (o : oshape) : list ty :=
  match o with OUnit => [] | OSingle t => [t] | OTuple ts => ts end.

Definition find_method (d : idesc) (m : bytes) : option mdesc :=
  find (fun x => lbeq (md_name x) m) (id_methods d).
Definition find_prop (d : idesc) (m : bytes) : option pdesc :=
  find (fun x => lbeq (pd_name x) m) (id_props d).
Definition find_signal (d : idesc) (m : bytes) : option sdesc :=
  find (fun x => lbeq (sd_name x) m) (id_signals d).

(* names are pairwise distinct (the Rust compiler / the macro's BTreeMap make this so) *)
Fixpoint nodupb (l : list bytes) : bool :=
  match l with
  | [] => true
  | x :: r => negb (existsb (lbeq x) r) && nodupb r
  end.
