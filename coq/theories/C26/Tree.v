(* C26/Tree.v — the object server's node tree as far as dispatch, Properties and Introspect use it
   (zbus/src/object_server/node.rs: Node { path, children: HashMap<String, Node>, interfaces: HashMap<..> },
   get_child, get_child_mut(create = true) + add_arc_interface as used by ObjectServer::at).
   The three standard interfaces Node::new installs on EVERY node are implicit (see std_ifaces in C27/Model.v).
   Removal is C24's subject and not modelled here.  Executable definitions only. *)
From ZV Require Import Base.Bytes C26.Desc.

(* an interface instance: the description it was generated from, the path it was registered at (only used
   to tell instances apart in the handler log) and the current property values (the struct's fields) *)
Record inst := { in_desc : idesc; in_tag : bytes; in_vals : list (bytes * val) }.

Inductive node := Node (ifs : list inst) (kids : list (bytes * node)).

Definition node_ifs (n : node) : list inst := match n with Node i _ => i end.
Definition node_kids (n : node) : list (bytes * node) := match n with Node _ k => k end.

Definition empty_node : node := Node [] [].

(* path.split('/').skip(1) with empty segments skipped *)
Definition segs_of (p : bytes) : list bytes :=
  filter (fun s => negb (lbeq s [])) (tl (split_on "/"%byte p)).

Fixpoint find_kid (s : bytes) (l : list (bytes * node)) : option node :=
  match l with
  | [] => None
  | (k, c) :: r => if lbeq k s then Some c else find_kid s r
  end.

Fixpoint set_kid (s : bytes) (c : node) (l : list (bytes * node)) : list (bytes * node) :=
  match l with
  | [] => [(s, c)]
  | (k, c0) :: r => if lbeq k s then (k, c) :: r else (k, c0) :: set_kid s c r
  end.

(* Node::get_child *)
Fixpoint get_child (n : node) (segs : list bytes) : option node :=
  match segs with
  | [] => Some n
  | s :: r => match find_kid s (node_kids n) with Some c => get_child c r | None => None end
  end.

Definition find_inst (n : node) (iname : bytes) : option inst :=
  find (fun i => lbeq (id_name (in_desc i)) iname) (node_ifs n).

(* ObjectServer::at = get_child_mut(path, create = true) + add_arc_interface: false when the name is taken *)
Fixpoint add_at (n : node) (segs : list bytes) (i : inst) : node * bool :=
  match segs with
  | [] =>
      match find_inst n (id_name (in_desc i)) with
      | Some _ => (n, false)
      | None => (Node (node_ifs n ++ [i]) (node_kids n), true)
      end
  | s :: r =>
      let c := match find_kid s (node_kids n) with Some c => c | None => empty_node end in
      let (c', b) := add_at c r i in
      (Node (node_ifs n) (set_kid s c' (node_kids n)), b)
  end.

(* replace the property values of the instance called iname at segs (a setter ran) *)
Definition upd_ifs (iname : bytes) (vals : list (bytes * val)) (l : list inst) : list inst :=
  map (fun i => if lbeq (id_name (in_desc i)) iname
                then {| in_desc := in_desc i; in_tag := in_tag i; in_vals := vals |} else i) l.

Fixpoint upd_at (n : node) (segs : list bytes) (iname : bytes) (vals : list (bytes * val)) : node :=
  match segs with
  | [] => Node (upd_ifs iname vals (node_ifs n)) (node_kids n)
  | s :: r =>
      match find_kid s (node_kids n) with
      | Some c => Node (node_ifs n) (set_kid s (upd_at c r iname vals) (node_kids n))
      | None => n
      end
  end.

(* property values: an association list keyed by property name *)
Fixpoint get_val (k : bytes) (l : list (bytes * val)) : option val :=
  match l with
  | [] => None
  | (k0, v) :: r => if lbeq k0 k then Some v else get_val k r
  end.
Fixpoint set_val (k : bytes) (v : val) (l : list (bytes * val)) : list (bytes * val) :=
  match l with
  | [] => [(k, v)]
  | (k0, v0) :: r => if lbeq k0 k then (k0, v) :: r else (k0, v0) :: set_val k v r
  end.
