(* C15/Proofs.v — under every interleaving of the atomic fetches, the serials in use are pairwise distinct and
   non-zero as long as at most M fetches happened (M = 2^32 in the code), for any starting value of the counter. *)
From ZV Require Import Base.Bytes C15.Model C15.Spec.
From Coq Require Import Lia ZifyBool ZifyN ZifyNat Sorting.Sorted Permutation.
Open Scope N_scope.

(* ------------------------------------------------------------------ lists *)
Lemma set_nth_split {A} (l1 : list A) a b l2 n : length l1 = n -> set_nth n b (l1 ++ a :: l2) = l1 ++ b :: l2.
Proof. revert n; induction l1 as [|x l1 IH]; intros n H; subst n; cbn; [reflexivity|]. now rewrite IH. Qed.

Fixpoint cnt (p : op -> bool) (l : list op) : nat :=
  match l with [] => 0%nat | o :: r => ((if p o then 1 else 0) + cnt p r)%nat end.
Lemma cnt_app p l1 l2 : cnt p (l1 ++ l2) = (cnt p l1 + cnt p l2)%nat.
Proof. induction l1 as [|o l1 IH]; cbn; [reflexivity|]. rewrite IH. lia. Qed.
Lemma cnt_le p l : (cnt p l <= length l)%nat.
Proof. induction l as [|o l IH]; cbn; [lia|]. destruct (p o); lia. Qed.

Definition is_retry (o : op) : bool := match o with Retry => true | _ => false end.
Definition is_moved (o : op) : bool := match o with Start => false | _ => true end.

Lemma in_retry_cnt l : In Retry l <-> (1 <= cnt is_retry l)%nat.
Proof.
  induction l as [|o l IH]; cbn; [split; [tauto | lia]|].
  destruct o; cbn; split; intros H;
    first [ left; reflexivity
          | lia
          | destruct H as [H|H]; [discriminate | apply IH in H; lia]
          | right; apply IH; lia ].
Qed.

Definition ser (l : list op) : list N := flat_map (fun o => match o with Done v => [v] | _ => [] end) l.
Lemma ser_app l1 l2 : ser (l1 ++ l2) = ser l1 ++ ser l2.
Proof. apply flat_map_app. Qed.
Lemma in_ser l v : In v (ser l) <-> In (Done v) l.
Proof.
  induction l as [|o l IH]; cbn; [tauto|]. rewrite in_app_iff, IH.
  destruct o; cbn; split; intros H; try tauto; try (destruct H as [H|H]; [discriminate|tauto]).
  - destruct H as [[H|[]]|H]; [left; now subst | tauto].
  - destruct H as [H|H]; [left; left; congruence | tauto].
Qed.

(* ------------------------------------------------------------------ arithmetic in Z/MZ *)
Section Mod.
Variables (M c0 : N).
Hypothesis HM : 0 < M.
Hypothesis Hc0 : c0 < M.

Definition off (v : N) : N := (v + M - c0) mod M.      (* how many fetches after the start v is handed out *)

Lemma mod_wrap a : M <= a < 2 * M -> a mod M = a - M.
Proof.
  intros H. replace a with ((a - M) + 1 * M) at 1 by lia. rewrite N.mod_add by lia. apply N.mod_small. lia.
Qed.

Lemma off_fetch k : k < M -> off ((c0 + k) mod M) = k.
Proof.
  intros Hk. unfold off. destruct (N.lt_ge_cases (c0 + k) M) as [H|H].
  - rewrite (N.mod_small (c0 + k)) by lia. replace (c0 + k + M - c0) with (k + 1 * M) by lia.
    rewrite N.mod_add by lia. now apply N.mod_small.
  - rewrite (mod_wrap (c0 + k)) by lia. replace (c0 + k - M + M - c0) with k by lia. now apply N.mod_small.
Qed.

(* ------------------------------------------------------------------ the invariant *)
Record Inv (s : state) : Prop := {
  i_ctr : ctr s = (c0 + nfetch s) mod M;
  i_done : forall v, In (Done v) (ops s) -> v < M /\ v <> 0 /\ off v < nfetch s;
  i_nodup : NoDup (serials s);
  i_retry : In Retry (ops s) -> off 0 < nfetch s;
  i_nopanic : ~ In Panicked (ops s);
  i_retry1 : (cnt is_retry (ops s) <= 1)%nat;
  i_cnt : nfetch s + N.of_nat (cnt is_retry (ops s)) <=
          N.of_nat (cnt is_moved (ops s)) + (if off 0 <? nfetch s then 1 else 0)
}.

Lemma inv_init : Inv (init c0).
Proof.
  constructor; cbn; try tauto; try lia.
  all: try (rewrite N.add_0_r; symmetry; now apply N.mod_small).
  all: try (now constructor).
  all: try (destruct (off 0 <? 0); lia).
Qed.

Lemma inv_spawn s : Inv s -> Inv {| ctr := ctr s; ops := ops s ++ [Start]; nfetch := nfetch s |}.
Proof.
  intros [H1 H2 H3 H4 H5 H6 H7]. constructor; cbn [ctr ops nfetch]; try assumption.
  - intros v Hv. apply in_app_iff in Hv. destruct Hv as [Hv|[Hv|[]]]; [auto | discriminate].
  - unfold serials in *. cbn [ops]. fold (ser (ops s ++ [Start])). rewrite ser_app. cbn. now rewrite app_nil_r.
  - intros Hr. apply in_app_iff in Hr. destruct Hr as [Hr|[Hr|[]]]; [auto | discriminate].
  - intros Hp. apply in_app_iff in Hp. destruct Hp as [Hp|[Hp|[]]]; [auto | discriminate].
  - rewrite cnt_app. cbn. lia.
  - rewrite !cnt_app. cbn. lia.
Qed.

Lemma inv_move s i s' : Inv s -> step M (LMove i) s = Some s' -> nfetch s' <= M -> Inv s'.
Proof.
  intros [H1 H2 H3 H4 H5 H6 H7] Hs Hn. cbn [step] in Hs.
  destruct (nth_error (ops s) i) as [o|] eqn:Hi; [|discriminate].
  destruct (can_move o) eqn:Hc; [|discriminate]. inversion Hs; subst s'; clear Hs. cbn [nfetch] in Hn.
  apply nth_error_split in Hi. destruct Hi as (l1 & l2 & Hl & Hlen).
  rewrite Hl, (set_nth_split l1 o _ l2 i Hlen).
  set (k := nfetch s) in *. assert (Hk : k < M) by lia.
  assert (Hoff : off (ctr s) = k) by (rewrite H1; now apply off_fetch).
  assert (Hx : ctr s < M) by (rewrite H1; apply N.mod_upper_bound; lia).
  unfold serials in H3. fold (ser (ops s)) in H3. rewrite Hl in H2, H3, H4, H5, H6, H7.
  rewrite ser_app in H3. repeat rewrite cnt_app in H6. repeat rewrite cnt_app in H7. cbn [ser flat_map cnt] in H3, H6, H7.
  assert (Hfresh : ~ In (ctr s) (ser l1 ++ ser l2)).
  { intros Hin. rewrite <- ser_app, in_ser in Hin.
    assert (Hin' : In (Done (ctr s)) (l1 ++ o :: l2)).
    { apply in_app_iff in Hin. apply in_app_iff. destruct Hin; [tauto | right; right; assumption]. }
    apply H2 in Hin'. lia. }
  destruct o; try discriminate; cbn [after_fetch is_retry is_moved] in *.
  - (* first fetch of this op *)
    destruct (ctr s =? 0) eqn:E0.
    + (* it got 0: nobody else can be retrying, because 0 is handed out once *)
      assert (Ez : ctr s = 0) by lia. rewrite Ez in Hoff.
      assert (Hnr : ~ In Retry (l1 ++ Start :: l2)) by (intros Hr; apply H4 in Hr; lia).
      assert (Hr0 : (cnt is_retry l1 + cnt is_retry l2 = 0)%nat).
      { destruct (Nat.eq_dec (cnt is_retry l1 + cnt is_retry l2) 0) as [e|ne]; [exact e|].
        exfalso. apply Hnr. apply in_retry_cnt. rewrite cnt_app. cbn. lia. }
      constructor; cbn [ctr ops nfetch].
      * rewrite H1. rewrite N.add_mod_idemp_l by lia. f_equal. lia.
      * intros v Hv. apply in_app_iff in Hv. destruct Hv as [Hv|[Hv|Hv]]; [|discriminate|].
        -- destruct (H2 v) as (a & b & c); [apply in_app_iff; tauto|]. repeat split; try assumption; lia.
        -- destruct (H2 v) as (a & b & c); [apply in_app_iff; right; right; assumption|]. repeat split; try assumption; lia.
      * unfold serials. cbn [ops]. fold (ser (l1 ++ Retry :: l2)). rewrite ser_app. cbn. exact H3.
      * intros _. lia.
      * intros Hp. apply H5. apply in_app_iff in Hp. apply in_app_iff. destruct Hp as [Hp|[Hp|Hp]]; [tauto|discriminate|right; right; exact Hp].
      * rewrite cnt_app. cbn. lia.
      * rewrite !cnt_app. cbn [cnt is_retry is_moved].
        destruct (off 0 <? k) eqn:Ea; [lia|]. destruct (off 0 <? k + 1) eqn:Eb; lia.
    + assert (Enz : ctr s <> 0) by lia.
      constructor; cbn [ctr ops nfetch].
      * rewrite H1. rewrite N.add_mod_idemp_l by lia. f_equal. lia.
      * intros v Hv. apply in_app_iff in Hv. destruct Hv as [Hv|[Hv|Hv]].
        -- destruct (H2 v) as (a & b & c); [apply in_app_iff; tauto|]. repeat split; try assumption; lia.
        -- inversion Hv; subst v. repeat split; try assumption; lia.
        -- destruct (H2 v) as (a & b & c); [apply in_app_iff; right; right; assumption|]. repeat split; try assumption; lia.
      * unfold serials. cbn [ops]. fold (ser (l1 ++ Done (ctr s) :: l2)). rewrite ser_app. cbn.
        apply NoDup_Add with (a := ctr s) (l := ser l1 ++ ser l2); [apply Add_app | split; assumption].
      * intros Hr. assert (Hr' : In Retry (l1 ++ Start :: l2)).
        { apply in_app_iff in Hr. apply in_app_iff. destruct Hr as [Hr|[Hr|Hr]]; [tauto|discriminate|right; right; exact Hr]. }
        apply H4 in Hr'. lia.
      * intros Hp. apply H5. apply in_app_iff in Hp. apply in_app_iff. destruct Hp as [Hp|[Hp|Hp]]; [tauto|discriminate|right; right; exact Hp].
      * rewrite cnt_app. cbn. lia.
      * rewrite !cnt_app. cbn [cnt is_retry is_moved].
        destruct (off 0 <? k) eqn:Ea; [replace (off 0 <? k + 1) with true by lia | destruct (off 0 <? k + 1)]; lia.
  - (* second fetch of an op that had drawn 0 *)
    assert (Hz : off 0 < k) by (apply H4; apply in_app_iff; right; left; reflexivity).
    assert (Enz : ctr s <> 0) by (intros E; rewrite E in Hoff; lia).
    replace (ctr s =? 0) with false by lia.
    constructor; cbn [ctr ops nfetch].
    + rewrite H1. rewrite N.add_mod_idemp_l by lia. f_equal. lia.
    + intros v Hv. apply in_app_iff in Hv. destruct Hv as [Hv|[Hv|Hv]].
      * destruct (H2 v) as (a & b & c); [apply in_app_iff; tauto|]. repeat split; try assumption; lia.
      * inversion Hv; subst v. repeat split; try assumption; lia.
      * destruct (H2 v) as (a & b & c); [apply in_app_iff; right; right; assumption|]. repeat split; try assumption; lia.
    + unfold serials. cbn [ops]. fold (ser (l1 ++ Done (ctr s) :: l2)). rewrite ser_app. cbn.
      apply NoDup_Add with (a := ctr s) (l := ser l1 ++ ser l2); [apply Add_app | split; assumption].
    + intros _. lia.
    + intros Hp. apply H5. apply in_app_iff in Hp. apply in_app_iff. destruct Hp as [Hp|[Hp|Hp]]; [tauto|discriminate|right; right; exact Hp].
    + rewrite cnt_app. cbn. lia.
    + rewrite !cnt_app. cbn [cnt is_retry is_moved].
      destruct (off 0 <? k) eqn:Ea; [|lia]. destruct (off 0 <? k + 1) eqn:Eb; lia.
Qed.

Lemma step_nfetch l s s' : step M l s = Some s' -> nfetch s <= nfetch s'.
Proof.
  destruct l as [|i|i]; cbn [step]; intros H.
  - inversion H; subst; cbn; lia.
  - destruct (nth_error (ops s) i) as [o|]; [|discriminate]. destruct (can_move o); [|discriminate].
    inversion H; subst; cbn; lia.
  - destruct (nth_error (ops s) i) as [[| |v|]|]; try discriminate. inversion H; subst; cbn; lia.
Qed.

Lemma known_app tr l : known_c15 (tr ++ [l]) = known_c15 tr || is_clone l.
Proof. unfold known_c15. rewrite existsb_app. cbn. now rewrite Bool.orb_false_r. Qed.

Lemma reach_inv tr s : reach M c0 tr s -> known_c15 tr = false -> nfetch s <= M -> Inv s.
Proof.
  induction 1 as [|tr s l s' Hr IH Hs]; intros Hk Hn; [apply inv_init|].
  rewrite known_app in Hk. apply Bool.orb_false_iff in Hk. destruct Hk as [Hk Hl].
  pose proof (step_nfetch l s s' Hs) as Hmono.
  assert (HI : Inv s) by (apply IH; [assumption | lia]).
  destruct l as [|i|i]; [|eapply inv_move; eassumption | discriminate].
  cbn [step] in Hs. inversion Hs; subst s'. now apply inv_spawn.
Qed.

(* in terms of messages: as long as fewer than M builds were started, at most M fetches happened *)
Lemma reach_count tr s : reach M c0 tr s -> known_c15 tr = false -> N.of_nat (length (ops s)) < M ->
  nfetch s <= M /\ Inv s.
Proof.
  induction 1 as [|tr s l s' Hr IH Hs]; intros Hk Hlen; [split; [cbn; lia | apply inv_init]|].
  rewrite known_app in Hk. apply Bool.orb_false_iff in Hk. destruct Hk as [Hk Hl].
  destruct l as [|i|i]; [| |discriminate].
  - cbn [step] in Hs. inversion Hs; subst s'. cbn [ops nfetch] in *. rewrite app_length in Hlen. cbn in Hlen.
    destruct IH as [Hn HI]; [assumption | lia |]. split; [assumption | now apply inv_spawn].
  - assert (Hlen' : length (ops s') = length (ops s)).
    { cbn [step] in Hs. destruct (nth_error (ops s) i) as [o|] eqn:Hi; [|discriminate].
      destruct (can_move o); [|discriminate]. inversion Hs; subst s'. cbn [ops].
      apply nth_error_split in Hi. destruct Hi as (l1 & l2 & Hl' & Hlen1).
      rewrite Hl', (set_nth_split l1 o _ l2 i Hlen1), !app_length. reflexivity. }
    rewrite Hlen' in Hlen.
    destruct IH as [Hn HI]; [assumption | lia |].
    assert (Hn' : nfetch s' <= M).
    { pose proof HI as [_ _ _ _ _ H6 H7]. cbn [step] in Hs.
      destruct (nth_error (ops s) i) as [o|] eqn:Hi; [|discriminate].
      destruct (can_move o) eqn:Hc; [|discriminate]. inversion Hs; subst s'. cbn [nfetch ops] in *.
      apply nth_error_split in Hi. destruct Hi as (l1 & l2 & Hl' & Hlen1).
      rewrite Hl' in H6, H7, Hlen. repeat rewrite cnt_app in H6. repeat rewrite cnt_app in H7. rewrite app_length in Hlen.
      pose proof (cnt_le is_moved l1). pose proof (cnt_le is_moved l2).
      destruct o; try discriminate; cbn [cnt is_retry is_moved length] in *;
        destruct (off 0 <? nfetch s); lia. }
    split; [assumption | eapply inv_move; eassumption].
Qed.

End Mod.

(* ------------------------------------------------------------------ statements *)
Theorem unique_partial M c0 tr s : 0 < M -> c0 < M -> reach M c0 tr s -> ~ Known_C15 tr -> nfetch s <= M ->
  unique_nonzero (serials s) /\ no_panic s.
Proof.
  intros HM Hc Hr Hk Hn. assert (Hk' : known_c15 tr = false) by (unfold Known_C15 in Hk; now destruct (known_c15 tr)).
  destruct (reach_inv M c0 HM Hc tr s Hr Hk' Hn) as [_ H2 H3 _ H5 _ _].
  repeat split; try assumption.
  intros H0. unfold serials in H0. fold (ser (ops s)) in H0. apply in_ser, H2 in H0. lia.
Qed.

Theorem messages_partial M c0 tr s : 0 < M -> c0 < M -> reach M c0 tr s -> ~ Known_C15 tr ->
  N.of_nat (length (ops s)) < M -> unique_nonzero (serials s) /\ no_panic s.
Proof.
  intros HM Hc Hr Hk Hl. assert (Hk' : known_c15 tr = false) by (unfold Known_C15 in Hk; now destruct (known_c15 tr)).
  destruct (reach_count M c0 HM Hc tr s Hr Hk' Hl) as [Hn _]. now apply (unique_partial M c0 tr s).
Qed.

Theorem unique_partial32 c0 tr s : c0 < M32 -> reach M32 c0 tr s -> ~ Known_C15 tr -> nfetch s <= M32 ->
  (NoDup (serials s) /\ ~ In 0 (serials s)) /\ ~ In Panicked (ops s).
Proof. exact (unique_partial M32 c0 tr s eq_refl). Qed.

Theorem messages_partial32 c0 tr s : c0 < M32 -> reach M32 c0 tr s -> ~ Known_C15 tr ->
  N.of_nat (length (ops s)) < M32 -> (NoDup (serials s) /\ ~ In 0 (serials s)) /\ ~ In Panicked (ops s).
Proof. exact (messages_partial M32 c0 tr s eq_refl). Qed.

(* the executable oracle decides the property *)
Lemma adj_distinct_nodup l : StronglySorted (fun x y => is_true (x <=? y)) l -> (adj_distinct l = true <-> NoDup l).
Proof.
  induction 1 as [|x l Hs IH Hx]; [split; [constructor | reflexivity]|].
  destruct l as [|y r]; [split; [repeat constructor; intros [] | reflexivity]|].
  cbn [adj_distinct]. rewrite Bool.andb_true_iff, Bool.negb_true_iff, IH. split.
  - intros [Hxy Hn]. constructor; [|assumption]. intros [E|Hin]; [lia|].
    inversion Hs as [|? ? _ Hy]; subst. rewrite Forall_forall in Hx, Hy.
    pose proof (Hx y (or_introl eq_refl)) as H1. pose proof (Hy x Hin) as H2. unfold is_true in *. lia.
  - intros Hn. inversion Hn as [|? ? Hnin Hn']; subst. split; [|assumption].
    destruct (x =? y) eqn:E; [|reflexivity]. exfalso. apply Hnin. left. lia.
Qed.

Lemma nodupb_ok l : nodupb l = true <-> NoDup l.
Proof.
  unfold nodupb. rewrite adj_distinct_nodup.
  - split; intros H; eapply Permutation.Permutation_NoDup; try eassumption;
      [apply Permutation.Permutation_sym|]; apply NSort.Permuted_sort.
  - apply NSort.StronglySorted_sort. intros a b c Hab Hbc. unfold is_true in *. lia.
Qed.

Theorem unique_nonzerob_ok l : unique_nonzerob l = true <-> unique_nonzero l.
Proof.
  unfold unique_nonzerob, unique_nonzero. rewrite Bool.andb_true_iff, Bool.negb_true_iff, nodupb_ok. split; intros [H1 H2]; split; try assumption.
  - intros Hin. assert (existsb (N.eqb 0) l = true) by (apply existsb_exists; exists 0; split; [assumption | reflexivity]). congruence.
  - destruct (existsb (N.eqb 0) l) eqn:E; [|reflexivity]. apply existsb_exists in E. destruct E as (y & Hy & Exy).
    apply N.eqb_eq in Exy. subst y. contradiction.
Qed.

(* the sequential builds used by the correspondence are a schedule of the model *)
Lemma step_some_reach M c0 tr s l : reach M c0 tr s -> is_clone l = false ->
  exists tr', reach M c0 tr' (match step M l s with Some x => x | None => s end) /\
              (known_c15 tr = false -> known_c15 tr' = false).
Proof.
  intros Hr Hl. destruct (step M l s) as [s'|] eqn:E.
  - exists (tr ++ [l]). split; [econstructor; eassumption|]. intros Hk. rewrite known_app, Hk, Hl. reflexivity.
  - exists tr. tauto.
Qed.

Theorem seq_builds_reach M c0 n : forall tr s, reach M c0 tr s -> known_c15 tr = false ->
  exists tr', reach M c0 tr' (seq_builds M n s) /\ known_c15 tr' = false.
Proof.
  induction n as [|n IH]; intros tr s Hr Hk; [exists tr; tauto|].
  cbn [seq_builds].
  destruct (step_some_reach M c0 tr s LSpawn Hr eq_refl) as (t1 & R1 & K1).
  destruct (step_some_reach M c0 t1 _ (LMove (length (ops s))) R1 eq_refl) as (t2 & R2 & K2).
  destruct (step_some_reach M c0 t2 _ (LMove (length (ops s))) R2 eq_refl) as (t3 & R3 & K3).
  apply (IH t3); [exact R3 | auto].
Qed.

(* replaying a schedule through the executable [run] stays inside the step relation *)
Lemma run_reach_gen M c0 : forall tr tr0 s0 s, reach M c0 tr0 s0 -> run M tr s0 = Some s -> reach M c0 (tr0 ++ tr) s.
Proof.
  induction tr as [|l tr IH]; intros tr0 s0 s Hr Hrun; cbn [run] in Hrun.
  - inversion Hrun; subst. now rewrite app_nil_r.
  - destruct (step M l s0) as [s1|] eqn:E; [|discriminate].
    replace (tr0 ++ l :: tr) with ((tr0 ++ [l]) ++ tr) by (now rewrite <- app_assoc).
    apply (IH _ s1); [econstructor; eassumption | assumption].
Qed.
Theorem run_reach M c0 tr s : run M tr (init c0) = Some s -> reach M c0 tr s.
Proof. intros H. apply (run_reach_gen M c0 tr [] (init c0) s); [constructor | assumption]. Qed.

(* ------------------------------------------------------------------ the finding: a cloned builder *)
Theorem clone_refuted : exists tr s, reach M32 0 tr s /\ Known_C15 tr /\ nfetch s <= M32 /\
  serials s = [1; 1] /\ ~ unique_nonzero (serials s).
Proof.
  exists [LSpawn; LMove 0; LMove 0; LClone 0]%nat.
  eexists. split; [|split; [|split; [|split]]].
  - apply run_reach. vm_compute. reflexivity.
  - reflexivity.
  - vm_compute. discriminate.
  - reflexivity.
  - intros [H _]. cbn in H. inversion H as [|? ? Hin _]; subst. apply Hin. now left.
Qed.

Theorem full_statement_refuted : ~ C15_full_statement.
Proof.
  intros H. destruct clone_refuted as (tr & s & Hr & _ & Hn & _ & Hbad).
  apply Hbad. apply (H 0 tr s); [reflexivity | assumption | assumption].
Qed.

(* ------------------------------------------------------------------ non-vacuity and sharpness *)
(* three threads around the wrap: counter at 2^32 - 2, ops 0 and 1 fetch, op 2 draws 0 and fetches again *)
Example wrap_instance :
  let tr := [LSpawn; LSpawn; LSpawn; LMove 1; LMove 0; LMove 2; LMove 2]%nat in
  exists s, run M32 tr (init 4294967294) = Some s /\ serials s = [4294967295; 4294967294; 1] /\ nfetch s = 4 /\ ctr s = 2.
Proof. cbv zeta. eexists. split; [vm_compute; reflexivity|]. repeat split. Qed.

(* sequential builds from the initial value 0 of the static, and across the wrap *)
Example seq_instance : next_serials M32 0 4 = [1; 2; 3; 4] /\
                       next_serials M32 4294967294 4 = [4294967294; 4294967295; 1; 2].
Proof. split; vm_compute; reflexivity. Qed.

(* the bound is sharp: with a 2-bit counter the fifth fetch repeats a serial still in use *)
Example bound_is_sharp :
  exists s, run 4 [LSpawn; LSpawn; LSpawn; LSpawn; LMove 0; LMove 1; LMove 2; LMove 3; LMove 3]%nat (init 1) = Some s /\
            nfetch s = 5 /\ serials s = [1; 2; 3; 1].
Proof. eexists. split; [vm_compute; reflexivity|]. split; reflexivity. Qed.
