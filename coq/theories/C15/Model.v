(* C15/Model.v — executable mirror of  zbus/src/message/header.rs
       static SERIAL_NUM: AtomicU32 = AtomicU32::new(0);
       PrimaryHeader::new:   let mut serial_num = SERIAL_NUM.fetch_add(1, Relaxed);
                             if serial_num == 0 { serial_num = SERIAL_NUM.fetch_add(1, Relaxed); }
                             ... serial_num: serial_num.try_into().unwrap()            (NonZeroU32)
   and of  message::Builder  (the serial is drawn when the builder is created; `#[derive(Clone)]` copies it).
   Every message build is an "op"; any number of ops are in flight on any number of threads; one step = one atomic
   fetch_add of one op (or the creation of a new op, or the cloning of an existing builder).  The counter lives in
   Z/MZ; the code has M = 2^32.  No proofs in this file. *)
From ZV Require Import Base.Bytes Base.Res.
Open Scope N_scope.

Definition M32 : N := 4294967296.

Inductive op :=
  | Start                (* PrimaryHeader::new entered, nothing fetched yet *)
  | Retry                (* first fetch_add returned 0 *)
  | Done (s : N)         (* the message carries serial s *)
  | Panicked.            (* second fetch_add returned 0 too: try_into().unwrap() panics *)

Record state := { ctr : N;            (* SERIAL_NUM *)
                  ops : list op;
                  nfetch : N }.       (* number of fetch_add executed so far (ghost) *)

Definition init (c0 : N) : state := {| ctr := c0; ops := []; nfetch := 0 |}.

(* what an op becomes when its fetch_add returns x *)
Definition after_fetch (o : op) (x : N) : op :=
  match o with
  | Start => if x =? 0 then Retry else Done x
  | Retry => if x =? 0 then Panicked else Done x
  | Done s => Done s
  | Panicked => Panicked
  end.

Definition can_move (o : op) : bool := match o with Start | Retry => true | _ => false end.

Fixpoint set_nth {A} (i : nat) (a : A) (l : list A) : list A :=
  match l, i with
  | [], _ => []
  | _ :: r, O => a :: r
  | x :: r, S i' => x :: set_nth i' a r
  end.

Inductive label := LSpawn | LMove (i : nat) | LClone (i : nat).

(* one atomic action; None = the label is not enabled *)
Definition step (M : N) (l : label) (s : state) : option state :=
  match l with
  | LSpawn => Some {| ctr := ctr s; ops := ops s ++ [Start]; nfetch := nfetch s |}
  | LMove i =>
      match nth_error (ops s) i with
      | Some o =>
          if can_move o
          then Some {| ctr := (ctr s + 1) mod M;                               (* fetch_add(1) wraps *)
                       ops := set_nth i (after_fetch o (ctr s)) (ops s);
                       nfetch := nfetch s + 1 |}
          else None
      | None => None
      end
  | LClone i =>
      (* Builder::clone of a builder whose header already holds its serial *)
      match nth_error (ops s) i with
      | Some (Done v) => Some {| ctr := ctr s; ops := ops s ++ [Done v]; nfetch := nfetch s |}
      | _ => None
      end
  end.

Fixpoint run (M : N) (tr : list label) (s : state) : option state :=
  match tr with
  | [] => Some s
  | l :: r => match step M l s with Some s' => run M r s' | None => None end
  end.

Definition serials (s : state) : list N :=
  flat_map (fun o => match o with Done v => [v] | _ => [] end) (ops s).

(* one thread building n messages one after the other: spawn, fetch, (fetch again) *)
Fixpoint seq_builds (M : N) (n : nat) (s : state) : state :=
  match n with
  | O => s
  | S n' =>
      let i := length (ops s) in
      let s1 := match step M LSpawn s with Some x => x | None => s end in
      let s2 := match step M (LMove i) s1 with Some x => x | None => s1 end in
      let s3 := match step M (LMove i) s2 with Some x => x | None => s2 end in   (* enabled only after a 0 *)
      seq_builds M n' s3
  end.

Definition next_serials (M : N) (c0 : N) (n : nat) : list N := serials (seq_builds M n (init c0)).
