(* C15/Spec.v — "serial numbers are never zero and never repeat". *)
From ZV Require Import Base.Bytes C15.Model.
From Coq Require Import Sorting.Mergesort Orders.
Open Scope N_scope.

(* the property of a set of messages built so far *)
Definition unique_nonzero (l : list N) : Prop := NoDup l /\ ~ In 0 l.

(* executable version, used as oracle on the implementation's output (thread runs yield tens of thousands of
   serials: sort, then no two neighbours are equal) *)
Module NOrd <: TotalLeBool.
  Definition t := N.
  Definition leb := N.leb.
  Theorem leb_total : forall a1 a2, leb a1 a2 = true \/ leb a2 a1 = true.
  Proof. intros. unfold leb. rewrite !N.leb_le. apply N.le_ge_cases. Qed.
End NOrd.
Module NSort := Sort NOrd.

Fixpoint adj_distinct (l : list N) : bool :=
  match l with
  | x :: ((y :: _) as r) => negb (x =? y) && adj_distinct r
  | _ => true
  end.
Definition nodupb (l : list N) : bool := adj_distinct (NSort.sort l).
Definition unique_nonzerob (l : list N) : bool := nodupb l && negb (existsb (N.eqb 0) l).

(* reachable states, with the history that led there *)
Inductive reach (M c0 : N) : list label -> state -> Prop :=
  | reach_init : reach M c0 [] (init c0)
  | reach_step tr s l s' : reach M c0 tr s -> step M l s = Some s' -> reach M c0 (tr ++ [l]) s'.

Definition no_panic (s : state) : Prop := ~ In Panicked (ops s).

(* known deviation class: some builder was cloned *)
Definition is_clone (l : label) : bool := match l with LClone _ => true | _ => false end.
Definition known_c15 (tr : list label) : bool := existsb is_clone tr.
Definition Known_C15 (tr : list label) : Prop := known_c15 tr = true.

(* the full statement: refuted by Builder::clone, see C15_clone_refuted / C15_unique_partial *)
Definition C15_full_statement : Prop :=
  forall c0 tr s, c0 < M32 -> reach M32 c0 tr s -> nfetch s <= M32 -> unique_nonzero (serials s) /\ no_panic s.
