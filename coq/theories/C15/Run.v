(* C15/Run.v — two-phase line driver: the harness ran the case on the real code and printed what it observed;
   the model says whether the observation is a run of the model, the spec whether it satisfies the property.
     S seq <n> | S hdr <n>      <TAB> start=<probe>;s1,...,sn        n sequential builds after one probe build
     S thr <t> <n> [msg]        <TAB> start=<probe>;l1|...|lt        t threads, n builds each (lists delta-encoded)
     S burn <target>            <TAB> start=<probe>;count=<c>        builds until serial <target> is handed out
     S clone                    <TAB> a,b                            two messages from a builder and its clone *)
From ZV Require Import Base.Bytes Base.Res C15.Model C15.Spec.
Open Scope N_scope.

(* Base.Bytes.split_on reverses each piece with List.rev (quadratic in the piece); observations are long *)
Fixpoint split_fast_aux (sep : byte) (l cur : bytes) : list bytes :=
  match l with
  | [] => [rev_append cur []]
  | c :: r => if beq c sep then rev_append cur [] :: split_fast_aux sep r [] else split_fast_aux sep r (c :: cur)
  end.
Definition split_fast (sep : byte) (l : bytes) : list bytes := split_fast_aux sep l [].

Fixpoint parse_all {A B} (f : A -> option B) (l : list A) : option (list B) :=
  match l with
  | [] => Some []
  | x :: r => match f x, parse_all f r with Some y, Some ys => Some (y :: ys) | _, _ => None end
  end.

Definition parse_list (s : bytes) : option (list N) :=
  match s with [] => Some [] | _ => parse_all N_of_dec (split_fast ","%byte s) end.

Definition strip_prefix (p l : bytes) : option bytes :=
  if starts_with p l then Some (skipn (length p) l) else None.

(* "start=<p>;<rest>" *)
Definition parse_start (obs : bytes) : option (N * bytes) :=
  match split_fast ";"%byte obs with
  | [a; b] => match strip_prefix (B "start=") a with
              | Some d => match N_of_dec d with Some p => Some (p, b) | None => None end
              | None => None
              end
  | _ => None
  end.

Fixpoint list_eqb (a b : list N) : bool :=
  match a, b with
  | [], [] => true
  | x :: a', y :: b' => (x =? y) && list_eqb a' b'
  | _, _ => false
  end.

(* Is a multi-thread observation a final state of the model?  After [total] builds from counter value c0 the model
   has executed nf = total (+1 if the value 0 was drawn) fetches; the invariant of Proofs.v says every serial in use
   is non-zero, was handed out by one of these nf fetches (its distance from c0 is < nf), no two are equal, and a
   thread that builds one message after the other sees increasing distances. *)
Definition off32 (c0 v : N) : N := (v + M32 - c0) mod M32.

Fixpoint increasing_from (c0 : N) (lo : option N) (l : list N) : bool :=
  match l with
  | [] => true
  | v :: r => let d := off32 c0 v in
              match lo with Some p => p <? d | None => true end && increasing_from c0 (Some d) r
  end.

Definition model_threads (c0 total : N) (ls : list (list N)) : bool :=
  let nf := if off32 c0 0 <? total then total + 1 else total in
  let all := concat ls in
  forallb (fun l => increasing_from c0 None l && forallb (fun v => negb (v =? 0) && (v <? M32) && (off32 c0 v <? nf)) l) ls
  && nodupb all && (N.of_nat (length all) =? total).

(* thread lists come delta-encoded: first serial, then differences modulo 2^32 *)
Fixpoint undelta (prev : N) (l : list N) : list N :=
  match l with
  | [] => []
  | d :: r => let v := (prev + d) mod M32 in v :: undelta v r
  end.

Definition counter_after (probe : N) : N := (probe + 1) mod M32.

(* number of builds, starting with the counter at c0, until serial [target] (1 <= target < 2^32) is handed out *)
Definition builds_until (c0 target : N) : N :=
  let first := if c0 =? 0 then 1 else c0 in
  if first <=? target then target - first + 1 else (M32 - first) + target.

Definition tokOK : bytes := B "OK".
Definition verdict (b : bool) (why : string) : bytes := if b then tokOK else B why.

Definition run_case (line : bytes) : outp :=
  match split_fast tab line with
  | [case; obs] =>
      if lbeq obs (B "PANIC") then
        (* a build that panics (NonZeroU32 unwrap) is not a run of the model within 2^32 fetches, and hands out no serial *)
        {| o_model := B "panic-is-not-a-run-of-the-model"; o_spec := B "a-build-panicked"; o_class := dash |}
      else
      match words case with
      | [s; mode; n] =>
          if negb (lbeq s (B "S")) then bad_case else
          if lbeq mode (B "seq") || lbeq mode (B "hdr") then
            match N_of_dec n, parse_start obs with
            | Some nn, Some (p, rest) =>
                match parse_list rest with
                | Some l =>
                    {| o_model := verdict (list_eqb l (next_serials M32 (counter_after p) (N.to_nat nn))) "not-the-sequential-run";
                       o_spec := verdict (unique_nonzerob (p :: l) && (N.of_nat (length l) =? nn)) "zero-or-repeated";
                       o_class := dash |}
                | None => bad_case
                end
            | _, _ => bad_case
            end
          else if lbeq mode (B "burn") then
            match N_of_dec n, parse_start obs with
            | Some target, Some (p, rest) =>
                match strip_prefix (B "count=") rest with
                | Some d => match N_of_dec d with
                            | Some c => {| o_model := verdict (c =? builds_until (counter_after p) target) "wrong-count";
                                           o_spec := dash; o_class := dash |}
                            | None => {| o_model := B "wrong-count"; o_spec := dash; o_class := dash |}   (* count=never *)
                            end
                | None => bad_case
                end
            | _, _ => bad_case
            end
          else bad_case
      | s :: mode :: t :: n :: _ =>
          if negb (lbeq s (B "S") && lbeq mode (B "thr")) then bad_case else
          match N_of_dec t, N_of_dec n, parse_start obs with
          | Some tcount, Some nn, Some (p, rest) =>
              match parse_all parse_list (split_fast "|"%byte rest) with
              | Some dls =>
                  let ls := map (undelta 0) dls in
                  let all := concat ls in
                  {| o_model := verdict (model_threads (counter_after p) (tcount * nn) ls
                                         && (N.of_nat (length ls) =? tcount)) "not-a-run-of-the-model";
                     o_spec := verdict (unique_nonzerob (p :: all) && (N.of_nat (length all) =? tcount * nn)) "zero-or-repeated";
                     o_class := dash |}
              | None => bad_case
              end
          | _, _, _ => bad_case
          end
      | [s; mode] =>
          if negb (lbeq s (B "S") && lbeq mode (B "clone")) then bad_case else
          match parse_list obs with
          | Some [a; b] =>
              {| o_model := verdict (a =? b) "clone-did-not-copy-the-serial";
                 o_spec := verdict (unique_nonzerob [a; b]) "zero-or-repeated";
                 o_class := B "builder_clone" |}
          | _ => bad_case
          end
      | _ => bad_case
      end
  | _ => bad_case
  end.

Definition run (line : bytes) : bytes := render (run_case line).
