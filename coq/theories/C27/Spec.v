(* C27/Spec.v — what the introspection data must say, written from the DECLARATIONS (not from what the
   macro prints): the document of an object lists exactly the object's interfaces (the registered ones and
   the three standard ones) and its child nodes; each method lists its declared input arguments (name, type,
   direction in) and one output argument per declared output type; each signal its arguments; each property
   its declared type, access and EmitsChangedSignal annotation (absent = true).  The document type is
   zbus_xml's own (C34/Model.v), with signatures as text.  The XML must be well-formed: in particular no
   comment may contain "--" (C27/Model.v xi_wf). *)
From ZV Require Import Base.Bytes C26.Desc C26.Tree C26.Msg C27.Model.
From ZV Require C34.Model.

Notation xnode := (C34.Model.node bytes).

Definition d_arg_in (a : bytes * ty) : C34.Model.arg bytes := C34.Model.mkArg bytes (Some (fst a)) (sigstr (snd a)) (Some C34.Model.DIn) [].
Definition d_arg_out (t : ty) : C34.Model.arg bytes := C34.Model.mkArg bytes None (sigstr t) (Some C34.Model.DOut) [].
Definition d_arg_sig (a : bytes * ty) : C34.Model.arg bytes := C34.Model.mkArg bytes (Some (fst a)) (sigstr (snd a)) None [].

Definition d_method (m : mdesc) : C34.Model.method bytes :=
  C34.Model.mkMethod bytes (md_name m) (map d_arg_in (md_ins m) ++ map d_arg_out (out_types (md_out m))) [].
Definition d_signal (s : sdesc) : C34.Model.signal bytes := C34.Model.mkSignal bytes (sd_name s) (map d_arg_sig (sd_args s)) [].

Definition d_access (a : access) : C34.Model.access :=
  match a with AR => C34.Model.ARead | AW => C34.Model.AWrite | ARW => C34.Model.AReadWrite end.
Definition d_prop (p : pdesc) : C34.Model.property bytes :=
  C34.Model.mkProp bytes (pd_name p) (sigstr (pd_ty p)) (d_access (pd_acc p))
    (match eff_emits p with ETrue => [] | e => [C34.Model.mkAnn annot_name (emits_word e)] end).

(* properties in the byte order of their names (any order would do: comparisons sort) *)
Definition d_iface (d : idesc) : C34.Model.iface bytes :=
  C34.Model.mkIface bytes (id_name d) (map d_method (id_methods d)) (map d_prop (sorted_props d)) (map d_signal (id_signals d)) [].

Fixpoint d_node (name : option bytes) (n : node) : xnode :=
  match n with
  | Node ifs kids =>
      C34.Model.Node bytes name (map d_iface (std_ifaces ++ map in_desc ifs))
        ((fix go (l : list (bytes * node)) : list xnode :=
            match l with [] => [] | (k, c) :: r => d_node (Some k) c :: go r end) kids)
  end.

(* what Introspect at an existing path must describe *)
Definition spec_doc (root : node) (path : bytes) : option xnode :=
  match get_child root (segs_of path) with Some n => Some (d_node None n) | None => None end.
