(* C27/Examples.v — concrete instances (non-vacuity) and the refutation witnesses. *)
From ZV Require Import Base.Bytes Base.Res Base.WinnowFacts C26.Desc C26.Tree C26.Msg C26.Std C27.Model C28.Model C26.Model.
From ZV Require Import C28.Spec C26.Spec C27.Spec C26.Facts C26.Proofs C28.Proofs C27.Dedash C27.Proofs C27.Reader C27.ReadBack C26.Examples C28.Examples.

(* a description with doc comments: plain, multi-line with blank lines around, and one containing "--" and "-->" *)
Definition doc_d (bad : bool) : idesc :=
  {| id_name := B "org.zv.Doc";
     id_methods := [{| md_name := B "MAdd"; md_ins := [(B "a0", TU); (B "a1", TS)]; md_out := OTuple [TS; TU]; md_mut := false;
                       md_fall := false; md_async := false; md_doc := [[]; B " adds"; B " two" ++ [nl] ++ B " lines"; B "  "] |}];
     id_signals := [{| sd_name := B "SDone"; sd_args := [(B "a0", TR)]; sd_doc := [B " x <b> & ""q"""] |}];
     id_props := [mkp (B "PZ") TU ARW ETrue false false;
                  {| pd_name := B "PA"; pd_ty := TS; pd_acc := AR; pd_emits := EConst; pd_gfall := false; pd_sfall := false;
                     pd_smut := false; pd_gasync := false; pd_sasync := false;
                     pd_doc := if bad then [B " a -- b --> c ---"] else [B " a - b"] |}] |}.

Definition doc_root (bad : bool) : node :=
  fst (add_at (fst (add_at empty_node [B "zv"; B "a"] (new_inst (doc_d bad) (B "/zv/a")))) [B "zv"; B "a"; B "b"]
              (new_inst ex_d (B "/zv/a/b"))).

(* the exact text of the interface at indentation 2: comments, blank-line trimming, properties sorted by name *)
Example doc_text :
  iface_text 2 (doc_d false) =
  B "  <interface name=""org.zv.Doc"">" ++ [nl] ++
  B "    <!--" ++ [nl] ++ B "     adds" ++ [nl] ++ B "     two" ++ [nl] ++ B "     lines" ++ [nl] ++ B "     -->" ++ [nl] ++
  B "    <method name=""MAdd"">" ++ [nl] ++
  B "      <arg name=""a0"" type=""u"" direction=""in""/>" ++ [nl] ++
  B "      <arg name=""a1"" type=""s"" direction=""in""/>" ++ [nl] ++
  B "      <arg type=""s"" direction=""out""/>" ++ [nl] ++
  B "      <arg type=""u"" direction=""out""/>" ++ [nl] ++
  B "    </method>" ++ [nl] ++
  B "    <!--" ++ [nl] ++ B "     x <b> & ""q""" ++ [nl] ++ B "     -->" ++ [nl] ++
  B "    <signal name=""SDone"">" ++ [nl] ++
  B "      <arg name=""a0"" type=""(us)""/>" ++ [nl] ++
  B "    </signal>" ++ [nl] ++
  B "    <!--" ++ [nl] ++ B "     a - b" ++ [nl] ++ B "     -->" ++ [nl] ++
  B "    <property name=""PA"" type=""s"" access=""read"">" ++ [nl] ++
  B "      <annotation name=""org.freedesktop.DBus.Property.EmitsChangedSignal"" value=""const""/>" ++ [nl] ++
  B "    </property>" ++ [nl] ++
  B "    <property name=""PZ"" type=""u"" access=""readwrite""/>" ++ [nl] ++
  B "  </interface>" ++ [nl].
Proof. vm_compute. reflexivity. Qed.

(* with "--", "-->" and "---" in a doc text: the comment that is written (fix e95e1976) *)
Example doc_text_dashes :
  print_item 4 (hd (XC []) (prop_items (nth 1 (id_props (doc_d true)) (mkp [] TU AR ETrue false false)))) =
  B "    <!--" ++ [nl] ++ B "     a - - b - -> c - - -" ++ [nl] ++ B "     -->" ++ [nl].
Proof. vm_compute. reflexivity. Qed.

Example doc_wellformed : xi_wf (node_item None (doc_root true)) = true.
Proof. apply wellformed. Qed.

Example doc_lists :
  match get_child (doc_root false) [B "zv"; B "a"] with
  | Some n =>
      map (attr_of (B "name")) (filter (tag_is (B "interface")) (kids_of (node_item None n))) =
        [Some peer_name; Some intro_name; Some props_name; Some (B "org.zv.Doc")] /\
      map (attr_of (B "name")) (filter (tag_is (B "node")) (kids_of (node_item None n))) = [Some (B "b")]
  | None => False
  end.
Proof. vm_compute. split; reflexivity. Qed.

(* the nested tree with doc comments reads back as the declared document (comments dropped) *)
Example doc_reads_back :
  names_ok (doc_root true) /\
  exists t, erase (node_item None (doc_root true)) = [t] /\ read_doc t = Ok (d_node None (doc_root true)).
Proof.
  assert (H : names_ok (doc_root true)) by (vm_compute; repeat (split || constructor)).
  split; [exact H|]. apply reads_back. exact H.
Qed.

(* declared types vs. accepted / sent types on a concrete method and signal *)
Example ex_types :
  let m := mk (B "MTwo") [(B "a0", TU); (B "a1", TS)] (OTuple [TS; TU]) false false in
  arg_types (Some (B "in")) (method_elem m) = [B "u"; B "s"] /\
  arg_types (Some (B "out")) (method_elem m) = [B "s"; B "u"] /\
  args_ok m [VU 1; VS (B "x")] = true /\ args_ok m [VS (B "x"); VU 1] = false /\ args_ok m [VU 1] = false /\
  map vsig (wire_out (md_out m) [VS (B "r"); VU 2]) = [B "s"; B "u"].
Proof. cbn zeta. repeat split; reflexivity. Qed.
