(* C27/Run.v — the line driver of C27: the shared driver (C26/Runner.v) restricted to cases of mode 27. *)
From ZV Require Import Base.Bytes C26.Runner.

Definition run (line : bytes) : bytes := run_mode (B "27") line.
