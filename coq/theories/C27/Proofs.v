(* C27/Proofs.v — introspection data is well-formed and matches wire behaviour: theorems over ALL interface
   descriptions and node trees. *)
From ZV Require Import Base.Bytes Base.WinnowFacts C26.Desc C26.Tree C26.Msg C27.Model C28.Model C26.Model.
From ZV Require Import C28.Spec C26.Spec C27.Spec C26.Facts C26.Proofs C28.Proofs C27.Dedash.
From Coq Require Import Lia.

(* ---------------------------------------------------------------- reading the item tree *)
Fixpoint xattr (k : bytes) (attrs : list (bytes * bytes)) : option bytes :=
  match attrs with
  | [] => None
  | (k0, v) :: r => if lbeq k0 k then Some v else xattr k r
  end.
Definition tag_is (t : bytes) (x : xi) : bool := match x with XE tg _ _ _ => lbeq tg t | XC _ => false end.
Definition kids_of (x : xi) : list xi := match x with XE _ _ k _ => k | XC _ => [] end.
Definition attr_of (k : bytes) (x : xi) : option bytes := match x with XE _ a _ _ => xattr k a | XC _ => None end.

Definition opt_beq (a b : option bytes) : bool :=
  match a, b with Some x, Some y => lbeq x y | None, None => true | _, _ => false end.

(* the `type` attributes of the <arg> children whose `direction` attribute is dir (None = absent) *)
Definition arg_types (dir : option bytes) (m : xi) : list bytes :=
  flat_map (fun a => if tag_is (B "arg") a && opt_beq (attr_of (B "direction") a) dir
                     then match attr_of (B "type") a with Some t => [t] | None => [] end else [])
           (kids_of m).

Definition method_elem (m : mdesc) : xi :=
  XE (B "method") [(B "name", md_name m)] (map arg_in (md_ins m) ++ out_args (md_out m)) false.
Definition signal_elem (s : sdesc) : xi :=
  XE (B "signal") [(B "name", sd_name s)] (map arg_sig (sd_args s)) false.

Lemma method_items_elem m : method_items m = to_xml_docs (md_doc m) ++ [method_elem m].
Proof. reflexivity. Qed.
Lemma signal_items_elem s : signal_items s = to_xml_docs (sd_doc s) ++ [signal_elem s].
Proof. reflexivity. Qed.

(* ================================================================ declared types in the XML *)
Lemma flat_map_map_one {A C D} (g : C -> list D) (f : A -> C) (h : A -> D) l :
  (forall a, g (f a) = [h a]) -> flat_map g (map f l) = map h l.
Proof. intro H. induction l as [|a l IH]; cbn [map flat_map]; [reflexivity|]. now rewrite H, IH. Qed.
Lemma flat_map_map_none {A C D} (g : C -> list D) (f : A -> C) l :
  (forall a, g (f a) = []) -> flat_map g (map f l) = [].
Proof. intro H. induction l as [|a l IH]; cbn [map flat_map]; [reflexivity|]. now rewrite H, IH. Qed.

Lemma arg_types_in m : arg_types (Some (B "in")) (method_elem m) = map (fun a => sigstr (snd a)) (md_ins m).
Proof.
  unfold arg_types, method_elem, kids_of, out_args. rewrite flat_map_app.
  rewrite (flat_map_map_one _ arg_in (fun a => sigstr (snd a))) by reflexivity.
  rewrite (flat_map_map_none _ arg_out) by reflexivity. apply app_nil_r.
Qed.

Lemma arg_types_out m : arg_types (Some (B "out")) (method_elem m) = map sigstr (out_types (md_out m)).
Proof.
  unfold arg_types, method_elem, kids_of, out_args. rewrite flat_map_app.
  rewrite (flat_map_map_none _ arg_in) by reflexivity.
  now rewrite (flat_map_map_one _ arg_out sigstr) by reflexivity.
Qed.

Lemma arg_types_signal s : arg_types None (signal_elem s) = map (fun a => sigstr (snd a)) (sd_args s).
Proof.
  unfold arg_types, signal_elem, kids_of. now rewrite (flat_map_map_one _ arg_sig (fun a => sigstr (snd a))) by reflexivity.
Qed.

(* ---- methods: the declared input types are the accepted ones (up to the two flattenings, C26) *)
Theorem in_types_accepted m wire :
  (map vsig wire = arg_types (Some (B "in")) (method_elem m) -> args_ok m wire = true) /\
  (in_tys m <> [] -> args_ok m wire = true ->
   map vsig wire = arg_types (Some (B "in")) (method_elem m) \/ flattened m wire).
Proof.
  rewrite arg_types_in. split.
  - intro H. apply types_match_args_ok. unfold types_match. apply lbeq_list_eq. exact H.
  - intros Hne Ha. destruct (args_ok_inv m wire Hne Ha) as [Tm|Fl]; [left|now right].
    unfold types_match in Tm. now apply lbeq_list_eq in Tm.
Qed.

(* ---- methods: what is sent back has the declared output types, for tuples and non-structure types *)
Theorem out_types_sent m outs :
  typed outs (out_types (md_out m)) ->
  (forall t, md_out m = OSingle t -> struct_fields t = None) ->
  map vsig (wire_out (md_out m) outs) = arg_types (Some (B "out")) (method_elem m).
Proof. intros Ht Hs. rewrite arg_types_out, (wire_out_id _ _ Ht Hs). apply typed_sigs. exact Ht. Qed.

(* the exempted case, for the record: a single structure is declared as one (us) argument and sent as two values *)
Lemma single_struct_differs m n s t :
  md_out m = OSingle t -> struct_fields t <> None ->
  map vsig (wire_out (md_out m) [VR n s]) = [B "u"; B "s"] /\ arg_types (Some (B "out")) (method_elem m) = [B "(us)"].
Proof.
  intros Ho Hs. rewrite arg_types_out, Ho. split; [reflexivity|]. destruct t; cbn in Hs; try congruence; reflexivity.
Qed.

(* ---- signals: the emitted body has the declared argument types *)
Theorem signal_types_sent path d s args m :
  find_signal d (sd_name s) = Some s -> typed args (map snd (sd_args s)) ->
  emit_signal path d (sd_name s) args = Some m ->
  map vsig (sg_body m) = arg_types None (signal_elem s).
Proof.
  intros Fs Ht. unfold emit_signal. rewrite Fs. intro H. inversion H; subst. cbn [sg_body].
  rewrite arg_types_signal, (typed_sigs _ _ Ht). now rewrite map_map.
Qed.

(* ---- properties: the declared type is the type of the value in a Get reply, and the only type Set accepts *)
Definition prop_elem (p : pdesc) : xi := last (prop_items p) (XC []).

Lemma prop_elem_type p : attr_of (B "type") (prop_elem p) = Some (sigstr (pd_ty p)).
Proof.
  unfold prop_elem, prop_items. rewrite last_last. destruct (eff_emits p); reflexivity.
Qed.

Theorem property_types_partial p :
  ty_eqb (pd_ty p) TV = false ->
  (forall v, has_ty v (pd_ty p) = true -> Some (vsig (content v)) = attr_of (B "type") (prop_elem p)) /\
  (forall sent, (exists v, convert (pd_ty p) sent = Some v) <-> Some (vsig sent) = attr_of (B "type") (prop_elem p)).
Proof.
  intro Ht. rewrite prop_elem_type. split.
  - intros v Hv. rewrite (content_id _ _ Hv Ht). f_equal. now apply has_ty_sig.
  - intro sent. rewrite (convert_typed _ _ Ht). split.
    + intros [v H]. destruct (has_ty sent (pd_ty p)) eqn:E; [|discriminate]. f_equal. now apply has_ty_sig.
    + intro H. inversion H as [H1]. assert (has_ty sent (pd_ty p) = true) as -> by (unfold has_ty; rewrite H1; apply lbeq_refl).
      eauto.
Qed.

(* the class: a property of Rust type OwnedValue is declared `v`; the Get reply carries the inner value's type and
   Set accepts every type *)
Lemma variant_property_refuted :
  exists p v, pd_ty p = TV /\ has_ty v (pd_ty p) = true /\
              Some (vsig (content v)) <> attr_of (B "type") (prop_elem p) /\
              (exists w, convert (pd_ty p) (VU 5) = Some w) /\ Some (vsig (VU 5)) <> attr_of (B "type") (prop_elem p).
Proof.
  exists {| pd_name := B "P"; pd_ty := TV; pd_acc := ARW; pd_emits := ETrue; pd_gfall := false; pd_sfall := false;
            pd_smut := true; pd_gasync := false; pd_sasync := false; pd_doc := [] |}, (VV (VU 1)).
  repeat split; try reflexivity; try discriminate. eexists. reflexivity.
Qed.

(* ================================================================ exactly the interfaces and the children *)
Lemma filter_map_tag {A} (f : A -> xi) t (l : list A) :
  (forall a, tag_is t (f a) = true) -> filter (tag_is t) (map f l) = map f l.
Proof. intro H. induction l as [|a l IH]; cbn; [reflexivity|]. now rewrite H, IH. Qed.
Lemma filter_map_notag {A} (f : A -> xi) t (l : list A) :
  (forall a, tag_is t (f a) = false) -> filter (tag_is t) (map f l) = [].
Proof. intro H. induction l as [|a l IH]; cbn; [reflexivity|]. now rewrite H, IH. Qed.

Definition kid_items (kids : list (bytes * node)) : list xi :=
  (fix go (l : list (bytes * node)) : list xi :=
     match l with [] => [] | (k, c) :: r => node_item (Some k) c :: go r end) kids.

Lemma node_item_unfold name ifs kids :
  node_item name (Node ifs kids) =
  XE (B "node") (match name with Some s => [(B "name", s)] | None => [] end)
     (map iface_item (std_ifaces ++ map in_desc ifs) ++ kid_items kids) false.
Proof. reflexivity. Qed.

Lemma kid_items_tags kids :
  filter (tag_is (B "node")) (kid_items kids) = kid_items kids /\ filter (tag_is (B "interface")) (kid_items kids) = [] /\
  map (attr_of (B "name")) (kid_items kids) = map (fun e => Some (fst e)) kids.
Proof.
  induction kids as [|[k c] r (IH1 & IH2 & IH3)]; [repeat split; reflexivity|].
  cbn [kid_items]. fold (kid_items r). destruct c as [ifs kids']. rewrite node_item_unfold.
  cbn [filter tag_is map attr_of xattr fst]. rewrite IH1, IH2, IH3. repeat split; reflexivity.
Qed.

(* the XML of a node lists exactly the three standard interfaces and the registered ones, and exactly the children *)
Theorem lists_exactly name n :
  let item := node_item name n in
  map (attr_of (B "name")) (filter (tag_is (B "interface")) (kids_of item)) =
    map (fun d => Some (id_name d)) (std_ifaces ++ map in_desc (node_ifs n)) /\
  map (attr_of (B "name")) (filter (tag_is (B "node")) (kids_of item)) = map (fun e => Some (fst e)) (node_kids n) /\
  attr_of (B "name") item = name.
Proof.
  destruct n as [ifs kids]. cbn zeta. rewrite node_item_unfold. cbn [kids_of node_ifs node_kids].
  destruct (kid_items_tags kids) as (K1 & K2 & K3). rewrite !filter_app, K1, K2, app_nil_r.
  rewrite (filter_map_tag iface_item (B "interface")) by reflexivity.
  rewrite (filter_map_notag iface_item (B "node")) by reflexivity. cbn [app].
  repeat split.
  - rewrite map_map. reflexivity.
  - exact K3.
  - destruct name; reflexivity.
Qed.

(* ================================================================ well-formedness *)
Lemma xi_wf_elem t a kids sc : xi_wf (XE t a kids sc) = forallb xi_wf kids.
Proof. cbn [xi_wf]. induction kids as [|k r IH]; cbn; [reflexivity|]. now rewrite IH. Qed.

Lemma forallb_app' {A} (f : A -> bool) l1 l2 : forallb f (l1 ++ l2) = forallb f l1 && forallb f l2.
Proof. apply forallb_app. Qed.

Lemma forallb_flat_map {A} (f : A -> list xi) l :
  forallb xi_wf (flat_map f l) = forallb (fun a => forallb xi_wf (f a)) l.
Proof. induction l as [|a l IH]; cbn; [reflexivity|]. now rewrite forallb_app, IH. Qed.

(* every comment line went through the "--" rewriting (fix e95e1976), which leaves no "--" *)
Lemma docs_wf doc : forallb xi_wf (to_xml_docs doc) = true.
Proof.
  unfold to_xml_docs. destruct (xml_doc_lines doc) as [|l ls]; [reflexivity|]. cbn [forallb xi_wf]. rewrite andb_true_r.
  apply negb_true_iff. destruct (existsb has_dd (map dedash (l :: ls))) eqn:E; [|reflexivity].
  apply existsb_exists in E as (x & Hx & Hd). apply in_map_iff in Hx as (y & <- & _). now rewrite dedash_clean in Hd.
Qed.

Lemma args_wf (l : list xi) : (forall x, In x l -> exists t a, x = XE t a [] true) -> forallb xi_wf l = true.
Proof.
  intro H. apply forallb_forall. intros x Hx. destruct (H x Hx) as (t & a & ->). reflexivity.
Qed.

Lemma method_items_wf m : forallb xi_wf (method_items m) = true.
Proof.
  unfold method_items. rewrite forallb_app, docs_wf. cbn [forallb andb]. rewrite xi_wf_elem.
  rewrite (args_wf (map arg_in (md_ins m) ++ out_args (md_out m))); [reflexivity|].
  intros x Hx. apply in_app_or in Hx as [Hx|Hx]; apply in_map_iff in Hx as (y & <- & _); do 2 eexists; reflexivity.
Qed.

Lemma signal_items_wf s : forallb xi_wf (signal_items s) = true.
Proof.
  unfold signal_items. rewrite forallb_app, docs_wf. cbn [forallb andb]. rewrite xi_wf_elem.
  rewrite (args_wf (map arg_sig (sd_args s))); [reflexivity|].
  intros x Hx. apply in_map_iff in Hx as (y & <- & _). do 2 eexists; reflexivity.
Qed.

Lemma prop_items_wf p : forallb xi_wf (prop_items p) = true.
Proof. unfold prop_items. rewrite forallb_app, docs_wf. destruct (eff_emits p); reflexivity. Qed.

(* sorting only permutes *)
Lemma insert_sorted_in {A} (e : bytes * A) l x : In x (insert_sorted e l) <-> x = e \/ In x l.
Proof.
  induction l as [|y l IH]; cbn; [intuition|]. destruct (bytes_leb (fst e) (fst y)); cbn; [intuition|].
  rewrite IH. intuition.
Qed.
Lemma sort_by_key_in {A} (l : list (bytes * A)) x : In x (sort_by_key l) <-> In x l.
Proof.
  unfold sort_by_key. induction l as [|y l IH]; cbn; [tauto|]. rewrite insert_sorted_in, IH. intuition.
Qed.
Lemma sorted_props_in d p : In p (sorted_props d) <-> In p (id_props d).
Proof.
  unfold sorted_props. rewrite in_map_iff. split.
  - intros ((k & q) & <- & H). apply (proj1 (sort_by_key_in _ _)) in H. apply in_map_iff in H as (q' & E & Hq). inversion E; subst. exact Hq.
  - intro H. exists (pd_name p, p). split; [reflexivity|]. apply sort_by_key_in. apply in_map_iff. eauto.
Qed.

Lemma forallb_const_true {A} (f : A -> bool) l : (forall a, f a = true) -> forallb f l = true.
Proof. intro H. apply forallb_forall. auto. Qed.

Lemma iface_item_wf d : xi_wf (iface_item d) = true.
Proof.
  unfold iface_item. rewrite xi_wf_elem, !forallb_app, !forallb_flat_map.
  rewrite (forallb_const_true _ _ method_items_wf), (forallb_const_true _ _ signal_items_wf),
          (forallb_const_true _ _ prop_items_wf). reflexivity.
Qed.

(* full strength since fix e95e1976: whatever the doc texts, every comment written is a well-formed XML comment *)
Theorem wellformed : forall n name, xi_wf (node_item name n) = true.
Proof.
  fix IH 1. intros [ifs kids] name. rewrite node_item_unfold, xi_wf_elem, forallb_app.
  apply andb_true_iff. split.
  - apply forallb_forall. intros x Hx. apply in_map_iff in Hx as (d & <- & _). apply iface_item_wf.
  - induction kids as [|[k c] r IHk]; [reflexivity|]. cbn [kid_items forallb].
    fold (kid_items r). rewrite (IH c (Some k)). exact IHk.
Qed.
