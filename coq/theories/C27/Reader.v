(* C27/Reader.v — reading the written items back with the library's own XML model (zbus_xml as modelled in
   C34/Model.v, signatures through the C06 model, names through the C10 validators).  quick-xml's tokenizer is
   below the infoset boundary: it delivers the elements and drops the comments.  Executable definitions only. *)
From ZV Require Import Base.Bytes Base.Res C26.Desc C27.Model.
From ZV Require C10.Model C06.Model C34.Model.

(* zvariant::Signature::try_from(text), kept as its Display text *)
Definition sig_parse (b : bytes) : option bytes :=
  match C06.Model.from_str false b with Ok t => Some (C06.Model.show t) | _ => None end.

Definition read_doc : C34.Model.xml -> res C34.Model.xerr (C34.Model.node bytes) :=
  C34.Model.of_node bytes sig_parse C10.Model.validate_member C10.Model.validate_interface C10.Model.validate_property
                    (fun v => Ok v).

(* the infoset the tokenizer delivers for the written items: comments vanish *)
Fixpoint erase (x : xi) : list C34.Model.xml :=
  match x with
  | XC _ => []
  | XE tag attrs kids _ =>
      [C34.Model.Elem tag attrs
         ((fix go (l : list xi) : list C34.Model.xml := match l with [] => [] | k :: r => erase k ++ go r end) kids)]
  end.
