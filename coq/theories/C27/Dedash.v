(* C27/Dedash.v — the doc-line rewriting of fix e95e1976 leaves no "--": for EVERY byte string, two passes
   of `replace("--", "- -")` suffice, so the `while line.contains("--")` loop ends after at most two
   passes and its result contains no "--". *)
From ZV Require Import Base.Bytes Base.WinnowFacts C27.Model.
From Coq Require Import Lia.

Definition hdd (s : bytes) : bool := match s with a :: _ => isd a | [] => false end.          (* starts with '-' *)
Definition starts_dd (s : bytes) : bool := match s with a :: b :: _ => isd a && isd b | _ => false end.

(* no three consecutive dashes *)
Fixpoint no3 (s : bytes) : bool :=
  match s with
  | a :: r => negb (isd a && starts_dd r) && no3 r
  | [] => true
  end.

Lemma has_dd_cons a s : has_dd (a :: s) = (isd a && hdd s) || has_dd s.
Proof. destruct s; cbn; [now rewrite andb_false_r|reflexivity]. Qed.

Lemma isd_dash : isd "-"%byte = true. Proof. reflexivity. Qed.
Lemma isd_sp : isd " "%byte = false. Proof. reflexivity. Qed.

Lemma rep1_pair a b r : isd a && isd b = true -> rep1 (a :: b :: r) = B "- -" ++ rep1 r.
Proof. intro H. cbn [rep1]. now rewrite H. Qed.
Lemma rep1_keep a b r : isd a && isd b = false -> rep1 (a :: b :: r) = a :: rep1 (b :: r).
Proof. intro H. cbn [rep1]. now rewrite H. Qed.

(* one pass keeps the first character's dash-ness and never starts with "--" *)
Lemma rep1_hdd s : hdd (rep1 s) = hdd s.
Proof.
  destruct s as [|a [|b r]]; try reflexivity. destruct (isd a && isd b) eqn:E.
  - rewrite (rep1_pair _ _ _ E). apply andb_true_iff in E as [Ea _]. cbn. now rewrite Ea.
  - rewrite (rep1_keep _ _ _ E). reflexivity.
Qed.

Lemma rep1_starts s : starts_dd (rep1 s) = false.
Proof.
  destruct s as [|a [|b r]]; try reflexivity. destruct (isd a && isd b) eqn:E.
  - rewrite (rep1_pair _ _ _ E). reflexivity.
  - rewrite (rep1_keep _ _ _ E). cbn [starts_dd].
    assert (H := rep1_hdd (b :: r)). destruct (rep1 (b :: r)) as [|c t]; [reflexivity|].
    cbn in H. rewrite H. exact E.
Qed.

(* after one pass there are no three consecutive dashes *)
Lemma rep1_no3_len n : forall s, length s <= n -> no3 (rep1 s) = true.
Proof.
  induction n as [|n IH]; intros s Hl.
  - destruct s; [reflexivity|cbn in Hl; lia].
  - destruct s as [|a [|b r]]; try reflexivity.
    + cbn. now rewrite andb_false_r.
    + cbn in Hl. destruct (isd a && isd b) eqn:E.
      * rewrite (rep1_pair _ _ _ E).
        change (B "- -" ++ rep1 r) with ("-"%byte :: " "%byte :: "-"%byte :: rep1 r).
        cbn [no3 starts_dd]. rewrite !isd_dash, !isd_sp. cbn [andb negb].
        rewrite (rep1_starts r), (IH r) by lia. reflexivity.
      * rewrite (rep1_keep _ _ _ E). cbn [no3]. rewrite (rep1_starts (b :: r)), andb_false_r. cbn [negb andb].
        apply IH. cbn. lia.
Qed.
Lemma rep1_no3 s : no3 (rep1 s) = true.
Proof. apply (rep1_no3_len (length s)). lia. Qed.

(* on a string without three consecutive dashes one pass removes every "--" *)
Lemma no3_tail a s : no3 (a :: s) = true -> no3 s = true.
Proof. cbn. intro H. apply andb_true_iff in H. tauto. Qed.

Lemma rep1_clean_len n : forall t, length t <= n -> no3 t = true -> has_dd (rep1 t) = false.
Proof.
  induction n as [|n IH]; intros t Hl H3.
  - destruct t; [reflexivity|cbn in Hl; lia].
  - destruct t as [|a [|b r]]; try reflexivity. cbn in Hl. destruct (isd a && isd b) eqn:E.
    + rewrite (rep1_pair _ _ _ E).
      change (B "- -" ++ rep1 r) with ("-"%byte :: " "%byte :: "-"%byte :: rep1 r).
      rewrite !has_dd_cons. cbn [hdd]. rewrite isd_sp, isd_dash. cbn [andb orb].
      rewrite rep1_hdd.
      (* r does not start with a dash: that would be three in a row *)
      assert (Hr : hdd r = false).
      { cbn [no3 starts_dd] in H3. apply andb_true_iff in H3 as [H3 _]. apply andb_true_iff in E as [Ea Eb].
        rewrite Ea, Eb in H3. cbn in H3. destruct r as [|c r']; [reflexivity|]. cbn. cbn in H3.
        now destruct (isd c). }
      rewrite Hr. cbn [orb]. apply IH; [lia|]. apply no3_tail in H3. now apply no3_tail in H3.
    + rewrite (rep1_keep _ _ _ E). rewrite has_dd_cons, rep1_hdd. cbn [hdd]. rewrite E. cbn [orb].
      apply IH; [cbn; lia|]. now apply no3_tail in H3.
Qed.

Theorem rep1_twice_clean s : has_dd (rep1 (rep1 s)) = false.
Proof. apply (rep1_clean_len (length (rep1 s))); [lia|apply rep1_no3]. Qed.

(* a string without "--" is left alone, whatever the fuel *)
Lemma dedash_fuel_clean n s : has_dd s = false -> dedash_fuel n s = s.
Proof. destruct n; cbn; [reflexivity|]. now intros ->. Qed.

(* two passes are enough: with fuel >= 2 the loop has ended by itself, and its result has no "--" *)
Theorem dedash_fuel_enough n s : has_dd (dedash_fuel (S (S n)) s) = false.
Proof.
  cbn [dedash_fuel]. destruct (has_dd s) eqn:E1; [|exact E1].
  destruct (has_dd (rep1 s)) eqn:E2; [|exact E2].
  rewrite (dedash_fuel_clean n _ (rep1_twice_clean s)). apply rep1_twice_clean.
Qed.

Theorem dedash_clean s : has_dd (dedash s) = false.
Proof. apply dedash_fuel_enough. Qed.

(* the loop is exactly "at most two passes" — more fuel changes nothing *)
Theorem dedash_fuel_stable n m s : dedash_fuel (S (S n)) s = dedash_fuel (S (S m)) s.
Proof.
  cbn [dedash_fuel]. destruct (has_dd s); [|reflexivity]. destruct (has_dd (rep1 s)); [|reflexivity].
  now rewrite !(dedash_fuel_clean _ _ (rep1_twice_clean s)).
Qed.

Example dedash_samples :
  dedash (B " a -- b") = B " a - - b" /\ dedash (B "---") = B "- - -" /\ dedash (B "----") = B "- - - -" /\
  dedash (B " ends --> here") = B " ends - -> here" /\ dedash (B " dash-") = B " dash-" /\ dedash (B "-") = B "-" /\
  dedash (B "-----x--") = B "- - - - -x- -" /\ dedash [] = [].
Proof. repeat split; reflexivity. Qed.
