(* C27/ReadBack.v — the introspection XML is read back by the library's own XML model: for every node tree
   whose registered interfaces have valid names (what the macro and the Rust compiler guarantee), zbus_xml's
   reader (C34/Model.v), applied to the infoset of what the generated code and Node::introspect_to_writer
   write, returns exactly the declared document (C27/Spec.v d_node).  Uses C34's per-element reader lemmas. *)
From ZV Require Import Base.Bytes Base.Res Base.WinnowFacts C26.Desc C26.Tree C26.Msg C27.Model C27.Reader.
From ZV Require Import C27.Spec C26.Facts C27.Proofs.
From ZV Require C10.Model C06.Model C34.Model C34.Spec C34.Proofs.

Module X := C34.Model.
Module XS := C34.Spec.
Module XP := C34.Proofs.

Notation vm := C10.Model.validate_member.
Notation vi := C10.Model.validate_interface.
Notation vp := C10.Model.validate_property.
Definition idf (b : bytes) : bytes := b.
Definition okf (b : bytes) : res X.xerr bytes := Ok b.
Lemma dec_enc : forall s, okf (idf s) = Ok s.
Proof. reflexivity. Qed.

(* every signature of the menu re-reads from its own text *)
Lemma sig_ok_menu t : sig_parse (sigstr t) = Some (sigstr t).
Proof. destruct t; vm_compute; reflexivity. Qed.

Definition names_ok_desc (d : idesc) : Prop :=
  vi (id_name d) = true /\
  Forall (fun m => vm (md_name m) = true) (id_methods d) /\
  Forall (fun s => vm (sd_name s) = true) (id_signals d) /\
  Forall (fun p => vp (pd_name p) = true) (id_props d).

Fixpoint names_ok (n : node) : Prop :=
  match n with
  | Node ifs kids =>
      Forall (fun i => names_ok_desc (in_desc i)) ifs /\
      (fix all (l : list (bytes * node)) : Prop := match l with [] => True | (_, c) :: r => names_ok c /\ all r end) kids
  end.

(* ---------------------------------------------------------------- erasure *)
Lemma erase_elem t a kids sc : erase (XE t a kids sc) = [X.Elem t a (flat_map erase kids)].
Proof.
  cbn [erase].
  assert (H : (fix go (l : list xi) : list X.xml := match l with [] => [] | k :: r => erase k ++ go r end) kids = flat_map erase kids)
    by (induction kids as [|k r IH]; cbn; [reflexivity|]; now rewrite IH).
  now rewrite H.
Qed.

Definition e_arg_in (a : bytes * ty) : X.xml :=
  X.Elem (B "arg") [(B "name", fst a); (B "type", sigstr (snd a)); (B "direction", B "in")] [].
Definition e_arg_out (t : ty) : X.xml := X.Elem (B "arg") [(B "type", sigstr t); (B "direction", B "out")] [].
Definition e_arg_sig (a : bytes * ty) : X.xml := X.Elem (B "arg") [(B "name", fst a); (B "type", sigstr (snd a))] [].
Definition e_method (m : mdesc) : X.xml :=
  X.Elem (B "method") [(B "name", md_name m)] (map e_arg_in (md_ins m) ++ map e_arg_out (out_types (md_out m))).
Definition e_signal (s : sdesc) : X.xml := X.Elem (B "signal") [(B "name", sd_name s)] (map e_arg_sig (sd_args s)).
Definition e_prop (p : pdesc) : X.xml :=
  X.Elem (B "property") [(B "name", pd_name p); (B "type", sigstr (pd_ty p)); (B "access", access_word (pd_acc p))]
         (match eff_emits p with
          | ETrue => []
          | e => [X.Elem (B "annotation") [(B "name", annot_name); (B "value", emits_word e)] []]
          end).
Definition e_iface (d : idesc) : X.xml :=
  X.Elem (B "interface") [(B "name", id_name d)]
         (map e_method (id_methods d) ++ map e_signal (id_signals d) ++ map e_prop (sorted_props d)).

Lemma erase_docs doc : flat_map erase (to_xml_docs doc) = [].
Proof. unfold to_xml_docs. destruct (xml_doc_lines doc); reflexivity. Qed.

Lemma erase_method_items m : flat_map erase (method_items m) = [e_method m].
Proof.
  unfold method_items. rewrite flat_map_app, erase_docs. cbn [flat_map app]. rewrite erase_elem, app_nil_r.
  unfold e_method. f_equal. f_equal. rewrite flat_map_app. unfold out_args.
  rewrite (flat_map_map_one erase arg_in e_arg_in) by reflexivity.
  now rewrite (flat_map_map_one erase arg_out e_arg_out) by reflexivity.
Qed.
Lemma erase_signal_items s : flat_map erase (signal_items s) = [e_signal s].
Proof.
  unfold signal_items. rewrite flat_map_app, erase_docs. cbn [flat_map app]. rewrite erase_elem, app_nil_r.
  unfold e_signal. f_equal. f_equal. now rewrite (flat_map_map_one erase arg_sig e_arg_sig) by reflexivity.
Qed.
Lemma erase_prop_items p : flat_map erase (prop_items p) = [e_prop p].
Proof.
  unfold prop_items. rewrite flat_map_app, erase_docs. cbn [flat_map app]. unfold e_prop.
  destruct (eff_emits p); reflexivity.
Qed.

Lemma flat_map_flat_map_one {A} (f : A -> list xi) (g : A -> X.xml) l :
  (forall a, flat_map erase (f a) = [g a]) -> flat_map erase (flat_map f l) = map g l.
Proof. intro H. induction l as [|a l IH]; cbn; [reflexivity|]. now rewrite flat_map_app, H, IH. Qed.

Lemma erase_iface d : erase (iface_item d) = [e_iface d].
Proof.
  unfold iface_item. rewrite erase_elem. unfold e_iface. f_equal. f_equal. rewrite !flat_map_app.
  rewrite (flat_map_flat_map_one method_items e_method _ erase_method_items).
  rewrite (flat_map_flat_map_one signal_items e_signal _ erase_signal_items).
  now rewrite (flat_map_flat_map_one prop_items e_prop _ erase_prop_items).
Qed.

(* ---------------------------------------------------------------- each member reads back *)
Notation of_method' := (X.of_method bytes sig_parse vm okf).
Notation of_signal' := (X.of_signal bytes sig_parse vm okf).
Notation of_prop' := (X.of_prop bytes sig_parse vp okf).
Notation of_iface' := (X.of_iface bytes sig_parse vm vi vp okf).
Notation of_node' := (X.of_node bytes sig_parse vm vi vp okf).

Lemma RArg_in a : XS.RArg bytes idf (e_arg_in a) (d_arg_in a).
Proof. exact (XS.RArg_i bytes idf (d_arg_in a) [] (Forall2_nil _)). Qed.
Lemma RArg_out t : XS.RArg bytes idf (e_arg_out t) (d_arg_out t).
Proof. exact (XS.RArg_i bytes idf (d_arg_out t) [] (Forall2_nil _)). Qed.
Lemma RArg_sig a : XS.RArg bytes idf (e_arg_sig a) (d_arg_sig a).
Proof. exact (XS.RArg_i bytes idf (d_arg_sig a) [] (Forall2_nil _)). Qed.

Lemma Forall2_map2 {A} (R : X.xml -> X.arg bytes -> Prop) (f : A -> X.xml) (g : A -> X.arg bytes) l :
  (forall a, R (f a) (g a)) -> Forall2 R (map f l) (map g l).
Proof. intro H. induction l; cbn; constructor; auto. Qed.

Lemma rd_method m : vm (md_name m) = true -> of_method' (e_method m) = Ok (d_method m).
Proof.
  intro Hn. rewrite <- (XP.enc_tree_id (e_method m)).
  apply (XP.rd_method bytes sig_parse idf vm idf okf dec_enc).
  - split; [exact Hn|]. unfold d_method. cbn [X.m_args]. apply Forall_app. split; apply Forall_forall; intros a Ha;
      apply in_map_iff in Ha as (x & <- & _); apply sig_ok_menu.
  - unfold e_method, d_method.
    rewrite <- (app_nil_r (map e_arg_in (md_ins m) ++ map e_arg_out (out_types (md_out m)))).
    apply (XS.RMethod_i bytes idf (X.mkMethod bytes (md_name m) _ [])); [|constructor].
    cbn [X.m_args]. apply Forall2_app; apply Forall2_map2; auto using RArg_in, RArg_out.
Qed.

Lemma rd_signal s : vm (sd_name s) = true -> of_signal' (e_signal s) = Ok (d_signal s).
Proof.
  intro Hn. rewrite <- (XP.enc_tree_id (e_signal s)).
  apply (XP.rd_signal bytes sig_parse idf vm idf okf dec_enc).
  - split; [exact Hn|]. unfold d_signal. cbn [X.s_args]. apply Forall_forall. intros a Ha.
    apply in_map_iff in Ha as (x & <- & _). apply sig_ok_menu.
  - unfold e_signal, d_signal. rewrite <- (app_nil_r (map e_arg_sig (sd_args s))).
    apply (XS.RSignal_i bytes idf (X.mkSignal bytes (sd_name s) _ [])); [|constructor].
    cbn [X.s_args]. apply Forall2_map2. apply RArg_sig.
Qed.

Lemma rd_prop p : vp (pd_name p) = true -> of_prop' (e_prop p) = Ok (d_prop p).
Proof.
  intro Hn. rewrite <- (XP.enc_tree_id (e_prop p)).
  apply (XP.rd_prop bytes sig_parse idf vp idf okf dec_enc).
  - split; [exact Hn|]. apply sig_ok_menu.
  - unfold e_prop, d_prop.
    assert (Ha : forall a, XS.access_word (d_access a) = access_word a) by (intros []; reflexivity).
    rewrite <- Ha.
    destruct (eff_emits p).
    + apply (XS.RProp_i bytes idf (X.mkProp bytes (pd_name p) (sigstr (pd_ty p)) (d_access (pd_acc p)) []) []). constructor.
    + apply (XS.RProp_i bytes idf (X.mkProp bytes (pd_name p) (sigstr (pd_ty p)) (d_access (pd_acc p)) [X.mkAnn annot_name (emits_word EInval)])).
      constructor; [|constructor]. exact (XS.RAnn_i (X.mkAnn annot_name _)).
    + apply (XS.RProp_i bytes idf (X.mkProp bytes (pd_name p) (sigstr (pd_ty p)) (d_access (pd_acc p)) [X.mkAnn annot_name (emits_word EConst)])).
      constructor; [|constructor]. exact (XS.RAnn_i (X.mkAnn annot_name _)).
    + apply (XS.RProp_i bytes idf (X.mkProp bytes (pd_name p) (sigstr (pd_ty p)) (d_access (pd_acc p)) [X.mkAnn annot_name (emits_word EFalse)])).
      constructor; [|constructor]. exact (XS.RAnn_i (X.mkAnn annot_name _)).
Qed.

(* ---------------------------------------------------------------- an interface reads back *)
Lemma is_el_map {A} k (f : A -> X.xml) l : (forall a, XP.is_el k (f a)) -> Forall (XP.is_el k) (map f l).
Proof. intro H. apply Forall_forall. intros x Hx. apply in_map_iff in Hx as (a & <- & _). apply H. Qed.

Lemma forall2_map_ok {A C} (f : A -> X.xml) (g : A -> C) (rd : X.xml -> res X.xerr C) (P : A -> Prop) l :
  Forall P l -> (forall a, P a -> rd (f a) = Ok (g a)) -> Forall2 (fun t d => rd t = Ok d) (map f l) (map g l).
Proof. intros Hl H. induction Hl; cbn; constructor; auto. Qed.

Lemma Forall_sorted_props (P : pdesc -> Prop) d : Forall P (id_props d) -> Forall P (sorted_props d).
Proof. rewrite !Forall_forall. intros H p Hp. apply H. now apply sorted_props_in. Qed.

Lemma rd_iface d : names_ok_desc d -> of_iface' (e_iface d) = Ok (d_iface d).
Proof.
  intros (Hi & Hm & Hs & Hp). apply (Forall_sorted_props _ d) in Hp.
  set (Em := map e_method (id_methods d)). set (Es := map e_signal (id_signals d)). set (Ep := map e_prop (sorted_props d)).
  assert (Lm : Forall (XP.is_el (B "method")) Em) by (apply is_el_map; reflexivity).
  assert (Ls : Forall (XP.is_el (B "signal")) Es) by (apply is_el_map; reflexivity).
  assert (Lp : Forall (XP.is_el (B "property")) Ep) by (apply is_el_map; reflexivity).
  assert (H1 : X.children (B "method") of_method' (Em ++ Es ++ Ep) = Ok (map d_method (id_methods d))).
  { apply (XP.children_group (B "method") of_method' [] Em (Es ++ Ep) _ eq_refl eq_refl).
    - rewrite filter_app, (XP.filter_none (B "method") _ _ Ls eq_refl), (XP.filter_none (B "method") _ _ Lp eq_refl). reflexivity.
    - exact Lm.
    - apply (forall2_map_ok e_method d_method of_method' _ _ Hm). intros m. apply rd_method. }
  assert (H2 : X.children (B "property") of_prop' (Em ++ Es ++ Ep) = Ok (map d_prop (sorted_props d))).
  { replace (Em ++ Es ++ Ep) with ((Em ++ Es) ++ Ep ++ []) by (now rewrite app_nil_r, <- app_assoc).
    apply (XP.children_group (B "property") of_prop' (Em ++ Es) Ep [] _ eq_refl).
    - rewrite filter_app, (XP.filter_none (B "property") _ _ Lm eq_refl), (XP.filter_none (B "property") _ _ Ls eq_refl). reflexivity.
    - reflexivity.
    - exact Lp.
    - apply (forall2_map_ok e_prop d_prop of_prop' _ _ Hp). intros p. apply rd_prop. }
  assert (H3 : X.children (B "signal") of_signal' (Em ++ Es ++ Ep) = Ok (map d_signal (id_signals d))).
  { apply (XP.children_group (B "signal") of_signal' Em Es Ep _ eq_refl).
    - apply (XP.filter_none (B "signal") _ _ Lm eq_refl).
    - apply (XP.filter_none (B "signal") _ _ Lp eq_refl).
    - exact Ls.
    - apply (forall2_map_ok e_signal d_signal of_signal' _ _ Hs). intros s. apply rd_signal. }
  assert (H4 : X.children (B "annotation") (X.of_ann okf) (Em ++ Es ++ Ep) = Ok []).
  { replace (Em ++ Es ++ Ep) with ((Em ++ Es ++ Ep) ++ [] ++ []) by (now rewrite !app_nil_r).
    apply (XP.children_group (B "annotation") (X.of_ann okf) (Em ++ Es ++ Ep) [] [] [] eq_refl).
    - rewrite !filter_app, (XP.filter_none (B "annotation") _ _ Lm eq_refl), (XP.filter_none (B "annotation") _ _ Ls eq_refl), (XP.filter_none (B "annotation") _ _ Lp eq_refl).
      reflexivity.
    - reflexivity.
    - constructor.
    - constructor. }
  unfold e_iface. fold Em Es Ep. cbn [X.of_iface].
  assert (Hc : X.check_attrs [(B "name", id_name d)] = Ok tt) by reflexivity.
  assert (Hr : X.req_attr okf (B "name") [(B "name", id_name d)] = Ok (id_name d)) by reflexivity.
  rewrite Hc. cbn [bind]. rewrite Hr. cbn [bind]. unfold X.parse_name. rewrite Hi. cbn [bind].
  rewrite H1. cbn [bind]. rewrite H2. cbn [bind]. rewrite H3. cbn [bind]. rewrite H4. reflexivity.
Qed.

Lemma std_names_ok : Forall names_ok_desc std_ifaces.
Proof. repeat constructor. Qed.

(* ---------------------------------------------------------------- a node reads back *)
Fixpoint e_node (name : option bytes) (n : node) : X.xml :=
  match n with
  | Node ifs kids =>
      X.Elem (B "node") (match name with Some s => [(B "name", s)] | None => [] end)
             (map e_iface (std_ifaces ++ map in_desc ifs) ++
              (fix go (l : list (bytes * node)) : list X.xml :=
                 match l with [] => [] | (k, c) :: r => e_node (Some k) c :: go r end) kids)
  end.

Definition e_kids (kids : list (bytes * node)) : list X.xml :=
  (fix go (l : list (bytes * node)) : list X.xml := match l with [] => [] | (k, c) :: r => e_node (Some k) c :: go r end) kids.
Definition d_kids (kids : list (bytes * node)) : list (X.node bytes) :=
  (fix go (l : list (bytes * node)) : list (X.node bytes) := match l with [] => [] | (k, c) :: r => d_node (Some k) c :: go r end) kids.

Lemma erase_node : forall n name, erase (node_item name n) = [e_node name n].
Proof.
  fix IH 1. intros [ifs kids] name. rewrite node_item_unfold, erase_elem. cbn [e_node]. f_equal. f_equal.
  rewrite flat_map_app. f_equal.
  - rewrite (flat_map_map_one erase iface_item e_iface); [reflexivity|]. intro d. apply erase_iface.
  - induction kids as [|[k c] r IHk]; [reflexivity|]. cbn [kid_items flat_map]. fold (kid_items r).
    rewrite (IH c (Some k)), IHk. reflexivity.
Qed.

Lemma e_kids_el kids : Forall (XP.is_el (B "node")) (e_kids kids).
Proof. induction kids as [|[k [ifs ks]] r IH]; cbn; constructor; auto. reflexivity. Qed.

Theorem rd_node : forall n name, names_ok n -> of_node' (e_node name n) = Ok (d_node name n).
Proof.
  fix IH 1. intros [ifs kids] name [Hifs Hkids]. cbn [e_node]. fold (e_kids kids). rewrite XP.of_node_unfold.
  set (Ei := map e_iface (std_ifaces ++ map in_desc ifs)).
  assert (Li : Forall (XP.is_el (B "interface")) Ei) by (apply is_el_map; reflexivity).
  assert (Hall : Forall names_ok_desc (std_ifaces ++ map in_desc ifs)).
  { apply Forall_app. split; [exact std_names_ok|]. apply Forall_forall. intros d Hd.
    apply in_map_iff in Hd as (i & <- & Hi). rewrite Forall_forall in Hifs. auto. }
  assert (H1 : X.children (B "interface") of_iface' (Ei ++ e_kids kids) = Ok (map d_iface (std_ifaces ++ map in_desc ifs))).
  { replace (Ei ++ e_kids kids) with ([] ++ Ei ++ e_kids kids) by reflexivity.
    apply (XP.children_group (B "interface") of_iface' [] Ei (e_kids kids) _ eq_refl eq_refl).
    - apply (XP.filter_none (B "interface") _ _ (e_kids_el kids) eq_refl).
    - exact Li.
    - apply (forall2_map_ok e_iface d_iface of_iface' _ _ Hall). intros d. apply rd_iface. }
  assert (H2 : X.children (B "node") of_node' (Ei ++ e_kids kids) = Ok (d_kids kids)).
  { replace (Ei ++ e_kids kids) with (Ei ++ e_kids kids ++ []) by (now rewrite app_nil_r).
    apply (XP.children_group (B "node") of_node' Ei (e_kids kids) [] _ eq_refl).
    - apply (XP.filter_none (B "node") _ _ Li eq_refl).
    - reflexivity.
    - apply e_kids_el.
    - clear H1. induction kids as [|[k c] r IHk]; cbn; constructor.
      + apply IH. exact (proj1 Hkids).
      + apply IHk. exact (proj2 Hkids). }
  rewrite H1, H2. cbn [d_node]. fold (d_kids kids).
  destruct name; reflexivity.
Qed.

(* the statement: what the library's reader makes of the written XML is the declared document *)
Theorem reads_back n name :
  names_ok n -> exists t, erase (node_item name n) = [t] /\ read_doc t = Ok (d_node name n).
Proof. intro H. exists (e_node name n). split; [apply erase_node|]. exact (rd_node n name H). Qed.
