(* C24/Ops.v — the vocabulary of histories, shared by the model and the specification:
   object paths as segment lists, the interfaces a history can register, operations, results. *)
From ZV Require Import Base.Bytes.

(* the non-empty segments of an object path; "/" is [] *)
Definition seg := bytes.
Definition path := list seg.

Fixpoint path_eqb (a b : path) : bool :=
  match a, b with
  | [], [] => true
  | x :: a', y :: b' => lbeq x y && path_eqb a' b'
  | _, _ => false
  end.

(* p is a proper ancestor of q *)
Fixpoint strict_prefix (p q : path) : bool :=
  match p, q with
  | [], _ :: _ => true
  | x :: p', y :: q' => lbeq x y && strict_prefix p' q'
  | _, _ => false
  end.

(* interface names.  I1..I3 stand for arbitrary user interfaces, the other four are the
   names special-cased by the code (Node::is_empty, get_managed_objects, add_arc_interface). *)
Inductive iface := I1 | I2 | I3 | OM | Peer | Intro | Props.

Definition iface_eqb (a b : iface) : bool :=
  match a, b with
  | I1, I1 | I2, I2 | I3, I3 | OM, OM | Peer, Peer | Intro, Intro | Props, Props => true
  | _, _ => false
  end.

(* the interfaces a user of the API registers and removes in the histories considered:
   three user interfaces and org.freedesktop.DBus.ObjectManager *)
Inductive kind := K1 | K2 | K3 | KM.

Definition kind_eqb (a b : kind) : bool :=
  match a, b with K1, K1 | K2, K2 | K3, K3 | KM, KM => true | _, _ => false end.

(* the interface name behind a kind *)
Definition ik (k : kind) : iface := match k with K1 => I1 | K2 => I2 | K3 => I3 | KM => OM end.

Inductive op :=
| At (p : path) (k : kind) (id : N)      (* object_server.at(p, <instance id of interface k>) *)
| Rm (p : path) (k : kind).              (* object_server.remove::<k>(p) *)

(* observable result of an operation: Ok(bool), Err(InterfaceNotFound), panic.
   RDone = a removal succeeded, whatever flag it returned ("whether the object was destroyed" is
   not part of the property: it is a statement about nodes, which the flat view does not have) *)
Inductive sres := RBool (b : bool) | RDone | RErr | RPanic.

(* property name -> value, as returned by Properties.GetAll / carried by InterfacesAdded *)
Definition props := list (bytes * N).

(* ---- ObjectManager signals (emitter path, object path, payload) *)
Inductive signal :=
| SAdded (mgr obj : path) (ifs : list (iface * props))
| SRemoved (mgr obj : path) (ks : list iface).

