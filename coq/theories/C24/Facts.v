(* C24/Facts.v — basic facts about the association lists and the tree of C24/Model.v, shared by the
   proofs of C24 and C25. *)
From ZV Require Import Base.Bytes Base.Res Base.WinnowFacts C24.Ops C24.Model.

(* ---- equalities *)
Lemma lbeq_refl (a : bytes) : lbeq a a = true.
Proof. apply lbeq_eq; reflexivity. Qed.

Lemma lbeq_false (a b : bytes) : lbeq a b = false <-> a <> b.
Proof.
  split.
  - intros H E. apply lbeq_eq in E. congruence.
  - intros H. destruct (lbeq a b) eqn:E; [apply lbeq_eq in E; contradiction | reflexivity].
Qed.

Lemma path_eqb_eq (a : path) : forall b, path_eqb a b = true <-> a = b.
Proof.
  induction a as [|x a IH]; intros [|y b]; cbn; split; intros H; try reflexivity; try discriminate.
  - apply andb_true_iff in H as [H1 H2]. apply lbeq_eq in H1. apply IH in H2. congruence.
  - inversion H; subst. rewrite lbeq_refl. cbn. apply IH; reflexivity.
Qed.

Lemma path_eqb_refl (a : path) : path_eqb a a = true.
Proof. apply path_eqb_eq; reflexivity. Qed.

Lemma path_eqb_false (a b : path) : path_eqb a b = false <-> a <> b.
Proof.
  split.
  - intros H E. apply path_eqb_eq in E. congruence.
  - intros H. destruct (path_eqb a b) eqn:E; [apply path_eqb_eq in E; contradiction | reflexivity].
Qed.

Lemma iface_eqb_eq (a b : iface) : iface_eqb a b = true <-> a = b.
Proof. destruct a, b; cbn; split; intros H; try reflexivity; try discriminate. Qed.

Lemma iface_eqb_refl (a : iface) : iface_eqb a a = true.
Proof. destruct a; reflexivity. Qed.

Lemma iface_eqb_false (a b : iface) : iface_eqb a b = false <-> a <> b.
Proof. destruct a, b; cbn; split; intros H; try reflexivity; try discriminate; try congruence. Qed.

Lemma kind_eqb_eq (a b : kind) : kind_eqb a b = true <-> a = b.
Proof. destruct a, b; cbn; split; intros H; try reflexivity; try discriminate. Qed.

Lemma kind_eqb_refl (a : kind) : kind_eqb a a = true.
Proof. destruct a; reflexivity. Qed.

Lemma ik_inj (a b : kind) : ik a = ik b -> a = b.
Proof. destruct a, b; cbn; intros H; try reflexivity; discriminate. Qed.

(* ---- interface maps *)
Lemma find_del_iface_same k l : find_iface k (del_iface k l) = None.
Proof.
  induction l as [|[k' v] l IH]; cbn; [reflexivity|].
  destruct (iface_eqb k k') eqn:E; cbn; [exact IH|]. rewrite E. exact IH.
Qed.

Lemma find_del_iface_other k k' l : k' <> k -> find_iface k' (del_iface k l) = find_iface k' l.
Proof.
  intros Hne. induction l as [|[k2 v] l IH]; cbn; [reflexivity|].
  destruct (iface_eqb k k2) eqn:E; cbn.
  - apply iface_eqb_eq in E; subst k2.
    destruct (iface_eqb k' k) eqn:E2; [apply iface_eqb_eq in E2; contradiction | exact IH].
  - destruct (iface_eqb k' k2); [reflexivity | exact IH].
Qed.

(* ---- children maps *)
Lemma find_del_child_same i l : find_child i (del_child i l) = None.
Proof.
  induction l as [|[j c] l IH]; cbn; [reflexivity|].
  destruct (lbeq i j) eqn:E; cbn; [exact IH|]. rewrite E. exact IH.
Qed.

Lemma find_del_child_other i j l : j <> i -> find_child j (del_child i l) = find_child j l.
Proof.
  intros Hne. induction l as [|[j2 c] l IH]; cbn; [reflexivity|].
  destruct (lbeq i j2) eqn:E; cbn.
  - apply lbeq_eq in E; subst j2.
    destruct (lbeq j i) eqn:E2; [apply lbeq_eq in E2; contradiction | exact IH].
  - destruct (lbeq j j2); [reflexivity | exact IH].
Qed.

Lemma find_put_child_same i c n : find_child i (children (put_child i c n)) = Some c.
Proof. destruct n as [p ch ifs]; cbn. rewrite lbeq_refl. reflexivity. Qed.

Lemma find_put_child_other i j c n : j <> i -> find_child j (children (put_child i c n)) = find_child j (children n).
Proof.
  intros Hne. destruct n as [p ch ifs]; cbn.
  destruct (lbeq j i) eqn:E; [apply lbeq_eq in E; contradiction|].
  apply find_del_child_other; exact Hne.
Qed.

Lemma ifaces_put_child i c n : ifaces (put_child i c n) = ifaces n.
Proof. destruct n; reflexivity. Qed.

Lemma npath_put_child i c n : npath (put_child i c n) = npath n.
Proof. destruct n; reflexivity. Qed.

(* ---- get_child *)
Lemma get_child_app n : forall p q,
  get_child n (p ++ q) = match get_child n p with Some c => get_child c q | None => None end.
Proof.
  intros p; revert n. induction p as [|i p IH]; intros n q; cbn; [reflexivity|].
  destruct (find_child i (children n)); [apply IH | reflexivity].
Qed.

Lemma get_child_same_children a b q : children a = children b -> q <> [] -> get_child a q = get_child b q.
Proof. intros H Hq. destruct q as [|i q]; [contradiction|]. cbn. rewrite H. reflexivity. Qed.

Lemma get_child_leaf n q : children n = [] -> q <> [] -> get_child n q = None.
Proof. intros H Hq. destruct q as [|i q]; [contradiction|]. cbn. rewrite H. reflexivity. Qed.

(* ---- the three interfaces of Node::new *)

Lemma ik_not_std3 k : std3 (ik k) = false.
Proof. destruct k; reflexivity. Qed.

(* a node just made by Node::new *)
Definition fresh (c : node) : Prop :=
  children c = [] /\ forall k, std3 k = false -> find_iface k (ifaces c) = None.

Lemma fresh_new p : fresh (new_node p).
Proof. split; [reflexivity|]. intros k Hk. destruct k; cbn in *; try reflexivity; discriminate. Qed.

(* interface k registered at path p, as lookups see it *)
Definition ulookup (t : node) (p : path) (k : iface) : option N :=
  match get_child t p with Some n => find_iface k (ifaces n) | None => None end.

(* p is q or an ancestor of q *)
Fixpoint prefix (p q : path) : bool :=
  match p, q with
  | [], _ => true
  | x :: p', y :: q' => lbeq x y && prefix p' q'
  | _ :: _, [] => false
  end.

Lemma prefix_app p : forall q, prefix p q = true -> exists r, q = p ++ r.
Proof.
  induction p as [|x p IH]; intros q H; cbn in *; [exists q; reflexivity|].
  destruct q as [|y q]; [discriminate|].
  apply andb_true_iff in H as [H1 H2]. apply lbeq_eq in H1; subst y.
  destruct (IH _ H2) as [r ->]. exists r; reflexivity.
Qed.

Lemma prefix_app_true p r : prefix p (p ++ r) = true.
Proof. induction p as [|x p IH]; cbn; [reflexivity|]. rewrite lbeq_refl; exact IH. Qed.

Lemma prefix_refl p : prefix p p = true.
Proof. rewrite <- (app_nil_r p) at 2. apply prefix_app_true. Qed.

Lemma strict_prefix_app p : forall q, strict_prefix p q = true -> exists r, r <> [] /\ q = p ++ r.
Proof.
  induction p as [|x p IH]; intros q H; cbn in *.
  - destruct q as [|y q]; [discriminate|]. exists (y :: q). split; [discriminate | reflexivity].
  - destruct q as [|y q]; [discriminate|].
    apply andb_true_iff in H as [H1 H2]. apply lbeq_eq in H1; subst y.
    destruct (IH _ H2) as [r [Hr ->]]. exists r; split; [exact Hr | reflexivity].
Qed.

Lemma strict_prefix_app_true p r : r <> [] -> strict_prefix p (p ++ r) = true.
Proof.
  intros Hr. induction p as [|x p IH]; cbn.
  - destruct r; [contradiction | reflexivity].
  - rewrite lbeq_refl; exact IH.
Qed.

Lemma strict_prefix_irrefl p : strict_prefix p p = false.
Proof. induction p as [|x p IH]; cbn; [reflexivity|]. rewrite lbeq_refl; exact IH. Qed.

(* `obj_manager_path` as get_child_mut computes it: the stored path of the last node passed on the
   way down (the target excluded) that has the ObjectManager interface *)
Fixpoint mgr_of (n : node) (p : path) (mgr : option path) : option path :=
  match p with
  | [] => mgr
  | i :: rest =>
      let mgr' := match find_iface OM (ifaces n) with Some _ => Some (npath n) | None => mgr end in
      match find_child i (children n) with
      | Some c => mgr_of c rest mgr'
      | None => mgr'
      end
  end.

Lemma mgr_of_new pp rest mgr : mgr_of (new_node pp) rest mgr = mgr.
Proof. destruct rest; reflexivity. Qed.

(* ---- get_child_mut + mutation: what [with_node] finds, returns and leaves alone *)
Section WithNode.
  Context {R : Type} (f : node -> option path -> node * R).

  Lemma with_node_full : forall p n create np mgr n' r,
    with_node n p create np mgr f = Some (n', r) ->
    exists c m,
      m = mgr_of n p mgr /\
      (get_child n p = Some c \/ (get_child n p = None /\ create = true /\ fresh c)) /\
      snd (f c m) = r /\
      get_child n' p = Some (fst (f c m)) /\
      (forall q k, prefix p q = false -> std3 k = false -> ulookup n' q k = ulookup n q k).
  Proof.
    induction p as [|i rest IH]; intros n create np mgr n' r H; cbn in H.
    - exists n, mgr. split; [reflexivity|]. split; [left; reflexivity|].
      destruct (f n mgr) as [a b]; cbn. inversion H; subst. split; [reflexivity|]. split; [reflexivity|].
      intros q k Hq; cbn in Hq; discriminate.
    - set (mgr' := match find_iface OM (ifaces n) with Some _ => Some (npath n) | None => mgr end) in H.
      destruct (find_child i (children n)) as [c0|] eqn:Hc.
      + destruct (with_node c0 rest create (np ++ [i]) mgr' f) as [[c' r']|] eqn:Hw; [|discriminate].
        inversion H; subst; clear H.
        destruct (IH _ _ _ _ _ _ Hw) as [c [m [Hm [Hfound [Hr [Hget Hframe]]]]]].
        exists c, m. split; [cbn; rewrite Hc; exact Hm|].
        split; [cbn; rewrite Hc; exact Hfound|]. split; [exact Hr|].
        split; [cbn; rewrite find_put_child_same; exact Hget|].
        intros q k Hq Hk. unfold ulookup. destruct q as [|j q]; cbn.
        * rewrite ifaces_put_child. reflexivity.
        * cbn in Hq. destruct (lbeq i j) eqn:Eij.
          -- apply lbeq_eq in Eij; subst j. rewrite find_put_child_same, Hc.
             cbn in Hq. apply (Hframe q k Hq Hk).
          -- apply lbeq_false in Eij. rewrite find_put_child_other by congruence. reflexivity.
      + destruct create; [|discriminate].
        destruct (with_node (new_node (np ++ [i])) rest true (np ++ [i]) mgr' f) as [[c' r']|] eqn:Hw; [|discriminate].
        inversion H; subst; clear H.
        destruct (IH _ _ _ _ _ _ Hw) as [c [m [Hm [Hfound [Hr [Hget Hframe]]]]]].
        assert (Hfresh : fresh c /\ (rest <> [] -> get_child (new_node (np ++ [i])) rest = None)).
        { split.
          - destruct Hfound as [Hf | [_ [_ Hf]]]; [|exact Hf].
            destruct rest as [|j rest']; cbn in Hf; [inversion Hf; apply fresh_new | discriminate].
          - intros Hne. apply get_child_leaf; [reflexivity | exact Hne]. }
        destruct Hfresh as [Hfresh Hleaf].
        exists c, m. split; [cbn; rewrite Hc; rewrite Hm; apply mgr_of_new|].
        split; [right; cbn; rewrite Hc; repeat split; try reflexivity; apply Hfresh|].
        split; [exact Hr|].
        split; [cbn; rewrite find_put_child_same; exact Hget|].
        intros q k Hq Hk. unfold ulookup. destruct q as [|j q]; cbn.
        * rewrite ifaces_put_child. reflexivity.
        * cbn in Hq. destruct (lbeq i j) eqn:Eij.
          -- apply lbeq_eq in Eij; subst j. rewrite find_put_child_same, Hc.
             cbn in Hq. specialize (Hframe q k Hq Hk). unfold ulookup in Hframe. rewrite Hframe.
             destruct q as [|j q]; cbn; [destruct k; cbn in *; try reflexivity; discriminate | reflexivity].
          -- apply lbeq_false in Eij. rewrite find_put_child_other by congruence. reflexivity.
  Qed.

  Lemma with_node_spec : forall p n create np mgr n' r,
    with_node n p create np mgr f = Some (n', r) ->
    exists c m,
      (get_child n p = Some c \/ (get_child n p = None /\ create = true /\ fresh c)) /\
      snd (f c m) = r /\
      get_child n' p = Some (fst (f c m)) /\
      (forall q k, prefix p q = false -> std3 k = false -> ulookup n' q k = ulookup n q k).
  Proof.
    intros p n create np mgr n' r H.
    destruct (with_node_full _ _ _ _ _ _ _ H) as [c [m [_ Hrest]]]. exists c, m. exact Hrest.
  Qed.

  (* without creation the walk succeeds exactly when the node exists *)
  Lemma with_node_none : forall p n np mgr,
    with_node n p false np mgr f = None <-> get_child n p = None.
  Proof.
    induction p as [|i rest IH]; intros n np mgr; cbn.
    - split; discriminate.
    - destruct (find_child i (children n)) as [c0|]; [|split; reflexivity].
      set (mgr' := match find_iface OM (ifaces n) with Some _ => Some (npath n) | None => mgr end).
      specialize (IH c0 (np ++ [i]) mgr').
      destruct (with_node c0 rest false (np ++ [i]) mgr' f) as [[c' r']|].
      + split; [discriminate|]. intros H. apply IH in H. discriminate.
      + split; [intros _; apply IH; reflexivity | reflexivity].
  Qed.
End WithNode.
