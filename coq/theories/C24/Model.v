(* C24/Model.v — executable mirror of the zbus object server tree, as the code is:
     zbus/src/object_server/node.rs   Node::{new, get_child, get_child_mut, remove_interface, is_empty, has_children,
                                            remove_node, add_arc_interface, get_managed_objects,
                                            get_properties, introspect (its infoset)}
     zbus/src/object_server/mod.rs    ObjectServer::{at / add_arc_interface, remove, interface},
                                      dispatch_method_call_try (lookup part)
     zbus/src/fdo/introspectable.rs   Introspectable::introspect
     zbus/src/fdo/object_manager.rs   ObjectManager::get_managed_objects (used by C25)
   A Rust panic is a value (Panic).  HashMaps are association lists read with first-match lookup;
   nothing below depends on their order (renderers sort).  No proofs in this file. *)
From ZV Require Import Base.Bytes Base.Res C24.Ops.

(* the filter of Node::get_managed_objects: the four names it never lists *)
Definition is_std (k : iface) : bool :=
  match k with Peer | Intro | Props | OM => true | _ => false end.

(* the filter of Node::is_empty since fix 71f8bd70: the three interfaces Node::new puts on every
   node (an ObjectManager is registered by the user and keeps the node alive) *)
Definition std3 (k : iface) : bool := match k with Peer | Intro | Props => true | _ => false end.

(* ---- paths: the non-empty segments visited by `path.split('/').skip(1)` with
   `if i.is_empty() { continue }`;  "/" is [] *)

Definition nonempty_seg (s : seg) : bool := match s with [] => false | _ => true end.
Definition segs_of (s : bytes) : path := filter nonempty_seg (tl (split_on "/"%byte s)).

(* ---- the tree.  An interface instance is represented by its identity (a number chosen by the
   caller of `at`) — enough to tell instances apart in lookups, calls and properties. *)
Inductive node := Node (npath : path) (children : list (seg * node)) (ifaces : list (iface * N)).

Definition npath (n : node) : path := match n with Node p _ _ => p end.
Definition children (n : node) : list (seg * node) := match n with Node _ c _ => c end.
Definition ifaces (n : node) : list (iface * N) := match n with Node _ _ i => i end.

Fixpoint find_iface (k : iface) (l : list (iface * N)) : option N :=
  match l with
  | [] => None
  | (k', v) :: r => if iface_eqb k k' then Some v else find_iface k r
  end.

Fixpoint find_child (i : seg) (l : list (seg * node)) : option node :=
  match l with
  | [] => None
  | (j, c) :: r => if lbeq i j then Some c else find_child i r
  end.

Definition del_iface (k : iface) (l : list (iface * N)) : list (iface * N) :=
  filter (fun e => negb (iface_eqb k (fst e))) l.
Definition del_child (i : seg) (l : list (seg * node)) : list (seg * node) :=
  filter (fun e => negb (lbeq i (fst e))) l.

(* HashMap::insert / entry().insert on the children map *)
Definition put_child (i : seg) (c : node) (n : node) : node :=
  match n with Node p ch ifs => Node p ((i, c) :: del_child i ch) ifs end.

(* Node::add_arc_interface — Entry::Vacant => insert, true;  Entry::Occupied => false *)
Definition add_arc_interface (k : iface) (id : N) (n : node) : node * bool :=
  match n with Node p ch ifs =>
    match find_iface k ifs with
    | None => (Node p ch ((k, id) :: ifs), true)
    | Some _ => (n, false)
    end
  end.

(* Node::new — Peer, Introspectable, Properties are added (the three asserts cannot fail on an empty map) *)
Definition new_node (p : path) : node := Node p [] [(Props, 0%N); (Intro, 0%N); (Peer, 0%N)].

(* Node::remove_interface *)
Definition remove_interface (k : iface) (n : node) : node * bool :=
  match n with Node p ch ifs =>
    match find_iface k ifs with
    | Some _ => (Node p ch (del_iface k ifs), true)
    | None => (n, false)
    end
  end.

(* Node::is_empty — no key other than Peer, Introspectable, Properties (fix 71f8bd70: ObjectManager counts) *)
Definition is_empty (n : node) : bool := negb (existsb (fun e => negb (std3 (fst e))) (ifaces n)).

(* Node::has_children (added by fix f5fe3276) *)
Definition has_children (n : node) : bool := match children n with [] => false | _ :: _ => true end.

(* the test of ObjectServer::remove: `node.is_empty() && !node.has_children()` *)
Definition destroyable (n : node) : bool := is_empty n && negb (has_children n).

(* Node::remove_node *)
Definition remove_node (i : seg) (n : node) : node * bool :=
  match n with Node p ch ifs =>
    match find_child i ch with
    | Some _ => (Node p (del_child i ch) ifs, true)
    | None => (n, false)
    end
  end.

(* Node::get_child *)
Fixpoint get_child (n : node) (p : path) : option node :=
  match p with
  | [] => Some n
  | i :: rest => match find_child i (children n) with Some c => get_child c rest | None => None end
  end.

(* Node::get_child_mut(path, create) followed by a mutation [f] of the node found (the Rust code
   gets a `&mut Node`; here the tree is rebuilt on the way back).  [node_path] is the String built by
   `write!(&mut node_path, "/{i}")`, [mgr] is `obj_manager_path`: the stored path of the last node
   *left behind* that has the ObjectManager interface (the node found itself is not tested).
   None = the `(None, obj_manager_path)` return (child missing and !create).
   [f] also receives the manager path and returns what the caller keeps from the node. *)
Fixpoint with_node {R : Type} (n : node) (p : path) (create : bool) (node_path : path) (mgr : option path)
    (f : node -> option path -> node * R) : option (node * R) :=
  match p with
  | [] => Some (f n mgr)
  | i :: rest =>
      let mgr' := match find_iface OM (ifaces n) with Some _ => Some (npath n) | None => mgr end in
      let node_path' := node_path ++ [i] in
      match find_child i (children n) with
      | Some c =>
          match with_node c rest create node_path' mgr' f with
          | Some (c', r) => Some (put_child i c' n, r)
          | None => None
          end
      | None =>
          if create then
            match with_node (new_node node_path') rest create node_path' mgr' f with
            | Some (c', r) => Some (put_child i c' n, r)
            | None => None
            end
          else None
      end
  end.

(* ---- properties: `Interface::get_all`.  I1 has one property `Val` whose value is the instance's
   identity; the other interfaces have none. *)
Definition props_of (k : iface) (id : N) : props :=
  match k with I1 => [(B "Val", id)] | _ => [] end.

(* Node::get_properties — `.expect("Interface was added but not found")` *)
Definition get_properties (n : node) (k : iface) : option props :=
  match find_iface k (ifaces n) with Some id => Some (props_of k id) | None => None end.

Definition user_ifaces (ifs : list (iface * N)) : list (iface * props) :=
  map (fun e => (fst e, props_of (fst e) (snd e))) (filter (fun e => negb (is_std (fst e))) ifs).

(* Node::get_managed_objects — every strict descendant, keyed by its *stored* path, with its
   non-standard interfaces and their properties (interface-less nodes are listed with an empty map).
   The Rust loop uses a work list over HashMap values; the order is immaterial. *)
Fixpoint gmo_node (n : node) : list (path * list (iface * props)) :=
  match n with
  | Node p ch ifs =>
      (p, user_ifaces ifs) ::
      (fix go (l : list (seg * node)) : list (path * list (iface * props)) :=
         match l with [] => [] | (_, c) :: r => gmo_node c ++ go r end) ch
  end.
Fixpoint gmo_children (l : list (seg * node)) : list (path * list (iface * props)) :=
  match l with [] => [] | (_, c) :: r => gmo_node c ++ gmo_children r end.
Definition get_managed_objects (n : node) : list (path * list (iface * props)) := gmo_children (children n).

Inductive oerr := InterfaceNotFound | UnknownObject | UnknownInterface.

Definition root0 : node := new_node [].

(* ObjectServer::at  =  add_arc_interface(path, I::name(), ArcInterface::new(iface)) *)
Definition at_ (root : node) (p : path) (k : iface) (id : N) : node * res oerr bool * list signal :=
  match with_node root p true [] None
          (fun n mgr => let '(n', added) := add_arc_interface k id n in (n', (added, mgr, n'))) with
  | None => (root, Panic PUnwrap, [])                  (* `node.unwrap()` *)
  | Some (root', (added, mgr, n')) =>
      if added then
        if iface_eqb k OM then
          (* just added an object manager: signal all managed objects under it, emitter = path *)
          (root', Ok true, map (fun e => SAdded p (fst e) (snd e)) (get_managed_objects n'))
        else
          match mgr with
          | Some m =>
              match get_properties n' k with
              | Some ps => (root', Ok true, [SAdded m p [(k, ps)]])
              | None => (root', Panic PUnwrap, [])      (* .expect("Interface was added but not found") *)
              end
          | None => (root', Ok true, [])
          end
      else (root', Ok false, [])
  end.

(* ObjectServer::remove::<I>(path), after fix f5fe3276: the node is destroyed only when it is empty
   and has no children; the root has no parent to be removed from and is never destroyed *)
Definition remove (root : node) (p : path) (k : iface) : node * res oerr bool * list signal :=
  match with_node root p false [] None
          (fun n mgr => let '(n', removed) := remove_interface k n in (n', (removed, mgr, destroyable n'))) with
  | None => (root, Err InterfaceNotFound, [])          (* node.ok_or(Error::InterfaceNotFound)? *)
  | Some (root', (removed, mgr, destroy)) =>
      if negb removed then (root', Err InterfaceNotFound, [])
      else
        let sigs := match mgr with Some m => [SRemoved m p [k]] | None => [] end in
        if destroy then
          (* path.rsplit('/').filter(non-empty): last part, then the parent's parts *)
          match rev p with
          | [] => (root', Ok false, sigs)                (* let Some(last_part) = ... else { return Ok(false) } *)
          | last :: rparent =>
              match with_node root' (rev rparent) false [] None
                      (fun par _ => let '(par', _) := remove_node last par in (par', tt)) with
              | Some (root'', _) => (root'', Ok true, sigs)
              | None => (root', Panic PUnwrap, sigs)     (* get_child_mut(&ppath, false).0.unwrap() *)
              end
          end
        else (root', Ok false, sigs)
  end.

(* ---- observations *)
Definition ok_opt {E A : Type} (r : res E A) : option A := match r with Ok a => Some a | _ => None end.
Definition is_some {A : Type} (o : option A) : bool := match o with Some _ => true | None => false end.

(* ObjectServer::interface::<_, I>(path): get_child, interface_lock, downcast (cannot fail: the
   map is keyed by I::name()) *)
Definition lookup (root : node) (p : path) (k : iface) : res oerr N :=
  match get_child root p with
  | None => Err InterfaceNotFound
  | Some n => match find_iface k (ifaces n) with Some id => Ok id | None => Err InterfaceNotFound end
  end.

(* dispatch_method_call_try + the interface's `Ping` (returns the instance's identity) *)
Definition call (root : node) (p : path) (k : iface) : res oerr N :=
  match get_child root p with
  | None => Err UnknownObject
  | Some n => match find_iface k (ifaces n) with Some id => Ok id | None => Err UnknownInterface end
  end.

(* Introspectable::introspect at [p]: the node whose XML is produced (interfaces = keys of its map,
   nested <node> elements = its children, recursively) *)
Definition introspect (root : node) (p : path) : res oerr node :=
  match get_child root p with None => Err UnknownObject | Some n => Ok n end.

(* what a reader of the XML sees: interface k listed at the top level of Introspect(p) ... *)
Definition seen_at (root : node) (p : path) (k : iface) : bool :=
  match introspect root p with Ok n => is_some (find_iface k (ifaces n)) | _ => false end.
(* ... and listed in Introspect("/") at the nested <node> reached by following p's segments *)
Definition seen_nested (root : node) (p : path) (k : iface) : bool :=
  match introspect root [] with
  | Ok r => match get_child r p with Some n => is_some (find_iface k (ifaces n)) | None => false end
  | _ => false
  end.

(* ObjectManager::get_managed_objects called at [p] (reached only if the interface is there) *)
Definition call_gmo (root : node) (p : path) : res oerr (list (path * list (iface * props))) :=
  match get_child root p with
  | None => Err UnknownObject
  | Some n =>
      match find_iface OM (ifaces n) with
      | None => Err UnknownInterface
      | Some _ => Ok (get_managed_objects n)
      end
  end.

(* ---- histories: the interface names behind the four kinds, one step, a run *)

Definition mstep (root : node) (o : op) : node * res oerr bool * list signal :=
  match o with
  | At p k id => at_ root p (ik k) id
  | Rm p k => remove root p (ik k)
  end.

Definition res_obs (r : res oerr bool) : sres :=
  match r with Ok b => RBool b | Err _ => RErr | Panic _ => RPanic end.

(* the result as far as the property speaks of it: the flag of a successful removal is forgotten *)
Definition res_prop (o : op) (r : res oerr bool) : sres :=
  match o, r with
  | Rm _ _, Ok _ => RDone
  | _, _ => res_obs r
  end.

Fixpoint mrun (root : node) (h : list op) : node * list sres :=
  match h with
  | [] => (root, [])
  | o :: r => let '(t1, x, _) := mstep root o in let '(t2, xs) := mrun t1 r in (t2, res_prop o x :: xs)
  end.

Definition model_state (h : list op) : node := fst (mrun root0 h).
Definition model_results (h : list op) : list sres := snd (mrun root0 h).
