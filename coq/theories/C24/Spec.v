(* C24/Spec.v — what a history of registrations and removals implies: a flat finite map from
   (path, interface) to the registered instance.  `at` adds if absent (refused if present), `remove`
   removes if present (fails if absent), nothing else changes, and no operation panics.
   Independent of the tree: no nodes, no parents, no children. *)
From ZV Require Import Base.Bytes C24.Ops.

(* the flat map, as an association list read with first-match lookup *)
Definition smap := list (path * kind * N).

Definition key_eqb (p : path) (k : kind) (e : path * kind * N) : bool :=
  path_eqb p (fst (fst e)) && kind_eqb k (snd (fst e)).

Fixpoint sget (s : smap) (p : path) (k : kind) : option N :=
  match s with
  | [] => None
  | e :: r => if key_eqb p k e then Some (snd e) else sget r p k
  end.

Definition sdel (s : smap) (p : path) (k : kind) : smap := filter (fun e => negb (key_eqb p k e)) s.
Definition sput (s : smap) (p : path) (k : kind) (id : N) : smap := (p, k, id) :: sdel s p k.

Definition all_kinds : list kind := [K1; K2; K3; KM].

(* no interface at all is registered at p *)
Definition bare (s : smap) (p : path) : bool :=
  forallb (fun k => match sget s p k with None => true | Some _ => false end) all_kinds.

(* the flag returned by a successful `remove` is left open (RDone) *)
Definition spec_step (s : smap) (o : op) : smap * sres :=
  match o with
  | At p k id =>
      match sget s p k with
      | Some _ => (s, RBool false)
      | None => (sput s p k id, RBool true)
      end
  | Rm p k =>
      match sget s p k with
      | None => (s, RErr)
      | Some _ => (sdel s p k, RDone)
      end
  end.

Fixpoint spec_run (s : smap) (h : list op) : smap * list sres :=
  match h with
  | [] => (s, [])
  | o :: r => let '(s1, x) := spec_step s o in let '(s2, xs) := spec_run s1 r in (s2, x :: xs)
  end.

Definition spec_state (h : list op) : smap := fst (spec_run [] h).
Definition spec_results (h : list op) : list sres := snd (spec_run [] h).

(* No known-deviation class is left: since fixes f5fe3276 (the root is never destroyed, a node with
   children is kept) and 71f8bd70 (an ObjectManager keeps its node alive) the refinement theorem of
   Properties/C24.v holds for every history. *)
