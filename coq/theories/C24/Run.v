(* C24/Run.v — line driver.
   case:    24 <op> <op> ...      ops  at:<path>:<k>  rm:<path>:<k>  (k = 1|2|3)   om:<path>   rmom:<path>
            (the instance registered by the n-th op carries id n)
   model:   what harness/hobjsrv prints: step observations joined by ';', step = res|L|C|X1|X2|T
   spec:    the same from the flat map, without the T section (tree shapes are not constrained);
            a successful removal is OK there (matches T and F: the returned flag is not constrained)
   class:   always '-' (no known-deviation class is left)                                          *)
From ZV Require Import Base.Bytes Base.Res C24.Ops C24.Model C24.Spec.

Definition universe : list bytes := [B "/"; B "/a"; B "/a/b"; B "/a/b/c"; B "/x"; B "/ab"].
Definition upaths : list path := map segs_of universe.
Definition kinds4 : list kind := [K1; K2; K3; KM].

(* ---- parsing *)
Definition colon : byte := ":"%byte.

Definition valid_seg (s : bytes) : bool :=
  nonempty_seg s && forallb (fun c => is_alphanum c || beq c "_"%byte) s.
(* an object path: "/" or "/seg/seg..." *)
Definition parse_path (s : bytes) : option path :=
  match s with
  | c :: r =>
      if beq c "/"%byte then
        match r with
        | [] => Some (segs_of s)
        | _ => if forallb valid_seg (split_on "/"%byte r) then Some (segs_of s) else None
        end
      else None
  | [] => None
  end.

Definition parse_kind (s : bytes) : option kind :=
  if lbeq s (B "1") then Some K1 else if lbeq s (B "2") then Some K2 else if lbeq s (B "3") then Some K3 else None.

Definition parse_op (id : N) (w : bytes) : option op :=
  match split_on colon w with
  | [a; p; k] =>
      match parse_path p, parse_kind k with
      | Some pp, Some kk =>
          if lbeq a (B "at") then Some (At pp kk id) else if lbeq a (B "rm") then Some (Rm pp kk) else None
      | _, _ => None
      end
  | [a; p] =>
      match parse_path p with
      | Some pp => if lbeq a (B "om") then Some (At pp KM id) else if lbeq a (B "rmom") then Some (Rm pp KM) else None
      | None => None
      end
  | _ => None
  end.

Fixpoint parse_ops (id : N) (ws : list bytes) : option (list op) :=
  match ws with
  | [] => Some []
  | w :: r =>
      match parse_op id w, parse_ops (id + 1) r with
      | Some o, Some os => Some (o :: os)
      | _, _ => None
      end
  end.

(* ---- rendering *)
Definition res_tok (r : sres) : bytes :=
  match r with RBool true => B "T" | RBool false => B "F" | RDone => B "OK" | RErr => B "ERR" | RPanic => B "PANIC" end.

Definition id_tok (k : kind) (v : option N) : bytes :=
  match v with
  | None => B "-"
  | Some id => match k with KM => B "M" | _ => dec_of_N id end
  end.

Definition cells {A} (f : path -> kind -> A) : list A :=
  flat_map (fun p => map (f p) kinds4) upaths.

Definition bit (b : bool) : bytes := if b then B "1" else B "0".

(* byte-wise lexicographic order (Rust's str ordering) *)
Fixpoint bytes_leb (a b : bytes) : bool :=
  match a, b with
  | [], _ => true
  | _ :: _, [] => false
  | x :: a', y :: b' => if (bn x <? bn y)%N then true else if (bn y <? bn x)%N then false else bytes_leb a' b'
  end.

Fixpoint insert_sorted {A} (e : bytes * A) (l : list (bytes * A)) : list (bytes * A) :=
  match l with
  | [] => [e]
  | x :: r => if bytes_leb (fst e) (fst x) then e :: l else x :: insert_sorted e r
  end.
Definition sort_by_key {A} (l : list (bytes * A)) : list (bytes * A) := fold_right insert_sorted [] l.

Definition iface_order : list (iface * bytes) :=
  [(I1, B "1"); (I2, B "2"); (I3, B "3"); (OM, B "M"); (Intro, B "N"); (Peer, B "P"); (Props, B "R")].
Definition ifaces_text (ifs : list (iface * N)) : bytes :=
  flat_map (fun e => if is_some (find_iface (fst e) ifs) then snd e else []) iface_order.

(* the infoset of Node::introspect, canonical: [interfaces]{child:subtree+child:subtree} *)
Fixpoint render_node (n : node) : bytes :=
  match n with
  | Node _ ch ifs =>
      B "[" ++ ifaces_text ifs ++ B "]{" ++
      join (B "+")
        (map (fun e => fst e ++ B ":" ++ snd e)
           (sort_by_key
              ((fix go (l : list (seg * node)) : list (bytes * bytes) :=
                  match l with [] => [] | (i, c) :: r => (i, render_node c) :: go r end) ch))) ++
      B "}"
  end.

Definition comma := B ",".

(* observation of the model state *)
Definition observe_model (t : node) : bytes :=
  let l := cells (fun p k => id_tok k (ok_opt (lookup t p (ik k)))) in
  let c := cells (fun p k =>
                    match k with
                    | KM => match call_gmo t p with Ok _ => B "M" | _ => B "-" end
                    | _ => id_tok k (ok_opt (call t p (ik k)))
                    end) in
  let x1 := cells (fun p k => bit (seen_at t p (ik k))) in
  let x2 := cells (fun p k => bit (seen_nested t p (ik k))) in
  let tt := map (fun p => match introspect t p with Ok n => render_node n | _ => B "-" end) upaths in
  join comma l ++ B "|" ++ join comma c ++ B "|" ++ concat x1 ++ B "|" ++ concat x2 ++ B "|" ++ join comma tt.

(* observation the flat map implies *)
Definition observe_spec (s : smap) : bytes :=
  let l := cells (fun p k => id_tok k (sget s p k)) in
  let x := cells (fun p k => bit (is_some (sget s p k))) in
  join comma l ++ B "|" ++ join comma l ++ B "|" ++ concat x ++ B "|" ++ concat x.

Fixpoint model_trace (t : node) (h : list op) : list bytes :=
  match h with
  | [] => []
  | o :: r => let '(t1, x, _) := mstep t o in (res_tok (res_obs x) ++ B "|" ++ observe_model t1) :: model_trace t1 r
  end.

Fixpoint spec_trace (s : smap) (h : list op) : list bytes :=
  match h with
  | [] => []
  | o :: r => let '(s1, x) := spec_step s o in (res_tok x ++ B "|" ++ observe_spec s1) :: spec_trace s1 r
  end.

Definition semi := B ";".

Definition run_case (line : bytes) : outp :=
  match words line with
  | m :: ws =>
      if lbeq m (B "24") then
        match parse_ops 1 ws with
        | Some h =>
            {| o_model := join semi ((B "-|" ++ observe_model root0) :: model_trace root0 h);
               o_spec := join semi ((B "-|" ++ observe_spec []) :: spec_trace [] h);
               o_class := dash |}
        | None => bad_case
        end
      else bad_case
  | [] => bad_case
  end.

Definition run (line : bytes) : bytes := render (run_case line).
