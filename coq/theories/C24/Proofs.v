(* C24/Proofs.v — the tree model refines the flat map on every history that avoids the three known
   classes; each class refutes the full statement. *)
From ZV Require Import Base.Bytes Base.Res Base.WinnowFacts C24.Ops C24.Model C24.Spec C24.Facts.

(* ---- the flat map *)
Lemma key_eqb_true p k e : key_eqb p k e = true <-> fst e = (p, k).
Proof.
  destruct e as [[p' k'] v]; unfold key_eqb; cbn. rewrite andb_true_iff, path_eqb_eq, kind_eqb_eq.
  split; [intros [-> ->]; reflexivity | intros H; inversion H; auto].
Qed.

Lemma key_eqb_refl p k v : key_eqb p k (p, k, v) = true.
Proof. apply key_eqb_true; reflexivity. Qed.

Lemma key_eqb_other p k p' k' e : (p', k') <> (p, k) -> key_eqb p k e = true -> key_eqb p' k' e = false.
Proof.
  intros Hne H. apply key_eqb_true in H. destruct (key_eqb p' k' e) eqn:E; [|reflexivity].
  apply key_eqb_true in E. congruence.
Qed.

Lemma sget_sdel_same s p k : sget (sdel s p k) p k = None.
Proof.
  induction s as [|e s IH]; cbn; [reflexivity|].
  destruct (key_eqb p k e) eqn:E; cbn; [exact IH|]. rewrite E. exact IH.
Qed.

Lemma sget_sdel_other s p k p' k' : (p', k') <> (p, k) -> sget (sdel s p k) p' k' = sget s p' k'.
Proof.
  intros Hne. induction s as [|e s IH]; cbn; [reflexivity|].
  destruct (key_eqb p k e) eqn:E; cbn.
  - rewrite (key_eqb_other _ _ _ _ _ Hne E). exact IH.
  - destruct (key_eqb p' k' e); [reflexivity | exact IH].
Qed.

Lemma sget_sput_same s p k id : sget (sput s p k id) p k = Some id.
Proof. unfold sput; cbn. rewrite key_eqb_refl. reflexivity. Qed.

Lemma sget_sput_other s p k id p' k' : (p', k') <> (p, k) -> sget (sput s p k id) p' k' = sget s p' k'.
Proof.
  intros Hne. unfold sput; cbn.
  destruct (key_eqb p' k' (p, k, id)) eqn:E; [apply key_eqb_true in E; cbn in E; congruence|].
  apply sget_sdel_other; exact Hne.
Qed.

(* ---- node-level facts *)
Lemma add_arc_children k id n : children (fst (add_arc_interface k id n)) = children n.
Proof. destruct n as [p ch ifs]; cbn. destruct (find_iface k ifs); reflexivity. Qed.

Lemma add_arc_spec k id n :
  match find_iface k (ifaces n) with
  | Some _ => add_arc_interface k id n = (n, false)
  | None => snd (add_arc_interface k id n) = true /\
            forall k', find_iface k' (ifaces (fst (add_arc_interface k id n))) =
                       if iface_eqb k' k then Some id else find_iface k' (ifaces n)
  end.
Proof.
  destruct n as [p ch ifs]; cbn. destruct (find_iface k ifs) eqn:E; [reflexivity|].
  cbn. split; [reflexivity|]. intros k'. reflexivity.
Qed.

Lemma remove_iface_children k n : children (fst (remove_interface k n)) = children n.
Proof. destruct n as [p ch ifs]; cbn. destruct (find_iface k ifs); reflexivity. Qed.

Lemma remove_iface_spec k n :
  match find_iface k (ifaces n) with
  | None => remove_interface k n = (n, false)
  | Some _ => snd (remove_interface k n) = true /\
              forall k', find_iface k' (ifaces (fst (remove_interface k n))) =
                         if iface_eqb k' k then None else find_iface k' (ifaces n)
  end.
Proof.
  destruct n as [p ch ifs]; cbn. destruct (find_iface k ifs) eqn:E; [|reflexivity].
  cbn. split; [reflexivity|]. intros k'.
  destruct (iface_eqb k' k) eqn:E2.
  - apply iface_eqb_eq in E2; subst. apply find_del_iface_same.
  - apply iface_eqb_false in E2. apply find_del_iface_other; exact E2.
Qed.

Lemma find_iface_in k l v : find_iface k l = Some v -> In (k, v) l.
Proof.
  induction l as [|[k' v'] l IH]; cbn; [discriminate|].
  destruct (iface_eqb k k') eqn:E.
  - apply iface_eqb_eq in E; subst. intros H; inversion H; subst. left; reflexivity.
  - intros H; right; apply IH; exact H.
Qed.

Lemma in_find_iface k v l : In (k, v) l -> exists v', find_iface k l = Some v'.
Proof.
  induction l as [|[k' v'] l IH]; cbn; [contradiction|].
  intros [H | H].
  - inversion H; subst. rewrite iface_eqb_refl. eexists; reflexivity.
  - destruct (iface_eqb k k'); [eexists; reflexivity | apply IH; exact H].
Qed.

(* Node::is_empty (since fix 71f8bd70): no key outside the three names Node::new registers *)
Lemma is_empty_spec n : is_empty n = true <-> forall k, std3 k = false -> find_iface k (ifaces n) = None.
Proof.
  unfold is_empty. rewrite negb_true_iff. split.
  - intros H k Hk. destruct (find_iface k (ifaces n)) eqn:E; [|reflexivity].
    apply find_iface_in in E.
    assert (existsb (fun e => negb (std3 (fst e))) (ifaces n) = true).
    { apply existsb_exists. exists (k, n0). split; [exact E | cbn; rewrite Hk; reflexivity]. }
    congruence.
  - intros H. destruct (existsb (fun e => negb (std3 (fst e))) (ifaces n)) eqn:E; [|reflexivity].
    apply existsb_exists in E as [[k v] [Hin Hk]]. cbn in Hk. apply negb_true_iff in Hk.
    destruct (in_find_iface _ _ _ Hin) as [v' Hv]. rewrite (H k Hk) in Hv. discriminate.
Qed.

(* every name outside those three is the name of one of the four kinds of a history *)
Lemma non_std3_is_kind k : std3 k = false -> exists kk, k = ik kk.
Proof.
  destruct k; cbn; intros H; try discriminate;
    [exists K1 | exists K2 | exists K3 | exists KM]; reflexivity.
Qed.

(* ---- with_node with creation always finds (or makes) the node *)
Lemma with_node_create {R} (f : node -> option path -> node * R) : forall p n np mgr,
  with_node n p true np mgr f <> None.
Proof.
  induction p as [|i rest IH]; intros n np mgr; cbn; [discriminate|].
  set (mgr' := match find_iface OM (ifaces n) with Some _ => Some (npath n) | None => mgr end).
  destruct (find_child i (children n)) as [c0|].
  - specialize (IH c0 (np ++ [i]) mgr'). destruct (with_node c0 rest true (np ++ [i]) mgr' f) as [[? ?]|]; [discriminate | contradiction].
  - specialize (IH (new_node (np ++ [i])) (np ++ [i]) mgr').
    destruct (with_node (new_node (np ++ [i])) rest true (np ++ [i]) mgr' f) as [[? ?]|]; [discriminate | contradiction].
Qed.

(* lookups strictly below the node found are untouched when the mutation keeps the children *)
Lemma ulookup_below n n' p c c' q k :
  (get_child n p = Some c \/ (get_child n p = None /\ fresh c)) ->
  get_child n' p = Some c' -> children c' = children c -> q <> [] ->
  ulookup n' (p ++ q) k = ulookup n (p ++ q) k.
Proof.
  intros Hfound Hget Hch Hq. unfold ulookup. rewrite !get_child_app, Hget.
  rewrite (get_child_same_children c' c q Hch Hq).
  destruct Hfound as [-> | [-> [Hleaf _]]]; [reflexivity|].
  rewrite (get_child_leaf c q Hleaf Hq). reflexivity.
Qed.

(* ---- the abstraction and the invariant *)
Definition Inv (t : node) (s : smap) : Prop := forall p k, ulookup t p (ik k) = sget s p k.

Lemma Inv_init : Inv root0 [].
Proof.
  intros p k. unfold ulookup. destruct p as [|i p]; cbn; [destruct k; reflexivity | reflexivity].
Qed.

Definition at_fun (k : iface) (id : N) : node -> option path -> node * (bool * option path * node) :=
  fun n mgr => let '(n', added) := add_arc_interface k id n in (n', (added, mgr, n')).

Lemma at_unfold root p k id :
  at_ root p k id =
  match with_node root p true [] None (at_fun k id) with
  | None => (root, Panic PUnwrap, [])
  | Some (root', (added, mgr, n')) =>
      if added then
        if iface_eqb k OM then
          (root', Ok true, map (fun e => SAdded p (fst e) (snd e)) (get_managed_objects n'))
        else
          match mgr with
          | Some m =>
              match get_properties n' k with
              | Some ps => (root', Ok true, [SAdded m p [(k, ps)]])
              | None => (root', Panic PUnwrap, [])
              end
          | None => (root', Ok true, [])
          end
      else (root', Ok false, [])
  end.
Proof. reflexivity. Qed.

(* state and result of `at`, signals aside *)
Lemma at_state root p k id :
  exists root' c m,
    (get_child root p = Some c \/ (get_child root p = None /\ fresh c)) /\
    get_child root' p = Some (fst (add_arc_interface k id c)) /\
    (forall q k', prefix p q = false -> std3 k' = false -> ulookup root' q k' = ulookup root q k') /\
    fst (at_ root p k id) = (root', Ok (snd (add_arc_interface k id c))) /\
    with_node root p true [] None (at_fun k id) =
      Some (root', (snd (add_arc_interface k id c), m, fst (add_arc_interface k id c))).
Proof.
  destruct (with_node root p true [] None (at_fun k id)) as [[root' [[added mgr] n']]|] eqn:Hw;
    [|exfalso; eapply with_node_create; exact Hw].
  destruct (with_node_spec _ _ _ _ _ _ _ _ Hw) as [c [m [Hfound [Hr [Hget Hframe]]]]].
  unfold at_fun in Hr, Hget. destruct (add_arc_interface k id c) as [c' b] eqn:Hadd. cbn in Hr, Hget.
  inversion Hr; subst added mgr n'; clear Hr.
  exists root', c, m. rewrite Hadd; cbn.
  split; [destruct Hfound as [H | [H [_ H2]]]; [left; exact H | right; split; assumption]|].
  split; [exact Hget|]. split; [exact Hframe|]. split; [|reflexivity].
  rewrite at_unfold, Hw.
  destruct b; [|reflexivity].
  destruct (iface_eqb k OM); [reflexivity|].
  destruct m as [mp|]; [|reflexivity].
  unfold get_properties.
  pose proof (add_arc_spec k id c) as Hs. rewrite Hadd in Hs. cbn in Hs.
  destruct (find_iface k (ifaces c)) eqn:Ek.
  - inversion Hs.
  - destruct Hs as [_ Hs]. rewrite (Hs k), iface_eqb_refl. reflexivity.
Qed.

Lemma at_refines t s p k id :
  Inv t s ->
  Inv (fst (fst (at_ t p (ik k) id))) (fst (spec_step s (At p k id))) /\
  res_prop (At p k id) (snd (fst (at_ t p (ik k) id))) = snd (spec_step s (At p k id)).
Proof.
  intros HI.
  destruct (at_state t p (ik k) id) as [root' [c [m [Hfound [Hget [Hframe [Hres _]]]]]]].
  destruct (at_ t p (ik k) id) as [[t' r] sg]; cbn in Hres; inversion Hres; subst t' r; clear Hres. cbn [fst snd].
  assert (Hcur : find_iface (ik k) (ifaces c) = sget s p k).
  { rewrite <- HI. unfold ulookup. destruct Hfound as [-> | [-> [_ Hf]]]; [reflexivity|].
    apply Hf. apply ik_not_std3. }
  pose proof (add_arc_spec (ik k) id c) as Hs.
  cbn [spec_step]. rewrite <- Hcur.
  destruct (find_iface (ik k) (ifaces c)) eqn:Ek.
  - (* duplicate: refused, nothing changes *)
    rewrite Hs in *. cbn [fst snd res_obs res_prop]. split; [|reflexivity].
    intros q k'. rewrite <- HI.
    destruct (prefix p q) eqn:Epq; [|apply Hframe; [exact Epq | apply ik_not_std3]].
    apply prefix_app in Epq as [r ->].
    destruct r as [|x r].
    + rewrite app_nil_r. unfold ulookup. rewrite Hget.
      destruct Hfound as [-> | [-> [_ Hf]]]; [reflexivity|].
      rewrite Hf in Ek; [discriminate | apply ik_not_std3].
    + apply (ulookup_below t root' p c c); [exact Hfound | exact Hget | reflexivity | discriminate].
  - destruct Hs as [Hadded Hs]. rewrite Hadded. cbn [fst snd res_obs res_prop]. split; [|reflexivity].
    intros q k'.
    destruct (prefix p q) eqn:Epq.
    + apply prefix_app in Epq as [r ->].
      destruct r as [|x r].
      * rewrite app_nil_r. unfold ulookup. rewrite Hget, Hs.
        destruct (iface_eqb (ik k') (ik k)) eqn:E.
        -- apply iface_eqb_eq, ik_inj in E; subst k'. rewrite sget_sput_same. reflexivity.
        -- rewrite sget_sput_other.
           ++ rewrite <- HI. unfold ulookup. destruct Hfound as [-> | [-> [_ Hf]]]; [reflexivity|].
              apply Hf. apply ik_not_std3.
           ++ intros H; inversion H; subst. rewrite iface_eqb_refl in E. discriminate.
      * rewrite (ulookup_below t root' p c (fst (add_arc_interface (ik k) id c)));
          [| exact Hfound | exact Hget | apply add_arc_children | discriminate].
        rewrite sget_sput_other; [apply HI|].
        intros H; inversion H as [[H1 H2]]. apply (f_equal (@length _)) in H1. rewrite app_length in H1. cbn in H1. lia.
    + rewrite Hframe; [| exact Epq | apply ik_not_std3].
      rewrite sget_sput_other; [apply HI|].
      intros H; inversion H; subst. rewrite prefix_refl in Epq. discriminate.
Qed.

(* ---- remove *)
Definition remove_fun (k : iface) : node -> option path -> node * (bool * option path * bool) :=
  fun n mgr => let '(n', removed) := remove_interface k n in (n', (removed, mgr, destroyable n')).
Definition drop_fun (last : seg) : node -> option path -> node * unit :=
  fun par _ => let '(par', _) := remove_node last par in (par', tt).

Lemma remove_unfold root p k :
  remove root p k =
  match with_node root p false [] None (remove_fun k) with
  | None => (root, Err InterfaceNotFound, [])
  | Some (root', (removed, mgr, destroy)) =>
      if negb removed then (root', Err InterfaceNotFound, [])
      else
        let sigs := match mgr with Some m => [SRemoved m p [k]] | None => [] end in
        if destroy then
          match rev p with
          | [] => (root', Ok false, sigs)
          | last :: rparent =>
              match with_node root' (rev rparent) false [] None (drop_fun last) with
              | Some (root'', _) => (root'', Ok true, sigs)
              | None => (root', Panic PUnwrap, sigs)
              end
          end
        else (root', Ok false, sigs)
  end.
Proof. reflexivity. Qed.

Lemma prefix_app_l pp : forall a b, prefix (pp ++ a) (pp ++ b) = prefix a b.
Proof. induction pp as [|x pp IH]; intros a b; cbn; [reflexivity|]. rewrite lbeq_refl. apply IH. Qed.

Lemma prefix_app_weaken a b : forall q, prefix (a ++ b) q = true -> prefix a q = true.
Proof.
  induction a as [|x a IH]; intros q H; cbn in *; [reflexivity|].
  destruct q as [|y q]; [discriminate|]. apply andb_true_iff in H as [H1 H2].
  rewrite H1. cbn. apply IH; exact H2.
Qed.

Lemma remove_node_spec last n :
  ifaces (fst (remove_node last n)) = ifaces n /\
  find_child last (children (fst (remove_node last n))) = None /\
  forall j, j <> last -> find_child j (children (fst (remove_node last n))) = find_child j (children n).
Proof.
  destruct n as [p ch ifs]; cbn. destruct (find_child last ch) eqn:E; cbn.
  - split; [reflexivity|]. split; [apply find_del_child_same|]. intros j Hj. apply find_del_child_other; exact Hj.
  - split; [reflexivity|]. split; [exact E|]. reflexivity.
Qed.

(* deleting the child [last] of the node at pp: everything at or below pp/last is gone, the rest stays *)
Lemma drop_spec pp last n np mgr n' r :
  with_node n pp false np mgr (drop_fun last) = Some (n', r) ->
  forall q k, std3 k = false ->
    ulookup n' q k = if prefix (pp ++ [last]) q then None else ulookup n q k.
Proof.
  intros Hw q k Hk.
  destruct (with_node_spec _ _ _ _ _ _ _ _ Hw) as [c [m [Hfound [_ [Hget Hframe]]]]].
  destruct Hfound as [Hc | [_ [Hcr _]]]; [|discriminate].
  unfold drop_fun in Hget. destruct (remove_node last c) as [c'' b] eqn:Hrm. cbn in Hget.
  pose proof (remove_node_spec last c) as Hs. rewrite Hrm in Hs. cbn in Hs. destruct Hs as [Hif [Hlast Hother]].
  destruct (prefix pp q) eqn:Epq.
  - apply prefix_app in Epq as [rr ->]. rewrite prefix_app_l.
    unfold ulookup. rewrite !get_child_app, Hget, Hc.
    destruct rr as [|j rr]; cbn.
    + rewrite Hif. reflexivity.
    + destruct (lbeq last j) eqn:E.
      * apply lbeq_eq in E; subst j. rewrite Hlast. reflexivity.
      * apply lbeq_false in E. rewrite Hother by congruence. reflexivity.
  - rewrite (Hframe q k Epq Hk).
    destruct (prefix (pp ++ [last]) q) eqn:E; [|reflexivity].
    apply prefix_app_weaken in E. congruence.
Qed.

(* state and result of `remove`, signals aside *)
Lemma remove_state root p k :
  match get_child root p with
  | None => fst (remove root p k) = (root, Err InterfaceNotFound)
  | Some c =>
      match find_iface k (ifaces c) with
      | None =>
          exists root', fst (remove root p k) = (root', Err InterfaceNotFound) /\
                        forall q k', std3 k' = false -> ulookup root' q k' = ulookup root q k'
      | Some _ =>
          let c' := fst (remove_interface k c) in
          exists root',
            get_child root' p = Some c' /\
            (forall q k', prefix p q = false -> std3 k' = false -> ulookup root' q k' = ulookup root q k') /\
            if destroyable c' then
              match p with
              | [] => fst (remove root p k) = (root', Ok false)
              | _ :: _ =>
                  exists root'', fst (remove root p k) = (root'', Ok true) /\
                    forall q k', std3 k' = false ->
                      ulookup root'' q k' = if prefix p q then None else ulookup root' q k'
              end
            else fst (remove root p k) = (root', Ok false)
      end
  end.
Proof.
  rewrite remove_unfold.
  destruct (with_node root p false [] None (remove_fun k)) as [[root' [[removed mgr] empty]]|] eqn:Hw.
  2:{ apply with_node_none in Hw. rewrite Hw. reflexivity. }
  destruct (with_node_spec _ _ _ _ _ _ _ _ Hw) as [c [m [Hfound [Hr [Hget Hframe]]]]].
  destruct Hfound as [Hc | [_ [Hcr _]]]; [|discriminate]. rewrite Hc.
  unfold remove_fun in Hr, Hget. destruct (remove_interface k c) as [c' b] eqn:Hrm. cbn in Hr, Hget.
  inversion Hr; subst removed mgr empty; clear Hr.
  pose proof (remove_iface_spec k c) as Hs. rewrite Hrm in Hs.
  destruct (find_iface k (ifaces c)) eqn:Ek.
  - destruct Hs as [Hb Hs]. cbn in Hb, Hs. subst b. cbn [negb fst].
    exists root'. split; [exact Hget|]. split; [exact Hframe|].
    destruct (destroyable c') eqn:Ee; [|reflexivity].
    destruct p as [|x p0]; [reflexivity|].
    destruct (rev (x :: p0)) as [|last rparent] eqn:Erev.
    { apply (f_equal (@length _)) in Erev. rewrite rev_length in Erev. discriminate. }
    assert (Hp : x :: p0 = rev rparent ++ [last]).
    { rewrite <- (rev_involutive (x :: p0)), Erev. reflexivity. }
    destruct (with_node root' (rev rparent) false [] None (drop_fun last)) as [[root'' u]|] eqn:Hd.
    + exists root''. split; [reflexivity|]. intros q k' Hk'. rewrite Hp.
      eapply drop_spec; eassumption.
    + exfalso. apply with_node_none in Hd. rewrite Hp, get_child_app, Hd in Hget. discriminate.
  - inversion Hs; subst c' b. cbn [negb].
    exists root'. split; [reflexivity|]. intros q k' Hk'.
    destruct (prefix p q) eqn:Epq; [|apply Hframe; assumption].
    apply prefix_app in Epq as [r ->]. unfold ulookup. rewrite !get_child_app, Hget, Hc. reflexivity.
Qed.

Lemma bare_spec s p : bare s p = true <-> forall k, sget s p k = None.
Proof.
  unfold bare, all_kinds; cbn. split.
  - intros H k.
    destruct (sget s p K1) eqn:E1; [discriminate|].
    destruct (sget s p K2) eqn:E2; [discriminate|].
    destruct (sget s p K3) eqn:E3; [discriminate|].
    destruct (sget s p KM) eqn:E4; [discriminate|].
    destruct k; assumption.
  - intros H. rewrite (H K1), (H K2), (H K3), (H KM). reflexivity.
Qed.

Lemma has_children_false_leaf n q : has_children n = false -> q <> [] -> get_child n q = None.
Proof.
  unfold has_children. intros H Hq. apply get_child_leaf; [|exact Hq]. destruct (children n); [reflexivity | discriminate].
Qed.

Lemma remove_refines t s p k :
  Inv t s ->
  Inv (fst (fst (remove t p (ik k)))) (fst (spec_step s (Rm p k))) /\
  res_prop (Rm p k) (snd (fst (remove t p (ik k)))) = snd (spec_step s (Rm p k)) /\
  (* beyond the property: a node reported destroyed had nothing left registered at p *)
  (snd (fst (remove t p (ik k))) = Ok true -> bare (sdel s p k) p = true).
Proof.
  intros HI.
  pose proof (remove_state t p (ik k)) as Hst.
  pose proof (HI p k) as Hpk. unfold ulookup in Hpk.
  cbn [spec_step].
  destruct (get_child t p) as [c|] eqn:Hc.
  2:{ rewrite <- Hpk. destruct (remove t p (ik k)) as [[t' r] sg]. cbn in Hst. inversion Hst; subst.
      cbn. split; [exact HI|]. split; [reflexivity | discriminate]. }
  destruct (find_iface (ik k) (ifaces c)) as [v|] eqn:Ek.
  2:{ rewrite <- Hpk. destruct Hst as [root' [Hres Hsame]].
      destruct (remove t p (ik k)) as [[t' r] sg]. cbn in Hres. inversion Hres; subst. cbn.
      split; [|split; [reflexivity | discriminate]]. intros q k'. rewrite Hsame by apply ik_not_std3. apply HI. }
  rewrite <- Hpk in *. cbn zeta in Hst.
  destruct Hst as [root' [Hget [Hframe Hrest]]].
  pose proof (remove_iface_spec (ik k) c) as Hs. rewrite Ek in Hs. destruct Hs as [_ Hs].
  (* the state after dropping the interface, before any node deletion *)
  assert (HI' : Inv root' (sdel s p k)).
  { intros q k'. destruct (prefix p q) eqn:Epq.
    - apply prefix_app in Epq as [r ->]. destruct r as [|x r].
      + rewrite app_nil_r. unfold ulookup. rewrite Hget, Hs.
        destruct (iface_eqb (ik k') (ik k)) eqn:E.
        * apply iface_eqb_eq, ik_inj in E; subst. rewrite sget_sdel_same. reflexivity.
        * rewrite sget_sdel_other.
          -- rewrite <- HI. unfold ulookup. rewrite Hc. reflexivity.
          -- intros H; inversion H; subst. rewrite iface_eqb_refl in E. discriminate.
      + rewrite (ulookup_below t root' p c (fst (remove_interface (ik k) c)));
          [| left; exact Hc | exact Hget | apply remove_iface_children | discriminate].
        rewrite sget_sdel_other; [apply HI|].
        intros H; inversion H as [[H1 H2]]. apply (f_equal (@length _)) in H1. rewrite app_length in H1. cbn in H1. lia.
    - rewrite Hframe; [| exact Epq | apply ik_not_std3].
      rewrite sget_sdel_other; [apply HI|].
      intros H; inversion H; subst. rewrite prefix_refl in Epq. discriminate. }
  (* is_empty of the node = nothing at all registered at p in the flat map *)
  assert (Hem : is_empty (fst (remove_interface (ik k) c)) = bare (sdel s p k) p).
  { destruct (bare (sdel s p k) p) eqn:E.
    - apply is_empty_spec. intros k' Hk'. rewrite bare_spec in E.
      destruct (non_std3_is_kind k' Hk') as [kk ->].
      specialize (HI' p kk). unfold ulookup in HI'. rewrite Hget in HI'. rewrite HI'. apply E.
    - destruct (is_empty (fst (remove_interface (ik k) c))) eqn:E2; [|reflexivity].
      rewrite is_empty_spec in E2. exfalso.
      assert (bare (sdel s p k) p = true); [|congruence].
      apply bare_spec. intros k'. rewrite <- HI'. unfold ulookup. rewrite Hget. apply E2. apply ik_not_std3. }
  unfold destroyable in Hrest. rewrite Hem in Hrest.
  destruct (bare (sdel s p k) p && negb (has_children (fst (remove_interface (ik k) c)))) eqn:Ed.
  - apply andb_true_iff in Ed as [Ebare Ech]. apply negb_true_iff in Ech.
    destruct p as [|x p0].
    + (* the root is never destroyed *)
      destruct (remove t [] (ik k)) as [[t' r] sg]. cbn in Hrest. inversion Hrest; subst t' r. cbn [fst snd res_obs res_prop].
      split; [exact HI'|]. split; [reflexivity | discriminate].
    + (* a leaf with nothing registered at it is destroyed: nothing was registered below it either *)
      destruct Hrest as [root'' [Hres Hdrop]].
      destruct (remove t (x :: p0) (ik k)) as [[t' r] sg]. cbn in Hres. inversion Hres; subst t' r. cbn [fst snd res_obs res_prop].
      split.
      * intros q k'. rewrite Hdrop by apply ik_not_std3.
        destruct (prefix (x :: p0) q) eqn:Epq; [|apply HI'].
        apply prefix_app in Epq as [r ->]. destruct r as [|y r].
        -- rewrite app_nil_r. symmetry. rewrite bare_spec in Ebare. apply Ebare.
        -- rewrite <- HI'. unfold ulookup. rewrite get_child_app, Hget.
           rewrite (has_children_false_leaf _ (y :: r) Ech); [reflexivity | discriminate].
      * split; [reflexivity|]. intros _. exact Ebare.
  - destruct (remove t p (ik k)) as [[t' r] sg]. cbn in Hrest. inversion Hrest; subst t' r. cbn [fst snd res_obs res_prop].
    split; [exact HI'|]. split; [reflexivity | discriminate].
Qed.

(* ---- histories *)
Lemma step_refines t s o :
  Inv t s ->
  Inv (fst (fst (mstep t o))) (fst (spec_step s o)) /\
  res_prop o (snd (fst (mstep t o))) = snd (spec_step s o).
Proof.
  intros HI. destruct o as [p k id | p k]; cbn [mstep].
  - apply at_refines; exact HI.
  - destruct (remove_refines t s p k HI) as [H1 [H2 _]]. split; assumption.
Qed.

Lemma run_refines : forall h t s,
  Inv t s ->
  Inv (fst (mrun t h)) (fst (spec_run s h)) /\ snd (mrun t h) = snd (spec_run s h).
Proof.
  induction h as [|o h IH]; intros t s HI; cbn [mrun spec_run].
  - split; [exact HI | reflexivity].
  - destruct (step_refines t s o HI) as [HI1 Hr1].
    destruct (mstep t o) as [[t1 x] sg]. destruct (spec_step s o) as [s1 y]. cbn [fst snd] in *.
    destruct (IH t1 s1 HI1) as [HI2 Hr2].
    destruct (mrun t1 h) as [t2 xs]. destruct (spec_run s1 h) as [s2 ys]. cbn [fst snd] in *.
    split; [exact HI2 | congruence].
Qed.

(* the flat map never panics *)
Lemma spec_no_panic : forall h s, ~ In RPanic (snd (spec_run s h)).
Proof.
  induction h as [|o h IH]; intros s; cbn [spec_run]; [intros []|].
  destruct (spec_step s o) as [s1 y] eqn:E1. specialize (IH s1). destruct (spec_run s1 h) as [s2 ys]. cbn [snd] in *.
  intros [H | H]; [|exact (IH H)].
  destruct o as [p k id | p k]; cbn in E1.
  - destruct (sget s p k); inversion E1; subst; discriminate.
  - destruct (sget s p k); inversion E1; subst; discriminate.
Qed.

(* what the three observers of the model see, in terms of ulookup *)
Lemma lookup_ulookup t p k : ok_opt (lookup t p k) = ulookup t p k.
Proof. unfold lookup, ulookup. destruct (get_child t p); [|reflexivity]. destruct (find_iface k (ifaces n)); reflexivity. Qed.
Lemma call_ulookup t p k : ok_opt (call t p k) = ulookup t p k.
Proof. unfold call, ulookup. destruct (get_child t p); [|reflexivity]. destruct (find_iface k (ifaces n)); reflexivity. Qed.
Lemma seen_at_ulookup t p k : seen_at t p k = is_some (ulookup t p k).
Proof. unfold seen_at, introspect, ulookup. destruct (get_child t p); reflexivity. Qed.
Lemma seen_nested_ulookup t p k : seen_nested t p k = is_some (ulookup t p k).
Proof. unfold seen_nested, introspect, ulookup. cbn. destruct (get_child t p); reflexivity. Qed.

(* ---- the theorem, at full strength *)
(* after a history: every (path, interface) pair is looked up, called and introspected exactly as
   the flat map says; the results of all operations are those of the flat map; nothing panicked *)
Definition agrees (h : list op) : Prop :=
  (forall p k, ok_opt (lookup (model_state h) p (ik k)) = sget (spec_state h) p k) /\
  (forall p k, ok_opt (call (model_state h) p (ik k)) = sget (spec_state h) p k) /\
  (forall p k, seen_at (model_state h) p (ik k) = is_some (sget (spec_state h) p k)) /\
  (forall p k, seen_nested (model_state h) p (ik k) = is_some (sget (spec_state h) p k)) /\
  model_results h = spec_results h /\
  ~ In RPanic (model_results h).

Theorem refines : forall h, agrees h.
Proof.
  intros h. destruct (run_refines h root0 [] Inv_init) as [HI Hr].
  unfold agrees, model_state, spec_state, model_results, spec_results.
  repeat split.
  - intros p k. rewrite lookup_ulookup. apply HI.
  - intros p k. rewrite call_ulookup. apply HI.
  - intros p k. rewrite seen_at_ulookup, HI. reflexivity.
  - intros p k. rewrite seen_nested_ulookup, HI. reflexivity.
  - exact Hr.
  - rewrite Hr. apply spec_no_panic.
Qed.

(* beyond the property text: a removal that reports the object destroyed left nothing at all
   registered at the path *)
Theorem remove_flag : forall h p k,
  snd (fst (remove (model_state h) p (ik k))) = Ok true -> bare (sdel (spec_state h) p k) p = true.
Proof.
  intros h p k Hb. destruct (run_refines h root0 [] Inv_init) as [HI _].
  destruct (remove_refines _ _ p k HI) as [_ [_ Hflag]]. apply Hflag. exact Hb.
Qed.

(* ---- examples *)
Definition sa : seg := B "a".
Definition sb : seg := B "b".

(* the three histories that used to break the server are ordinary histories now
   (fixes f5fe3276 and 71f8bd70): no panic at "/", I2 stays at /a/b, the manager stays at /a *)
Definition h_root : list op := [At [] K1 1; Rm [] K1].
Definition h_subtree : list op := [At [sa] K1 1; At [sa; sb] K2 2; Rm [sa] K1].
Definition h_manager : list op := [At [sa] K1 1; At [sa] KM 2; Rm [sa] K1].

Lemma repaired_ok :
  model_results h_root = [RBool true; RDone] /\
  ok_opt (lookup (model_state h_subtree) [sa; sb] (ik K2)) = Some 2%N /\
  ok_opt (lookup (model_state h_manager) [sa] (ik KM)) = Some 2%N /\
  ok_opt (call (model_state h_manager) [sa] (ik KM)) = Some 2%N /\
  seen_at (model_state h_manager) [sa] (ik KM) = true /\
  snd (fst (remove (model_state h_manager) [sa] (ik KM))) = Ok true.
Proof. repeat split; vm_compute; reflexivity. Qed.

(* a history that registers, nests, refuses a duplicate, fails a removal, removes a leaf, adds and
   removes a manager, and removes at the root while another interface stays there *)
Definition h_clean : list op :=
  [At [sa] K1 1; At [sa; sb] K2 2; At [sa] K1 3; Rm [sa; sb] K3; Rm [sa; sb] K2; At [] K3 6; At [] K1 7;
   Rm [] K3; At [sa] KM 9; Rm [sa] KM; At [sa; sb] K1 11; Rm [sa; sb] K1].

Lemma h_clean_ok :
  model_results h_clean = [RBool true; RBool true; RBool false; RErr; RDone; RBool true; RBool true;
                           RDone; RBool true; RDone; RBool true; RDone] /\
  sget (spec_state h_clean) [sa] K1 = Some 1%N /\ sget (spec_state h_clean) [] K1 = Some 7%N /\
  sget (spec_state h_clean) [sa; sb] K1 = None.
Proof. repeat split; vm_compute; reflexivity. Qed.
