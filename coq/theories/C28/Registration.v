(* C28/Registration.v — the state invariant of C28 holds initially and is preserved by ObjectServer::at:
   every tree built by registrations of well-formed instances (and then any history of calls, C28/History.v)
   is [state_ok]. *)
From ZV Require Import Base.Bytes Base.WinnowFacts C26.Desc C26.Tree C26.Msg C27.Model C28.Model C26.Model.
From ZV Require Import C28.Spec C26.Facts C28.Proofs C28.History.

Lemma get_child_empty segs n : get_child empty_node segs = Some n -> n = empty_node.
Proof. destruct segs; cbn; [intro H; now inversion H|discriminate]. Qed.

Lemma find_inst_none_names n x :
  find_inst n x = None -> existsb (lbeq x) (inames n) = false.
Proof.
  unfold find_inst, inames. induction (node_ifs n) as [|j l IH]; cbn; [reflexivity|].
  destruct (lbeq (id_name (in_desc j)) x) eqn:E; [discriminate|]. intro H. rewrite lbeq_sym, E. cbn. auto.
Qed.

Lemma nodupb_snoc l x : nodupb l = true -> existsb (lbeq x) l = false -> nodupb (l ++ [x]) = true.
Proof.
  induction l as [|y l IH]; cbn; [reflexivity|]. intros Hd Hx. apply andb_true_iff in Hd as [H1 H2].
  apply orb_false_iff in Hx as [Hxy Hxl]. apply andb_true_iff. split; [|auto].
  apply negb_true_iff. rewrite existsb_app. cbn. rewrite orb_false_r. apply negb_true_iff in H1. rewrite H1.
  cbn. now rewrite lbeq_sym.
Qed.

(* what a node of the tree after `at` looks like *)
Lemma add_at_child i : forall segs root segs' n',
  get_child (fst (add_at root segs i)) segs' = Some n' ->
  (forall j, In j (node_ifs n') -> j = i \/ exists n, get_child root segs' = Some n /\ In j (node_ifs n)) /\
  ((exists n, get_child root segs' = Some n /\
              (inames n' = inames n \/
               (inames n' = inames n ++ [id_name (in_desc i)] /\ find_inst n (id_name (in_desc i)) = None))) \/
   (get_child root segs' = None /\ (inames n' = [] \/ inames n' = [id_name (in_desc i)]))).
Proof.
  induction segs as [|s r IH]; intros root segs' n'.
  - cbn [add_at]. destruct (find_inst root (id_name (in_desc i))) eqn:Ef; cbn [fst].
    + intro H. split; [intros j Hj; right; eauto|]. left. exists n'. auto.
    + destruct segs' as [|s' r']; cbn [get_child node_kids].
      * intro H. inversion H; subst. cbn [node_ifs]. split.
        -- intros j Hj. apply in_app_or in Hj as [Hj|[<-|[]]]; [right; exists root; auto|now left].
        -- left. exists root. split; [reflexivity|]. right. unfold inames. cbn [node_ifs]. rewrite map_app. auto.
      * intro H. split; [intros j Hj; right; exists n'; auto|]. left. exists n'. auto.
  - cbn [add_at].
    destruct (add_at (match find_kid s (node_kids root) with Some c => c | None => empty_node end) r i) as [c' b] eqn:Ea.
    cbn [fst]. destruct segs' as [|s' r']; cbn [get_child node_kids node_ifs].
    + intro H. inversion H; subst. cbn [node_ifs]. split; [intros j Hj; right; exists root; auto|].
      left. exists root. split; [reflexivity|now left].
    + destruct (lbeq s s') eqn:Es.
      * apply lbeq_true in Es. subst s'. rewrite find_kid_set_same. intro H.
        specialize (IH (match find_kid s (node_kids root) with Some c => c | None => empty_node end) r' n').
        rewrite Ea in IH. specialize (IH H). destruct IH as [I1 I2].
        destruct (find_kid s (node_kids root)) as [c|] eqn:Ek.
        -- split; [exact I1|exact I2].
        -- (* the child is new: below it the old tree has nothing *)
           split.
           ++ intros j Hj. destruct (I1 j Hj) as [->|(n & Hg & _)]; [now left|].
              apply get_child_empty in Hg. subst n. destruct (I1 j Hj) as [->|(n & Hg' & Hin)]; [now left|].
              apply get_child_empty in Hg'. subst n. destruct Hin.
           ++ right. split; [reflexivity|].
              destruct I2 as [(n & Hg & [Hn|[Hn _]])|[_ Hn]].
              ** apply get_child_empty in Hg. subst n. left. exact Hn.
              ** apply get_child_empty in Hg. subst n. right. exact Hn.
              ** exact Hn.
      * rewrite (find_kid_set_other _ _ _ _ Es). intro H.
        split; [intros j Hj; right; exists n'; cbn [get_child]; auto|]. left. exists n'. cbn [get_child]. auto.
Qed.

Lemma state_ok_empty : state_ok empty_node.
Proof.
  split.
  - intros segs n i Hg Hin. apply get_child_empty in Hg. subst n. destruct Hin.
  - intros segs n Hg. apply get_child_empty in Hg. subst n. reflexivity.
Qed.

Theorem state_ok_add root segs i :
  state_ok root -> desc_wf (in_desc i) -> inst_ok i -> state_ok (fst (add_at root segs i)).
Proof.
  intros [Hok Hun] Hw Hi. split.
  - intros segs' n' j Hg Hin. destruct (add_at_child i segs root segs' n' Hg) as [I1 _].
    destruct (I1 j Hin) as [->|(n & Hgn & Hjn)]; [split; assumption|]. apply (Hok _ _ _ Hgn Hjn).
  - intros segs' n' Hg. destruct (add_at_child i segs root segs' n' Hg) as [_ I2].
    destruct I2 as [(n & Hgn & [->|[-> Hf]])|[_ [->| ->]]]; try reflexivity.
    + apply (Hun _ _ Hgn).
    + apply nodupb_snoc; [apply (Hun _ _ Hgn)|now apply find_inst_none_names].
Qed.

(* every tree built by registrations of well-formed instances is a well-formed state *)
Fixpoint register_all (root : node) (regs : list (list bytes * inst)) : node :=
  match regs with [] => root | (segs, i) :: r => register_all (fst (add_at root segs i)) r end.

Theorem state_ok_registered regs :
  Forall (fun e => desc_wf (in_desc (snd e)) /\ inst_ok (snd e)) regs -> state_ok (register_all empty_node regs).
Proof.
  assert (G : forall root, state_ok root ->
              Forall (fun e => desc_wf (in_desc (snd e)) /\ inst_ok (snd e)) regs -> state_ok (register_all root regs)).
  { induction regs as [|[segs i] r IH]; intros root Hs Hf; cbn; [exact Hs|].
    inversion Hf as [|? ? [Hw Hi] Hr]; subst. apply IH; [|exact Hr]. now apply state_ok_add. }
  apply G. exact state_ok_empty.
Qed.
