(* C28/Proofs.v — the Properties interface behaves as the property definitions say: theorems over ALL
   interface descriptions, node trees, property values, getter / setter behaviours and call histories. *)
From ZV Require Import Base.Bytes Base.WinnowFacts C26.Desc C26.Tree C26.Msg C27.Model C28.Model C26.Model.
From ZV Require Import C28.Spec C26.Facts.
From ZV Require C10.Model.
From Coq Require Import Lia.

(* ---------------------------------------------------------------- well-formed states *)
(* every property of the instance holds a value of its declared type (the struct's fields are typed) *)
Definition inst_ok (i : inst) : Prop :=
  forall p, In p (id_props (in_desc i)) -> exists v, get_val (pd_name p) (in_vals i) = Some v /\ has_ty v (pd_ty p) = true.

Definition is_std (name : bytes) : bool := existsb (fun d => lbeq (id_name d) name) std_ifaces.

(* what the macro and the compiler guarantee of a registered interface *)
Definition desc_wf (d : idesc) : Prop :=
  is_std (id_name d) = false /\ C10.Model.validate_interface (id_name d) = true /\
  nodupb (map pd_name (id_props d)) = true.

Definition root_ok (root : node) : Prop :=
  forall segs n i, get_child root segs = Some n -> In i (node_ifs n) -> desc_wf (in_desc i) /\ inst_ok i.

Definition props_call (path : bytes) (noreply : bool) (member : bytes) (args : list val) : call :=
  {| c_path := Some path; c_iface := Some props_name; c_member := Some member; c_noreply := noreply; c_args := args |}.

(* the known-deviation classes, as predicates on the state and the request *)
Definition tv (p : pdesc) : bool := ty_eqb (pd_ty p) TV.

Section P.
  Variable bh : behaviour.

  (* ================================================================ routing of a Properties call *)
  Lemma find_inst_in n iface i : find_inst n iface = Some i -> In i (node_ifs n) /\ id_name (in_desc i) = iface.
  Proof. unfold find_inst. intro H. apply find_some in H as [H1 H2]. apply lbeq_true in H2. auto. Qed.

  Lemma no_std_inst root segs n :
    root_ok root -> get_child root segs = Some n -> find_inst n props_name = None.
  Proof.
    intros Hok Hg. destruct (find_inst n props_name) as [i|] eqn:E; [|reflexivity].
    apply find_inst_in in E as [Hin Hn]. destruct (Hok _ _ _ Hg Hin) as [[Hs _] _].
    rewrite Hn in Hs. discriminate.
  Qed.

  Lemma registered_valid root path iface i :
    root_ok root -> registered root path iface = Some i ->
    C10.Model.validate_interface iface = true /\ desc_wf (in_desc i) /\ inst_ok i /\ id_name (in_desc i) = iface.
  Proof.
    unfold registered. intros Hok H. destruct (get_child root (segs_of path)) as [n|] eqn:Hg; [|discriminate].
    apply find_inst_in in H as [Hin Hn]. destruct (Hok _ _ _ Hg Hin) as [Hw Hi].
    destruct Hw as (H1 & H2 & H3). rewrite Hn in H2. repeat split; auto; now rewrite Hn in *.
  Qed.

  Definition routed (root : node) (path iface : bytes) (c : call) (r : presult) : effects * node :=
    match get_child root (segs_of path) with
    | None => (reply_only (RErr EUnknownObject None), root)
    | Some _ => if C10.Model.validate_interface iface then of_presult c r else (reply_only (RErr EInvalidArgs None), root)
    end.

  Lemma route_get root path nr iface pname :
    root_ok root ->
    dispatch bh root (props_call path nr (B "Get") [VS iface; VS pname]) =
    routed root path iface (props_call path nr (B "Get") [VS iface; VS pname]) (props_get bh root path iface pname).
  Proof.
    intro Hok. unfold dispatch, routed. cbn [props_call c_path c_iface c_member].
    destruct (get_child root (segs_of path)) as [n|] eqn:Hg; [|reflexivity].
    rewrite (no_std_inst _ _ _ Hok Hg). reflexivity.
  Qed.

  Lemma route_get_all root path nr iface :
    root_ok root ->
    dispatch bh root (props_call path nr (B "GetAll") [VS iface]) =
    routed root path iface (props_call path nr (B "GetAll") [VS iface]) (props_get_all bh root path iface).
  Proof.
    intro Hok. unfold dispatch, routed. cbn [props_call c_path c_iface c_member].
    destruct (get_child root (segs_of path)) as [n|] eqn:Hg; [|reflexivity].
    rewrite (no_std_inst _ _ _ Hok Hg). reflexivity.
  Qed.

  Lemma route_set root path nr iface pname sent :
    root_ok root ->
    dispatch bh root (props_call path nr (B "Set") [VS iface; VS pname; VV sent]) =
    routed root path iface (props_call path nr (B "Set") [VS iface; VS pname; VV sent])
           (props_set bh root path iface pname sent).
  Proof.
    intro Hok. unfold dispatch, routed. cbn [props_call c_path c_iface c_member].
    destruct (get_child root (segs_of path)) as [n|] eqn:Hg; [|reflexivity].
    rewrite (no_std_inst _ _ _ Hok Hg). reflexivity.
  Qed.

  Lemma is_std_valid iface : is_std iface = true -> C10.Model.validate_interface iface = true.
  Proof.
    unfold is_std, std_ifaces. cbn [existsb]. intro H.
    apply orb_true_iff in H as [H|H]; [apply lbeq_true in H; rewrite <- H; vm_compute; reflexivity|].
    apply orb_true_iff in H as [H|H]; [apply lbeq_true in H; rewrite <- H; vm_compute; reflexivity|].
    apply orb_true_iff in H as [H|H]; [apply lbeq_true in H; rewrite <- H; vm_compute; reflexivity|discriminate].
  Qed.

  (* ================================================================ meeting an expectation *)
  Lemma meets_any_error nr root e c :
    c_noreply c = nr -> meets (quiet nr root XErrAny) (finish c [] [] (RErr e None), root).
  Proof.
    intros <-. unfold meets, quiet, finish, flagged. cbn. destruct (c_noreply c); cbn; repeat split; eauto.
  Qed.

  Lemma meets_any_error_sent nr root e : meets (quiet nr root XErrAny) (reply_only (RErr e None), root).
  Proof. unfold meets, quiet, flagged. cbn. destruct nr; cbn; repeat split; eauto. Qed.

  Lemma lookup_registered root path iface :
    lookup_iface root path iface =
    match registered root path iface with
    | Some i => TgUser i
    | None => match get_child root (segs_of path) with
              | Some _ => if is_std iface then TgStd else TgNone
              | None => TgNone
              end
    end.
  Proof.
    unfold lookup_iface, registered, is_std. destruct (get_child root (segs_of path)); [|reflexivity].
    destruct (find_inst n iface); reflexivity.
  Qed.

  (* a value of a non-variant type is not a variant: Value::from leaves it as it is *)
  Lemma content_id v t : has_ty v t = true -> ty_eqb t TV = false -> content v = v.
  Proof. intros H Ht. apply has_ty_sig in H. destruct v; try reflexivity. destruct t; cbn in *; discriminate. Qed.

  Lemma convert_typed v t : ty_eqb t TV = false -> convert t v = if has_ty v t then Some v else None.
  Proof. destruct t; cbn; try reflexivity. discriminate. Qed.

  Lemma getter_of_unique d pname :
    nodupb (map pd_name (id_props d)) = true ->
    getter_of d pname = match find_prop d pname with Some p => if readable p then Some p else None | None => None end.
  Proof. intro H. unfold getter_of, find_prop. apply (find_unique pd_name readable). exact H. Qed.

  Lemma setter_of_unique d pname :
    nodupb (map pd_name (id_props d)) = true ->
    setter_of d pname = match find_prop d pname with Some p => if writable p then Some p else None | None => None end.
  Proof. intro H. unfold setter_of, find_prop. apply (find_unique pd_name writable). exact H. Qed.

  Lemma gen_set_mut_unique d pname :
    nodupb (map pd_name (id_props d)) = true ->
    gen_set_mut d pname =
    match find_prop d pname with Some p => if writable p && pd_smut p then Some p else None | None => None end.
  Proof.
    intro H. unfold gen_set_mut, find_prop. apply (find_unique pd_name (fun p => writable p && pd_smut p)). exact H.
  Qed.

  (* ================================================================ Get *)
  Theorem get_partial root path nr iface pname :
    root_ok root ->
    (forall i p, registered root path iface = Some i -> find_prop (in_desc i) pname = Some p -> readable p = true ->
                 tv p = false) ->
    meets (spec_get bh nr root path iface pname)
          (dispatch bh root (props_call path nr (B "Get") [VS iface; VS pname])).
  Proof.
    intros Hok Hcl. rewrite (route_get _ _ _ _ _ Hok). unfold routed, spec_get.
    destruct (get_child root (segs_of path)) as [n|] eqn:Hg.
    2:{ unfold registered. rewrite Hg. apply meets_any_error_sent. }
    destruct (C10.Model.validate_interface iface) eqn:Hv.
    2:{ destruct (registered root path iface) as [i|] eqn:Hr; [|apply meets_any_error_sent].
        apply (registered_valid _ _ _ _ Hok) in Hr as [Hr _]. congruence. }
    unfold of_presult, props_get. rewrite lookup_registered, Hg.
    destruct (registered root path iface) as [i|] eqn:Hr.
    2:{ destruct (is_std iface); cbn [pr_log pr_reply pr_signals pr_root]; apply meets_any_error; reflexivity. }
    destruct (registered_valid _ _ _ _ Hok Hr) as (_ & (_ & _ & Hnd) & Hi & Hn).
    unfold gen_get. rewrite (getter_of_unique _ _ Hnd).
    destruct (find_prop (in_desc i) pname) as [p|] eqn:Fp.
    2:{ cbn [pr_log pr_reply pr_signals pr_root]; apply meets_any_error; reflexivity. }
    destruct (readable p) eqn:Rp.
    2:{ cbn [pr_log pr_reply pr_signals pr_root]; apply meets_any_error; reflexivity. }
    pose proof (find_prop_name _ _ _ Fp) as [Hpn Hpin]. destruct (Hi p Hpin) as (v & Hgv & Hty).
    specialize (Hcl i p eq_refl Fp Rp). unfold tv in Hcl. subst pname.
    unfold run_getter, getter_error, iname. rewrite Hgv. cbn [pr_log pr_reply pr_signals pr_root].
    destruct (if pd_gfall p then bh_gfail bh (id_name (in_desc i)) (pd_name p) v else None) as [[e m]|] eqn:Eg.
    - unfold meets, finish, flagged. cbn. destruct nr; cbn; repeat split; auto.
    - rewrite (content_id _ _ Hty Hcl). unfold meets, finish, flagged. cbn. destruct nr; cbn; repeat split; auto.
  Qed.

  (* ================================================================ GetAll *)
  Lemma getall_aux i ps :
    inst_ok i -> incl ps (id_props (in_desc i)) ->
    (forall p v, In p ps -> readable p = true -> get_val (pd_name p) (in_vals i) = Some v ->
                 tv p = false /\ getter_error bh i p v = None) ->
    exists m, gen_get_all_aux bh i ps = (map (fun p => LGet (in_tag i) (pd_name p)) (filter readable ps), m) /\
              all_values bh i (filter readable ps) = Some m.
  Proof.
    intros Hi. induction ps as [|p r IH]; intros Hincl Hcl; [exists []; split; reflexivity|].
    destruct IH as (m & Hm & Ha).
    { intros x Hx. apply Hincl. now right. }
    { intros q v Hq. apply Hcl. now right. }
    cbn [gen_get_all_aux filter]. rewrite Hm. destruct (readable p) eqn:Rp; [|exists m; split; [reflexivity|assumption]].
    destruct (Hi p (Hincl p (or_introl eq_refl))) as (v & Hgv & Hty).
    destruct (Hcl p v (or_introl eq_refl) Rp Hgv) as [Htv Hge].
    unfold run_getter. rewrite Hgv. unfold getter_error, iname in *. rewrite Hge.
    exists ((pd_name p, v) :: m). cbn [map all_values]. rewrite Hgv, Ha. unfold getter_error. rewrite Hge.
    rewrite (content_id _ _ Hty Htv). split; reflexivity.
  Qed.

  Theorem get_all_partial root path nr iface :
    root_ok root ->
    (forall i p v, registered root path iface = Some i -> In p (id_props (in_desc i)) -> readable p = true ->
                   get_val (pd_name p) (in_vals i) = Some v -> tv p = false /\ getter_error bh i p v = None) ->
    meets (spec_get_all bh nr root path iface)
          (dispatch bh root (props_call path nr (B "GetAll") [VS iface])).
  Proof.
    intros Hok Hcl. rewrite (route_get_all _ _ _ _ Hok). unfold routed, spec_get_all.
    destruct (get_child root (segs_of path)) as [n|] eqn:Hg.
    2:{ unfold registered. rewrite Hg. rewrite andb_false_r. apply meets_any_error_sent. }
    destruct (C10.Model.validate_interface iface) eqn:Hv.
    2:{ destruct (registered root path iface) as [i|] eqn:Hr.
        - apply (registered_valid _ _ _ _ Hok) in Hr as [Hr _]. congruence.
        - assert (Hs : is_std iface = false).
          { destruct (is_std iface) eqn:E; [|reflexivity]. apply is_std_valid in E. congruence. }
          unfold is_std in Hs. rewrite Hs. apply meets_any_error_sent. }
    unfold of_presult, props_get_all. rewrite lookup_registered, Hg.
    destruct (registered root path iface) as [i|] eqn:Hr.
    2:{ fold (is_std iface). destruct (is_std iface); cbn [pr_log pr_reply pr_signals pr_root negb andb].
        - unfold meets, quiet, finish, flagged. cbn. destruct nr; cbn; repeat split; auto.
        - apply meets_any_error; reflexivity. }
    destruct (registered_valid _ _ _ _ Hok Hr) as (_ & _ & Hi & Hn).
    destruct (getall_aux i (id_props (in_desc i)) Hi (incl_refl _)) as (m & Hm & Ha).
    { intros p v Hp. apply (Hcl i p v eq_refl Hp). }
    unfold gen_get_all. rewrite Hm. unfold readable_props. rewrite Ha.
    unfold meets, finish, flagged. cbn. destruct nr; cbn; repeat split; auto.
  Qed.

  (* ================================================================ Set *)
  Lemma meets_quiet_keep nr root e c lg :
    c_noreply c = nr -> lg = [] ->
    meets (quiet nr root XErrAny) (finish c lg [] (RErr e None), root).
  Proof. intros <- ->. apply meets_any_error. reflexivity. Qed.

  (* the class: the property is variant-typed, or the getter called for the change signal fails *)
  Definition set_known (i : inst) (p : pdesc) (sent : val) : Prop :=
    tv p = true \/
    (has_ty sent (pd_ty p) = true /\ setter_error bh i p sent = None /\ eff_emits p = ETrue /\
     getter_error bh i p sent <> None).

  Lemma get_set_same k v l : get_val k (set_val k v l) = Some v.
  Proof.
    induction l as [|[k0 v0] r IH]; cbn; [now rewrite lbeq_refl|].
    destruct (lbeq k0 k) eqn:E; cbn; rewrite E; [reflexivity|exact IH].
  Qed.

  Theorem set_partial root path nr iface pname sent :
    root_ok root ->
    (forall i p, registered root path iface = Some i -> find_prop (in_desc i) pname = Some p -> writable p = true ->
                 ~ set_known i p sent) ->
    meets (spec_set bh nr root path iface pname sent)
          (dispatch bh root (props_call path nr (B "Set") [VS iface; VS pname; VV sent])).
  Proof.
    intros Hok Hcl. rewrite (route_set _ _ _ _ _ _ Hok). unfold routed, spec_set.
    destruct (get_child root (segs_of path)) as [n|] eqn:Hg.
    2:{ unfold registered. rewrite Hg. apply meets_any_error_sent. }
    destruct (C10.Model.validate_interface iface) eqn:Hv.
    2:{ destruct (registered root path iface) as [i|] eqn:Hr; [|apply meets_any_error_sent].
        apply (registered_valid _ _ _ _ Hok) in Hr as [Hr _]. congruence. }
    unfold of_presult, props_set. rewrite lookup_registered, Hg.
    destruct (registered root path iface) as [i|] eqn:Hr.
    2:{ destruct (is_std iface); cbn [pr_log pr_reply pr_signals pr_root]; apply meets_any_error; reflexivity. }
    destruct (registered_valid _ _ _ _ Hok Hr) as (_ & (_ & _ & Hnd) & Hi & Hn).
    unfold gen_set. rewrite (setter_of_unique _ _ Hnd), (gen_set_mut_unique _ _ Hnd).
    destruct (find_prop (in_desc i) pname) as [p|] eqn:Fp.
    2:{ cbn [pr_log pr_reply pr_signals pr_root]; apply meets_any_error; reflexivity. }
    destruct (writable p) eqn:Wp.
    2:{ cbn [pr_log pr_reply pr_signals pr_root andb]; apply meets_any_error; reflexivity. }
    pose proof (find_prop_name _ _ _ Fp) as [Hpn Hpin].
    specialize (Hcl i p eq_refl Fp Wp). unfold set_known in Hcl.
    assert (Htv : tv p = false) by (destruct (tv p); [exfalso; apply Hcl; now left|reflexivity]).
    (* both branches of the `&self` / `&mut self` split run the same body *)
    assert (Hrun : forall R : pdesc -> presult,
               match (if pd_smut p then DRequiresMut else DAsync p) with
               | DNotFound => {| pr_log := []; pr_reply := RErr EUnknownProperty None; pr_signals := []; pr_root := root |}
               | DRequiresMut => match (if true && pd_smut p then Some p else None) with
                                 | Some q => R q
                                 | None => {| pr_log := []; pr_reply := RErr EUnknownProperty None; pr_signals := []; pr_root := root |}
                                 end
               | DAsync q => R q
               end = R p).
    { intro R. destruct (pd_smut p); reflexivity. }
    rewrite Hrun. clear Hrun. cbn [andb].
    unfold do_set. unfold tv in Htv. rewrite (convert_typed _ _ Htv). cbn [andb].
    destruct (has_ty sent (pd_ty p)) eqn:Hty.
    2:{ cbn [sr_log sr_reply sr_signals sr_vals pr_log pr_reply pr_signals pr_root]. apply meets_any_error; reflexivity. }
    subst pname. unfold setter_error, iname in *. rewrite <- Hn.
    destruct (if pd_sfall p then bh_sfail bh (id_name (in_desc i)) (pd_name p) sent else None) as [[e m]|] eqn:Es.
    { cbn [sr_log sr_reply sr_signals sr_vals pr_log pr_reply pr_signals pr_root].
      unfold meets, finish, flagged. cbn. destruct nr; cbn; repeat split; auto. }
    unfold spec_changed, eff_emits in *.
    destruct (readable p) eqn:Rp.
    2:{ cbn [sr_log sr_reply sr_signals sr_vals pr_log pr_reply pr_signals pr_root].
        unfold meets, finish, flagged. cbn. destruct nr; cbn; repeat split; auto. }
    destruct (pd_emits p) eqn:Em;
      try (cbn [sr_log sr_reply sr_signals sr_vals pr_log pr_reply pr_signals pr_root];
           unfold meets, finish, flagged, changed_signal; cbn; destruct nr; cbn; repeat split; auto; fail).
    (* emits_changed_signal = true: the getter is called for the new value *)
    unfold run_getter. cbn [in_vals in_desc in_tag]. rewrite get_set_same.
    assert (Hge : getter_error bh i p sent = None).
    { destruct (getter_error bh i p sent) eqn:E; [|reflexivity]. exfalso. apply Hcl. right.
      repeat split; auto. congruence. }
    unfold getter_error in Hge. unfold iname. cbn [in_desc]. rewrite Hge.
    rewrite (content_id _ _ Hty Htv).
    cbn [sr_log sr_reply sr_signals sr_vals pr_log pr_reply pr_signals pr_root app].
    unfold meets, finish, flagged, changed_signal; cbn; destruct nr; cbn; repeat split; auto.
  Qed.
End P.
