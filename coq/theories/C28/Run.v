(* C28/Run.v — the line driver of C28: the shared driver (C26/Runner.v) restricted to cases of mode 28. *)
From ZV Require Import Base.Bytes C26.Runner.

Definition run (line : bytes) : bytes := run_mode (B "28") line.
