(* C28/Spec.v — what the property text demands of org.freedesktop.DBus.Properties, written against the abstract
   state "each registered interface instance maps its property names to current values" and the DECLARED
   definitions (type, access, EmitsChangedSignal annotation) — not against the generated code:
     Get     a readable property: its current value (in a variant of the declared type); a fallible getter
             that fails: its error
     GetAll  exactly the readable properties with their current values
     Set     unknown / read-only / wrongly typed: an error, nothing else happens;
             otherwise the setter runs once; if it succeeds the value is stored, the call succeeds, and
             exactly one PropertiesChanged follows for `true` (carrying the new value) and `invalidates`
             (naming it), none for `const` / `false`.
   The expectation language [expect] is shared with C26 and C33. *)
From ZV Require Import Base.Bytes C26.Desc C26.Tree C26.Msg C27.Model.

(* ---------------------------------------------------------------- expectations *)
Inductive xreply :=
| XNone                                   (* no reply *)
| XRet (vals : list val)                  (* exactly one METHOD_RETURN with exactly these top-level values *)
| XRetAny (s : bytes)                     (* exactly one METHOD_RETURN with this body signature *)
| XErr (e : ename) (msg : option bytes)   (* exactly one ERROR with this name (and this message, if Some) *)
| XErrAny                                 (* exactly one ERROR, whatever its name *)
| XOpt (r : xreply).                      (* NO_REPLY_EXPECTED: no reply, or one as r *)

Record expect := { x_reply : xreply; x_log : list logent; x_signals : list sigmsg; x_root : node }.

Fixpoint reply_meets (x : xreply) (rs : list reply) : Prop :=
  match x with
  | XNone => rs = []
  | XRet vals => rs = [RRet vals]
  | XRetAny s => exists vals, rs = [RRet vals] /\ body_sig vals = s
  | XErr e (Some m) => rs = [RErr e (Some m)]
  | XErr e None => exists m, rs = [RErr e m]
  | XErrAny => exists e m, rs = [RErr e m]
  | XOpt r => rs = [] \/ reply_meets r rs
  end.

Definition meets (x : expect) (r : effects * node) : Prop :=
  reply_meets (x_reply x) (ef_replies (fst r)) /\ ef_log (fst r) = x_log x /\
  ef_signals (fst r) = x_signals x /\ snd r = x_root x.

(* NO_REPLY_EXPECTED: a result is not sent; an error MAY still be *)
Definition flagged (noreply : bool) (r : xreply) : xreply :=
  if noreply then match r with XRet _ | XRetAny _ => XNone | _ => XOpt r end else r.

Section Spec.
  Variable bh : behaviour.

  (* the value of declared type t inside the variant of a Get reply / a PropertiesChanged entry *)
  Definition registered (root : node) (path iface : bytes) : option inst :=
    match get_child root (segs_of path) with Some n => find_inst n iface | None => None end.

  Definition getter_error (i : inst) (p : pdesc) (v : val) : option (ename * bytes) :=
    if pd_gfall p then bh_gfail bh (id_name (in_desc i)) (pd_name p) v else None.
  Definition setter_error (i : inst) (p : pdesc) (v : val) : option (ename * bytes) :=
    if pd_sfall p then bh_sfail bh (id_name (in_desc i)) (pd_name p) v else None.

  Definition quiet (noreply : bool) (root : node) (r : xreply) : expect :=
    {| x_reply := flagged noreply r; x_log := []; x_signals := []; x_root := root |}.

  (* ---- Get *)
  Definition spec_get (noreply : bool) (root : node) (path iface pname : bytes) : expect :=
    match registered root path iface with
    | None => quiet noreply root XErrAny
    | Some i =>
        match find_prop (in_desc i) pname with
        | Some p =>
            if readable p then
              match get_val pname (in_vals i) with
              | Some v =>
                  {| x_reply := flagged noreply
                                  match getter_error i p v with
                                  | Some (e, m) => XErr e (Some m)
                                  | None => XRet [VV v]
                                  end;
                     x_log := [LGet (in_tag i) pname]; x_signals := []; x_root := root |}
              | None => quiet noreply root XErrAny
              end
            else quiet noreply root XErrAny
        | None => quiet noreply root XErrAny
        end
    end.

  (* ---- GetAll: the readable properties, in any order (the reply is a dictionary; the log is the order
     in which the getters ran and is not constrained beyond "each readable getter once") *)
  Definition readable_props (i : inst) : list pdesc := filter readable (id_props (in_desc i)).

  Fixpoint all_values (i : inst) (ps : list pdesc) : option (list (bytes * val)) :=
    match ps with
    | [] => Some []
    | p :: r =>
        match get_val (pd_name p) (in_vals i), all_values i r with
        | Some v, Some m => match getter_error i p v with None => Some ((pd_name p, v) :: m) | Some _ => None end
        | _, _ => None
        end
    end.

  Definition spec_get_all (noreply : bool) (root : node) (path iface : bytes) : expect :=
    match registered root path iface with
    | None =>
        if existsb (fun d => lbeq (id_name d) iface) std_ifaces && negb (match get_child root (segs_of path) with None => true | _ => false end)
        then quiet noreply root (XRet [VP []])
        else quiet noreply root XErrAny
    | Some i =>
        {| x_reply := flagged noreply
                        match all_values i (readable_props i) with
                        | Some m => XRet [VP m]
                        | None => XErrAny           (* some getter failed: there is no complete answer *)
                        end;
           x_log := map (fun p => LGet (in_tag i) (pd_name p)) (readable_props i);
           x_signals := []; x_root := root |}
    end.

  (* ---- Set *)
  Definition spec_changed (path : bytes) (i : inst) (p : pdesc) (v : val) : list sigmsg :=
    let mk ch inv := {| sg_path := path; sg_iface := props_name; sg_member := B "PropertiesChanged";
                        sg_body := [VS (id_name (in_desc i)); VP ch; VL inv] |} in
    if readable p then
      match pd_emits p with
      | ETrue => [mk [(pd_name p, v)] []]
      | EInval => [mk [] [pd_name p]]
      | _ => []
      end
    else [].

  Definition spec_set (noreply : bool) (root : node) (path iface pname : bytes) (sent : val) : expect :=
    match registered root path iface with
    | None => quiet noreply root XErrAny
    | Some i =>
        match find_prop (in_desc i) pname with
        | Some p =>
            if writable p && has_ty sent (pd_ty p) then
              match setter_error i p sent with
              | Some (e, m) =>
                  {| x_reply := flagged noreply (XErr e (Some m)); x_log := [LSet (in_tag i) pname sent];
                     x_signals := []; x_root := root |}
              | None =>
                  {| x_reply := flagged noreply (XRet []);
                     x_log := LSet (in_tag i) pname sent ::
                              (if readable p then match pd_emits p with ETrue => [LGet (in_tag i) pname] | _ => [] end else []);
                     x_signals := spec_changed path i p sent;
                     x_root := upd_at root (segs_of path) iface (set_val pname sent (in_vals i)) |}
              end
            else quiet noreply root XErrAny
        | None => quiet noreply root XErrAny
        end
    end.
End Spec.
