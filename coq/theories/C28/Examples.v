(* C28/Examples.v — concrete instances (non-vacuity) and the refutation witnesses of the three classes. *)
From ZV Require Import Base.Bytes Base.WinnowFacts C26.Desc C26.Tree C26.Msg C26.Std C27.Model C28.Model C26.Model.
From ZV Require Import C28.Spec C26.Facts C28.Proofs C28.History C26.Examples.
From ZV Require C10.Model.
From Coq Require Import Lia.

Definition mkp (n : bytes) (t : ty) (a : access) (e : emits) (gf sf : bool) : pdesc :=
  {| pd_name := n; pd_ty := t; pd_acc := a; pd_emits := e; pd_gfall := gf; pd_sfall := sf; pd_smut := true;
     pd_gasync := false; pd_sasync := false; pd_doc := [] |}.

Definition px_d : idesc :=
  {| id_name := B "org.zv.Px"; id_methods := []; id_signals := [];
     id_props := [mkp (B "PTrue") TU ARW ETrue false false; mkp (B "PInval") TS ARW EInval false false;
                  mkp (B "PConst") TU ARW EConst false false; mkp (B "PRo") TU AR ETrue false false;
                  mkp (B "PWo") TS AW EFalse false false; mkp (B "PGf") TU ARW ETrue true false;
                  mkp (B "PVar") TV ARW EFalse false false] |}.

Definition px_path : bytes := B "/zv/a".
Definition px_i : inst := new_inst px_d px_path.
Definition px_root : node := fst (add_at empty_node (segs_of px_path) px_i).

(* user code: the fallible getter fails on odd values, nothing else fails *)
Definition px_bh : behaviour :=
  {| bh_method := fun _ _ _ => HOk [];
     bh_gfail := fun _ _ v => match v with VU n => if N.odd n then Some (EFailed, B "odd") else None | _ => None end;
     bh_sfail := fun _ _ _ => None |}.

Lemma px_inst_ok : inst_ok px_i.
Proof.
  intros p Hp. cbn in Hp. repeat (destruct Hp as [<-|Hp]; [eexists; split; reflexivity|]). destruct Hp.
Qed.

Lemma px_state_ok : state_ok px_root.
Proof.
  split.
  - intros segs n i Hg Hin. rewrite (single_tree _ _ _ _ _ Hg Hin). split; [|apply px_inst_ok].
    repeat split; reflexivity.
  - intros segs n Hg. unfold inames.
    assert (G : forall segs0 i0 segs n, get_child (fst (add_at empty_node segs0 i0)) segs = Some n ->
                                        length (node_ifs n) <= 1).
    { clear. induction segs0 as [|s0 r0 IH]; intros i0 segs n.
      - cbn. destruct segs; cbn; [|discriminate]. intro H. inversion H; subst. cbn. auto.
      - cbn [add_at]. replace (find_kid s0 (node_kids empty_node)) with (@None node) by reflexivity.
        destruct (add_at empty_node r0 i0) as [c' b0] eqn:E.
        cbn [fst node_ifs node_kids set_kid empty_node]. destruct segs as [|s r]; cbn [get_child node_kids find_kid].
        + intro H. inversion H; subst. cbn. auto.
        + destruct (lbeq s0 s); [|discriminate]. intro H. apply (IH i0 r n). now rewrite E. }
    apply G in Hg. destruct (node_ifs n) as [|a [|b r]]; [reflexivity|reflexivity|]. cbn in Hg. lia.
Qed.

(* ---- a history: Set PTrue (one PropertiesChanged with the value), Set PInval (one naming it), Set PConst
        (none), then GetAll lists exactly the readable properties with the values just written *)
Definition px_history : list call :=
  [props_call px_path false (B "Set") [VS (id_name px_d); VS (B "PTrue"); VV (VU 8)];
   props_call px_path false (B "Set") [VS (id_name px_d); VS (B "PInval"); VV (VS (B "x"))];
   props_call px_path true (B "Set") [VS (id_name px_d); VS (B "PConst"); VV (VU 2)]].

Example px_signals :
  ef_signals (fst (dispatch px_bh px_root (nth 0 px_history (props_call [] false [] [])))) =
    [{| sg_path := px_path; sg_iface := props_name; sg_member := B "PropertiesChanged";
        sg_body := [VS (id_name px_d); VP [(B "PTrue", VU 8)]; VL []] |}] /\
  ef_signals (fst (dispatch px_bh px_root (nth 1 px_history (props_call [] false [] [])))) =
    [{| sg_path := px_path; sg_iface := props_name; sg_member := B "PropertiesChanged";
        sg_body := [VS (id_name px_d); VP []; VL [B "PInval"]] |}] /\
  ef_signals (fst (dispatch px_bh px_root (nth 2 px_history (props_call [] false [] [])))) = [].
Proof. repeat split; reflexivity. Qed.

Example px_after_history :
  let st := run_calls px_bh px_root px_history in
  ~ req_known px_bh st px_path (QGet (id_name px_d) (B "PTrue")) /\
  x_reply (req_spec px_bh false st px_path (QGet (id_name px_d) (B "PTrue"))) = XRet [VV (VU 8)] /\
  meets (req_spec px_bh false st px_path (QGet (id_name px_d) (B "PTrue")))
        (dispatch px_bh st (req_call px_path false (QGet (id_name px_d) (B "PTrue")))).
Proof.
  cbn zeta. assert (Hk : ~ req_known px_bh (run_calls px_bh px_root px_history) px_path (QGet (id_name px_d) (B "PTrue"))).
  { intros (i & p & Hr & Hf & _ & Ht). vm_compute in Hr. inversion Hr; subst i. vm_compute in Hf. inversion Hf; subst p.
    discriminate. }
  split; [exact Hk|]. split; [reflexivity|]. apply history_partial; [apply px_state_ok|exact Hk].
Qed.

(* read-only, unknown and wrongly-typed Sets: an error, setter not run, nothing changes *)
Example px_rejects :
  forall q, In q [QSet (id_name px_d) (B "PRo") (VU 1); QSet (id_name px_d) (B "PNope") (VU 1);
                  QSet (id_name px_d) (B "PTrue") (VS (B "x")); QSet (B "org.zv.Nope") (B "PTrue") (VU 1)] ->
    exists e, dispatch px_bh px_root (req_call px_path false q) = (reply_only (RErr e None), px_root) \/
              dispatch px_bh px_root (req_call px_path false q) =
                ({| ef_replies := [RErr e None]; ef_log := []; ef_signals := [] |}, px_root).
Proof.
  intros q Hq. cbn in Hq. repeat (destruct Hq as [<-|Hq]; [eexists; right; reflexivity|]). destruct Hq.
Qed.

(* ---------------------------------------------------------------- the refutations *)
Definition refutes28 (q : preq) : Prop :=
  root_ok px_root /\ req_known px_bh px_root px_path q /\
  ~ meets (req_spec px_bh false px_root px_path q) (dispatch px_bh px_root (req_call px_path false q)).

(* the initial value of PGf is odd or even?  make the getter fail by writing an odd value first *)
Definition px_root_odd : node := snd (dispatch px_bh px_root (props_call px_path false (B "Set") [VS (id_name px_d); VS (B "PGf"); VV (VU 3)])).

(* a Set whose setter succeeded is answered with an error, and no signal, because the getter called for the
   change notification fails — yet the value IS stored *)
Lemma changed_getter_fails_refuted :
  refutes28 (QSet (id_name px_d) (B "PGf") (VU 3)) /\
  get_val (B "PGf") (match registered px_root_odd px_path (id_name px_d) with Some i => in_vals i | None => [] end) = Some (VU 3).
Proof.
  split; [|reflexivity]. split; [apply px_state_ok|]. split.
  - exists px_i, (mkp (B "PGf") TU ARW ETrue true false). repeat split; try reflexivity.
    right. repeat split; try reflexivity. discriminate.
  - unfold meets. vm_compute. intros (H & _). discriminate.
Qed.

(* GetAll silently leaves out a property whose getter fails *)
Lemma getall_omits_failed_refuted :
  root_ok px_root_odd /\ req_known px_bh px_root_odd px_path (QGetAll (id_name px_d)) /\
  ~ meets (req_spec px_bh false px_root_odd px_path (QGetAll (id_name px_d)))
          (dispatch px_bh px_root_odd (req_call px_path false (QGetAll (id_name px_d)))) /\
  exists m, ef_replies (fst (dispatch px_bh px_root_odd (req_call px_path false (QGetAll (id_name px_d))))) = [RRet [VP m]] /\
            get_val (B "PGf") m = None.
Proof.
  split; [apply (proj1 (dispatch_state px_bh px_root _ px_state_ok))|]. split.
  - eexists _, (mkp (B "PGf") TU ARW ETrue true false), (VU 3). repeat split; try reflexivity.
    + vm_compute. auto 10.
    + right. discriminate.
  - split.
    + unfold meets. vm_compute. intros ((e & m & H) & _). discriminate.
    + eexists. split; reflexivity.
Qed.

(* a property of Rust type OwnedValue is declared `v` but its Get reply carries the inner value directly *)
Lemma variant_typed_refuted : refutes28 (QGet (id_name px_d) (B "PVar")).
Proof.
  split; [apply px_state_ok|]. split.
  - exists px_i, (mkp (B "PVar") TV ARW EFalse false false). repeat split; reflexivity.
  - unfold meets. vm_compute. intros (H & _). discriminate.
Qed.

(* ... and a Set with a value that is not a variant is accepted *)
Lemma variant_typed_set_refuted : refutes28 (QSet (id_name px_d) (B "PVar") (VU 5)).
Proof.
  split; [apply px_state_ok|]. split.
  - exists px_i, (mkp (B "PVar") TV ARW EFalse false false). repeat split; try reflexivity. now left.
  - unfold meets. vm_compute. intros ((e & m & H) & _). discriminate.
Qed.

Lemma full_statement_refuted28 :
  ~ (forall (bh : behaviour) (root : node) (path : bytes) (nr : bool) (q : preq),
       root_ok root -> meets (req_spec bh nr root path q) (dispatch bh root (req_call path nr q))).
Proof. intro F. destruct variant_typed_refuted as (R1 & _ & R3). apply R3. apply F. exact R1. Qed.

Lemma changed_getter_fails_refuted_full :
  exists (bh : behaviour) (root : node) (path iface pname : bytes) (sent : val) (i : inst) (p : pdesc),
    root_ok root /\ registered root path iface = Some i /\ find_prop (in_desc i) pname = Some p /\
    writable p = true /\ tv p = false /\ has_ty sent (pd_ty p) = true /\ setter_error bh i p sent = None /\
    eff_emits p = ETrue /\ getter_error bh i p sent <> None /\
    ~ meets (spec_set bh false root path iface pname sent)
            (dispatch bh root (props_call path false (B "Set") [VS iface; VS pname; VV sent])) /\
    (* the reply is an error and there is no signal, yet the value was stored *)
    (exists e m, ef_replies (fst (dispatch bh root (props_call path false (B "Set") [VS iface; VS pname; VV sent]))) = [RErr e m]) /\
    ef_signals (fst (dispatch bh root (props_call path false (B "Set") [VS iface; VS pname; VV sent]))) = [] /\
    exists i', registered (snd (dispatch bh root (props_call path false (B "Set") [VS iface; VS pname; VV sent]))) path iface = Some i' /\
               get_val pname (in_vals i') = Some sent.
Proof.
  destruct changed_getter_fails_refuted as [(R1 & _ & R3) _].
  exists px_bh, px_root, px_path, (id_name px_d), (B "PGf"), (VU 3), px_i, (mkp (B "PGf") TU ARW ETrue true false).
  split; [exact R1|]. do 7 (split; [reflexivity|]). split; [discriminate|]. split; [exact R3|].
  split; [do 2 eexists; reflexivity|]. split; [reflexivity|]. eexists. split; reflexivity.
Qed.

Lemma getall_omits_failed_refuted_full :
  exists (bh : behaviour) (root : node) (path iface : bytes) (i : inst) (p : pdesc) (v : val),
    root_ok root /\ registered root path iface = Some i /\ In p (id_props (in_desc i)) /\ readable p = true /\
    get_val (pd_name p) (in_vals i) = Some v /\ getter_error bh i p v <> None /\
    ~ meets (spec_get_all bh false root path iface) (dispatch bh root (props_call path false (B "GetAll") [VS iface])) /\
    exists m, ef_replies (fst (dispatch bh root (props_call path false (B "GetAll") [VS iface]))) = [RRet [VP m]] /\
              get_val (pd_name p) m = None.
Proof.
  destruct getall_omits_failed_refuted as (R1 & _ & R3 & R4).
  eexists px_bh, px_root_odd, px_path, (id_name px_d), _, (mkp (B "PGf") TU ARW ETrue true false), (VU 3).
  split; [exact R1|]. split; [reflexivity|]. split; [vm_compute; auto 10|]. split; [reflexivity|].
  split; [reflexivity|]. split; [discriminate|]. split; [exact R3|exact R4].
Qed.

Lemma variant_typed_refuted_full :
  exists (bh : behaviour) (root : node) (path iface pname : bytes) (i : inst) (p : pdesc),
    root_ok root /\ registered root path iface = Some i /\ find_prop (in_desc i) pname = Some p /\
    pd_ty p = TV /\ pd_acc p = ARW /\
    ~ meets (spec_get bh false root path iface pname) (dispatch bh root (props_call path false (B "Get") [VS iface; VS pname])) /\
    (* a value that is not a variant is accepted by Set *)
    ef_replies (fst (dispatch bh root (props_call path false (B "Set") [VS iface; VS pname; VV (VU 5)]))) = [RRet []].
Proof.
  destruct variant_typed_refuted as (R1 & _ & R3).
  exists px_bh, px_root, px_path, (id_name px_d), (B "PVar"), px_i, (mkp (B "PVar") TV ARW EFalse false false).
  split; [exact R1|]. do 4 (split; [reflexivity|]). split; [exact R3|reflexivity].
Qed.
