(* C28/Model.v — the property half of what #[zbus::interface] generates (`get`, `get_all`, `set`, `set_mut`,
   `<prop>_changed`, `<prop>_invalidate`: zbus_macros/src/iface.rs, MethodType::Property branch) as functions of
   the description, and `fdo::Properties::{get, set, get_all}` (zbus/src/fdo/properties.rs) on the node tree.
   No proofs here. *)
From ZV Require Import Base.Bytes C26.Desc C26.Tree C26.Msg C27.Model.

Section Props.
  Variable bh : behaviour.

  (* `Value::from(v)` for a value of the property's Rust type: an OwnedValue gives its CONTENT *)
  Definition content (v : val) : val := match v with VV x => x | _ => v end.

  (* `TryInto<T>` from the Value a peer sent: any value converts to OwnedValue; otherwise the types must agree *)
  Definition convert (t : ty) (sent : val) : option val :=
    match t with
    | TV => Some (VV sent)
    | _ => if has_ty sent t then Some sent else None
    end.

  Definition getter_of (d : idesc) (pname : bytes) : option pdesc :=
    find (fun p => readable p && lbeq (pd_name p) pname) (id_props d).
  Definition setter_of (d : idesc) (pname : bytes) : option pdesc :=
    find (fun p => writable p && lbeq (pd_name p) pname) (id_props d).

  Definition iname (i : inst) : bytes := id_name (in_desc i).

  (* the getter function: logs, and fails when it is fallible and the user code says so *)
  Inductive gres := GOk (v : val) | GErr (e : ename) (m : bytes) | GStuck.
  Definition run_getter (i : inst) (p : pdesc) : gres :=
    match get_val (pd_name p) (in_vals i) with
    | None => GStuck
    | Some v =>
        match (if pd_gfall p then bh_gfail bh (iname i) (pd_name p) v else None) with
        | Some (e, m) => GErr e m
        | None => GOk v
        end
    end.

  (* ---- generated `get` *)
  Definition gen_get (i : inst) (pname : bytes) : option (list logent * reply) :=
    match getter_of (in_desc i) pname with
    | None => None
    | Some p =>
        Some ([LGet (in_tag i) (pd_name p)],
              match run_getter i p with
              | GOk v => RRet [VV (content v)]
              | GErr e m => RErr e (Some m)
              | GStuck => RErr EStuck None
              end)
    end.

  (* ---- generated `get_all`: a fallible getter that fails is SKIPPED (`if let Ok(prop) = ..`) *)
  Fixpoint gen_get_all_aux (i : inst) (ps : list pdesc) : list logent * list (bytes * val) :=
    match ps with
    | [] => ([], [])
    | p :: r =>
        let (lg, m) := gen_get_all_aux i r in
        if readable p then
          match run_getter i p with
          | GOk v => (LGet (in_tag i) (pd_name p) :: lg, (pd_name p, content v) :: m)
          | _ => (LGet (in_tag i) (pd_name p) :: lg, m)
          end
        else (lg, m)
    end.
  Definition gen_get_all (i : inst) : list logent * reply :=
    let (lg, m) := gen_get_all_aux i (id_props (in_desc i)) in (lg, RRet [VP m]).

  (* ---- generated `set` / `set_mut` bodies (`do_set`) *)
  (* the emitter is made from the call's path *)
  Definition changed_signal (path : bytes) (i : inst) (changed : list (bytes * val)) (inval : list bytes) : sigmsg :=
    {| sg_path := path; sg_iface := props_name; sg_member := B "PropertiesChanged";
       sg_body := [VS (iname i); VP changed; VL inval] |}.

  (* sr_vals = Some vals: the setter ran and stored; None: the fields are untouched *)
  Record setres := { sr_log : list logent; sr_reply : reply; sr_vals : option (list (bytes * val)); sr_signals : list sigmsg }.

  Definition do_set (path : bytes) (i : inst) (p : pdesc) (sent : val) : setres :=
    match convert (pd_ty p) sent with
    | None => {| sr_log := []; sr_reply := RErr EZBus None; sr_vals := None; sr_signals := [] |}
    | Some v =>
        let lg := [LSet (in_tag i) (pd_name p) v] in
        match (if pd_sfall p then bh_sfail bh (iname i) (pd_name p) v else None) with
        | Some (e, m) => {| sr_log := lg; sr_reply := RErr e (Some m); sr_vals := None; sr_signals := [] |}
        | None =>
            let vals' := set_val (pd_name p) v (in_vals i) in
            let i' := {| in_desc := in_desc i; in_tag := in_tag i; in_vals := vals' |} in
            match eff_emits p with
            | ETrue =>
                (* `<prop>_changed`: calls the getter again; its failure becomes the Set's error *)
                match run_getter i' p with
                | GOk nv => {| sr_log := lg ++ [LGet (in_tag i) (pd_name p)]; sr_reply := RRet [];
                               sr_vals := Some vals'; sr_signals := [changed_signal path i [(pd_name p, content nv)] []] |}
                | _ => {| sr_log := lg ++ [LGet (in_tag i) (pd_name p)]; sr_reply := RErr EZBus None;
                          sr_vals := Some vals'; sr_signals := [] |}
                end
            | EInval => {| sr_log := lg; sr_reply := RRet []; sr_vals := Some vals';
                           sr_signals := [changed_signal path i [] [pd_name p]] |}
            | _ => {| sr_log := lg; sr_reply := RRet []; sr_vals := Some vals'; sr_signals := [] |}
            end
        end
    end.

  (* `set`: Async for a `&self` setter, RequiresMut for a `&mut self` one, NotFound otherwise;
     `set_mut`: only the `&mut self` setters *)
  Inductive dres {A} := DNotFound | DRequiresMut | DAsync (a : A).
  Arguments dres : clear implicits.

  Definition gen_set (d : idesc) (pname : bytes) : dres pdesc :=
    match setter_of d pname with
    | None => DNotFound
    | Some p => if pd_smut p then DRequiresMut else DAsync p
    end.
  Definition gen_set_mut (d : idesc) (pname : bytes) : option pdesc :=
    find (fun p => writable p && pd_smut p && lbeq (pd_name p) pname) (id_props d).

  (* ---- fdo::Properties on the tree.  `root` is the whole tree, `path` the path of the call. *)
  (* interface lookup: the three standard interfaces have no properties *)
  Inductive target := TgUser (i : inst) | TgStd | TgNone.
  Definition lookup_iface (root : node) (path : bytes) (name : bytes) : target :=
    match get_child root (segs_of path) with
    | None => TgNone
    | Some n =>
        match find_inst n name with
        | Some i => TgUser i
        | None => if existsb (fun d => lbeq (id_name d) name) std_ifaces then TgStd else TgNone
        end
    end.

  Record presult := { pr_log : list logent; pr_reply : reply; pr_signals : list sigmsg; pr_root : node }.

  Definition props_get (root : node) (path : bytes) (name pname : bytes) : presult :=
    match lookup_iface root path name with
    | TgNone => {| pr_log := []; pr_reply := RErr EUnknownInterface None; pr_signals := []; pr_root := root |}
    | TgStd => {| pr_log := []; pr_reply := RErr EUnknownProperty None; pr_signals := []; pr_root := root |}
    | TgUser i =>
        match gen_get i pname with
        | None => {| pr_log := []; pr_reply := RErr EUnknownProperty None; pr_signals := []; pr_root := root |}
        | Some (lg, r) => {| pr_log := lg; pr_reply := r; pr_signals := []; pr_root := root |}
        end
    end.

  Definition props_get_all (root : node) (path : bytes) (name : bytes) : presult :=
    match lookup_iface root path name with
    | TgNone => {| pr_log := []; pr_reply := RErr EUnknownInterface None; pr_signals := []; pr_root := root |}
    | TgStd => {| pr_log := []; pr_reply := RRet [VP []]; pr_signals := []; pr_root := root |}
    | TgUser i => let (lg, r) := gen_get_all i in
                  {| pr_log := lg; pr_reply := r; pr_signals := []; pr_root := root |}
    end.

  Definition props_set (root : node) (path : bytes) (name pname : bytes) (sent : val) : presult :=
    match lookup_iface root path name with
    | TgNone => {| pr_log := []; pr_reply := RErr EUnknownInterface None; pr_signals := []; pr_root := root |}
    | TgStd => {| pr_log := []; pr_reply := RErr EUnknownProperty None; pr_signals := []; pr_root := root |}
    | TgUser i =>
        let run p :=
          let r := do_set path i p sent in
          {| pr_log := sr_log r; pr_reply := sr_reply r; pr_signals := sr_signals r;
             pr_root := match sr_vals r with
                        | Some vals => upd_at root (segs_of path) (iname i) vals
                        | None => root
                        end |} in
        match gen_set (in_desc i) pname with
        | DNotFound => {| pr_log := []; pr_reply := RErr EUnknownProperty None; pr_signals := []; pr_root := root |}
        | DAsync p => run p
        | DRequiresMut =>
            match gen_set_mut (in_desc i) pname with
            | Some p => run p
            | None => {| pr_log := []; pr_reply := RErr EUnknownProperty None; pr_signals := []; pr_root := root |}
            end
        end
    end.
End Props.
Arguments dres : clear implicits.
