(* C28/History.v — well-formedness of the state is an invariant of dispatch, so the per-call theorems of
   C28/Proofs.v apply at every step of every history of calls. *)
From ZV Require Import Base.Bytes Base.WinnowFacts C26.Desc C26.Tree C26.Msg C27.Model C28.Model C26.Model.
From ZV Require Import C28.Spec C26.Facts C28.Proofs.

Ltac case_all :=
  repeat match goal with
         | |- context [match ?x with _ => _ end] => destruct x eqn:?
         | |- context [if ?x then _ else _] => destruct x eqn:?
         end.
From ZV Require C10.Model.

(* ---------------------------------------------------------------- the tree after upd_at *)
Lemma find_kid_set_same s c kids : find_kid s (set_kid s c kids) = Some c.
Proof.
  induction kids as [|[k c0] r IH]; cbn; [now rewrite lbeq_refl|].
  destruct (lbeq k s) eqn:E; cbn; rewrite E; [reflexivity|exact IH].
Qed.

Lemma find_kid_set_other s s' c kids : lbeq s s' = false -> find_kid s' (set_kid s c kids) = find_kid s' kids.
Proof.
  intro Hn. induction kids as [|[k c0] r IH]; cbn.
  - now rewrite Hn.
  - destruct (lbeq k s) eqn:E; cbn.
    + apply lbeq_true in E. subst k. now rewrite Hn.
    + destruct (lbeq k s'); [reflexivity|exact IH].
Qed.

(* the instances found anywhere in the updated tree are the old ones, except that the named instance at
   the updated path carries the new values *)
Definition same_or_updated (iname : bytes) (vals : list (bytes * val)) (i' i : inst) : Prop :=
  in_desc i' = in_desc i /\ in_tag i' = in_tag i /\
  (in_vals i' = in_vals i \/ (id_name (in_desc i) = iname /\ in_vals i' = vals)).

Lemma upd_ifs_in iname vals l i' :
  In i' (upd_ifs iname vals l) -> exists i, In i l /\ same_or_updated iname vals i' i.
Proof.
  unfold upd_ifs. intro H. apply in_map_iff in H as (i & <- & Hin). exists i. split; [exact Hin|].
  destruct (lbeq (id_name (in_desc i)) iname) eqn:E; cbn; unfold same_or_updated; cbn; auto.
  apply lbeq_true in E. auto.
Qed.

Definition inames (n : node) : list bytes := map (fun i => id_name (in_desc i)) (node_ifs n).

Lemma upd_ifs_names iname vals l :
  map (fun i => id_name (in_desc i)) (upd_ifs iname vals l) = map (fun i => id_name (in_desc i)) l.
Proof.
  unfold upd_ifs. rewrite map_map. apply map_ext. intro i. destruct (lbeq _ _); reflexivity.
Qed.

Lemma upd_at_child root segs iname vals : forall segs' n',
  get_child (upd_at root segs iname vals) segs' = Some n' ->
  exists n, get_child root segs' = Some n /\ inames n' = inames n /\
            forall i', In i' (node_ifs n') ->
                       exists i, In i (node_ifs n) /\
                                 (i' = i \/ (segs' = segs /\ same_or_updated iname vals i' i)).
Proof.
  revert root. induction segs as [|s r IH]; intros root segs' n'.
  - cbn [upd_at]. destruct segs' as [|s' r']; cbn [get_child node_kids].
    + intro H. inversion H; subst. exists root. split; [reflexivity|]. split; [apply upd_ifs_names|].
      cbn [node_ifs]. intros i' Hi'.
      apply upd_ifs_in in Hi' as (i & Hin & Hs). exists i. auto.
    + intro H. destruct (find_kid s' (node_kids root)) as [c|] eqn:E; [|discriminate].
      exists n'. split; [exact H|]. split; [reflexivity|]. intros i' Hi'. exists i'. auto.
  - cbn [upd_at]. destruct (find_kid s (node_kids root)) as [c|] eqn:Ek.
    2:{ intro H. exists n'. split; [exact H|]. split; [reflexivity|]. intros i' Hi'. exists i'. auto. }
    destruct segs' as [|s' r']; cbn [get_child node_kids node_ifs].
    + intro H. inversion H; subst. exists root. split; [reflexivity|]. split; [reflexivity|].
      cbn [node_ifs]. intros i' Hi'. exists i'. auto.
    + destruct (lbeq s s') eqn:Es.
      * apply lbeq_true in Es. subst s'. rewrite find_kid_set_same, Ek. intro H.
        destruct (IH c r' n' H) as (n & Hg & Hnm & Hn). exists n. split; [exact Hg|]. split; [exact Hnm|].
        intros i' Hi'. destruct (Hn i' Hi') as (i & Hin & [->|[-> Hs]]); exists i; auto.
      * rewrite (find_kid_set_other _ _ _ _ Es). intro H. exists n'. split; [exact H|]. split; [reflexivity|].
        intros i' Hi'. exists i'. split; [exact Hi'|now left].
Qed.

(* ---------------------------------------------------------------- values after a setter ran *)
Lemma get_set_other k k' v l : lbeq k k' = false -> get_val k' (set_val k v l) = get_val k' l.
Proof.
  intro Hn. induction l as [|[k0 v0] r IH]; cbn.
  - now rewrite Hn.
  - destruct (lbeq k0 k) eqn:E; cbn.
    + apply lbeq_true in E. subst k0. now rewrite Hn.
    + destruct (lbeq k0 k'); [reflexivity|exact IH].
Qed.

Lemma nodup_names_distinct {A} (name : A -> bytes) l x y :
  nodupb (map name l) = true -> In x l -> In y l -> name x = name y -> x = y.
Proof.
  induction l as [|z l IH]; cbn [map In]; [tauto|]. intros Hd Hx Hy E. apply nodupb_cons in Hd as [Hn Hd].
  assert (K : forall w, In w l -> name z = name w -> False).
  { intros w Hw Ew. assert (existsb (lbeq (name z)) (map name l) = true); [|congruence].
    apply existsb_exists. exists (name w). split; [now apply in_map|]. rewrite Ew. apply lbeq_refl. }
  destruct Hx as [->|Hx], Hy as [->|Hy]; auto.
  - exfalso. eapply K; eauto.
  - exfalso. eapply K; eauto.
Qed.

Lemma inst_ok_set i p v :
  nodupb (map pd_name (id_props (in_desc i))) = true -> inst_ok i -> In p (id_props (in_desc i)) ->
  has_ty v (pd_ty p) = true ->
  inst_ok {| in_desc := in_desc i; in_tag := in_tag i; in_vals := set_val (pd_name p) v (in_vals i) |}.
Proof.
  intros Hnd Hi Hp Hv q Hq. cbn [in_desc in_vals] in *.
  destruct (lbeq (pd_name p) (pd_name q)) eqn:E.
  - apply lbeq_true in E. assert (q = p) as -> by (symmetry; eapply (nodup_names_distinct pd_name); eauto).
    exists v. split; [apply get_set_same|exact Hv].
  - rewrite (get_set_other _ _ _ _ E). apply Hi. exact Hq.
Qed.

(* ---------------------------------------------------------------- the invariant *)
Section Inv.
  Variable bh : behaviour.

  Lemma convert_has_ty t sent v : convert t sent = Some v -> has_ty v t = true.
  Proof.
    unfold convert. destruct t; try (destruct (has_ty sent _) eqn:E; [|discriminate]; intro H; inversion H; subst; exact E).
    intro H. inversion H. reflexivity.
  Qed.

  (* a setter only ever stores a value of the property's type, under the property's name *)
  Lemma do_set_vals path i p sent vals :
    sr_vals (do_set bh path i p sent) = Some vals ->
    exists v, vals = set_val (pd_name p) v (in_vals i) /\ has_ty v (pd_ty p) = true.
  Proof.
    unfold do_set. destruct (convert (pd_ty p) sent) as [v|] eqn:Ec; [|discriminate].
    apply convert_has_ty in Ec.
    destruct (if pd_sfall p then _ else None) as [[e m]|]; [discriminate|].
    destruct (eff_emits p); try (intro H; inversion H; eauto; fail).
    destruct (run_getter _ _ _); intro H; inversion H; eauto.
  Qed.

  (* the state invariant: well-formed instances, and at most one instance of a name per node *)
  Definition state_ok (root : node) : Prop :=
    root_ok root /\ forall segs n, get_child root segs = Some n -> nodupb (inames n) = true.

  Lemma state_ok_upd root path i p v :
    state_ok root -> registered root path (iname i) = Some i -> In p (id_props (in_desc i)) ->
    has_ty v (pd_ty p) = true ->
    state_ok (upd_at root (segs_of path) (iname i) (set_val (pd_name p) v (in_vals i))).
  Proof.
    intros [Hok Hun] Hr Hp Hv. split.
    - intros segs' n' i' Hg Hin.
      destruct (upd_at_child _ _ _ _ _ _ Hg) as (n & Hgn & _ & Hn).
      destruct (Hn i' Hin) as (i0 & Hin0 & [->|[-> (Hd & Ht & [Hvals|[Hname Hvals]])]]).
      + apply (Hok _ _ _ Hgn Hin0).
      + destruct (Hok _ _ _ Hgn Hin0) as [Hw Hi]. split; [now rewrite Hd|].
        intros q Hq. rewrite Hd in Hq. rewrite Hvals. apply Hi. exact Hq.
      + (* the updated instance is i itself: names are unique in the node *)
        unfold registered in Hr. rewrite Hgn in Hr. unfold find_inst in Hr.
        assert (Hi_in : In i (node_ifs n)) by (apply find_some in Hr; tauto).
        assert (i0 = i) as ->.
        { apply (nodup_names_distinct (fun i => id_name (in_desc i)) (node_ifs n)); auto. apply (Hun _ _ Hgn). }
        destruct (Hok _ _ _ Hgn Hi_in) as [Hw Hi]. split; [now rewrite Hd|].
        destruct Hw as (_ & _ & Hnd).
        intros q Hq. rewrite Hd in Hq. rewrite Hvals.
        apply (inst_ok_set i p v Hnd Hi Hp Hv q Hq).
    - intros segs' n' Hg. destruct (upd_at_child _ _ _ _ _ _ Hg) as (n & Hgn & Hnm & _).
      rewrite Hnm. apply (Hun _ _ Hgn).
  Qed.

  Lemma props_set_state root path iface pname sent :
    state_ok root -> state_ok (pr_root (props_set bh root path iface pname sent)).
  Proof.
    intro Hs. unfold props_set. rewrite lookup_registered.
    destruct (registered root path iface) as [i|] eqn:Hr.
    2:{ destruct (get_child root (segs_of path)); [destruct (is_std iface)|]; exact Hs. }
    destruct (registered_valid _ _ _ _ (proj1 Hs) Hr) as (_ & _ & _ & Hn).
    assert (Hrun : forall p, In p (id_props (in_desc i)) ->
              state_ok (match sr_vals (do_set bh path i p sent) with
                        | Some vals => upd_at root (segs_of path) (iname i) vals
                        | None => root
                        end)).
    { intros p Hp. destruct (sr_vals (do_set bh path i p sent)) as [vals|] eqn:E; [|exact Hs].
      apply do_set_vals in E as (v & -> & Hv). apply state_ok_upd; auto. unfold iname. now rewrite Hn. }
    destruct (gen_set (in_desc i) pname) as [| |p] eqn:Eg; cbn [pr_root]; try exact Hs.
    - destruct (gen_set_mut (in_desc i) pname) as [p|] eqn:Em; cbn [pr_root]; [|exact Hs].
      apply Hrun. unfold gen_set_mut in Em. apply find_some in Em. tauto.
    - apply Hrun. unfold gen_set, setter_of in Eg.
      destruct (find _ (id_props (in_desc i))) as [q|] eqn:Ef; [|discriminate].
      destruct (pd_smut q); inversion Eg; subst. apply find_some in Ef. tauto.
  Qed.

  (* dispatch preserves the invariant: only a successful setter changes the tree *)
  Theorem dispatch_state root c : state_ok root -> state_ok (snd (dispatch bh root c)).
  Proof.
    intro Hs. unfold dispatch. case_all; cbn [snd]; try exact Hs.
    unfold std_call, of_presult. case_all; cbn [snd pr_root props_get props_get_all]; try exact Hs.
    all: try (unfold props_get; case_all; exact Hs).
    all: try (unfold props_get_all; case_all; exact Hs).
    all: apply props_set_state; exact Hs.
  Qed.

  (* every state a history of calls reaches is well-formed *)
  Fixpoint run_calls (root : node) (cs : list call) : node :=
    match cs with [] => root | c :: r => run_calls (snd (dispatch bh root c)) r end.

  Theorem history_state cs : forall root, state_ok root -> state_ok (run_calls root cs).
  Proof. induction cs as [|c r IH]; intros root Hs; cbn; [exact Hs|]. apply IH. now apply dispatch_state. Qed.

  (* ---------------------------------------------------------------- requests, uniformly *)
  Inductive preq := QGet (iface pname : bytes) | QGetAll (iface : bytes) | QSet (iface pname : bytes) (sent : val).

  Definition req_call (path : bytes) (nr : bool) (q : preq) : call :=
    match q with
    | QGet iface pname => props_call path nr (B "Get") [VS iface; VS pname]
    | QGetAll iface => props_call path nr (B "GetAll") [VS iface]
    | QSet iface pname sent => props_call path nr (B "Set") [VS iface; VS pname; VV sent]
    end.
  Definition req_spec (nr : bool) (root : node) (path : bytes) (q : preq) : expect :=
    match q with
    | QGet iface pname => spec_get bh nr root path iface pname
    | QGetAll iface => spec_get_all bh nr root path iface
    | QSet iface pname sent => spec_set bh nr root path iface pname sent
    end.
  (* the known-deviation classes of C28, on the current state *)
  Definition req_known (root : node) (path : bytes) (q : preq) : Prop :=
    match q with
    | QGet iface pname =>                                   (* variant_typed_property *)
        exists i p, registered root path iface = Some i /\ find_prop (in_desc i) pname = Some p /\
                    readable p = true /\ tv p = true
    | QGetAll iface =>                                      (* getall_omits_failed, variant_typed_property *)
        exists i p v, registered root path iface = Some i /\ In p (id_props (in_desc i)) /\ readable p = true /\
                      get_val (pd_name p) (in_vals i) = Some v /\ (tv p = true \/ getter_error bh i p v <> None)
    | QSet iface pname sent =>                              (* variant_typed_property, changed_getter_fails *)
        exists i p, registered root path iface = Some i /\ find_prop (in_desc i) pname = Some p /\
                    writable p = true /\ set_known bh i p sent
    end.

  Theorem request_partial root path nr q :
    root_ok root -> ~ req_known root path q ->
    meets (req_spec nr root path q) (dispatch bh root (req_call path nr q)).
  Proof.
    intros Hok Hk. destruct q as [iface pname|iface|iface pname sent]; cbn [req_spec req_call req_known] in *.
    - apply get_partial; [exact Hok|]. intros i p Hr Hf Hrd. destruct (tv p) eqn:E; [|reflexivity].
      exfalso. apply Hk. eauto 8.
    - apply get_all_partial; [exact Hok|]. intros i p v Hr Hin Hrd Hg. split.
      + destruct (tv p) eqn:E; [|reflexivity]. exfalso. apply Hk. exists i, p, v. auto 8.
      + destruct (getter_error bh i p v) eqn:E; [|reflexivity]. exfalso. apply Hk. exists i, p, v.
        repeat split; auto. right. congruence.
    - apply set_partial; [exact Hok|]. intros i p Hr Hf Hw Hs. apply Hk. eauto 8.
  Qed.

  (* over histories: after ANY sequence of calls, the next Properties request outside the classes (decided
     on the state the history reached) is answered as the definitions say *)
  Theorem history_partial cs root path nr q :
    state_ok root -> ~ req_known (run_calls root cs) path q ->
    meets (req_spec nr (run_calls root cs) path q) (dispatch bh (run_calls root cs) (req_call path nr q)).
  Proof. intros Hs Hk. apply request_partial; [|exact Hk]. exact (proj1 (history_state cs root Hs)). Qed.
End Inv.
