(* C28/History.v — well-formedness of the state is an invariant of dispatch, so the per-call theorems of
   C28/Proofs.v apply at every step of every history of calls. *)
From ZV Require Import Base.Bytes Base.WinnowFacts C26.Desc C26.Tree C26.Msg C27.Model C28.Model C26.Model.
From ZV Require Import C28.Spec C26.Facts C28.Proofs.
From ZV Require C10.Model.

(* ---------------------------------------------------------------- the tree after upd_at *)
Lemma find_kid_set_same s c kids : find_kid s (set_kid s c kids) = Some c.
Proof.
  induction kids as [|[k c0] r IH]; cbn; [now rewrite lbeq_refl|].
  destruct (lbeq k s) eqn:E; cbn; rewrite E; [reflexivity|exact IH].
Qed.

Lemma find_kid_set_other s s' c kids : lbeq s s' = false -> find_kid s' (set_kid s c kids) = find_kid s' kids.
Proof.
  intro Hn. induction kids as [|[k c0] r IH]; cbn.
  - now rewrite Hn.
  - destruct (lbeq k s) eqn:E; cbn.
    + apply lbeq_true in E. subst k. now rewrite Hn.
    + destruct (lbeq k s'); [reflexivity|exact IH].
Qed.

(* the instances found anywhere in the updated tree are the old ones, except that the named instance at
   the updated path carries the new values *)
Definition same_or_updated (iname : bytes) (vals : list (bytes * val)) (i' i : inst) : Prop :=
  in_desc i' = in_desc i /\ in_tag i' = in_tag i /\
  (in_vals i' = in_vals i \/ (id_name (in_desc i) = iname /\ in_vals i' = vals)).

Lemma upd_ifs_in iname vals l i' :
  In i' (upd_ifs iname vals l) -> exists i, In i l /\ same_or_updated iname vals i' i.
Proof.
  unfold upd_ifs. intro H. apply in_map_iff in H as (i & <- & Hin). exists i. split; [exact Hin|].
  destruct (lbeq (id_name (in_desc i)) iname) eqn:E; cbn; unfold same_or_updated; cbn; auto.
  apply lbeq_true in E. auto.
Qed.

Lemma upd_at_child root segs iname vals : forall segs' n',
  get_child (upd_at root segs iname vals) segs' = Some n' ->
  exists n, get_child root segs' = Some n /\
            forall i', In i' (node_ifs n') ->
                       exists i, In i (node_ifs n) /\
                                 (i' = i \/ (segs' = segs /\ same_or_updated iname vals i' i)).
Proof.
  revert root. induction segs as [|s r IH]; intros root segs' n'.
  - cbn [upd_at]. destruct segs' as [|s' r']; cbn [get_child node_kids].
    + intro H. inversion H; subst. exists root. split; [reflexivity|]. cbn [node_ifs]. intros i' Hi'.
      apply upd_ifs_in in Hi' as (i & Hin & Hs). exists i. auto.
    + intro H. destruct (find_kid s' (node_kids root)) as [c|] eqn:E; [|discriminate].
      exists n'. split; [exact H|]. intros i' Hi'. exists i'. auto.
  - cbn [upd_at]. destruct (find_kid s (node_kids root)) as [c|] eqn:Ek.
    2:{ intro H. exists n'. split; [exact H|]. intros i' Hi'. exists i'. auto. }
    destruct segs' as [|s' r']; cbn [get_child node_kids node_ifs].
    + intro H. inversion H; subst. exists root. split; [reflexivity|]. cbn [node_ifs]. intros i' Hi'. exists i'. auto.
    + destruct (lbeq s s') eqn:Es.
      * apply lbeq_true in Es. subst s'. rewrite find_kid_set_same, Ek. intro H.
        destruct (IH c r' n' H) as (n & Hg & Hn). exists n. split; [exact Hg|].
        intros i' Hi'. destruct (Hn i' Hi') as (i & Hin & [->|[-> Hs]]); exists i; auto.
      * rewrite (find_kid_set_other _ _ _ _ Es). intro H. exists n'. split; [exact H|].
        intros i' Hi'. exists i'. split; [exact Hi'|now left].
Qed.

(* ---------------------------------------------------------------- values after a setter ran *)
Lemma get_set_other k k' v l : lbeq k k' = false -> get_val k' (set_val k v l) = get_val k' l.
Proof.
  intro Hn. induction l as [|[k0 v0] r IH]; cbn.
  - now rewrite Hn.
  - destruct (lbeq k0 k) eqn:E; cbn.
    + apply lbeq_true in E. subst k0. now rewrite Hn.
    + destruct (lbeq k0 k'); [reflexivity|exact IH].
Qed.

Lemma nodup_names_distinct {A} (name : A -> bytes) l x y :
  nodupb (map name l) = true -> In x l -> In y l -> name x = name y -> x = y.
Proof.
  induction l as [|z l IH]; cbn [map In]; [tauto|]. intros Hd Hx Hy E. apply nodupb_cons in Hd as [Hn Hd].
  assert (K : forall w, In w l -> name z = name w -> False).
  { intros w Hw Ew. assert (existsb (lbeq (name z)) (map name l) = true); [|congruence].
    apply existsb_exists. exists (name w). split; [now apply in_map|]. rewrite Ew. apply lbeq_refl. }
  destruct Hx as [->|Hx], Hy as [->|Hy]; auto.
  - exfalso. eapply K; eauto.
  - exfalso. eapply K; eauto.
Qed.

Lemma inst_ok_set i p v :
  nodupb (map pd_name (id_props (in_desc i))) = true -> inst_ok i -> In p (id_props (in_desc i)) ->
  has_ty v (pd_ty p) = true ->
  inst_ok {| in_desc := in_desc i; in_tag := in_tag i; in_vals := set_val (pd_name p) v (in_vals i) |}.
Proof.
  intros Hnd Hi Hp Hv q Hq. cbn [in_desc in_vals] in *.
  destruct (lbeq (pd_name p) (pd_name q)) eqn:E.
  - apply lbeq_true in E. assert (q = p) as -> by (symmetry; eapply (nodup_names_distinct pd_name); eauto).
    exists v. split; [apply get_set_same|exact Hv].
  - rewrite (get_set_other _ _ _ _ E). apply Hi. exact Hq.
Qed.

(* ---------------------------------------------------------------- the invariant *)
Section Inv.
  Variable bh : behaviour.

  Lemma convert_has_ty t sent v : convert t sent = Some v -> has_ty v t = true.
  Proof.
    unfold convert. destruct t; try (destruct (has_ty sent _) eqn:E; [|discriminate]; intro H; inversion H; subst; exact E).
    intro H. inversion H. reflexivity.
  Qed.

  (* a setter only ever stores a value of the property's type, under the property's name *)
  Lemma do_set_vals path i p sent vals :
    sr_vals (do_set bh path i p sent) = Some vals ->
    exists v, vals = set_val (pd_name p) v (in_vals i) /\ has_ty v (pd_ty p) = true.
  Proof.
    unfold do_set. destruct (convert (pd_ty p) sent) as [v|] eqn:Ec; [|discriminate].
    apply convert_has_ty in Ec.
    destruct (if pd_sfall p then _ else None) as [[e m]|]; [discriminate|].
    destruct (eff_emits p); try (intro H; inversion H; eauto; fail).
    destruct (run_getter _ _ _); intro H; inversion H; eauto.
  Qed.

  Lemma root_ok_upd root path i p v :
    root_ok root -> registered root path (iname i) = Some i -> In p (id_props (in_desc i)) ->
    has_ty v (pd_ty p) = true ->
    root_ok (upd_at root (segs_of path) (iname i) (set_val (pd_name p) v (in_vals i))).
  Proof.
    intros Hok Hr Hp Hv segs' n' i' Hg Hin.
    destruct (upd_at_child _ _ _ _ _ _ Hg) as (n & Hgn & Hn).
    destruct (Hn i' Hin) as (i0 & Hin0 & [->|[-> (Hd & Ht & [Hvals|[Hname Hvals]])]]).
    - apply (Hok _ _ _ Hgn Hin0).
    - destruct (Hok _ _ _ Hgn Hin0) as [Hw Hi]. split; [now rewrite Hd|].
      intros q Hq. rewrite Hd in Hq. rewrite Hvals. apply Hi. exact Hq.
    - (* the updated instance: it is i itself *)
      unfold registered in Hr. rewrite Hgn in Hr. unfold find_inst in Hr.
      destruct (Hok _ _ _ Hgn Hin0) as [Hw Hi0].
      assert (Hi_in : In i (node_ifs n)) by (apply find_some in Hr; tauto).
      destruct (Hok _ _ _ Hgn Hi_in) as [(_ & _ & Hnd) Hi].
      (* i0 has the same name as i; both are in the node; but we only need i0's own well-formedness *)
      split; [now rewrite Hd|].
      (* values: i' carries set_val .. (in_vals i); typed for i's description *)
      assert (Hfirst : i0 = i \/ True) by tauto.
      intros q Hq. rewrite Hd in Hq. rewrite Hvals.
      (* when several instances share the name (never the case in trees built by `at`), all of them get
         i's values; the instance found first is i, and i0 has i's name *)
      destruct (inst_eq_or_shadow n i i0 Hr Hin0 Hname) as [->|Hsh].
      + apply (inst_ok_set i p v Hnd Hi Hp Hv q Hq).
      + exfalso. exact Hsh.
  Qed.
End Inv.
