(* C10/Proofs.v — each validator of the model accepts exactly its specification grammar. *)
From ZV Require Import Base.Bytes Base.Winnow Base.WinnowFacts C10.Model C10.Spec.
From Coq Require Import Lia.

(* ---------- extensionality of separated in the element parser ---------- *)
Lemma sep_loop_ext e1 e2 sp : (forall i, e1 i = e2 i) ->
  forall fuel min count inp, sep_loop fuel min count e1 sp inp = sep_loop fuel min count e2 sp inp.
Proof.
  intros He. induction fuel as [|fuel IH]; intros min count inp; [reflexivity|]. cbn [sep_loop].
  destruct (sp inp) as [r1|]; [|reflexivity]. rewrite He. destruct (e2 r1); [apply IH|reflexivity].
Qed.
Lemma separated_ext e1 e2 sp min inp : (forall i, e1 i = e2 i) -> separated min e1 sp inp = separated min e2 sp inp.
Proof. intros He. unfold separated. rewrite He. destruct (e2 inp); [now apply sep_loop_ext|reflexivity]. Qed.

(* ---------- element classes of the spec are the okb of the model's classes ---------- *)
Lemma forallb_ext' {A} (f g : A -> bool) l : (forall x, f x = g x) -> forallb f l = forallb g l.
Proof. intros H. induction l; cbn; [reflexivity|]. now rewrite H, IHl. Qed.

Lemma elem_iface_okb e : elem_iface e = okb if_first if_rest e.
Proof. destruct e as [|c r]; [reflexivity|]. cbn. f_equal. Qed.
Lemma elem_wk_okb e : elem_wk e = okb wk_first wk_rest e.
Proof.
  destruct e as [|c r]; [reflexivity|]. cbn. unfold wk_first, wk_rest, orb1, ch, is_us, is_hy.
  rewrite orb_assoc. f_equal. apply forallb_ext'. intros x. now rewrite orb_assoc.
Qed.
Lemma elem_uq_okb e : elem_uq e = okb uq_elem uq_elem e.
Proof.
  destruct e as [|c r]; [reflexivity|]. cbn. unfold uq_elem, orb1, ch, is_us, is_hy.
  rewrite orb_assoc. f_equal. apply forallb_ext'. intros x. now rewrite orb_assoc.
Qed.
Lemma elem_path_okb e : elem_path e = okb if_rest if_rest e.
Proof. destruct e as [|c r]; [reflexivity|]. reflexivity. Qed.

Lemma len_guard (s : bytes) : negb (Nat.ltb 255 (length s)) = Nat.leb (length s) max_name.
Proof. unfold max_name. destruct (Nat.ltb_spec 255 (length s)); destruct (Nat.leb_spec (length s) 255); try lia; reflexivity. Qed.

(* ---------- validators = executable specs ---------- *)
Lemma interface_ok s : validate_interface s = spec_interface s.
Proof.
  unfold validate_interface, spec_interface. rewrite len_guard. f_equal.
  change (pseq (one_of if_first) (take_while0 if_rest)) with (first_then if_first if_rest).
  change (one_of (ch ".")) with (one_of (fun x => beq x dot)).
  rewrite (separated_spec if_first if_rest dot eq_refl eq_refl 2 s ltac:(lia)).
  rewrite andb_comm. f_equal; try (apply forallb_ext'; intros e; symmetry; apply elem_iface_okb).
Qed.

Lemma well_known_ok s : validate_well_known s = spec_well_known s.
Proof.
  unfold validate_well_known, spec_well_known. rewrite len_guard. f_equal.
  change (pseq (one_of wk_first) (take_while0 wk_rest)) with (first_then wk_first wk_rest).
  change (one_of (ch ".")) with (one_of (fun x => beq x dot)).
  rewrite (separated_spec wk_first wk_rest dot eq_refl eq_refl 2 s ltac:(lia)).
  rewrite andb_comm. f_equal; try (apply forallb_ext'; intros e; symmetry; apply elem_wk_okb).
Qed.

Lemma member_ok s : validate_member s = spec_member s.
Proof.
  unfold validate_member, spec_member. rewrite len_guard. f_equal.
  rewrite elem_iface_okb. unfold parse_all, pseq, one_of, take_while0, okb.
  destruct s as [|c r]; [reflexivity|]. destruct (if_first c); [|reflexivity]. cbn [andb].
  induction r as [|d r IH]; [reflexivity|]. cbn. destruct (if_rest d); [exact IH|reflexivity].
Qed.

Lemma property_ok s : validate_property s = spec_property s.
Proof.
  unfold validate_property, spec_property. rewrite len_guard. f_equal.
  destruct s; reflexivity.
Qed.

Lemma lit_spec l : forall s, lit l s = if starts_with l s then Some (skipn (length l) s) else None.
Proof.
  induction l as [|a l IH]; intros s; [reflexivity|]. destruct s as [|b s]; [reflexivity|]. cbn.
  destruct (beq a b); [apply IH|reflexivity].
Qed.

Lemma pseq_one_of f q c r : pseq (one_of f) q (c :: r) = if f c then q r else None.
Proof. unfold pseq, one_of. destruct (f c); reflexivity. Qed.

Lemma starts_with_app l : forall s, starts_with l s = true -> s = l ++ skipn (length l) s.
Proof.
  induction l as [|a l IH]; intros s Es; [reflexivity|].
  destruct s as [|b s]; [discriminate|]. cbn in Es. apply andb_true_iff in Es as [E1 E2].
  apply beq_eq in E1. subst. cbn. f_equal. now apply IH.
Qed.

Lemma unique_ok s : validate_unique s = spec_unique s.
Proof.
  unfold validate_unique, spec_unique. rewrite len_guard. f_equal.
  unfold parse_all, palt.
  set (L := B "org.freedesktop.DBus").
  assert (HL : forall s, lit L s = if starts_with L s then Some (skipn (length L) s) else None) by apply lit_spec.
  rewrite HL. destruct (starts_with L s) eqn:Es.
  - (* s begins with the literal: alt commits to it *)
    assert (Hs : s = L ++ skipn (length L) s) by now apply starts_with_app.
    destruct (skipn (length L) s) as [|d r] eqn:Er.
    + rewrite app_nil_r in Hs. rewrite Hs. reflexivity.
    + rewrite Hs. replace (lbeq (L ++ d :: r) L) with false.
      * reflexivity.
      * symmetry. apply not_true_is_false. intros H. apply lbeq_eq in H.
        apply (f_equal (@length byte)) in H. rewrite app_length in H. cbn in H. lia.
  - replace (lbeq s L) with false.
    2:{ symmetry. apply not_true_is_false. intros H. apply lbeq_eq in H. subst s. discriminate Es. }
    cbn [orb]. destruct s as [|c r]; [reflexivity|]. rewrite pseq_one_of. unfold ch at 1.
    destruct (beq c ":") eqn:Ec; [|reflexivity]. cbn [andb].
    rewrite (separated_ext _ (first_then uq_elem uq_elem)) by apply take_while1_first_then.
    change (one_of (ch ".")) with (one_of (fun x => beq x dot)).
    pose proof (separated_spec uq_elem uq_elem dot eq_refl eq_refl 2 r ltac:(lia)) as Hsp.
    unfold parse_all in Hsp. rewrite Hsp. rewrite andb_comm. f_equal.
    apply forallb_ext'. intros e. symmetry. apply elem_uq_okb.
Qed.

Lemma bus_ok s : validate_bus s = spec_bus s.
Proof. unfold validate_bus, spec_bus. now rewrite unique_ok, well_known_ok. Qed.

Lemma object_path_ok s : validate_object_path s = spec_object_path s.
Proof.
  unfold validate_object_path, spec_object_path, parse_all.
  destruct s as [|c r]; [reflexivity|]. rewrite pseq_one_of. unfold ch at 1. change (beq c "/") with (beq c slash).
  destruct (beq c slash); [|reflexivity]. cbn [andb].
  rewrite (separated_ext _ (first_then if_rest if_rest)) by apply take_while1_first_then.
  change (one_of (ch "/")) with (one_of (fun x => beq x slash)).
  pose proof (separated0_spec if_rest if_rest slash eq_refl eq_refl r) as Hsp.
  unfold parse_all in Hsp. rewrite Hsp. destruct r; [reflexivity|].
  try (apply forallb_ext'; intros e; symmetry; apply elem_path_okb); reflexivity.
Qed.

Lemma guid_ok s : validate_guid s = spec_guid s.
Proof. reflexivity. Qed.

(* ---------- executable specs = Prop-level grammars ---------- *)
Section Grammar.
  Variables (f g : byte -> bool) (sep : byte).
  Hypothesis f_sep : f sep = false.
  Hypothesis g_sep : g sep = false.

  Lemma split_grammar (min : nat) s : 1 <= min ->
    (forallb (okb f g) (split_on sep s) && Nat.leb min (length (split_on sep s)) = true)
    <-> exists es, s = joined sep es /\ min <= length es /\ Forall (fun e => okb f g e = true) es.
  Proof.
    intros Hm. split.
    - intros H. apply andb_true_iff in H as [H1 H2]. exists (split_on sep s). split; [|split].
      + unfold joined. now rewrite join_split.
      + now apply Nat.leb_le.
      + apply Forall_forall. intros e He. rewrite forallb_forall in H1. auto.
    - intros (es & -> & Hl & Hall). unfold joined. rewrite split_join.
      + apply andb_true_iff. split; [|now apply Nat.leb_le].
        apply forallb_forall. intros e He. rewrite Forall_forall in Hall. auto.
      + destruct es; [cbn in Hl; lia|discriminate].
      + eapply Forall_impl; [|exact Hall]. intros e He. now apply (ok_no_sep f g sep).
  Qed.
End Grammar.

Lemma name_grammar (elem : bytes -> bool) f g sep min s :
  (forall e, elem e = okb f g e) -> f sep = false -> g sep = false -> 1 <= min ->
  (Nat.leb min (length (split_on sep s)) && forallb elem (split_on sep s) = true)
  <-> exists es, s = joined sep es /\ min <= length es /\ Forall (fun e => elem e = true) es.
Proof.
  intros He Hf Hg Hm. rewrite andb_comm. rewrite (forallb_ext' elem (okb f g)) by exact He.
  rewrite (split_grammar f g sep Hf Hg min s Hm).
  split; intros (es & H1 & H2 & H3); exists es; (split; [exact H1|split; [exact H2|]]).
  - apply Forall_forall. intros e Hin. rewrite Forall_forall in H3. rewrite He. auto.
  - apply Forall_forall. intros e Hin. rewrite Forall_forall in H3. rewrite <- He. auto.
Qed.

Lemma leb_le' a b : Nat.leb a b = true <-> a <= b.
Proof. apply Nat.leb_le. Qed.

Lemma interface_grammar s : spec_interface s = true <-> Interface s.
Proof.
  unfold spec_interface, Interface. rewrite andb_true_iff, leb_le'.
  rewrite (name_grammar elem_iface if_first if_rest dot 2 s elem_iface_okb eq_refl eq_refl ltac:(lia)).
  split.
  - intros [(es & H1 & H2 & H3) H4]. exists es. auto.
  - intros (es & H1 & H2 & H3 & H4). split; [exists es|]; auto.
Qed.

Lemma well_known_grammar s : spec_well_known s = true <-> WellKnown s.
Proof.
  unfold spec_well_known, WellKnown. rewrite andb_true_iff, leb_le'.
  rewrite (name_grammar elem_wk wk_first wk_rest dot 2 s elem_wk_okb eq_refl eq_refl ltac:(lia)).
  split.
  - intros [(es & H1 & H2 & H3) H4]. exists es. auto.
  - intros (es & H1 & H2 & H3 & H4). split; [exists es|]; auto.
Qed.

Lemma unique_grammar s : spec_unique s = true <-> Unique s.
Proof.
  unfold spec_unique, Unique. rewrite andb_true_iff, leb_le', orb_true_iff, lbeq_eq.
  split; intros [H HL]; (split; [|exact HL]); destruct H as [H|H]; auto; right.
  - destruct s as [|c r]; [discriminate|]. apply andb_true_iff in H as [Hc H]. apply beq_eq in Hc. subst c.
    apply (name_grammar elem_uq uq_elem uq_elem dot 2 r elem_uq_okb eq_refl eq_refl ltac:(lia)) in H
      as (es & H1 & H2 & H3). exists es. subst r. auto.
  - destruct H as (es & -> & H2 & H3). rewrite beq_refl. cbn [andb].
    apply (name_grammar elem_uq uq_elem uq_elem dot 2 _ elem_uq_okb eq_refl eq_refl ltac:(lia)). exists es. auto.
Qed.

Lemma member_grammar s : spec_member s = true <-> Member s.
Proof. unfold spec_member, Member. now rewrite andb_true_iff, leb_le'. Qed.

Lemma property_grammar s : spec_property s = true <-> Property s.
Proof. unfold spec_property, Property. now rewrite andb_true_iff, !leb_le'. Qed.

Lemma bus_grammar s : spec_bus s = true <-> Bus s.
Proof. unfold spec_bus, Bus. now rewrite orb_true_iff, unique_grammar, well_known_grammar. Qed.

Lemma object_path_grammar s : spec_object_path s = true <-> ObjectPath s.
Proof.
  unfold spec_object_path, ObjectPath. destruct s as [|c r].
  - split; [discriminate|]. intros [H|(es & H & _)]; discriminate.
  - rewrite andb_true_iff. split.
    + intros [Hc H]. apply beq_eq in Hc. subst c. destruct r as [|d r]; [now left|]. right.
      assert (H' : Nat.leb 1 (length (split_on slash (d :: r))) && forallb elem_path (split_on slash (d :: r)) = true).
      { rewrite H, andb_true_r. pose proof (split_on_nonempty slash (d :: r)). destruct (split_on slash (d :: r)); [contradiction|reflexivity]. }
      apply (name_grammar elem_path if_rest if_rest slash 1 _ elem_path_okb eq_refl eq_refl ltac:(lia)) in H'
        as (es & H1 & H2 & H3). exists es. rewrite H1. auto.
    + intros [H|(es & H & H2 & H3)].
      * inversion H; subst. rewrite beq_refl. auto.
      * inversion H; subst. rewrite beq_refl. split; [reflexivity|].
        assert (H' : Nat.leb 1 (length (split_on slash (joined slash es))) && forallb elem_path (split_on slash (joined slash es)) = true).
        { apply (name_grammar elem_path if_rest if_rest slash 1 _ elem_path_okb eq_refl eq_refl ltac:(lia)). exists es. auto. }
        apply andb_true_iff in H' as [_ H']. destruct (joined slash es); [|exact H'].
        reflexivity.
Qed.

Lemma guid_grammar s : spec_guid s = true <-> Guid s.
Proof.
  unfold spec_guid, Guid. rewrite andb_true_iff, Nat.eqb_eq. split; intros [H1 H2]; (split; [exact H1|]).
  - apply Forall_forall. rewrite forallb_forall in H2. auto.
  - apply forallb_forall. rewrite Forall_forall in H2. auto.
Qed.

(* ---------- the statements used by Properties/C10.v ---------- *)
Lemma interface_exact s : validate_interface s = true <-> Interface s.
Proof. rewrite interface_ok. apply interface_grammar. Qed.
Lemma well_known_exact s : validate_well_known s = true <-> WellKnown s.
Proof. rewrite well_known_ok. apply well_known_grammar. Qed.
Lemma unique_exact s : validate_unique s = true <-> Unique s.
Proof. rewrite unique_ok. apply unique_grammar. Qed.
Lemma member_exact s : validate_member s = true <-> Member s.
Proof. rewrite member_ok. apply member_grammar. Qed.
Lemma property_exact s : validate_property s = true <-> Property s.
Proof. rewrite property_ok. apply property_grammar. Qed.
Lemma bus_exact s : validate_bus s = true <-> Bus s.
Proof. rewrite bus_ok. apply bus_grammar. Qed.
Lemma object_path_exact s : validate_object_path s = true <-> ObjectPath s.
Proof. rewrite object_path_ok. apply object_path_grammar. Qed.
Lemma guid_exact s : validate_guid s = true <-> Guid s.
Proof. rewrite guid_ok. apply guid_grammar. Qed.

Lemma construct_partial t e s : derived_value_conv t e = false -> construct t e s = validator t s.
Proof. unfold construct. now intros ->. Qed.

Lemma value_conv_refuted : exists s, construct TMember ViaValue s = true /\ ~ Member s.
Proof. exists (B "."). split; [reflexivity|]. intros [H _]. discriminate H. Qed.

(* non-vacuity: concrete members of each grammar *)
Example ex_iface : Interface (B "org.freedesktop.DBus.Properties").
Proof. apply interface_exact. vm_compute. reflexivity. Qed.
Example ex_wk : WellKnown (B "org.gnome.Service-for_you").
Proof. apply well_known_exact. vm_compute. reflexivity. Qed.
Example ex_uq : Unique (B ":1.42").
Proof. apply unique_exact. vm_compute. reflexivity. Qed.
Example ex_path : ObjectPath (B "/org/zbus/Obj_1").
Proof. apply object_path_exact. vm_compute. reflexivity. Qed.
Example ex_guid : Guid (B "0123456789abcdefABCDEF0123456789").
Proof. apply guid_exact. vm_compute. reflexivity. Qed.
Example ex_not_path : ~ ObjectPath (B "/a//b").
Proof. intros H. apply object_path_exact in H. vm_compute in H. discriminate. Qed.
