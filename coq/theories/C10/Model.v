(* C10/Model.v — mirror of the validators in zbus_names/src/*.rs, zvariant/src/object_path.rs and
   zbus/src/guid.rs (after fix: commit — a GUID is exactly 32 hex digits). No proofs here. *)
From ZV Require Import Base.Bytes Base.Winnow.

Definition ch (c : byte) : byte -> bool := fun x => beq x c.
Definition orb1 (f g : byte -> bool) : byte -> bool := fun x => f x || g x.

(* well_known_name.rs::validate_bytes *)
Definition wk_first := orb1 is_alpha (orb1 (ch "_") (ch "-")).
Definition wk_rest := orb1 is_alphanum (orb1 (ch "_") (ch "-")).
Definition validate_well_known (s : bytes) : bool :=
  parse_all (separated 2 (pseq (one_of wk_first) (take_while0 wk_rest)) (one_of (ch "."))) s
  && negb (Nat.ltb 255 (length s)).

(* unique_name.rs::validate_bytes *)
Definition uq_elem := orb1 is_alphanum (orb1 (ch "_") (ch "-")).
Definition validate_unique (s : bytes) : bool :=
  parse_all (palt (lit (B "org.freedesktop.DBus"))
                  (pseq (one_of (ch ":")) (separated 2 (take_while1 uq_elem) (one_of (ch "."))))) s
  && negb (Nat.ltb 255 (length s)).

(* interface_name.rs::validate_bytes (error names use the same function) *)
Definition if_first := orb1 is_alpha (ch "_").
Definition if_rest := orb1 is_alphanum (ch "_").
Definition validate_interface (s : bytes) : bool :=
  parse_all (separated 2 (pseq (one_of if_first) (take_while0 if_rest)) (one_of (ch "."))) s
  && negb (Nat.ltb 255 (length s)).
Definition validate_error := validate_interface.

(* member_name.rs::validate_bytes *)
Definition validate_member (s : bytes) : bool :=
  parse_all (pseq (one_of if_first) (take_while0 if_rest)) s && negb (Nat.ltb 255 (length s)).

(* property_name.rs::ensure_correct_property_name *)
Definition validate_property (s : bytes) : bool :=
  negb (Nat.eqb (length s) 0) && negb (Nat.ltb 255 (length s)).

(* bus_name.rs: TryFrom<Str> — unique first, then well-known *)
Definition validate_bus (s : bytes) : bool := validate_unique s || validate_well_known s.

(* object_path.rs::validate *)
Definition validate_object_path (s : bytes) : bool :=
  parse_all (pseq (one_of (ch "/")) (separated 0 (take_while1 if_rest) (one_of (ch "/")))) s.

(* guid.rs::validate_guid *)
Definition validate_guid (s : bytes) : bool :=
  Nat.eqb (length s) 32 && forallb is_hexdigit s.

(* ---- entry points ------------------------------------------------------------------------
   Every checked constructor (TryFrom<&str|String|Arc<str>|Cow|Str>, from_static_str, Owned*,
   Deserialize) funnels into the validator above (zbus_names/src/utils.rs impl_try_from!), except
   TryFrom<Value> / TryFrom<OwnedValue> of the six name newtypes, which #[derive(Value, OwnedValue)]
   generates: they unwrap the inner string without validating.  BusName (hand-written impl),
   ObjectPath and Guid are not affected. *)
Inductive nty := TWellKnown | TUnique | TInterface | TError | TMember | TProperty | TBus | TObjectPath | TGuid.
Inductive entry := ViaString | ViaValue.   (* ViaString: any of the string/deserialize entry points *)

Definition validator (t : nty) : bytes -> bool :=
  match t with
  | TWellKnown => validate_well_known | TUnique => validate_unique | TInterface => validate_interface
  | TError => validate_error | TMember => validate_member | TProperty => validate_property
  | TBus => validate_bus | TObjectPath => validate_object_path | TGuid => validate_guid
  end.

Definition derived_value_conv (t : nty) (e : entry) : bool :=
  match e, t with
  | ViaValue, (TWellKnown | TUnique | TInterface | TError | TMember | TProperty) => true
  | _, _ => false
  end.

Definition construct (t : nty) (e : entry) (s : bytes) : bool :=
  if derived_value_conv t e then true else validator t s.
