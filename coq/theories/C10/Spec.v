(* C10/Spec.v — the D-Bus specification's name grammars, written independently of the parser
   combinators: a name is a list of elements joined by a separator; each element is constrained
   character-wise.  (D-Bus specification, "Valid Names" and "Valid Object Paths"; UUIDs.) *)
From ZV Require Import Base.Bytes.

Definition dot : byte := "."%byte.
Definition slash : byte := "/"%byte.
Definition is_us (c : byte) : bool := beq c "_"%byte.
Definition is_hy (c : byte) : bool := beq c "-"%byte.

(* element classes *)
Definition elem_iface (e : bytes) : bool :=        (* [A-Za-z_][A-Za-z0-9_]* *)
  match e with c :: r => (is_alpha c || is_us c) && forallb (fun x => is_alphanum x || is_us x) r | [] => false end.
Definition elem_wk (e : bytes) : bool :=           (* [A-Za-z_-][A-Za-z0-9_-]* *)
  match e with c :: r => (is_alpha c || is_us c || is_hy c) && forallb (fun x => is_alphanum x || is_us x || is_hy x) r | [] => false end.
Definition elem_uq (e : bytes) : bool :=           (* [A-Za-z0-9_-]+ *)
  match e with _ :: _ => forallb (fun x => is_alphanum x || is_us x || is_hy x) e | [] => false end.
Definition elem_path (e : bytes) : bool :=         (* [A-Za-z0-9_]+ *)
  match e with _ :: _ => forallb (fun x => is_alphanum x || is_us x) e | [] => false end.

Definition max_name : nat := 255.

(* Prop-level grammars: "exists a decomposition into elements" *)
Definition joined (sep : byte) (es : list bytes) : bytes := join [sep] es.

Definition Interface (s : bytes) : Prop :=
  exists es, s = joined dot es /\ 2 <= length es /\ Forall (fun e => elem_iface e = true) es /\ length s <= max_name.
Definition WellKnown (s : bytes) : Prop :=
  exists es, s = joined dot es /\ 2 <= length es /\ Forall (fun e => elem_wk e = true) es /\ length s <= max_name.
Definition Unique (s : bytes) : Prop :=
  (s = B "org.freedesktop.DBus" \/
   exists es, s = ":"%byte :: joined dot es /\ 2 <= length es /\ Forall (fun e => elem_uq e = true) es)
  /\ length s <= max_name.
Definition Member (s : bytes) : Prop := elem_iface s = true /\ length s <= max_name.
Definition Property (s : bytes) : Prop := 1 <= length s <= max_name.
Definition Bus (s : bytes) : Prop := Unique s \/ WellKnown s.
Definition ObjectPath (s : bytes) : Prop :=
  s = [slash] \/ exists es, s = slash :: joined slash es /\ 1 <= length es /\ Forall (fun e => elem_path e = true) es.
Definition Guid (s : bytes) : Prop := length s = 32 /\ Forall (fun c => is_hexdigit c = true) s.

(* executable versions (used as the oracle on the implementation's verdicts) *)
Definition nonempty {A} (l : list A) : bool := match l with [] => false | _ => true end.
Definition spec_interface (s : bytes) : bool :=
  let es := split_on dot s in Nat.leb 2 (length es) && forallb elem_iface es && Nat.leb (length s) max_name.
Definition spec_well_known (s : bytes) : bool :=
  let es := split_on dot s in Nat.leb 2 (length es) && forallb elem_wk es && Nat.leb (length s) max_name.
Definition spec_unique (s : bytes) : bool :=
  (lbeq s (B "org.freedesktop.DBus") ||
   match s with
   | c :: r => beq c ":"%byte && (let es := split_on dot r in Nat.leb 2 (length es) && forallb elem_uq es)
   | [] => false
   end) && Nat.leb (length s) max_name.
Definition spec_member (s : bytes) : bool := elem_iface s && Nat.leb (length s) max_name.
Definition spec_property (s : bytes) : bool := Nat.leb 1 (length s) && Nat.leb (length s) max_name.
Definition spec_bus (s : bytes) : bool := spec_unique s || spec_well_known s.
Definition spec_object_path (s : bytes) : bool :=
  match s with
  | c :: r => beq c slash && (match r with [] => true | _ => forallb elem_path (split_on slash r) end)
  | [] => false
  end.
Definition spec_guid (s : bytes) : bool := Nat.eqb (length s) 32 && forallb is_hexdigit s.
