(* C10/Run.v — line driver:  "<type> <entry> <hex of the string>"  ->  model verdict, spec verdict *)
From ZV Require Import Base.Bytes C10.Model C10.Spec.

Definition pick (ty : bytes) : option ((bytes -> bool) * (bytes -> bool)) :=
  if lbeq ty (B "wk") then Some (validate_well_known, spec_well_known)
  else if lbeq ty (B "uq") then Some (validate_unique, spec_unique)
  else if lbeq ty (B "if") then Some (validate_interface, spec_interface)
  else if lbeq ty (B "er") then Some (validate_error, spec_interface)
  else if lbeq ty (B "mb") then Some (validate_member, spec_member)
  else if lbeq ty (B "pr") then Some (validate_property, spec_property)
  else if lbeq ty (B "bus") then Some (validate_bus, spec_bus)
  else if lbeq ty (B "op") then Some (validate_object_path, spec_object_path)
  else if lbeq ty (B "guid") then Some (validate_guid, spec_guid)
  else None.

(* Entry points.  Every checked constructor funnels into the one validator, except
   TryFrom<Value>/TryFrom<OwnedValue> of the six name types whose conversion is produced by
   #[derive(Value, OwnedValue)] on the newtype: it unwraps the inner string without validating
   (BusName, ObjectPath and Guid are not affected).  Known finding "value_conv_unvalidated". *)
Definition derived_value_conv (ty entry : bytes) : bool :=
  (lbeq entry (B "value") || lbeq entry (B "ovalue")) &&
  (lbeq ty (B "wk") || lbeq ty (B "uq") || lbeq ty (B "if") || lbeq ty (B "er") || lbeq ty (B "mb") || lbeq ty (B "pr")).

Definition run_case (line : bytes) : outp :=
  match words line with
  | ty :: entry :: rest =>
      match pick ty, bytes_of_hex (match rest with h :: _ => h | [] => [] end) with
      | Some (m, s), Some str =>
          if derived_value_conv ty entry
          then {| o_model := bool_tok true; o_spec := bool_tok (s str); o_class := B "value_conv_unvalidated" |}
          else {| o_model := bool_tok (m str); o_spec := bool_tok (s str); o_class := dash |}
      | _, _ => bad_case
      end
  | _ => bad_case
  end.

Definition run (line : bytes) : bytes := render (run_case line).
