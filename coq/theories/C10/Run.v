(* C10/Run.v — line driver:  "<type> <entry> <hex of the string>"  ->  model verdict, spec verdict *)
From ZV Require Import Base.Bytes C10.Model C10.Spec.

Definition pick (ty : bytes) : option (nty * (bytes -> bool)) :=
  if lbeq ty (B "wk") then Some (TWellKnown, spec_well_known)
  else if lbeq ty (B "uq") then Some (TUnique, spec_unique)
  else if lbeq ty (B "if") then Some (TInterface, spec_interface)
  else if lbeq ty (B "er") then Some (TError, spec_interface)
  else if lbeq ty (B "mb") then Some (TMember, spec_member)
  else if lbeq ty (B "pr") then Some (TProperty, spec_property)
  else if lbeq ty (B "bus") then Some (TBus, spec_bus)
  else if lbeq ty (B "op") then Some (TObjectPath, spec_object_path)
  else if lbeq ty (B "guid") then Some (TGuid, spec_guid)
  else None.

Definition entry_of (e : bytes) : entry :=
  if lbeq e (B "value") || lbeq e (B "ovalue") then ViaValue else ViaString.

Definition run_case (line : bytes) : outp :=
  match words line with
  | ty :: e :: rest =>
      match pick ty, bytes_of_hex (match rest with h :: _ => h | [] => [] end) with
      | Some (t, s), Some str =>
          {| o_model := bool_tok (construct t (entry_of e) str); o_spec := bool_tok (s str);
             o_class := if derived_value_conv t (entry_of e) then B "value_conv_unvalidated" else dash |}
      | _, _ => bad_case
      end
  | _ => bad_case
  end.

Definition run (line : bytes) : bytes := render (run_case line).
