(* Properties/C07.v — container nesting limits are enforced exactly (D-Bus format).
   [depth_ok]/[within_limits] (DBus/Spec.v) is the specification's rule: at most 32 arrays (dicts count as arrays),
   32 structs and 64 containers in total (variants count) on any path of a value.  [ser]/[ser_top] (DBus/Ser.v) and
   [de_any] (DBus/De.v) are the models of zvariant's serializer and deserializer with their ContainerDepths counters.
   Statements only. *)
From ZV Require Import Base.Bytes Base.Res Base.Sig DBus.Val DBus.Spec DBus.Ser DBus.SerProofs DBus.De DBus.DeCompleteFacts
  DBus.GeneratedDepth DBus.DepthLimits DBus.DepthIff DBus.DepthDe DBus.DepthDeClosed.
Local Open Scope N_scope.

(* the numbers: what the translator re-reads from zvariant/src/container_depths.rs on every run are the limits with which
   the counter check of the models and the rule of the specification are written *)
Theorem C07_limits_are_spec :
  (forall d : depths,
     dcheck d = Ok d <->
     (d_struct d <= max_struct_depth /\ d_array d <= max_array_depth /\
      d_struct d + d_array d + d_variant d + d_maybe d <= max_total_depth)) /\
  (forall d : depths, dcheck d = Ok d \/ exists k, dcheck d = Err (EDepth k)) /\
  (forall ds da dv x,
     depth_ok ds da dv (VVariant x) = (ds + da + dv + 1 <=? max_total_depth) && depth_ok ds da (dv + 1) x) /\
  (forall ds da dv el l,
     depth_ok ds da dv (VArray el l)
     = (da + 1 <=? max_array_depth) && (ds + da + dv + 1 <=? max_total_depth) && forallb (depth_ok ds (da + 1) dv) l) /\
  (forall ds da dv ks vs l,
     depth_ok ds da dv (VDict ks vs l)
     = (da + 1 <=? max_array_depth) && (ds + da + dv + 1 <=? max_total_depth)
       && forallb (fun p => depth_ok ds (da + 1) dv (fst p) && depth_ok ds (da + 1) dv (snd p)) l) /\
  (forall ds da dv l,
     depth_ok ds da dv (VStruct l)
     = (ds + 1 <=? max_struct_depth) && (ds + da + dv + 1 <=? max_total_depth) && forallb (depth_ok (ds + 1) da dv) l).
Proof. exact (limits_are_spec generated_depth_matches). Qed.
Print Assumptions C07_limits_are_spec.

(* ---------------- serializer ---------------- *)

(* within the limits the encoder succeeds (this is C01_bytes) *)
Theorem C07_ser_within : forall (c : cfg) (e : endian) (pos : N) (v : dval),
  wf v = true -> enc_form v = true -> len (marshal_top e pos v) < 2 ^ 32 -> nfds v < 2 ^ 32 ->
  within_limits v = true ->
  ser_top c e pos (vsig v) (sval_of v) = Ok (marshal_top e pos v, fds_of v).
Proof. intros c e pos v H1 H2 H3 H4. apply ser_top_within. repeat split; assumption. Qed.
Print Assumptions C07_ser_within.

(* beyond them it fails, and with a depth error *)
Theorem C07_ser_exceeds : forall (c : cfg) (e : endian) (pos : N) (v : dval),
  wf v = true -> enc_form v = true -> len (marshal_top e pos v) < 2 ^ 32 -> nfds v < 2 ^ 32 ->
  within_limits v = false ->
  exists k, ser_top c e pos (vsig v) (sval_of v) = Err (EDepth k).
Proof. intros c e pos v H1 H2 H3 H4. apply ser_top_exceeds. repeat split; assumption. Qed.
Print Assumptions C07_ser_exceeds.

(* exactly: for every configuration, byte order, start offset and every well-formed value in encoder form whose
   (total) marshalling and descriptor count fit the format's 32-bit fields *)
Theorem C07_ser_iff : forall (c : cfg) (e : endian) (pos : N) (v : dval),
  wf v = true -> enc_form v = true -> len (marshal_top e pos v) < 2 ^ 32 -> nfds v < 2 ^ 32 ->
  ((exists b f, ser_top c e pos (vsig v) (sval_of v) = Ok (b, f)) <-> within_limits v = true) /\
  ((exists k, ser_top c e pos (vsig v) (sval_of v) = Err (EDepth k)) <-> within_limits v = false).
Proof.
  intros c e pos v H1 H2 H3 H4. split; [apply ser_top_ok_iff|apply ser_top_err_iff]; repeat split; assumption.
Qed.
Print Assumptions C07_ser_iff.

(* the size pass (serialized_size) refuses the same values *)
Theorem C07_size_exceeds : forall (c : cfg) (e : endian) (pos : N) (v : dval),
  wf v = true -> enc_form v = true -> len (marshal_top e pos v) < 2 ^ 32 -> nfds v < 2 ^ 32 ->
  within_limits v = false ->
  exists k, size_top c e pos (vsig v) (sval_of v) = Err (EDepth k).
Proof. intros c e pos v H1 H2 H3 H4. apply size_top_exceeds. repeat split; assumption. Qed.
Print Assumptions C07_size_exceeds.

(* the general step, anywhere in a message and at any value of the counters (each within its own limit): the
   outcome is decided by the specification's rule started from the current counters *)
Theorem C07_ser_step : forall (v : dval) (st : sstate),
  enc_form v = true -> wf v = true -> s_sig st = vsig v -> s_vsign st = None ->
  (d_struct (s_dep st) <= 32 /\ d_array (s_dep st) <= 32 /\ d_maybe (s_dep st) = 0) ->
  nfd st + nfds v < 2 ^ 32 ->
  len (marshal (s_e st) ByOccurrence v (abs_pos st) (nfd st)) < 2 ^ 32 ->
  if depth_ok (d_struct (s_dep st)) (d_array (s_dep st)) (d_variant (s_dep st)) v
  then ser (sval_of v) st = Ok (grow st (marshal (s_e st) ByOccurrence v (abs_pos st) (nfd st)) (fds_of v))
  else exists k, ser (sval_of v) st = Err (EDepth k).
Proof. exact ser_dichotomy. Qed.
Print Assumptions C07_ser_step.

(* whenever serializing a value succeeds the counters are what they were before (so a sibling is judged like its
   predecessor: the reason the struct serializer saves and restores container_depths) *)
Theorem C07_counters_restored : forall (v : dval) (st st' : sstate),
  enc_form v = true -> wf v = true -> s_sig st = vsig v -> s_vsign st = None ->
  (d_struct (s_dep st) <= 32 /\ d_array (s_dep st) <= 32 /\ d_maybe (s_dep st) = 0) ->
  nfd st + nfds v < 2 ^ 32 ->
  len (marshal (s_e st) ByOccurrence v (abs_pos st) (nfd st)) < 2 ^ 32 ->
  ser (sval_of v) st = Ok st' -> s_dep st' = s_dep st.
Proof. exact ser_counters_restored. Qed.
Print Assumptions C07_counters_restored.

(* ---------------- deserializer ----------------
   [at_ B p M] says that the buffer B holds the bytes M at offset p, [fds_match] that the descriptor indices on the wire
   resolve in the decoder's table, [vdepth] is the nesting depth of a value (DBus/DeCompleteFacts.v).  The values in front
   of the first container beyond a limit are decoded by C02's completeness theorem (DBus/DeComplete.v). *)

(* decoding a valid encoding of a well-formed value that exceeds the limits (counted from the current counters) fails
   with a depth error: anywhere in a buffer, for either reading of descriptor indices, with fuel for the depth of the
   value or just for the 64 containers the counters allow (so: with the decoder's own fuel, however deep the value) *)
Theorem C07_de_exceeds :
  forall (v : dval) (fuel : nat) (st : dstate) (fm : fdmode) (k : N),
    wf v = true -> t_sig st = vsig v ->
    (d_struct (t_dep st) <= 32 /\ d_array (t_dep st) <= 32 /\ d_maybe (t_dep st) = 0) ->
    len (marshal (t_e st) fm v (tabs st) k) < 2 ^ 32 -> N.of_nat (length (t_fds st)) <= 2 ^ 32 ->
    at_ (t_bytes st) (t_pos st) (marshal (t_e st) fm v (tabs st) k) -> fds_match fm (t_fds st) k v ->
    ((vdepth v <= fuel)%nat \/
     (1 <= fuel /\ 65 <= fuel + N.to_nat (d_struct (t_dep st) + d_array (t_dep st) + d_variant (t_dep st)))%nat) ->
    depth_ok (d_struct (t_dep st)) (d_array (t_dep st)) (d_variant (t_dep st)) v = false ->
    exists j, de_any fuel st = Err (EDepth j).
Proof. exact de_exceeds_closed. Qed.
Print Assumptions C07_de_exceeds.

(* exactly; and a successful decode returns the value and leaves the counters as they were *)
Theorem C07_de_iff :
  forall (v : dval) (fuel : nat) (st : dstate) (fm : fdmode) (k : N),
    wf v = true -> t_sig st = vsig v ->
    (d_struct (t_dep st) <= 32 /\ d_array (t_dep st) <= 32 /\ d_maybe (t_dep st) = 0) ->
    len (marshal (t_e st) fm v (tabs st) k) < 2 ^ 32 -> N.of_nat (length (t_fds st)) <= 2 ^ 32 ->
    at_ (t_bytes st) (t_pos st) (marshal (t_e st) fm v (tabs st) k) -> fds_match fm (t_fds st) k v ->
    (vdepth v <= fuel)%nat ->
    ((exists r, de_any fuel st = Ok r) <->
     depth_ok (d_struct (t_dep st)) (d_array (t_dep st)) (d_variant (t_dep st)) v = true) /\
    ((exists j, de_any fuel st = Err (EDepth j)) <->
     depth_ok (d_struct (t_dep st)) (d_array (t_dep st)) (d_variant (t_dep st)) v = false) /\
    (forall v' st', de_any fuel st = Ok (v', st') -> v' = v /\ t_dep st' = t_dep st).
Proof. exact de_iff_closed. Qed.
Print Assumptions C07_de_iff.

(* the entry points with the decoder's own fuel (70): Data::deserialize::<Value>() ... *)
Theorem C07_de_value_exceeds :
  forall (c : cfg) (e : endian) (pos : N) (fm : fdmode) (x : dval) (rest : bytes) (fds : list N),
    wf (VVariant x) = true -> len (marshal e fm (VVariant x) pos 0) < 2 ^ 32 -> N.of_nat (length fds) <= 2 ^ 32 ->
    fds_match fm fds 0 (VVariant x) -> within_limits (VVariant x) = false ->
    exists j, de_value_top c e pos (marshal e fm (VVariant x) pos 0 ++ rest) fds = Err (EDepth j).
Proof. exact de_value_top_exceeds_closed. Qed.
Print Assumptions C07_de_value_exceeds.

(* exactly, at that entry point: a valid encoding (followed by anything) is decoded iff the value is within the limits,
   and refused with a depth error iff it is not *)
Theorem C07_de_value_iff :
  forall (c : cfg) (e : endian) (pos : N) (fm : fdmode) (x : dval) (rest : bytes) (fds : list N),
    wf (VVariant x) = true -> len (marshal e fm (VVariant x) pos 0) < 2 ^ 32 -> N.of_nat (length fds) <= 2 ^ 32 ->
    fds_match fm fds 0 (VVariant x) ->
    ((exists r, de_value_top c e pos (marshal e fm (VVariant x) pos 0 ++ rest) fds = Ok r) <-> within_limits (VVariant x) = true) /\
    ((exists j, de_value_top c e pos (marshal e fm (VVariant x) pos 0 ++ rest) fds = Err (EDepth j)) <-> within_limits (VVariant x) = false).
Proof. exact de_value_top_iff. Qed.
Print Assumptions C07_de_value_iff.

(* ... and Data::deserialize_for_dynamic_signature::<Structure>() on a message body *)
Theorem C07_de_body_exceeds :
  forall (c : cfg) (e : endian) (pos : N) (fm : fdmode) (l : list dval) (rest : bytes) (fds : list N),
    wf (VStruct l) = true -> len (marshal e fm (VStruct l) pos 0) < 2 ^ 32 -> N.of_nat (length fds) <= 2 ^ 32 ->
    fds_match fm fds 0 (VStruct l) -> within_limits (VStruct l) = false ->
    exists j, de_struct_top c e pos (vsig (VStruct l)) (marshal e fm (VStruct l) pos 0 ++ rest) fds = Err (EDepth j).
Proof. exact de_struct_top_exceeds_closed. Qed.
Print Assumptions C07_de_body_exceeds.

(* non-vacuity: a tower of exactly 32 arrays around a byte is within the limits and is encoded, 33 are not and the
   encoder model answers MaxDepthExceeded(Array) *)
Example C07_tower32 :
  within_limits (atower 32) = true /\
  (wf (atower 32) = true /\ enc_form (atower 32) = true /\ len (marshal_top LE 3 (atower 32)) < 2 ^ 32 /\ nfds (atower 32) < 2 ^ 32) /\
  exists b, ser_top {| c_gv := false; c_oaa := false |} LE 3 (vsig (atower 32)) (sval_of (atower 32)) = Ok (b, []).
Proof. split; [vm_compute; reflexivity|]. split; [repeat split; vm_compute; reflexivity|]. eexists. vm_compute. reflexivity. Qed.
Example C07_tower33 :
  within_limits (atower 33) = false /\
  (wf (atower 33) = true /\ enc_form (atower 33) = true /\ len (marshal_top LE 3 (atower 33)) < 2 ^ 32 /\ nfds (atower 33) < 2 ^ 32) /\
  ser_top {| c_gv := false; c_oaa := false |} LE 3 (vsig (atower 33)) (sval_of (atower 33)) = Err (EDepth DArray).
Proof. split; [vm_compute; reflexivity|]. split; [repeat split; vm_compute; reflexivity|]. vm_compute. reflexivity. Qed.

(* the decoder on the valid encodings of the same towers (computed, no premise): 32 arrays in a variant decode, 33 give
   MaxDepthExceeded(Array), and so do 100 — deeper than the decoder's fuel *)
Example C07_de_tower32 : exists n,
  de_value_top {| c_gv := false; c_oaa := false |} LE 3 (marshal_rx LE 3 (VVariant (atower 32))) [] = Ok (atower 32, n).
Proof. eexists. vm_compute. reflexivity. Qed.
Example C07_de_tower33 :
  wf (VVariant (atower 33)) = true /\ within_limits (VVariant (atower 33)) = false /\
  len (marshal_rx LE 3 (VVariant (atower 33))) < 2 ^ 32 /\
  de_value_top {| c_gv := false; c_oaa := false |} LE 3 (marshal_rx LE 3 (VVariant (atower 33))) [] = Err (EDepth DArray).
Proof. repeat split; vm_compute; reflexivity. Qed.
Example C07_de_tower100 :
  de_value_top {| c_gv := false; c_oaa := false |} BE 0 (marshal_rx BE 0 (VVariant (atower 100))) [] = Err (EDepth DArray).
Proof. vm_compute. reflexivity. Qed.
