(* Properties/C11.v — built messages parse back to the same header and body.
   Only statements, each closed by [exact] of a lemma of C11/Proofs.v (or SigProofs.v), and their assumptions.
   Model: C11/Model.v (Builder::build_generic, Fields::serialize, Message::from_raw_parts, QuickFields, header(), body()).
   Specification: C11/Spec.v ([spec_message] = the D-Bus layout formula, [view] = what a reader must report). *)
From ZV Require Import Base.Bytes Base.Res Base.Sig C10.Model C11.Model C11.Spec C11.Body C11.BodySpec C11.SigProofs C11.Proofs.
Open Scope N_scope.

(* Round trip.  For every header [h] whose names are valid (any subset of the fields, type 1..4, flags <= 7, non-zero u32
   serial / reply serial), both byte orders, every body byte string [bd] with a body signature [bsig] of at most 255 bytes
   and [nfds] descriptors, within MAX_MESSAGE_SIZE: the builder succeeds; its bytes re-parse; the parsed message reports
   the same type, flags, serial, header fields, body signature and fd count (all in [view]) and the same body bytes. *)
Theorem C11_roundtrip : forall (h : hdr) (bsig : sig) (bd : bytes) (nfds : N),
  hdr_valid h = true -> body_valid bsig nfds = true -> len (spec_message h bsig bd nfds) <= max_message_size ->
  exists bytes off m,
    build_bytes h bsig bd nfds = Ok (bytes, off) /\
    from_raw_parts (h_endian h) bytes = Ok m /\
    header m = Ok (view h bsig bd nfds) /\
    body m = Ok bd /\
    m_body_offset m = off.
Proof. exact roundtrip. Qed.
Print Assumptions C11_roundtrip.

(* The Message value returned by the builder itself answers header() and body() the same way. *)
Theorem C11_built_accessors : forall (h : hdr) (bsig : sig) (bd : bytes) (nfds : N),
  hdr_valid h = true -> body_valid bsig nfds = true -> len (spec_message h bsig bd nfds) <= max_message_size ->
  exists m, build h bsig bd nfds = Ok m /\ m_bytes m = spec_message h bsig bd nfds /\
            header m = Ok (view h bsig bd nfds) /\ body m = Ok bd.
Proof. exact built_accessors. Qed.
Print Assumptions C11_built_accessors.

(* Layout.  The bytes are the D-Bus message format: fixed header, a(yv) field array in code order, zero padding to 8, body. *)
Theorem C11_layout : forall (h : hdr) (bsig : sig) (bd : bytes) (nfds : N),
  hdr_valid h = true -> body_valid bsig nfds = true -> len (spec_message h bsig bd nfds) <= max_message_size ->
  exists bytes off,
    build_bytes h bsig bd nfds = Ok (bytes, off) /\
    bytes = spec_message h bsig bd nfds /\
    off mod 8 = 0 /\
    len bytes = off + len bd /\ dropN off bytes = bd /\
    takeN 4 (dropN 4 bytes) = u32_bytes (h_endian h) (len bd) /\
    filter (fun f => fst f =? 9) (spec_fields h bsig nfds) = (if nfds =? 0 then [] else [(9, WU32 nfds)]).
Proof. exact layout. Qed.
Print Assumptions C11_layout.

(* The body signature travels without its outer parentheses and is read back as the same list of complete types. *)
Theorem C11_signature_field : forall s : sig, wf s = true -> parse_sig (show_np s) = Some (norm_sig s).
Proof. exact parse_show_np. Qed.
Print Assumptions C11_signature_field.

(* Typed body values for the shapes s, u, (su) and as: body().deserialize returns the value that was built. *)
Theorem C11_typed_s : forall (h : hdr) (nfds : N) (s : bytes), dstr s ->
  let bd := enc_s (h_endian h) s in
  dec_typed (ShS s) (h_endian h) (spec_message h SStr bd nfds) (body_offset_of h SStr bd nfds) nfds = Ok (TS s).
Proof. exact typed_s. Qed.
Print Assumptions C11_typed_s.

Theorem C11_typed_u : forall (h : hdr) (nfds n : N), n < two32 ->
  let bd := enc_u (h_endian h) n in
  dec_typed (ShU n) (h_endian h) (spec_message h SU32 bd nfds) (body_offset_of h SU32 bd nfds) nfds = Ok (TU n).
Proof. exact typed_u. Qed.
Print Assumptions C11_typed_u.

Theorem C11_typed_su : forall (h : hdr) (nfds : N) (s : bytes) (n : N), dstr s -> n < two32 ->
  let bd := enc_su (h_endian h) s n in
  let g := SStruct [SStr; SU32] in
  dec_typed (ShSU s n) (h_endian h) (spec_message h g bd nfds) (body_offset_of h g bd nfds) nfds = Ok (TSU s n).
Proof. exact typed_su. Qed.
Print Assumptions C11_typed_su.

Theorem C11_typed_as : forall (h : hdr) (nfds : N) (l : list bytes), Forall dstr l -> len (enc_as (h_endian h) l) < two32 ->
  let bd := enc_as (h_endian h) l in
  let g := SArray SStr in
  dec_typed (ShAS l) (h_endian h) (spec_message h g bd nfds) (body_offset_of h g bd nfds) nfds = Ok (TAS l).
Proof. exact typed_as. Qed.
Print Assumptions C11_typed_as.

(* Two descriptors in one body, also the very same one twice: UNIX_FDS = 2 = the number attached (C11_layout with nfds = 2) and
   each `h` resolves to the file it was built from. (Arrays of descriptors and a descriptor inside a variant: correspondence only.) *)
Theorem C11_typed_hh : forall (h : hdr) (i j : N),
  let bd := enc_hh (h_endian h) in
  let g := SStruct [SFd; SFd] in
  dec_typed (ShHH i j) (h_endian h) (spec_message h g bd 2) (body_offset_of h g bd 2) 2 = Ok (TFiles [i; j]).
Proof. exact typed_hh. Qed.
Print Assumptions C11_typed_hh.

(* non-vacuity: a big-endian error reply with six header fields, a (su) body and two descriptors meets the hypotheses *)
Definition C11_example_hdr : hdr :=
  {| h_endian := BE; h_type := 3; h_flags := 2; h_serial := 4294967295; h_path := Some (B "/org/a/B"); h_iface := None;
     h_member := Some (B "Frob"); h_errname := Some (B "org.a.Error.Failed"); h_reply := Some 77;
     h_dest := Some (B ":1.42"); h_sender := Some (B ":1.7") |}.
Example C11_example_valid :
  hdr_valid C11_example_hdr = true /\ body_valid (SStruct [SStr; SU32]) 2 = true /\
  len (spec_message C11_example_hdr (SStruct [SStr; SU32]) (enc_su BE (B "boom") 9) 2) = 160.
Proof. repeat (match goal with |- _ /\ _ => split end); vm_compute; reflexivity. Qed.
