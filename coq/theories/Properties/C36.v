(* Properties/C36.v — well-known name bookkeeping follows the bus.
   Only statements, each closed by [exact] of a lemma of C36/Proofs.v, and their assumptions.

   final h             the registered_names map of the model (C36/Model.v) after the history h of scripted steps
                       (request with flags / bus answer / signals sent behind the answer, release, incoming signal)
   view st n           what a further request_name(n) reports without asking the bus: VOwner / VQueued / VNone
   transcript h        what the BUS did during h, in order: answered RequestName / ReleaseName, delivered a signal
   verdict_of tr n     the bus's last verdict on n read off the transcript alone (C36/Spec.v [says])
   known tr            the first event of tr where the bus revokes a name from somebody who is not a replaceable owner
                       (KLostUnmonitored) or announces an acquisition to somebody it has not queued
                       (KAcquiredUnmonitored); None for every conversation a conforming bus can have
   well_scripted h     the scripted ReleaseName answers are among the three reply codes *)
From Coq Require Import List NArith Bool.
From ZV Require Import Base.Bytes Base.Res C36.Model C36.Spec C36.Proofs.
Import ListNotations.
Open Scope N_scope.

(* ---- the full statement: after ANY history the connection's report equals the bus's last verdict.
        It does NOT hold of the pinned code: *)
Definition C36_full_statement : Prop :=
  forall h, well_scripted h -> forall n, view (final h) n = verdict_of (transcript h) n.

Theorem C36_full_statement_refuted : ~ C36_full_statement.
Proof. exact full_refuted. Qed.
Print Assumptions C36_full_statement_refuted.

(* owner without allow-replacement, the bus takes the name away, the connection keeps saying "already owner" *)
Theorem C36_lost_unmonitored_refuted :
  well_scripted w_lost /\ known (transcript w_lost) = Some KLostUnmonitored /\
  view (final w_lost) nA = VOwner /\ verdict_of (transcript w_lost) nA = VNone.
Proof. exact lost_unmonitored_refuted. Qed.
Print Assumptions C36_lost_unmonitored_refuted.

(* replaced (it had allowed that), later given the name back by the bus: the connection does not notice *)
Theorem C36_acquired_unmonitored_refuted :
  well_scripted w_acquired /\ known (transcript w_acquired) = Some KAcquiredUnmonitored /\
  view (final w_acquired) nA = VNone /\ verdict_of (transcript w_acquired) nA = VOwner.
Proof. exact acquired_unmonitored_refuted. Qed.
Print Assumptions C36_acquired_unmonitored_refuted.

(* ---- C36_status: outside the two classes, for every history and every name, the reported status is the bus's last
        verdict (owner / queued / none) *)
Theorem C36_status_partial : forall h,
  well_scripted h -> known (transcript h) = None ->
  forall n, view (final h) n = verdict_of (transcript h) n.
Proof. exact status_partial. Qed.
Print Assumptions C36_status_partial.

(* ... a further request is answered from memory exactly when the verdict is owner or queued (AlreadyOwner resp.
   InQueue); otherwise the bus is asked with the caller's flags and its answer is relayed *)
Theorem C36_request_partial : forall h n flags ans,
  well_scripted h -> known (transcript h) = None ->
  let o := request (final h) n flags ans in
  match verdict_of (transcript h) n with
  | VOwner => ro_asked o = None /\ ro_result o = RR RAlready
  | VQueued => ro_asked o = None /\ ro_result o = RR RInQueue
  | VNone => ro_asked o = Some flags /\ ro_result o = relay ans
  end.
Proof. exact request_partial. Qed.
Print Assumptions C36_request_partial.

(* ... release asks the bus exactly when the name was held or queued, and reports success exactly when it was and the
   bus confirms *)
Theorem C36_release_partial : forall h n code,
  well_scripted h -> known (transcript h) = None -> decode_rl code <> None ->
  let o := release (final h) n code in
  lo_asked o = held (verdict_of (transcript h) n) /\
  lo_result o = RelOk (held (verdict_of (transcript h) n) && released code).
Proof. exact release_partial. Qed.
Print Assumptions C36_release_partial.

(* with a bus that answers Released for a name it had granted or queued: success exactly when held or queued *)
Theorem C36_release_coherent_partial : forall h n code,
  well_scripted h -> known (transcript h) = None -> decode_rl code <> None ->
  (held (verdict_of (transcript h) n) = true -> released code = true) ->
  lo_result (release (final h) n code) = RelOk (held (verdict_of (transcript h) n)).
Proof. exact release_coherent. Qed.
Print Assumptions C36_release_coherent_partial.

(* ... and the executable form of all of the above, which is what the check evaluates on the implementation's output *)
Theorem C36_conforms_partial : forall probes h,
  well_scripted h -> known (transcript h) = None ->
  conforms probes [] h (run probes h) = true.
Proof. exact conforms_partial. Qed.
Print Assumptions C36_conforms_partial.

(* ---- only the bus driver's signals can change the state: full strength, any state, any other (or no) sender *)
Theorem C36_forged_change_nothing : forall st s,
  s_sender s <> Some driver -> forall n, on_signal st s n = st n.
Proof. exact forged_change_nothing. Qed.
Print Assumptions C36_forged_change_nothing.

Theorem C36_forged_example :
  let st := upd no_names nA (Some (Owner true)) in
  on_signal st (fsig false nA) nA = Some (Owner true) /\
  on_signal st {| s_sender := None; s_acquired := false; s_name := nA |} nA = Some (Owner true) /\
  on_signal st (gsig false nA) nA = None.
Proof. exact forged_vs_genuine. Qed.
Print Assumptions C36_forged_example.

(* the `.unwrap()`s on the rule builder in request_name_with_flags never fire (a panic is a value of the model) *)
Theorem C36_request_never_panics : forall st n flags ans, ro_result (request st n flags ans) <> RPanic.
Proof. exact request_never_panics. Qed.
Print Assumptions C36_request_never_panics.

(* which signals reach a monitor, derived from the model of MatchRule::matches (C21) on the rule the code builds *)
Theorem C36_delivered : forall acq n s,
  delivered acq n s = genuine s && Bool.eqb acq (s_acquired s) && lbeq n (s_name s).
Proof. exact delivered_spec. Qed.
Print Assumptions C36_delivered.

(* non-vacuity: a 12-step history over two names with forged signals, a replacement and a promotion from the queue,
   outside the known classes *)
Theorem C36_example :
  well_scripted ex_history /\ known (transcript ex_history) = None /\
  view (final ex_history) nA = VOwner /\ view (final ex_history) nB = VNone /\
  List.length (transcript ex_history) = 11%nat.
Proof. exact ex_history_ok. Qed.
Print Assumptions C36_example.
