(* Properties/C08.v — dynamic values obey equality, ordering, hashing and conversion laws.
   Only statements, each closed by [exact] of a lemma of C08/*.v, and their assumptions.
   veq / vpcmp / vcmp / vhash / value_signature / try_clone / try_to_owned / into_value / from_value are the model of
   zvariant's Value (C08/Model.v, with Signature::cmp as repaired by fix: commit 668536e1); icmp, sig_tcmp, has_nan, has_fd,
   wfb, has_type, wt, tuple_variant, T4, Known_C08 are specification-side definitions (C08/Spec.v). *)
From ZV Require Import Base.Bytes Base.Res Base.Sig C08.Model C08.Spec C08.Algebra C08.SigFacts C08.ValueFacts C08.Order
     C08.Clone C08.Conv C08.Proofs.

(* ================= laws that hold for ALL values ================= *)

(* equal values feed the Hasher the same sequence of writes (hence hash equally under any Hasher), +0.0 / -0.0 included *)
Theorem C08_hash : forall a b : value, veq a b = true -> vhash a = vhash b.
Proof. exact veq_hash. Qed.
Print Assumptions C08_hash.

Theorem C08_eq_sym : forall a b : value, veq a b = veq b a.
Proof. exact veq_sym. Qed.
Print Assumptions C08_eq_sym.

Theorem C08_eq_trans : forall a b c : value, veq a b = true -> veq b c = true -> veq a c = true.
Proof. exact veq_trans. Qed.
Print Assumptions C08_eq_trans.

Theorem C08_eq_signature : forall a b : value, veq a b = true -> value_signature a = value_signature b.
Proof. exact veq_sig. Qed.
Print Assumptions C08_eq_signature.

(* cmp is antisymmetric: a.cmp(b) is the reverse of b.cmp(a); same for partial_cmp *)
Theorem C08_cmp_antisym : forall a b : value, vcmp b a = CompOpp (vcmp a b).
Proof. exact vcmp_dual. Qed.
Print Assumptions C08_cmp_antisym.

Theorem C08_pcmp_antisym : forall a b : value, vpcmp b a = option_map CompOpp (vpcmp a b).
Proof. exact vpcmp_dual. Qed.
Print Assumptions C08_pcmp_antisym.

(* one half of "consistent with equality" holds everywhere: equal values compare Equal *)
Theorem C08_eq_cmp : forall a b : value, veq a b = true -> vpcmp a b = Some Eq /\ vcmp a b = Eq.
Proof. intros a b H. split; [exact (veq_vpcmp a b H) | exact (veq_vcmp a b H)]. Qed.
Print Assumptions C08_eq_cmp.

(* try_clone / try_to_owned never change the signature; without file descriptors the copy is the value itself,
   for every behaviour [os] of dup(2) and every number k of dups made before *)
Theorem C08_clone : forall (os : nat -> option Z) (v : value) (k : nat),
  (forall r k', try_clone os v k = Ok (r, k') -> value_signature r = value_signature v) /\
  (has_fd v = false -> try_clone os v k = Ok (v, k)).
Proof. intros os v k. split; [intros r k'; exact (try_clone_sig os v k r k') | exact (try_clone_fdfree os v k)]. Qed.
Print Assumptions C08_clone.

Theorem C08_owned : forall (os : nat -> option Z) (v : value) (k : nat),
  (forall r k', try_to_owned os v k = Ok (r, k') -> value_signature r = value_signature v) /\
  (has_fd v = false -> try_to_owned os v k = Ok (v, k)).
Proof. intros os v k. split; [intros r k'; exact (try_to_owned_sig os v k r k') | exact (try_to_owned_fdfree os v k)]. Qed.
Print Assumptions C08_owned.

(* the reported signature types the value (members of containers have the stored member signatures), for every value
   that satisfies the checks of Array::append / Dict::append / StructureBuilder::build; and these constructors keep them *)
Theorem C08_sig_encoded : forall v : value, wfb v = true -> has_type (value_signature v) v.
Proof. exact wfb_has_type. Qed.
Print Assumptions C08_sig_encoded.

Theorem C08_constructors_wf :
  (forall a e a', wfb a = true -> wfb e = true -> array_append a e = Ok a' -> wfb a' = true) /\
  (forall d k v d', wfb d = true -> wfb k = true -> wfb v = true -> dict_append d k v = Ok d' -> wfb d' = true) /\
  (forall l s, forallb wfb l = true -> struct_build l = Ok s -> wfb s = true).
Proof. exact (conj array_append_wf (conj dict_append_wf struct_build_wf)). Qed.
Print Assumptions C08_constructors_wf.

(* the reference order is a total preorder on all values, and == is its equivalence on NaN-free values *)
Theorem C08_reference_order :
  (forall a b c : value, T4 (icmp a b) (icmp b c) (icmp a c)) /\
  (forall a b : value, icmp b a = CompOpp (icmp a b)) /\
  (forall a b : value, has_nan a = false -> has_nan b = false -> (icmp a b = Eq <-> veq a b = true)).
Proof. exact (conj icmp_T4 (conj icmp_dual icmp_Eq)). Qed.
Print Assumptions C08_reference_order.

(* Signature's hand-written Ord (after fix: commit 668536e1) is a total order consistent with its ==, on all signatures;
   it coincides with the reference order sig_tcmp *)
Theorem C08_sig_ord :
  (forall a b : sig, sig_cmp b a = CompOpp (sig_cmp a b)) /\
  (forall a b c : sig, T4 (sig_cmp a b) (sig_cmp b c) (sig_cmp a c)) /\
  (forall a b : sig, sig_cmp a b = Eq <-> Model.sig_eqb a b = true) /\
  (forall a b : sig, Model.sig_eqb a b = true <-> a = b).
Proof. exact sig_ord_total. Qed.
Print Assumptions C08_sig_ord.

Theorem C08_sig_ord_reference : forall a b : sig, sig_cmp a b = sig_tcmp a b.
Proof. exact sig_cmp_tcmp. Qed.
Print Assumptions C08_sig_ord_reference.

(* ================= the full statement is refuted on this tree (NaN, descriptors, tuples with Value members) ================= *)

(* Spec.C08_full_statement = == is an equivalence /\ cmp is a total order consistent with == and with partial_cmp /\
   equal values hash equally /\ clones and owned copies are == and keep the signature /\ well-formed values are typed by their
   signature /\ conversions round-trip *)
Theorem C08_full_statement_refuted : ~ C08_full_statement.
Proof. exact full_statement_refuted. Qed.
Print Assumptions C08_full_statement_refuted.

Theorem C08_eq_refl_refuted : exists v : value, veq v v = false.
Proof. exact eq_refl_refuted. Qed.
Print Assumptions C08_eq_refl_refuted.

Theorem C08_ord_consistent_refuted :
  (exists a, vcmp a a = Eq /\ veq a a = false) /\
  (exists a b, wfb a = true /\ wfb b = true /\ vcmp a b = Eq /\ veq a b = false /\ vhash a <> vhash b).
Proof. exact ord_consistent_refuted. Qed.
Print Assumptions C08_ord_consistent_refuted.

Theorem C08_ord_trans_refuted :
  exists a b c, wfb a = true /\ wfb b = true /\ wfb c = true /\ vcmp a b = Eq /\ vcmp b c = Eq /\ vcmp a c = Lt.
Proof. exact ord_trans_refuted. Qed.
Print Assumptions C08_ord_trans_refuted.

Theorem C08_pcmp_refuted : exists a b : value, vpcmp a b = None /\ vpcmp a b <> Some (vcmp a b).
Proof. exact pcmp_refuted. Qed.
Print Assumptions C08_pcmp_refuted.

Theorem C08_owned_fd_refuted : forall (os : nat -> option Z) (o : bool) (n m : Z), os 0%nat = Some m -> m <> n ->
  try_to_owned os (VFd o n) 0 = Ok (VFd true m, 1%nat) /\ veq (VFd true m) (VFd o n) = false.
Proof. exact owned_fd_refuted. Qed.
Print Assumptions C08_owned_fd_refuted.

Theorem C08_clone_nan_refuted : exists v : value, forall os k, try_clone os v k = Ok (v, k) /\ veq v v = false.
Proof. exact clone_nan_refuted. Qed.
Print Assumptions C08_clone_nan_refuted.

Theorem C08_conv_tuple_variant_refuted :
  (exists t x, wt t x = true /\ exists y, from_value t (into_value x) = Ok y /\ y <> x) /\
  (exists t x, wt t x = true /\ wfb (into_value x) = false) /\
  (exists t x, wt t x = true /\ from_value t (into_value x) = Err EIncorrectType).
Proof. exact conv_tuple_variant_refuted. Qed.
Print Assumptions C08_conv_tuple_variant_refuted.

(* ================= ... and holds outside the known classes ================= *)

Theorem C08_eq_refl_partial : forall a : value, has_nan a = false -> veq a a = true.
Proof. exact veq_refl. Qed.
Print Assumptions C08_eq_refl_partial.

(* the hand-written Ord IS the reference order on all NaN-free values *)
Theorem C08_ord_reference_partial : forall a b : value, has_nan a = false -> has_nan b = false ->
  vpcmp a b = Some (icmp a b) /\ vcmp a b = icmp a b.
Proof. intros a b Ha Hb. split; [exact (vpcmp_agree a b Ha Hb) | exact (vcmp_agree a b Ha Hb)]. Qed.
Print Assumptions C08_ord_reference_partial.

Theorem C08_ord_consistent_partial : forall a b : value, has_nan a = false -> has_nan b = false ->
  (vcmp a b = Eq <-> veq a b = true).
Proof. exact ord_consistent_partial. Qed.
Print Assumptions C08_ord_consistent_partial.

Theorem C08_ord_trans_partial : forall a b c : value, has_nan a = false -> has_nan b = false -> has_nan c = false ->
  T4 (vcmp a b) (vcmp b c) (vcmp a c).
Proof. exact ord_trans_partial. Qed.
Print Assumptions C08_ord_trans_partial.

Theorem C08_pcmp_partial : forall a b : value, has_nan a = false -> has_nan b = false -> vpcmp a b = Some (vcmp a b).
Proof. exact vpcmp_vcmp. Qed.
Print Assumptions C08_pcmp_partial.

Theorem C08_clone_eq_partial : forall os v k r k', has_nan v = false -> has_fd v = false ->
  (try_clone os v k = Ok (r, k') \/ try_to_owned os v k = Ok (r, k')) -> veq r v = true /\ r = v.
Proof. exact clone_eq_partial. Qed.
Print Assumptions C08_clone_eq_partial.

Theorem C08_conv_partial : forall (t : sig) (x : sv), wt t x = true -> tuple_variant x = false ->
  from_value t (into_value x) = Ok x.
Proof. exact conv_roundtrip. Qed.
Print Assumptions C08_conv_partial.

(* everything at once for a case of three values outside the classes
   Known_C08 l = existsb has_nan l || existsb has_fd l *)
Theorem C08_laws_partial : forall a b c : value, Known_C08 [a; b; c] = false ->
  veq a a = true /\ veq a b = veq b a /\ (veq a b = true -> veq b c = true -> veq a c = true) /\
  vcmp b a = CompOpp (vcmp a b) /\ T4 (vcmp a b) (vcmp b c) (vcmp a c) /\ (vcmp a b = Eq <-> veq a b = true) /\
  vpcmp a b = Some (vcmp a b) /\
  (veq a b = true -> vhash a = vhash b) /\
  (forall os k, try_clone os a k = Ok (a, k) /\ try_to_owned os a k = Ok (a, k)) /\
  (wfb a = true -> has_type (value_signature a) a).
Proof. exact laws_partial. Qed.
Print Assumptions C08_laws_partial.
