From ZV Require Import Base.Bytes Base.Res Base.Sig C08.Model C08.Spec C08.Proofs.
Theorem C08_eq_refl_refuted : exists v, veq v v = false.
Proof. exact eq_refl_refuted. Qed.
Print Assumptions C08_eq_refl_refuted.
