(* Properties/C23.v — D-Bus addresses round-trip through their string form; values are percent-decoded.
   Only statements, each closed by [exact] of a lemma of C23/*.v, and their assumptions.

   Vocabulary (C23/Model.v = mirror of zbus/src/address; C23/Spec.v = the D-Bus specification):
     parse / show                      FromStr / Display of zbus::Address (model)
     decode_percents / encode_percents the two percent-coding functions of transport/mod.rs (model)
     Enc raw text                      text is one of the specification's escaped forms of raw
     fields a, keys a, values a        the key / raw value pairs of an address value, in Display order
     Encodes a s                       s = name ':' key '=' text ',' ... with each text any escaped form of the value
     spec_denote s                     the specification's reading of s: split, unescape EVERY value, interpret keys
     wf a                              invariants of the Rust types (GUID 32 hex digits, port u16, cid/port u32, Strings UTF-8)
     Known_C23 a ts                    a written with the texts ts falls in a known-deviation class:
                                       tcp `bind` present / some text empty / some text other than the nonce file's
                                       differs from its raw value (uses an escape)                       (C23/Known.v) *)
From ZV Require Import Base.Bytes Base.Res C23.Dec C23.Model C23.Spec C23.Known C23.Codec C23.Proofs.

(* The property as stated, kept visible.  Both parts are REFUTED on this tree (see the *_refuted theorems). *)
Definition C23_full_statement : Prop :=
  (forall a, wf a -> parse (show a) = Ok a) /\
  (forall a s, wf a -> Encodes a s -> parse s = Ok a).

(* --- the percent codec, full strength --- *)
Theorem C23_percent_roundtrip : forall bs : bytes, decode_percents (encode_percents bs) = Ok bs.
Proof. exact percent_roundtrip. Qed.
Print Assumptions C23_percent_roundtrip.

Theorem C23_decoder_exact : forall t r : bytes, decode_percents t = Ok r <-> Enc r t.
Proof. exact decode_percents_Enc. Qed.
Print Assumptions C23_decoder_exact.

Theorem C23_encoder_conforms : forall bs : bytes, Enc bs (encode_percents bs).
Proof. exact encode_percents_Enc. Qed.
Print Assumptions C23_encoder_conforms.

(* --- Display, full strength: it writes a specification-conformant string that denotes the value --- *)
Theorem C23_display_conforms : forall a, wf a -> Encodes a (show a).
Proof. exact show_encodes. Qed.
Print Assumptions C23_display_conforms.

Theorem C23_display_denotes : forall a, wf a -> spec_denote (show a) = Some a.
Proof. exact display_denotes. Qed.
Print Assumptions C23_display_denotes.

(* the oracle reads every address string of a value back to that value *)
Theorem C23_spec_reads_encodings : forall a s, wf a -> Encodes a s -> spec_denote s = Some a.
Proof. exact encodes_denote. Qed.
Print Assumptions C23_spec_reads_encodings.

(* --- FromStr: round trip and decoding, outside the known classes --- *)
Theorem C23_roundtrip_partial : forall a ts, wf a -> Forall2 Enc (values a) ts -> ~ Known_C23 a ts ->
  parse (render_addr (tname (a_transport a)) (combine (keys a) ts)) = Ok a.
Proof. exact roundtrip_partial. Qed.
Print Assumptions C23_roundtrip_partial.

Theorem C23_display_roundtrip_partial : forall a, wf a -> ~ Known_C23_display a -> parse (show a) = Ok a.
Proof. exact display_roundtrip_partial. Qed.
Print Assumptions C23_display_roundtrip_partial.

(* the excluded class for Display's own output, read off the value *)
Theorem C23_known_display_exact : forall a, Known_C23_display a <->
  ((is_tcp_name (tname (a_transport a)) && existsb (fun kv => lbeq (fst kv) (B "bind")) (fields a))
   || existsb (fun kv => match snd kv with [] => true | _ => false end) (fields a)
   || existsb (fun kv => negb (lbeq (fst kv) (B "noncefile")) && negb (forallb unreserved (snd kv))) (fields a)) = true.
Proof. exact known_display_exact. Qed.
Print Assumptions C23_known_display_exact.

(* FromStr is total: the two loops of the parser never run out of fuel, nothing panics *)
Theorem C23_parse_never_panics : forall s p, parse s <> Panic p.
Proof. exact parse_no_panic. Qed.
Print Assumptions C23_parse_never_panics.

(* --- known findings: the full statement fails --- *)
Theorem C23_undecoded_value_refuted : exists a, wf a /\ parse (show a) <> Ok a.
Proof. exact undecoded_value_refuted. Qed.
Print Assumptions C23_undecoded_value_refuted.

Theorem C23_undecoded_value_witness :
  show w_undecoded = B "unix:path=/tmp/a%20b" /\
  parse (show w_undecoded) = Ok (mkAddr None (TUnix (UFile (B "/tmp/a%20b")))) /\
  Known_C23_display w_undecoded.
Proof. exact undecoded_value_witness. Qed.
Print Assumptions C23_undecoded_value_witness.

Theorem C23_empty_value_refuted : exists a, wf a /\ parse (show a) <> Ok a.
Proof. exact empty_value_refuted. Qed.
Print Assumptions C23_empty_value_refuted.

Theorem C23_tcp_bind_refuted : exists a, wf a /\ parse (show a) <> Ok a.
Proof. exact tcp_bind_refuted. Qed.
Print Assumptions C23_tcp_bind_refuted.

Theorem C23_decoding_refuted : exists a s, wf a /\ Encodes a s /\ parse s <> Ok a.
Proof. exact decoding_refuted. Qed.
Print Assumptions C23_decoding_refuted.
