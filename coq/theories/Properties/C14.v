(* Properties/C14.v — the byte stream is framed into exactly the messages that were sent.
   Only statements, each closed by [exact] of a lemma of C14/Proofs.v, and their assumptions.

   Vocabulary (C14/Model.v, C14/Spec.v):  [wire ms] is the peer's byte stream, each message's descriptors riding on
   its first byte;  [run_reader pf o w cut] is the model of SocketReader + ReadHalf::receive_message started after a
   handshake that already read the first [cut] bytes of [w] (and the descriptors riding on them), with [o] deciding
   how many bytes every single recvmsg call returns;  [bytes_oracle k] answers the n-th call with
   min (max 1 (k n)) |buf| bytes — every way of splitting the stream is such a [k];  [expected ms] = the messages
   byte-identical, in order, each with its own descriptors, numbered 1, 2, 3, ..., then the EOF error.
   [pf] is the header-field deserializer (any). *)
From ZV Require Import Base.Bytes Base.Res C14.Model C14.Spec C14.Proofs.
Open Scope N_scope.

(* every split, every handshake leftover outside the known class *)
Theorem C14_frames_partial : forall (pf : parse_fields) (ms : list smsg) (cut : nat) (k : nat -> N),
  Forall (valid_msg pf) ms -> ~ Known_C14 ms cut ->
  fst (run_reader pf (bytes_oracle k) (wire ms) cut) = expected ms.
Proof. exact frames_partial. Qed.
Print Assumptions C14_frames_partial.

(* ... and the reader has then consumed the whole stream and holds no leftovers *)
Theorem C14_frames_state : forall (pf : parse_fields) (ms : list smsg) (cut : nat) (k : nat -> N),
  Forall (valid_msg pf) ms -> ~ Known_C14 ms cut ->
  let st := snd (run_reader pf (bytes_oracle k) (wire ms) cut) in
  arb st = [] /\ arfds st = [] /\ strm st = [].
Proof. exact frames_state. Qed.
Print Assumptions C14_frames_state.

(* full strength when the handshake left nothing behind *)
Theorem C14_frames_no_leftover : forall (pf : parse_fields) (ms : list smsg) (k : nat -> N),
  Forall (valid_msg pf) ms -> fst (run_reader pf (bytes_oracle k) (wire ms) 0) = expected ms.
Proof. exact frames_no_leftover. Qed.
Print Assumptions C14_frames_no_leftover.

(* the known class is about descriptors only *)
Theorem C14_known_needs_fds : forall (ms : list smsg) (cut : nat),
  Forall (fun m => sm_fds m = []) ms -> known_c14 ms cut = false.
Proof. exact known_nofd. Qed.
Print Assumptions C14_known_needs_fds.

(* known finding: descriptors read ahead by the handshake + a buffered message without descriptors *)
Theorem C14_leftover_fd_refuted : exists (ms : list smsg) (cut : nat) (k : nat -> N),
  Forall (valid_msg std_fields) ms /\ Known_C14 ms cut /\
  fst (run_reader std_fields (bytes_oracle k) (wire ms) cut) = [OErr EMissing] /\
  fst (run_reader std_fields (bytes_oracle k) (wire ms) cut) <> expected ms.
Proof. exact leftover_fd_refuted. Qed.
Print Assumptions C14_leftover_fd_refuted.

Theorem C14_full_statement_refuted : ~ C14_full_statement.
Proof. exact full_statement_refuted. Qed.
Print Assumptions C14_full_statement_refuted.

(* a header declaring more than 128 MiB: rejected with ExcessData in the state reached right after its 16 bytes
   were obtained — no further oracle answer is consumed, exactly 16 bytes have left buffer + stream; any oracle *)
Theorem C14_limit : forall (pf : parse_fields) (o : oracle) (seq : N) (st st1 : rstate) (hdr : bytes) (f : list fd) (ph : phdr),
  phase1 o st = (st1, Ok (hdr, f)) -> parse_primary hdr = Ok ph -> MAX_MESSAGE_SIZE < total_len ph ->
  receive_message pf o seq st = (st1, Err EExcess) /\
  length hdr = 16%nat /\
  (length (arb st1) + length (strm st1) + 16 = length (arb st) + length (strm st))%nat.
Proof. exact limit. Qed.
Print Assumptions C14_limit.

Theorem C14_limit_buffered : forall (pf : parse_fields) (o : oracle) (seq : N) (st : rstate) (ph : phdr),
  (16 <= length (arb st))%nat -> parse_primary (firstn 16 (arb st)) = Ok ph -> MAX_MESSAGE_SIZE < total_len ph ->
  exists st1, receive_message pf o seq st = (st1, Err EExcess) /\ calls st1 = calls st /\ strm st1 = strm st.
Proof. exact limit_buffered. Qed.
Print Assumptions C14_limit_buffered.

(* the frame the specification assigns to a message is the one PrimaryHeader::read computes *)
Theorem C14_frame_agrees : forall (b : bytes) (f : frame), frame_of b = Some f ->
  exists ph, parse_primary (firstn 16 b) = Ok ph /\ ph_big ph = f_big f /\
             header_len ph = f_header_end f /\ total_len ph = f_total f /\ 16 <= lenN b.
Proof. exact frame_parse. Qed.
Print Assumptions C14_frame_agrees.

(* fuel of the read loops is never the reason for an outcome *)
Theorem C14_read_fuel : forall (o : oracle) (fuel : nat) (target : N) (buf : bytes) (fds : list fd) (st : rstate),
  (length (strm st) < fuel)%nat -> snd (read_to o fuel target buf fds st) <> Err EFuel.
Proof. exact read_to_fuel. Qed.
Print Assumptions C14_read_fuel.
