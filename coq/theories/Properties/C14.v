(* Properties/C14.v — the byte stream is framed into exactly the messages that were sent.
   Only statements, each closed by [exact] of a lemma of C14/Proofs.v, and their assumptions.

   Vocabulary (C14/Model.v, C14/Spec.v):  [wire ms] is the peer's byte stream, each message's descriptors riding on
   its first byte;  [run_reader pf o w cut] is the model of SocketReader + ReadHalf::receive_message started after a
   handshake that already read the first [cut] bytes of [w] (and the descriptors riding on them), with [o] deciding
   how many bytes every single recvmsg call returns;  [bytes_oracle k] answers the n-th call with
   min (max 1 (k n)) |buf| bytes — every way of splitting the stream is such a [k];  [expected ms] = the messages
   byte-identical, in order, each with its own descriptors, numbered 1, 2, 3, ..., then the EOF error.
   [pf] is the header-field deserializer (any); [c11_fields] is the instance the line driver uses: the C11 model of
   message::Fields (unknown codes ignored, names validated). *)
From ZV Require Import Base.Bytes Base.Res C14.Model C14.Spec C14.Fields C14.Proofs.
Open Scope N_scope.

(* every list of valid messages, every handshake cut, every function choosing the size of each recvmsg answer
   (full strength since fix: e5b20c34 — the statement refuted on the pinned tree, formerly C14_full_statement) *)
Theorem C14_frames : forall (pf : parse_fields) (ms : list smsg) (cut : nat) (k : nat -> N),
  Forall (valid_msg pf) ms ->
  fst (run_reader pf (bytes_oracle k) (wire ms) cut) = expected ms.
Proof. exact frames. Qed.
Print Assumptions C14_frames.

(* ... and the reader has then consumed the whole stream and holds no leftovers *)
Theorem C14_frames_state : forall (pf : parse_fields) (ms : list smsg) (cut : nat) (k : nat -> N),
  Forall (valid_msg pf) ms ->
  let st := snd (run_reader pf (bytes_oracle k) (wire ms) cut) in
  arb st = [] /\ arfds st = [] /\ strm st = [].
Proof. exact frames_state. Qed.
Print Assumptions C14_frames_state.

(* no residual class: for ANY stream, valid or hostile, any oracle (EOF and I/O errors included), receive_message never
   panics provided the field deserializer does not; in particular a peer that declares more descriptors than it sent
   now gets Error::MissingParameter where the pinned tree panicked in drain(..num_pending) *)
Theorem C14_no_panic : forall (pf : parse_fields) (o : oracle) (seq : N) (st : rstate) (p : panic),
  (forall big b q, pf big b <> Panic q) -> snd (receive_message pf o seq st) <> Panic p.
Proof. exact receive_no_panic. Qed.
Print Assumptions C14_no_panic.

Theorem C14_no_panic_std : forall (o : oracle) (seq : N) (st : rstate) (p : panic),
  snd (receive_message c11_fields o seq st) <> Panic p.
Proof. exact receive_no_panic_std. Qed.
Print Assumptions C14_no_panic_std.

(* a header declaring more than 128 MiB: rejected with ExcessData in the state reached right after its 16 bytes
   were obtained — no further oracle answer is consumed, exactly 16 bytes have left buffer + stream; any oracle *)
Theorem C14_limit : forall (pf : parse_fields) (o : oracle) (seq : N) (st st1 : rstate) (hdr : bytes) (f : list fd) (ph : phdr),
  phase1 o st = (st1, Ok (hdr, f)) -> parse_primary hdr = Ok ph -> MAX_MESSAGE_SIZE < total_len ph ->
  receive_message pf o seq st = (st1, Err EExcess) /\
  length hdr = 16%nat /\
  (length (arb st1) + length (strm st1) + 16 = length (arb st) + length (strm st))%nat.
Proof. exact limit. Qed.
Print Assumptions C14_limit.

Theorem C14_limit_buffered : forall (pf : parse_fields) (o : oracle) (seq : N) (st : rstate) (ph : phdr),
  (16 <= length (arb st))%nat -> parse_primary (firstn 16 (arb st)) = Ok ph -> MAX_MESSAGE_SIZE < total_len ph ->
  exists st1, receive_message pf o seq st = (st1, Err EExcess) /\ calls st1 = calls st /\ strm st1 = strm st.
Proof. exact limit_buffered. Qed.
Print Assumptions C14_limit_buffered.

(* the frame the specification assigns to a message is the one PrimaryHeader::read computes *)
Theorem C14_frame_agrees : forall (b : bytes) (f : frame), frame_of b = Some f ->
  exists ph, parse_primary (firstn 16 b) = Ok ph /\ ph_big ph = f_big f /\
             header_len ph = f_header_end f /\ total_len ph = f_total f /\ 16 <= lenN b.
Proof. exact frame_parse. Qed.
Print Assumptions C14_frame_agrees.

(* fuel of the read loops is never the reason for an outcome *)
Theorem C14_read_fuel : forall (o : oracle) (fuel : nat) (target : N) (buf : bytes) (fds : list fd) (st : rstate),
  (length (strm st) < fuel)%nat -> snd (read_to o fuel target buf fds st) <> Err EFuel.
Proof. exact read_to_fuel. Qed.
Print Assumptions C14_read_fuel.
