(* Properties/C28.v — the Properties interface behaves as the property definitions say.
   Only statements, each closed by [exact] of a lemma of C28/*.v, and their assumptions.

   Vocabulary (C26/Desc.v, Tree.v, Msg.v; C28/Model.v, Spec.v, Proofs.v, History.v):
     pdesc                         a property definition: name, type, access, EmitsChangedSignal, fallible getter / setter, &mut setter
     behaviour                     what user code does; here: when a fallible getter / setter fails (bh_gfail / bh_sfail)  (quantified over)
     node / inst                   the node tree; an instance = description + current property values (in_vals)
     dispatch bh root c            MODEL: routing + the generated get / get_all / set / set_mut / <prop>_changed + fdo::Properties
     props_call path nr m args     the METHOD_CALL  org.freedesktop.DBus.Properties.<m>(args)  at path, nr = NO_REPLY_EXPECTED
     spec_get / spec_get_all / spec_set    SPECIFICATION from the property text over the abstract state (C28/Spec.v):
                                   replies, getter / setter invocations, PropertiesChanged signals, new state
     meets x r                     r has exactly the replies, handler log, signals and final state that x demands
     root_ok root                  registered interfaces have valid, non-standard names, distinct property names, and a typed value
                                   for every property
     state_ok root                 root_ok + at most one instance of a name per node (the invariant over histories)
     tv p                          the property's Rust type is OwnedValue (D-Bus type v)
     set_known bh i p sent         class of a Set: tv p, or the Set is valid, the setter succeeds, the annotation is `true` and
                                   the getter then fails on the new value *)
From ZV Require Import Base.Bytes C26.Desc C26.Tree C26.Msg C27.Model C28.Model C26.Model.
From ZV Require Import C28.Spec C26.Facts C28.Proofs C28.History C28.Registration C28.Examples.

(* The property as stated, kept visible; REFUTED on this tree (three classes, below). *)
Definition C28_full_statement : Prop :=
  forall (bh : behaviour) (root : node) (path : bytes) (nr : bool) (q : preq),
    root_ok root -> meets (req_spec bh nr root path q) (dispatch bh root (req_call path nr q)).

(* --- Get returns each readable property's current value (or its getter's error); anything else is an error --- *)
Theorem C28_get_partial :
  forall (bh : behaviour) (root : node) (path : bytes) (nr : bool) (iface pname : bytes),
    root_ok root ->
    (forall i p, registered root path iface = Some i -> find_prop (in_desc i) pname = Some p -> readable p = true ->
                 tv p = false) ->
    meets (spec_get bh nr root path iface pname)
          (dispatch bh root (props_call path nr (B "Get") [VS iface; VS pname])).
Proof. exact get_partial. Qed.
Print Assumptions C28_get_partial.

(* --- GetAll returns exactly the readable properties with their current values --- *)
Theorem C28_getall_partial :
  forall (bh : behaviour) (root : node) (path : bytes) (nr : bool) (iface : bytes),
    root_ok root ->
    (forall i p v, registered root path iface = Some i -> In p (id_props (in_desc i)) -> readable p = true ->
                   get_val (pd_name p) (in_vals i) = Some v -> tv p = false /\ getter_error bh i p v = None) ->
    meets (spec_get_all bh nr root path iface)
          (dispatch bh root (props_call path nr (B "GetAll") [VS iface])).
Proof. exact get_all_partial. Qed.
Print Assumptions C28_getall_partial.

(* --- Set: unknown / read-only / wrongly typed are rejected and nothing happens; otherwise the setter runs once, the
       value is stored when it succeeds, and exactly the PropertiesChanged signals the annotation asks for follow --- *)
Theorem C28_set_partial :
  forall (bh : behaviour) (root : node) (path : bytes) (nr : bool) (iface pname : bytes) (sent : val),
    root_ok root ->
    (forall i p, registered root path iface = Some i -> find_prop (in_desc i) pname = Some p -> writable p = true ->
                 ~ set_known bh i p sent) ->
    meets (spec_set bh nr root path iface pname sent)
          (dispatch bh root (props_call path nr (B "Set") [VS iface; VS pname; VV sent])).
Proof. exact set_partial. Qed.
Print Assumptions C28_set_partial.

(* --- the state invariant: every call (of any kind) leaves the tree well-formed, so does every history --- *)
Theorem C28_state_invariant :
  forall (bh : behaviour) (cs : list call) (root : node), state_ok root -> state_ok (run_calls bh root cs).
Proof. exact history_state. Qed.
Print Assumptions C28_state_invariant.

(* --- the invariant holds to begin with: every tree built by ObjectServer::at from well-formed instances --- *)
Theorem C28_registered_states_ok :
  forall regs : list (list bytes * inst),
    Forall (fun e => desc_wf (in_desc (snd e)) /\ inst_ok (snd e)) regs -> state_ok (register_all empty_node regs).
Proof. exact state_ok_registered. Qed.
Print Assumptions C28_registered_states_ok.

(* --- over ALL histories: after any sequence of calls the next Get / GetAll / Set outside the classes (decided on
       the state reached) is answered as the definitions say --- *)
Theorem C28_history_partial :
  forall (bh : behaviour) (cs : list call) (root : node) (path : bytes) (nr : bool) (q : preq),
    state_ok root -> ~ req_known bh (run_calls bh root cs) path q ->
    meets (req_spec bh nr (run_calls bh root cs) path q)
          (dispatch bh (run_calls bh root cs) (req_call path nr q)).
Proof. exact history_partial. Qed.
Print Assumptions C28_history_partial.

(* --- the known classes --- *)
(* the Set took effect but is answered with an error and no PropertiesChanged: the getter called for the signal failed *)
Theorem C28_changed_getter_fails_refuted :
  exists (bh : behaviour) (root : node) (path iface pname : bytes) (sent : val) (i : inst) (p : pdesc),
    root_ok root /\ registered root path iface = Some i /\ find_prop (in_desc i) pname = Some p /\
    writable p = true /\ tv p = false /\ has_ty sent (pd_ty p) = true /\ setter_error bh i p sent = None /\
    eff_emits p = ETrue /\ getter_error bh i p sent <> None /\
    ~ meets (spec_set bh false root path iface pname sent)
            (dispatch bh root (props_call path false (B "Set") [VS iface; VS pname; VV sent])) /\
    (exists e m, ef_replies (fst (dispatch bh root (props_call path false (B "Set") [VS iface; VS pname; VV sent]))) = [RErr e m]) /\
    ef_signals (fst (dispatch bh root (props_call path false (B "Set") [VS iface; VS pname; VV sent]))) = [] /\
    exists i', registered (snd (dispatch bh root (props_call path false (B "Set") [VS iface; VS pname; VV sent]))) path iface = Some i' /\
               get_val pname (in_vals i') = Some sent.
Proof. exact changed_getter_fails_refuted_full. Qed.
Print Assumptions C28_changed_getter_fails_refuted.

(* GetAll leaves out a readable property whose getter fails *)
Theorem C28_getall_omits_failed_refuted :
  exists (bh : behaviour) (root : node) (path iface : bytes) (i : inst) (p : pdesc) (v : val),
    root_ok root /\ registered root path iface = Some i /\ In p (id_props (in_desc i)) /\ readable p = true /\
    get_val (pd_name p) (in_vals i) = Some v /\ getter_error bh i p v <> None /\
    ~ meets (spec_get_all bh false root path iface) (dispatch bh root (props_call path false (B "GetAll") [VS iface])) /\
    exists m, ef_replies (fst (dispatch bh root (props_call path false (B "GetAll") [VS iface]))) = [RRet [VP m]] /\
              get_val (pd_name p) m = None.
Proof. exact getall_omits_failed_refuted_full. Qed.
Print Assumptions C28_getall_omits_failed_refuted.

(* a property of Rust type OwnedValue is declared `v`, but Get carries the inner value and Set accepts any type *)
Theorem C28_variant_typed_property_refuted :
  exists (bh : behaviour) (root : node) (path iface pname : bytes) (i : inst) (p : pdesc),
    root_ok root /\ registered root path iface = Some i /\ find_prop (in_desc i) pname = Some p /\
    pd_ty p = TV /\ pd_acc p = ARW /\
    ~ meets (spec_get bh false root path iface pname) (dispatch bh root (props_call path false (B "Get") [VS iface; VS pname])) /\
    ef_replies (fst (dispatch bh root (props_call path false (B "Set") [VS iface; VS pname; VV (VU 5)]))) = [RRet []].
Proof. exact variant_typed_refuted_full. Qed.
Print Assumptions C28_variant_typed_property_refuted.

Theorem C28_full_statement_refuted : ~ C28_full_statement.
Proof. exact full_statement_refuted28. Qed.
Print Assumptions C28_full_statement_refuted.
