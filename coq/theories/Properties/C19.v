(* Properties/C19.v — every method call receives its own reply and only its own reply.
   Only statements, each closed by [exact] of a lemma of C19/Proofs.v, and their assumptions.

   Vocabulary (C19/Model.v, C19/Broadcast.v).  [cs] = the calls (kind, serial), [cap] = capacity of the method-return channel,
   [t] = a method timeout is configured.  [reach cs cap t tr s]: state s is reached by the history tr of atomic actions
     LSub i (activate_cloned), LLock i / LSend i ok (send), LRecv i (the caller takes one item from its stream), LTimeout i
     (its timer fires), LRead / LPush / LNext (socket reader: read one item, one broadcast_direct, end of the fan-out),
     LArrive it (the peer/transport delivers a message or a failure; a message carrying the serial of one of our calls as
     reply_serial only after that call was written).
   The history IS the scheduler, the peer, the transport and the timers: nothing else restricts what comes next, how many
   callers there are, or how long anything takes.  [done_log s] = the completions so far, in order (ghost).
   [exec tr s] = the executable replay used by the correspondence check. *)
From ZV Require Import Base.Bytes Base.Res C19.Broadcast C19.Model C19.Proofs.

(* a completed call holds a METHOD_RETURN (Ok) / ERROR (Err) whose reply_serial is its own serial; with distinct serials that
   message answers no other call *)
Theorem C19_match : forall cs cap t tr s i r c,
  reach cs cap t tr s -> In (i, r) (done_log s) -> nth_error (callers s) i = Some c ->
  match r with
  | ROk m => m_rs m = Some (c_serial c) /\ m_type m = TReturn /\
             (NoDup (map snd cs) -> forall j c', j <> i -> nth_error (callers s) j = Some c' -> answers m (c_serial c') = false)
  | RMethodErr m => m_rs m = Some (c_serial c) /\ m_type m = TError /\
             (NoDup (map snd cs) -> forall j c', j <> i -> nth_error (callers s) j = Some c' -> answers m (c_serial c') = false)
  | _ => True
  end.
Proof. exact match_own. Qed.
Print Assumptions C19_match.

(* at most one completion per call, and the log of completions is exactly the set of finished calls *)
Theorem C19_once : forall cs cap t tr s, reach cs cap t tr s ->
  NoDup (map fst (done_log s)) /\ (forall i r, In (i, r) (done_log s) <-> st_at s i = Some (CDone r)).
Proof. exact once. Qed.
Print Assumptions C19_once.

(* a finished call stays finished with the same result, whatever happens afterwards *)
Theorem C19_once_stable : forall tr s s' i r, exec tr s = Some s' -> st_at s i = Some (CDone r) -> st_at s' i = Some (CDone r).
Proof. exact Invariants.done_exec. Qed.
Print Assumptions C19_once_stable.

(* subscription precedes the send and an answer can only follow the send: no answer to a waiting caller lies behind its cursor *)
Theorem C19_sees_nothing_missed : forall cs cap t tr s i c p q m,
  reach cs cap t tr s -> nth_error (callers s) i = Some c -> c_st c = CWaiting -> cursor (ch s) i = Some p ->
  nth_error (log (ch s)) q = Some (IMsg m) -> answers m (c_serial c) = true -> p <= q.
Proof. exact nothing_missed. Qed.
Print Assumptions C19_sees_nothing_missed.

(* ... and a caller that keeps polling gets it: if the first answer stands at position q >= cursor p (only foreign messages in
   between), then after any continuation in which the caller took more than q - p items and its timer did not fire, the call has
   completed with exactly that answer — whatever all other tasks, the reader and the peer did meanwhile *)
Theorem C19_sees : forall tr' s s' i c p q m,
  nth_error (callers s) i = Some c -> c_st c = CWaiting -> cursor (ch s) i = Some p -> p <= q ->
  nth_error (log (ch s)) q = Some (IMsg m) -> answers m (c_serial c) = true ->
  (forall j, p <= j < q -> exists m', nth_error (log (ch s)) j = Some (IMsg m') /\ answers m' (c_serial c) = false) ->
  exec tr' s = Some s' ->
  existsb (fun l => match l with LTimeout j => Nat.eqb i j | _ => false end) tr' = false ->
  q - p < length (filter (fun l => match l with LRecv j => Nat.eqb i j | _ => false end) tr') ->
  st_at s' i = Some (CDone (match m_type m with TError => RMethodErr m | _ => ROk m end)).
Proof. exact sees_progress. Qed.
Print Assumptions C19_sees.

(* taking an item is always possible while something is unread or the channel is closed: a waiting caller is never stuck *)
Theorem C19_poll_enabled : forall cs cap t tr s i c,
  reach cs cap t tr s -> nth_error (callers s) i = Some c -> c_st c = CWaiting ->
  (exists p, cursor (ch s) i = Some p /\ (p < tail (ch s) \/ closed (ch s) = true)) -> exists s', step (LRecv i) s = Some s'.
Proof. exact recv_enabled. Qed.
Print Assumptions C19_poll_enabled.

(* NoReplyExpected: the call is complete the moment its message is written, without looking at the channel *)
Theorem C19_noreply : forall s i c, nth_error (callers s) i = Some c -> c_st c = CSending -> c_kind c = KNoReply ->
  exists s', step (LSend i true) s = Some s' /\ st_at s' i = Some (CDone RNoReply).
Proof. exact noreply_completes. Qed.
Print Assumptions C19_noreply.

(* connection failure: once the socket reader has stopped, a waiting caller that takes more items than the channel ever held
   has completed (with its answer if that was broadcast before the failure, else with the error / BrokenPipe) *)
Theorem C19_fail : forall cs cap t tr s tr' s' i c,
  reach cs cap t tr s -> reader s = RStopped -> nth_error (callers s) i = Some c -> c_st c = CWaiting ->
  exec tr' s = Some s' ->
  length (log (ch s)) < length (filter (fun l => match l with LRecv j => Nat.eqb i j | _ => false end) tr') ->
  exists r, st_at s' i = Some (CDone r).
Proof. exact fail_completes. Qed.
Print Assumptions C19_fail.

(* the method timeout.  Full statement: whenever a timeout is configured, the timer of any waiting call can fire and completes
   it with TimedOut.  It is FALSE for Proxy::call_with_flags (KFlags), which awaits the reply without the timeout. *)
Definition C19_full_statement : Prop :=
  forall cs cap t tr s i c, reach cs cap t tr s -> tmo s = true -> nth_error (callers s) i = Some c -> c_st c = CWaiting ->
    exists s', step (LTimeout i) s = Some s' /\ st_at s' i = Some (CDone RTimedOut).

Definition Known_C19 (c : caller) : Prop := c_kind c = KFlags.

Theorem C19_timeout_partial :
  forall cs cap t tr s i c, reach cs cap t tr s -> tmo s = true -> nth_error (callers s) i = Some c -> c_st c = CWaiting ->
    ~ Known_C19 c ->
    exists s', step (LTimeout i) s = Some s' /\ st_at s' i = Some (CDone RTimedOut).
Proof. intros cs cap t tr s i c Hr Ht Hc Hst Hk. exact (timeout_partial cs cap t tr s i c Hr Ht Hc Hst (fun _ => Hk)). Qed.
Print Assumptions C19_timeout_partial.

Theorem C19_flags_call_refuted : ~ C19_full_statement.
Proof.
  intros H. apply flags_call_refuted. intros cs cap t tr s i c Hr Ht Hc Hst _. exact (H cs cap t tr s i c Hr Ht Hc Hst).
Qed.
Print Assumptions C19_flags_call_refuted.

(* the witness: one call_with_flags call, written, timeout configured, silent peer — reachable, and no action but a delivery
   by the peer is enabled ever after *)
Theorem C19_flags_call_waits_for_ever :
  reach [(KFlags, 1%N)] 8 true [LSub 0; LLock 0; LSend 0 true] flags_witness /\
  tmo flags_witness = true /\ st_at flags_witness 0 = Some CWaiting /\
  forall tr' s', exec tr' flags_witness = Some s' -> (forall it, ~ In (LArrive it) tr') -> s' = flags_witness.
Proof. split; [exact flags_witness_reach | split; [reflexivity | split; [reflexivity | exact flags_call_waits_for_ever]]]. Qed.
Print Assumptions C19_flags_call_waits_for_ever.

(* the executable replay used by the correspondence check stays inside the step relation *)
Theorem C19_run_sound : forall cs cap t tr s, exec tr (init cs cap t) = Some s -> reach cs cap t tr s.
Proof. exact exec_reach. Qed.
Print Assumptions C19_run_sound.
