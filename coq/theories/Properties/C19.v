(* Properties/C19.v — every method call receives its own reply and only its own reply.
   Only statements, each closed by [exact] of a lemma of C19/Proofs.v, and their assumptions.

   Vocabulary (C19/Model.v, C19/Broadcast.v).  [cs] = the calls (kind, serial), [cap] = capacity of the method-return channel,
   [t] = a method timeout is configured.  [reach cs cap t tr s]: state s is reached by the history tr of atomic actions
     LSub i (activate_cloned), LLock i / LSend i ok (send; LWire i then LRet i when the bytes are out before send_message returns), LRecv i (the caller takes one item from its stream), LTimeout i
     (its timer fires), LRead / LPush / LNext (socket reader: read one item, one broadcast_direct, end of the fan-out),
     LArrive it (the peer/transport delivers a message or a failure; a message carrying the serial of one of our calls as
     reply_serial only after that call was written).
   The history IS the scheduler, the peer, the transport and the timers: nothing else restricts what comes next, how many
   callers there are, or how long anything takes.  [done_log s] = the completions so far, in order (ghost).
   [exec tr s] = the executable replay used by the correspondence check. *)
From ZV Require Import Base.Bytes Base.Res C19.Broadcast C19.Model C19.Proofs.

(* a completed call holds a METHOD_RETURN (Ok) / ERROR (Err) whose reply_serial is its own serial; with distinct serials that
   message answers no other call *)
Theorem C19_match : forall cs cap t tr s i r c,
  reach cs cap t tr s -> In (i, r) (done_log s) -> nth_error (callers s) i = Some c ->
  match r with
  | ROk m => m_rs m = Some (c_serial c) /\ m_type m = TReturn /\
             (NoDup (map snd cs) -> forall j c', j <> i -> nth_error (callers s) j = Some c' -> answers m (c_serial c') = false)
  | RMethodErr m => m_rs m = Some (c_serial c) /\ m_type m = TError /\
             (NoDup (map snd cs) -> forall j c', j <> i -> nth_error (callers s) j = Some c' -> answers m (c_serial c') = false)
  | _ => True
  end.
Proof. exact match_own. Qed.
Print Assumptions C19_match.

(* at most one completion per call, and the log of completions is exactly the set of finished calls *)
Theorem C19_once : forall cs cap t tr s, reach cs cap t tr s ->
  NoDup (map fst (done_log s)) /\ (forall i r, In (i, r) (done_log s) <-> st_at s i = Some (CDone r)).
Proof. exact once. Qed.
Print Assumptions C19_once.

(* a finished call stays finished with the same result, whatever happens afterwards *)
Theorem C19_once_stable : forall tr s s' i r, exec tr s = Some s' -> st_at s i = Some (CDone r) -> st_at s' i = Some (CDone r).
Proof. exact Invariants.done_exec. Qed.
Print Assumptions C19_once_stable.

(* subscription precedes the send and an answer can only follow the send: no answer to a caller whose call is on the wire — waiting,
   or still inside send() (CWritten: bytes out, send_message has not returned) — lies behind its cursor *)
Theorem C19_sees_nothing_missed : forall cs cap t tr s i c p q m,
  reach cs cap t tr s -> nth_error (callers s) i = Some c -> (c_st c = CWaiting \/ c_st c = CWritten) -> cursor (ch s) i = Some p ->
  nth_error (log (ch s)) q = Some (IMsg m) -> answers m (c_serial c) = true -> p <= q.
Proof. exact nothing_missed. Qed.
Print Assumptions C19_sees_nothing_missed.

(* ... and a caller that keeps polling gets it: if the first answer stands at position q >= cursor p (only foreign messages in
   between), then after any continuation in which the caller took more than q - p items and its timer did not fire, the call has
   completed with exactly that answer — whatever all other tasks, the reader and the peer did meanwhile *)
Theorem C19_sees : forall tr' s s' i c p q m,
  nth_error (callers s) i = Some c -> c_st c = CWaiting -> cursor (ch s) i = Some p -> p <= q ->
  nth_error (log (ch s)) q = Some (IMsg m) -> answers m (c_serial c) = true ->
  (forall j, p <= j < q -> exists m', nth_error (log (ch s)) j = Some (IMsg m') /\ answers m' (c_serial c) = false) ->
  exec tr' s = Some s' ->
  existsb (fun l => match l with LTimeout j => Nat.eqb i j | _ => false end) tr' = false ->
  q - p < length (filter (fun l => match l with LRecv j => Nat.eqb i j | _ => false end) tr') ->
  st_at s' i = Some (CDone (match m_type m with TError => RMethodErr m | _ => ROk m end)).
Proof. exact sees_progress. Qed.
Print Assumptions C19_sees.

(* taking an item is always possible while something is unread or the channel is closed: a waiting caller is never stuck *)
Theorem C19_poll_enabled : forall cs cap t tr s i c,
  reach cs cap t tr s -> nth_error (callers s) i = Some c -> c_st c = CWaiting ->
  (exists p, cursor (ch s) i = Some p /\ (p < tail (ch s) \/ closed (ch s) = true)) -> exists s', step (LRecv i) s = Some s'.
Proof. exact recv_enabled. Qed.
Print Assumptions C19_poll_enabled.

(* NoReplyExpected: the call is complete the moment its message is written, without looking at the channel *)
Theorem C19_noreply : forall s i c, nth_error (callers s) i = Some c -> c_st c = CSending -> c_kind c = KNoReply ->
  exists s', step (LSend i true) s = Some s' /\ st_at s' i = Some (CDone RNoReply).
Proof. exact noreply_completes. Qed.
Print Assumptions C19_noreply.

Theorem C19_noreply_late : forall s i c, nth_error (callers s) i = Some c -> c_st c = CWritten -> c_kind c = KNoReply ->
  exists s', step (LRet i) s = Some s' /\ st_at s' i = Some (CDone RNoReply).
Proof. exact noreply_completes_late. Qed.
Print Assumptions C19_noreply_late.

(* connection failure: once the socket reader has stopped, a waiting caller that takes more items than the channel ever held
   has completed (with its answer if that was broadcast before the failure, else with the error / BrokenPipe) *)
Theorem C19_fail : forall cs cap t tr s tr' s' i c,
  reach cs cap t tr s -> reader s = RStopped -> nth_error (callers s) i = Some c -> c_st c = CWaiting ->
  exec tr' s = Some s' ->
  length (log (ch s)) < length (filter (fun l => match l with LRecv j => Nat.eqb i j | _ => false end) tr') ->
  exists r, st_at s' i = Some (CDone r).
Proof. exact fail_completes. Qed.
Print Assumptions C19_fail.

(* the method timeout, at full strength: whenever a timeout is configured, the timer of ANY waiting call — Connection::call_method,
   Proxy::call and (since fix 3eb91a8f) Proxy::call_with_flags — can fire and completes it with TimedOut *)
Theorem C19_timeout :
  forall cs cap t tr s i c, reach cs cap t tr s -> tmo s = true -> nth_error (callers s) i = Some c -> c_st c = CWaiting ->
    exists s', step (LTimeout i) s = Some s' /\ st_at s' i = Some (CDone RTimedOut).
Proof. exact timeout_full. Qed.
Print Assumptions C19_timeout.

(* ... and without a configured timeout no call ever times out *)
Theorem C19_no_timeout_unless_configured : forall cs cap t tr s i, reach cs cap t tr s -> t = false -> step (LTimeout i) s = None.
Proof. exact no_timeout_without_config. Qed.
Print Assumptions C19_no_timeout_unless_configured.

(* ------------------------------------------------------------------ the reply gets into the channel.
   Full statement: whenever the reader is idle, the next item on the socket is a message answering a waiting call and the
   method-return channel has room, the reader's next three actions put exactly that message at the end of the channel
   (from where C19_sees takes it to the caller).
   It is FALSE once the application has made a MessageStream for exactly the rule type='method_return' or type='error'
   (label LHijack): Connection::add_match inserts the stream's sender into msg_senders under the key of the connection's own entry. *)
Definition C19_full_statement : Prop :=
  forall cs cap0 t tr s i c m rest, reach cs cap0 t tr s ->
    reader s = RIdle -> socket s = IMsg m :: rest ->
    nth_error (callers s) i = Some c -> (c_st c = CWaiting \/ c_st c = CWritten) -> answers m (c_serial c) = true -> qlen (ch s) < cap (ch s) ->
    exists s', exec [LRead; LPush; LNext] s = Some s' /\ log (ch s') = log (ch s) ++ [IMsg m] /\ reader s' = RIdle /\ socket s' = rest.

(* the decidable class: the history contains such a subscription *)
Definition Known_C19 (tr : list label) : bool := existsb (fun l => match l with LHijack _ => true | _ => false end) tr.

Theorem C19_delivery_partial :
  forall cs cap0 t tr s i c m rest, reach cs cap0 t tr s -> Known_C19 tr = false ->
    reader s = RIdle -> socket s = IMsg m :: rest ->
    nth_error (callers s) i = Some c -> (c_st c = CWaiting \/ c_st c = CWritten) -> answers m (c_serial c) = true -> qlen (ch s) < cap (ch s) ->
    exists s', exec [LRead; LPush; LNext] s = Some s' /\ log (ch s') = log (ch s) ++ [IMsg m] /\ reader s' = RIdle /\ socket s' = rest.
Proof. exact delivery_partial_stated. Qed.
Print Assumptions C19_delivery_partial.

Theorem C19_return_rule_hijack_refuted : ~ C19_full_statement.
Proof. exact hijack_refuted_stated. Qed.
Print Assumptions C19_return_rule_hijack_refuted.

(* what it means: from the moment the entry for type='method_return' is replaced, no METHOD_RETURN ever enters the channel again,
   whatever anybody does afterwards — every pending and every later call that is answered with a return waits for ever
   (or until its timeout / the end of the connection) *)
Theorem C19_hijacked_returns_lost_for_ever : forall s0 s tr' s',
  step (LHijack false) s0 = Some s -> exec tr' s = Some s' ->
  forall m, In (IMsg m) (log (ch s')) -> m_type m = TReturn -> In (IMsg m) (log (ch s)).
Proof. exact hijacked_returns_lost. Qed.
Print Assumptions C19_hijacked_returns_lost_for_ever.

(* the executable replay used by the correspondence check stays inside the step relation *)
Theorem C19_run_sound : forall cs cap t tr s, exec tr (init cs cap t) = Some s -> reach cs cap t tr s.
Proof. exact exec_reach. Qed.
Print Assumptions C19_run_sound.

(* the reply is handled completely by the socket reader between "bytes out" and "send() returns", no other call pending:
   the caller still gets it (a call_method_raw that activated its receiver only after the send would lose it) *)
Example C19_reply_before_send_returns :
  exists s, exec early_trace (init early_cs 8 false) = Some s /\ st_at s 0 = Some (CDone (ROk early_reply)) /\ done_log s = [(0, ROk early_reply)].
Proof. exact early_reply_received. Qed.
