(* Properties/C37.v — bus match registrations mirror the live signal subscriptions.
   Only statements, each closed by [exact] of a lemma of C37/Proofs.v or C37/Witness.v, and their assumptions.

   conn                  the state of the model (C37/Model.v): subs (the refcount map `subscriptions`), pend (queued
                         "Remove match" tasks), held (which live object holds which subscription), thr (API futures in
                         flight, each a list of atomic actions still to do), evs (AddMatch/RemoveMatch seen by the bus)
   step allowed c c'     one atomic action: an API call allowed by [allowed] starts / some future performs its next action
                         (add_match and remove_match are atomic: they hold the subscriptions mutex across the bus call) /
                         the executor runs some queued removal;  reachable = init step*: EVERY interleaving of ANY number
                         of concurrent calls and queued removals
   plain_op              every API operation except request_name (the known class); MessageStream::clone is included
                         since fix 3c4a83a4 (clones share one subscription, given back by the last of them)
   held c                the live subscriptions, each with the objects sharing it (a stream and its clones; never empty:
                         C37_held_nonempty)
   live c r              number of live subscriptions to r (streams with their clones, signal streams, proxies)
   bus_has es r          after the events es, is r registered with the bus (last event about r is an AddMatch)
   trace_ok es           every event is about a signal rule, every AddMatch(r) arrives when r is not registered and
                         every RemoveMatch(r) when it is
   quiescent c           no queued removal, every future finished *)
From Coq Require Import List NArith Bool Arith.
From ZV Require Import Base.Bytes C37.Model C37.Spec C37.Proofs C37.Sched C37.Witness C37.Check C37.CheckFacts C37.Seq.
Import ListNotations.
Open Scope nat_scope.

(* ---- no rule is added twice (nor removed when absent; non-signal rules never reach the bus):
        full strength, every operation, every interleaving *)
Theorem C37_no_double_add : forall allowed c, reachable allowed c -> trace_ok (evs c).
Proof. exact no_double_add. Qed.
Print Assumptions C37_no_double_add.

(* what the bus has is exactly what has a refcount entry: full strength *)
Theorem C37_registered_iff_counted : forall allowed c,
  reachable allowed c -> forall r, bus_has (evs c) r = (0 <? subs c r) && is_sig r.
Proof. exact registered_iff_counted. Qed.
Print Assumptions C37_registered_iff_counted.

(* ---- the full statement: whenever nothing is in flight, the registered rules are the signal rules in use.
        It does NOT hold of the pinned code: *)
Definition C37_full_statement : Prop :=
  forall c, reachable any_op c -> quiescent c ->
  forall r, bus_has (evs c) r = true <-> (0 < live c r /\ is_sig r = true).

Theorem C37_full_statement_refuted : ~ C37_full_statement.
Proof. exact full_refuted. Qed.
Print Assumptions C37_full_statement_refuted.

(* clones (repaired by 3c4a83a4; this run was the witness of the former class clone_uncounted): a stream is cloned and
   the clone dropped - nothing is removed, the original keeps its registration; only when the original goes too is the
   rule removed *)
Theorem C37_clone_repaired_example :
  (exists c, run_choices plain_op w_clone init = Some c /\ quiescent c /\ evs c = [EAdd r_sig] /\ live c r_sig = 1 /\
             held c = [([1%N], r_sig)] /\ bus_has (evs c) r_sig = true) /\
  (exists c, run_choices plain_op (w_clone ++ w_clone_end) init = Some c /\ quiescent c /\
             evs c = [EAdd r_sig; ERem r_sig] /\ held c = []).
Proof. exact clone_repaired. Qed.
Print Assumptions C37_clone_repaired_example.

(* every live subscription is shared by at least one live object: full strength *)
Theorem C37_held_nonempty : forall allowed c, reachable allowed c -> Forall (fun x => fst x <> []) (held c).
Proof. exact held_nonempty. Qed.
Print Assumptions C37_held_nonempty.

(* the NameAcquired/NameLost rules added by request_name are never removed *)
Theorem C37_name_rules_leak_refuted :
  exists c, reachable any_op c /\ quiescent c /\ live c r_acq = 0 /\ bus_has (evs c) r_acq = true.
Proof. exact leak_refuted. Qed.
Print Assumptions C37_name_rules_leak_refuted.

(* ---- outside the class (no request_name): the refcount of a rule = live holders + queued removals + futures between the
        add_match and the OnceLock::set of subscribe_dest_owner_change, under every interleaving *)
Theorem C37_refcount_partial : forall c,
  reachable plain_op c -> forall r, subs c r = live c r + count_rule r (pend c) + owed r (thr c).
Proof. exact refcount. Qed.
Print Assumptions C37_refcount_partial.

(* C37_mirror *)
Theorem C37_mirror_partial : forall c,
  reachable plain_op c -> quiescent c ->
  forall r, bus_has (evs c) r = true <-> (0 < live c r /\ is_sig r = true).
Proof. exact mirror_partial. Qed.
Print Assumptions C37_mirror_partial.

(* at any moment, not only when quiescent: a signal rule in use is registered ... *)
Theorem C37_in_use_registered_partial : forall c,
  reachable plain_op c -> forall r, 0 < live c r -> is_sig r = true -> bus_has (evs c) r = true.
Proof. exact in_use_registered. Qed.
Print Assumptions C37_in_use_registered_partial.

(* ... and a registered rule is in use, or its removal is queued, or a future is about to hand it to a proxy *)
Theorem C37_registered_accounted_partial : forall c,
  reachable plain_op c -> forall r, bus_has (evs c) r = true ->
  0 < live c r + count_rule r (pend c) + owed r (thr c) /\ is_sig r = true.
Proof. exact registered_accounted. Qed.
Print Assumptions C37_registered_accounted_partial.

(* C37_no_premature_remove: the action that sends RemoveMatch(r) leaves no live holder of r (nor a queued removal) *)
Theorem C37_no_premature_remove_partial : forall c c' r,
  reachable plain_op c -> step plain_op c c' -> evs c' = evs c ++ [ERem r] ->
  live c' r = 0 /\ count_rule r (pend c') = 0 /\ owed r (thr c') = 0.
Proof. exact no_premature_remove. Qed.
Print Assumptions C37_no_premature_remove_partial.

(* the executable scheduler used for witnesses and by the trace checker only makes steps of the model *)
Theorem C37_scheduler_sound : forall allowed l c c',
  run_choices allowed l c = Some c' -> steps allowed c c'.
Proof. exact run_choices_steps. Qed.
Print Assumptions C37_scheduler_sound.

(* ---- the executable oracle that judges the implementation's output ([spec_ok]: per API call, the events seen during it
        respect the trace discipline, no RemoveMatch(r) in a call before and after which r is in use, at the end of
        the call every signal rule in use is registered and every registered rule is in use or was held by an object
        dropped since the last idle point) accepts EVERY sequential run of the model ([run_items]: one API call at a
        time - single calls, ticks, run-until-idle - with the queued removals interleaving in any way) over a history
        outside the class.  So the oracle demands nothing the theorems above do not give. *)
Theorem C37_oracle_sound_partial : forall run c',
  forallb (fun x => plain_item (fst x)) run = true -> run_items init run c' -> spec_ok ost0 run = true.
Proof. exact oracle_sound_init. Qed.
Print Assumptions C37_oracle_sound_partial.

(* non-vacuity of the hypothesis: two streams on one rule, one dropped, one async-dropped, the queued removal runs at the
   idle point *)
Theorem C37_oracle_example :
  (exists c', run_items init ex_seq_run c') /\ forallb (fun x => plain_item (fst x)) ex_seq_run = true.
Proof. exact ex_seq_ok. Qed.
Print Assumptions C37_oracle_example.

(* the counter arithmetic of the per-rule trace checker (C37/Check.v) is that of add_match / remove_match on the entry
   concerned; other entries are untouched (so the search can be done rule by rule) *)
Theorem C37_checker_add : forall r s es,
  fst (add_match r s es) r = fst (add1 (s r)) /\
  snd (add_match r s es) = es ++ (if snd (add1 (s r)) then sig_ev r (EAdd r) else []) /\
  forall x, x <> r -> fst (add_match r s es) x = s x.
Proof. exact add1_is_add_match. Qed.
Print Assumptions C37_checker_add.

Theorem C37_checker_remove : forall r s es,
  fst (remove_match r s es) r = fst (rem1 (s r)) /\
  snd (remove_match r s es) = es ++ (if snd (rem1 (s r)) then sig_ev r (ERem r) else []) /\
  forall x, x <> r -> fst (remove_match r s es) x = s x.
Proof. exact rem1_is_remove_match. Qed.
Print Assumptions C37_checker_remove.

(* non-vacuity: 3 streams (one on a non-signal rule), a proxy whose two signal streams are created concurrently so that
   both futures pass the OnceLock check (the raced branch), a queued and a foreground removal; then everything dropped *)
Theorem C37_example_mid :
  exists c, ex_mid = Some c /\ reachable plain_op c /\ quiescent c /\
    evs c = [EAdd r_sig; EAdd r_noc; EAdd r_s1; EAdd r_s2; ERem r_sig] /\
    subs c r_noc = 3 /\ live c r_noc = 3 /\ live c r_call = 1 /\ live c r_sig = 0.
Proof. exact ex_mid_ok. Qed.
Print Assumptions C37_example_mid.

Theorem C37_example_end :
  exists c, run_choices plain_op (ex_run ++ ex_rest) init = Some c /\ quiescent c /\
    List.length (evs c) = 8 /\ held c = [] /\
    bus_has (evs c) r_noc = false /\ bus_has (evs c) r_s1 = false /\ bus_has (evs c) r_s2 = false.
Proof. exact ex_end_ok. Qed.
Print Assumptions C37_example_end.
