(* Properties/C35.v — every supported feature combination builds (other / partial).
   What is proved is about the cargo feature graph of the workspace as read by tools/gen_features.py on this run
   (C35/Generated.v) and the model of resolver-2 feature unification (C35/Unify.v): a NECESSARY condition for building —
   coherence of the per-unit feature assignment with the cfg-gated enum variants / match arms / macro output found in the
   sources. It does not say that rustc accepts the crates; that part is the `cargo check` correspondence of ./check C35.
   A selection is what a downstream crate writes in [dependencies]: any list of requests (workspace library crate,
   default-features flag, any subset of its features). The theorems quantify over ALL such selections (no bound on
   their length); the finite part is the generated graph (8 crates, 5 rules on the pinned tree). *)
From Coq Require Import List Bool.
Import ListNotations.
From ZV Require Import Base.Bytes C35.Types C35.Unify C35.Generated C35.Spec C35.Proofs.

(* the property as stated, on the model: every supported selection is coherent *)
Definition C35_full_statement : Prop :=
  forall sel, wf_sel crates sel = true -> forall St, resolve_sel crates sel = Some St ->
  supported St = true -> forallb (unit_coherent St) (units crates St) = true.

(* the model of unification computes exactly the facts reachable through the feature graph, for any roots *)
Theorem C35_resolve_least_fixpoint : forall roots St, resolve crates roots = Some St ->
  forall x, In x St <-> Reach crates roots x.
Proof. exact (resolve_spec crates no_weak). Qed.
Print Assumptions C35_resolve_least_fixpoint.

(* ... and always terminates within its fuel on a well-formed selection (so the theorems below are not vacuous) *)
Theorem C35_resolve_total : forall sel, wf_sel crates sel = true -> exists St, resolve_sel crates sel = Some St.
Proof. exact resolve_sel_total. Qed.
Print Assumptions C35_resolve_total.

(* fixed (was C35_coherent_refuted, class gvariant_split; /repo commit b1eb512d): zbus + zvariant[gvariant] is now coherent —
   zvariant's matches over Signature / Format have `#[cfg(not(feature = "gvariant"))]` catch-all arms, so the rule
   zvariant_utils/gvariant => zvariant/gvariant is no longer read off the sources. The check builds this selection on
   every run; if it fails to build again that is an ordinary violation. *)
Theorem C35_gvariant_fixed :
  let sel := [ {| q_crate := B "zbus"; q_default := true; q_feats := [] |};
               {| q_crate := B "zvariant"; q_default := true; q_feats := [B "gvariant"] |} ] in
  wf_sel crates sel = true /\
  match resolve_sel crates sel with
  | Some St => coherent St && supported St && negb (known_class St)
  | None => false
  end = true.
Proof. exact gvariant_now_coherent. Qed.
Print Assumptions C35_gvariant_fixed.

(* refuted: zbus[no default, tokio] + zbus_macros[blocking-api] — zbus's own #[proxy] items name zbus::blocking *)
Theorem C35_blocking_refuted : exists sel,
  sel = [ {| q_crate := B "zbus"; q_default := false; q_feats := [B "tokio"] |};
          {| q_crate := B "zbus_macros"; q_default := true; q_feats := [B "blocking-api"] |} ] /\
  wf_sel crates sel = true /\
  exists St, resolve_sel crates sel = Some St /\ supported St = true /\
             forallb (unit_coherent St) (units crates St) = false /\ violated St is_blocking_split = true.
Proof. exact blocking_refuted. Qed.
Print Assumptions C35_blocking_refuted.

(* partial: for EVERY selection, every unit satisfies every rule other than the known one
   (Known_C35 r = is_blocking_split r) *)
Theorem C35_coherent_partial_units : forall sel, wf_sel crates sel = true ->
  forall St, resolve_sel crates sel = Some St ->
  forallb (fun u => forallb (fun r => Known_C35 r || negb (rule_applies u r) || rule_holds St (snd u) r) rules)
          (units crates St) = true.
Proof. exact coherent_partial_units. Qed.
Print Assumptions C35_coherent_partial_units.

(* partial, by selection: outside the known classes every unit is coherent *)
Theorem C35_coherent_partial : forall sel, wf_sel crates sel = true ->
  forall St, resolve_sel crates sel = Some St ->
  known_class St = false -> forallb (unit_coherent St) (units crates St) = true.
Proof. exact coherent_partial. Qed.
Print Assumptions C35_coherent_partial.

(* the workaround users had before b1eb512d (also enabling zbus_macros/gvariant) stays coherent *)
Theorem C35_gvariant_workaround :
  match resolve_sel crates
          [ {| q_crate := B "zbus"; q_default := true; q_feats := [] |};
            {| q_crate := B "zvariant"; q_default := true; q_feats := [B "gvariant"] |};
            {| q_crate := B "zbus_macros"; q_default := true; q_feats := [B "gvariant"] |} ] with
  | Some St => coherent St && supported St
  | None => false
  end = true.
Proof. exact gvariant_repaired_coherent. Qed.
Print Assumptions C35_gvariant_workaround.

(* documentation of the feature graph behind the former finding: each pair is an edge (the second fact is among the direct
   consequences of the first); the chain leads from the target build of zvariant, through the host-only proc-macro crate
   zvariant_derive, to `gvariant` on the HOST build of zvariant_utils, while zbus -> zbus_macros (host) -> zvariant (host)
   brings a host build of zvariant for which nothing requests `gvariant`. This is still what cargo resolves; since b1eb512d
   it is harmless because the host zvariant covers the extra variants with its catch-all arms (C35_gvariant_fixed). *)
Theorem C35_gvariant_mechanism :
  forallb (fun e => mem (snd e) (psuccs crates (fst e)))
    [ (FV (B "zvariant") KT (FvFeat (B "gvariant")), FV (B "zvariant") KT (FvDepFeat (B "zvariant_derive") (B "gvariant") false));
      (FV (B "zvariant") KT (FvDepFeat (B "zvariant_derive") (B "gvariant") false), FV (B "zvariant_derive") KH (FvFeat (B "gvariant")));
      (FV (B "zvariant_derive") KH (FvFeat (B "gvariant")), FV (B "zvariant_derive") KH (FvDepFeat (B "zvariant_utils") (B "gvariant") false));
      (FV (B "zvariant_derive") KH (FvDepFeat (B "zvariant_utils") (B "gvariant") false), FV (B "zvariant_utils") KH (FvFeat (B "gvariant")));
      (FP (B "zbus") KT, FP (B "zbus_macros") KH);
      (FP (B "zbus_macros") KH, FP (B "zvariant") KH) ] &&
  match resolve_sel crates [ {| q_crate := B "zbus"; q_default := true; q_feats := [] |};
                             {| q_crate := B "zvariant"; q_default := true; q_feats := [B "gvariant"] |} ] with
  | Some St => mem (FV (B "zvariant") KT (FvFeat (B "gvariant"))) St && mem (FP (B "zbus") KT) St
               && mem (FV (B "zvariant_utils") KH (FvFeat (B "gvariant"))) St && mem (FP (B "zvariant") KH) St
               && negb (mem (FV (B "zvariant") KH (FvFeat (B "gvariant"))) St)
  | None => false
  end = true.
Proof. exact gvariant_mechanism. Qed.
Print Assumptions C35_gvariant_mechanism.
