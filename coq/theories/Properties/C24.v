(* Properties/C24.v — the object server exposes exactly the registered interfaces.
   Only statements, each closed by [exact] of a lemma of C24/Proofs.v, and their assumptions.
   model_state / model_results: the run of the tree model (C24/Model.v: at_, remove on Node trees,
   as repaired by fix f5fe3276: the root is never destroyed, a node with children is kept);
   spec_state / spec_results: the run of the flat map (C24/Spec.v);  Known_C24 h: some step of h,
   read on the flat map, is a removal that leaves none of the user interfaces at a non-root path
   where an ObjectManager is registered while nothing is registered strictly below it
   (C24/Spec.v, flag24 / first_flag) — the one class left. *)
From ZV Require Import Base.Bytes Base.Res C24.Ops C24.Model C24.Spec C24.Proofs.

(* For every history outside the known classes, after every prefix of it: each (path, interface)
   pair is looked up (ObjectServer::interface), called (method dispatch) and seen in introspection
   (at the path itself, and nested in the root's XML) exactly as the flat map says — so a duplicate
   registration changed nothing, a removal changed only its own pair — the results of all operations
   are those of the flat map (duplicate refused, absent removal fails), and nothing panicked. *)
Theorem C24_refines_partial : forall h : list op, ~ Known_C24 h ->
  forall pre post, h = pre ++ post ->
    (forall p k, ok_opt (lookup (model_state pre) p (ik k)) = sget (spec_state pre) p k) /\
    (forall p k, ok_opt (call (model_state pre) p (ik k)) = sget (spec_state pre) p k) /\
    (forall p k, seen_at (model_state pre) p (ik k) = is_some (sget (spec_state pre) p k)) /\
    (forall p k, seen_nested (model_state pre) p (ik k) = is_some (sget (spec_state pre) p k)) /\
    model_results pre = spec_results pre /\
    ~ In RPanic (model_results pre).
Proof. exact refines_partial. Qed.
Print Assumptions C24_refines_partial.

(* non-vacuity: a 12-step history with nesting, a refused duplicate, a failing removal, removals at
   a leaf and at the root, and a manager, lies outside the known classes *)
Theorem C24_partial_nonvacuous : ~ Known_C24 h_clean /\
  spec_results h_clean = [RBool true; RBool true; RBool false; RErr; RDone; RBool true; RBool true;
                          RDone; RBool true; RDone; RBool true; RDone].
Proof. exact h_clean_ok. Qed.
Print Assumptions C24_partial_nonvacuous.

(* beyond the property text (the flag of `remove` is left open by the flat map): outside the known
   class a removal that reports the object destroyed left nothing at all registered at the path *)
Theorem C24_remove_flag_partial : forall h : list op, ~ Known_C24 h ->
  forall pre p k post, h = pre ++ Rm p k :: post ->
    snd (fst (remove (model_state pre) p (ik k))) = Ok true -> bare (sdel (spec_state pre) p k) p = true.
Proof. exact remove_flag_partial. Qed.
Print Assumptions C24_remove_flag_partial.

(* repaired by f5fe3276 (formerly C24_root_remove_refuted, C24_subtree_refuted): at("/",I1);
   remove::<I1>("/") and at(/a,I1); at(/a/b,I2); remove::<I1>(/a) are outside the known class — so
   C24_refines_partial covers them — the first no longer panics, the second keeps I2 at /a/b *)
Theorem C24_repaired_histories :
  ~ Known_C24 [At [] K1 1; Rm [] K1] /\
  ~ Known_C24 [At [B "a"] K1 1; At [B "a"; B "b"] K2 2; Rm [B "a"] K1] /\
  model_results [At [] K1 1; Rm [] K1] = [RBool true; RDone] /\
  ok_opt (lookup (model_state [At [B "a"] K1 1; At [B "a"; B "b"] K2 2; Rm [B "a"] K1]) [B "a"; B "b"] (ik K2)) = Some 2%N.
Proof. exact repaired_ok. Qed.
Print Assumptions C24_repaired_histories.

(* the remaining known finding: at(/a, I1); at(/a, ObjectManager); remove::<I1>(/a)  takes the manager away *)
Theorem C24_manager_refuted :
  let h := [At [B "a"] K1 1; At [B "a"] KM 2; Rm [B "a"] K1] in
  sget (spec_state h) [B "a"] KM = Some 2%N /\
  ok_opt (lookup (model_state h) [B "a"] (ik KM)) = None /\
  ok_opt (call (model_state h) [B "a"] (ik KM)) = None /\
  seen_at (model_state h) [B "a"] (ik KM) = false /\
  first_flag [] h = Some ManagerDropped.
Proof. exact manager_refuted. Qed.
Print Assumptions C24_manager_refuted.

(* hence the statement at full strength (the conclusion above for ALL histories) is false on this tree *)
Theorem C24_full_statement_refuted : ~ (forall h pre post : list op, h = pre ++ post ->
    (forall p k, ok_opt (lookup (model_state pre) p (ik k)) = sget (spec_state pre) p k) /\
    (forall p k, ok_opt (call (model_state pre) p (ik k)) = sget (spec_state pre) p k) /\
    (forall p k, seen_at (model_state pre) p (ik k) = is_some (sget (spec_state pre) p k)) /\
    (forall p k, seen_nested (model_state pre) p (ik k) = is_some (sget (spec_state pre) p k)) /\
    model_results pre = spec_results pre /\
    ~ In RPanic (model_results pre)).
Proof. exact full_statement_false. Qed.
Print Assumptions C24_full_statement_refuted.
