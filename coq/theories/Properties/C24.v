(* Properties/C24.v — the object server exposes exactly the registered interfaces.
   Only statements, each closed by [exact] of a lemma of C24/Proofs.v, and their assumptions.
   model_state / model_results: the run of the tree model (C24/Model.v: at_, remove on Node trees,
   as the code is after fixes f5fe3276 — the root is never destroyed, a node with children is kept —
   and 71f8bd70 — Node::is_empty counts an ObjectManager, so a manager keeps its node alive);
   spec_state / spec_results: the run of the flat map (C24/Spec.v).  No history is excluded. *)
From ZV Require Import Base.Bytes Base.Res C24.Ops C24.Model C24.Spec C24.Proofs.

(* For EVERY history: each (path, interface) pair is looked up (ObjectServer::interface), called
   (method dispatch) and seen in introspection (at the path itself, and nested in the root's XML)
   exactly as the flat map says — so a duplicate registration changed nothing and a removal changed
   only its own pair — the results of all operations are those of the flat map (duplicate refused,
   absent removal fails), and nothing panicked.  (Every prefix of a history is a history, so this is
   "after every step".) *)
Theorem C24_refines : forall h : list op,
    (forall p k, ok_opt (lookup (model_state h) p (ik k)) = sget (spec_state h) p k) /\
    (forall p k, ok_opt (call (model_state h) p (ik k)) = sget (spec_state h) p k) /\
    (forall p k, seen_at (model_state h) p (ik k) = is_some (sget (spec_state h) p k)) /\
    (forall p k, seen_nested (model_state h) p (ik k) = is_some (sget (spec_state h) p k)) /\
    model_results h = spec_results h /\
    ~ In RPanic (model_results h).
Proof. exact refines. Qed.
Print Assumptions C24_refines.

(* beyond the property text (the flag of `remove` is left open by the flat map): after any history, a
   removal that reports the object destroyed leaves nothing at all registered at the path *)
Theorem C24_remove_flag : forall (h : list op) p k,
    snd (fst (remove (model_state h) p (ik k))) = Ok true -> bare (sdel (spec_state h) p k) p = true.
Proof. exact remove_flag. Qed.
Print Assumptions C24_remove_flag.

(* a concrete instance: 12 steps with nesting, a refused duplicate, a failing removal, removals at a
   leaf and at the root, and a manager *)
Theorem C24_example :
  model_results h_clean = [RBool true; RBool true; RBool false; RErr; RDone; RBool true; RBool true;
                           RDone; RBool true; RDone; RBool true; RDone] /\
  sget (spec_state h_clean) [B "a"] K1 = Some 1%N /\ sget (spec_state h_clean) [] K1 = Some 7%N /\
  sget (spec_state h_clean) [B "a"; B "b"] K1 = None.
Proof. exact h_clean_ok. Qed.
Print Assumptions C24_example.

(* the repaired behaviour on the three former witnesses (formerly C24_root_remove_refuted,
   C24_subtree_refuted, C24_manager_refuted):
   at("/",I1); remove::<I1>("/") no longer panics; at(/a,I1); at(/a/b,I2); remove::<I1>(/a) keeps
   I2 at /a/b; at(/a,I1); at(/a,ObjectManager); remove::<I1>(/a) keeps the manager, and removing the
   manager afterwards destroys the then empty node *)
Theorem C24_repaired_histories :
  model_results [At [] K1 1; Rm [] K1] = [RBool true; RDone] /\
  ok_opt (lookup (model_state [At [B "a"] K1 1; At [B "a"; B "b"] K2 2; Rm [B "a"] K1]) [B "a"; B "b"] (ik K2)) = Some 2%N /\
  (let h := [At [B "a"] K1 1; At [B "a"] KM 2; Rm [B "a"] K1] in
   ok_opt (lookup (model_state h) [B "a"] (ik KM)) = Some 2%N /\
   ok_opt (call (model_state h) [B "a"] (ik KM)) = Some 2%N /\
   seen_at (model_state h) [B "a"] (ik KM) = true /\
   snd (fst (remove (model_state h) [B "a"] (ik KM))) = Ok true).
Proof. exact repaired_ok. Qed.
Print Assumptions C24_repaired_histories.
