(* Properties/C22.v — a match rule's string form parses back to the same rule.
   Only statements, each closed by [exact] of a lemma of C22/Proofs.v, and their assumptions.
   Vocabulary: C21/Model.v ([build]: any sequence of builder operations), C22/Model.v ([show] = Display,
   [parse] = TryFrom<&str>) mirror the code; C22/Spec.v ([spec_parse]: a reader written from the specification's
   quoting rules, [pairs_of]: the key/value pairs a rule record denotes, the two known classes). *)
From ZV Require Import Base.Bytes Base.Res C21.Model C22.Model C22.Spec C22.Proofs.

(* The full statement (kept visible; refuted below on the pinned tree). *)
Definition C22_full_statement : Prop :=
  forall (ops : list bop) (r : rule), build ops = Ok r ->
    parse (show r) = Ok r /\ spec_parse (show r) = Some (pairs_of r).

Theorem C22_full_refuted : ~ (forall (ops : list bop) (r : rule), build ops = Ok r ->
    parse (show r) = Ok r /\ spec_parse (show r) = Some (pairs_of r)).
Proof. exact full_refuted. Qed.
Print Assumptions C22_full_refuted.

(* zbus reads its own output back as the same rule, unless an argument value has a comma
   (the rule without keys is included since fix 235b9dce). *)
Theorem C22_roundtrip_partial : forall (ops : list bop) (r : rule), build ops = Ok r ->
  k_comma_value r = false -> parse (show r) = Ok r.
Proof. exact roundtrip_built. Qed.
Print Assumptions C22_roundtrip_partial.

(* The output is a valid D-Bus match rule which the specification's reader reads as exactly the rule's pairs,
   unless an argument value has an apostrophe. *)
Theorem C22_spec_reader_partial : forall (ops : list bop) (r : rule), build ops = Ok r ->
  k_apostrophe_value r = false -> spec_parse (show r) = Some (pairs_of r).
Proof. exact spec_reads_built. Qed.
Print Assumptions C22_spec_reader_partial.

Theorem C22_partial : forall (ops : list bop) (r : rule), build ops = Ok r -> known_C22 r = false ->
  parse (show r) = Ok r /\ spec_parse (show r) = Some (pairs_of r).
Proof. exact partial_built. Qed.
Print Assumptions C22_partial.

(* "Reads back as an equal rule" is meaningful: the pairs determine the record. *)
Theorem C22_pairs_of_injective : forall (ops1 ops2 : list bop) (r1 r2 : rule),
  build ops1 = Ok r1 -> build ops2 = Ok r2 -> pairs_of r1 = pairs_of r2 -> r1 = r2.
Proof. exact pairs_of_inj_built. Qed.
Print Assumptions C22_pairs_of_injective.

(* Stability at full strength: whatever string is accepted, formatting the result and parsing again gives it back. *)
Theorem C22_stable : forall (s : bytes) (r : rule), parse s = Ok r -> parse (show r) = Ok r.
Proof. exact stable. Qed.
Print Assumptions C22_stable.

(* The slice key[3..trailing_idx] in the argNpath branch is always in range. *)
Theorem C22_parse_never_panics : forall (s : bytes) (p : panic), parse s <> Panic p.
Proof. exact parse_no_panic. Qed.
Print Assumptions C22_parse_never_panics.

(* Known findings. *)
Theorem C22_comma_value_refuted : exists r, build [OArg 0 (B "a,b")] = Ok r /\ show r = B "arg0='a,b'" /\
  parse (show r) = Err EInvalidMatchRule /\ spec_parse (show r) = Some (pairs_of r).
Proof. exact comma_value_refuted. Qed.
Print Assumptions C22_comma_value_refuted.

Theorem C22_comma_value_other_rule_refuted : exists r r2,
  build [OArg 0 (B "x',arg1='y")] = Ok r /\ build [OArg 0 (B "x"); OArg 1 (B "y")] = Ok r2 /\
  parse (show r) = Ok r2 /\ r2 <> r.
Proof. exact comma_value_other_rule. Qed.
Print Assumptions C22_comma_value_other_rule_refuted.

Theorem C22_apostrophe_value_refuted : exists r, build [OArg 0 (B "a'b")] = Ok r /\ show r = B "arg0='a'b'" /\
  parse (show r) = Ok r /\ spec_parse (show r) = None.
Proof. exact apostrophe_value_refuted. Qed.
Print Assumptions C22_apostrophe_value_refuted.
