(* Properties/C03.v — the D-Bus decoder accepts exactly the valid encodings (soundness half; the completeness
   half is C02).  Model: DBus/De.v (mirror of zvariant::dbus::Deserializer + the dynamic Value visitors);
   specification: DBus/Spec.v ([marshal], [wf], [depth_ok]).  Statements only.
   wfL = Spec.wf minus the grammar clauses on signatures occurring inside the value (DBus/DeSoundDefs.v);
   sigs_strict = exactly those clauses; sigs_nest_ok = the specification's nesting limit for signatures;
   sig_lenient v = negb (sigs_strict v) || negb (sigs_nest_ok v) is the known-deviation class. *)
From ZV Require Import Base.Bytes Base.Res Base.Sig Base.SigParse DBus.Val DBus.Spec DBus.Ser DBus.De DBus.Run
                       DBus.DeSoundDefs DBus.DeSound DBus.DeSoundTop.
Local Open Scope N_scope.

(* the full statement: whatever Data::deserialize::<Value>() accepts is a valid encoding of the value returned,
   all of whose signatures are D-Bus signatures.  FALSE of the code as it is (C03_sigs_refuted). *)
Definition C03_full_statement : Prop :=
  forall c e pos nf (b : bytes) x n, c_gv c = false -> de_value_top c e pos b (seqN nf) = Ok (x, n) ->
    (wf (VVariant x) = true /\ within_limits (VVariant x) = true /\
     Forall (fun h => h < nf) (fds_of (VVariant x)) /\ n <= len b /\ takeN n b = marshal_rx e pos (VVariant x)) /\
    sigs_nest_ok (VVariant x) = true.

(* for every fuel, buffer, cursor, offset, byte order, depth counters, descriptor count and signature whose structs
   are non-empty: a success moves only the cursor, stays inside the buffer, returns a value of the signature that is
   well-formed as far as the decoder checks, within the nesting limits counted from the current depth, whose
   descriptor handles are in range, and the bytes consumed are exactly its marshalling at that position *)
Theorem C03_sound_lenient : forall (fuel : nat) (st : dstate) (v : dval) (st' : dstate) (nf : N),
  sig_ne (t_sig st) = true -> t_fds st = seqN nf -> de_any fuel st = Ok (v, st') ->
  (t_cfg st' = t_cfg st /\ t_e st' = t_e st /\ t_pos0 st' = t_pos0 st /\ t_bytes st' = t_bytes st /\
   t_sig st' = t_sig st /\ t_fds st' = t_fds st /\ t_dep st' = t_dep st) /\
  t_pos st <= t_pos st' /\ t_pos st' <= blen st /\
  vsig v = t_sig st /\ wfL v = true /\
  depth_ok (d_struct (t_dep st)) (d_array (t_dep st)) (d_variant (t_dep st)) v = true /\
  Forall (fun h => h < nf) (fds_of v) /\
  takeN (t_pos st' - t_pos st) (dropN (t_pos st) (t_bytes st)) = marshal (t_e st) ByHandle v (tabs st) 0.
Proof. exact de_sound. Qed.
Print Assumptions C03_sound_lenient.

(* Data::deserialize::<Value>() on arbitrary bytes, any configuration *)
Theorem C03_value_sound_lenient : forall c e pos (b : bytes) nf x n,
  de_value_top c e pos b (seqN nf) = Ok (x, n) ->
  wfL (VVariant x) = true /\ within_limits (VVariant x) = true /\
  Forall (fun h => h < nf) (fds_of (VVariant x)) /\ n <= len b /\ takeN n b = marshal_rx e pos (VVariant x).
Proof. exact de_value_top_sound. Qed.
Print Assumptions C03_value_sound_lenient.

(* deserialize_for_dynamic_signature::<Structure>(g) on arbitrary bytes *)
Theorem C03_body_sound_lenient : forall c e pos g (b : bytes) nf v n, sig_ne g = true ->
  de_struct_top c e pos g b (seqN nf) = Ok (v, n) ->
  vsig v = (match g with SStruct _ => g | _ => SStruct [g] end) /\
  (wfL v = true /\ within_limits v = true /\ Forall (fun h => h < nf) (fds_of v) /\ n <= len b /\
   takeN n b = marshal_rx e pos v).
Proof. exact de_struct_top_sound. Qed.
Print Assumptions C03_body_sound_lenient.

(* wfL and sigs_strict split Spec.wf exactly *)
Theorem C03_wf_split : forall v, wf v = wfL v && sigs_strict v.
Proof. exact wf_split. Qed.
Print Assumptions C03_wf_split.

(* outside the known class the full statement holds *)
Theorem C03_sound_partial : forall c e pos (b : bytes) nf x n,
  de_value_top c e pos b (seqN nf) = Ok (x, n) -> sig_lenient (VVariant x) = false ->
  (wf (VVariant x) = true /\ within_limits (VVariant x) = true /\
   Forall (fun h => h < nf) (fds_of (VVariant x)) /\ n <= len b /\ takeN n b = marshal_rx e pos (VVariant x)) /\
  sigs_nest_ok (VVariant x) = true.
Proof. exact value_sound_strict. Qed.
Print Assumptions C03_sound_partial.

Theorem C03_body_sound_partial : forall c e pos g (b : bytes) nf v n, sig_ne g = true ->
  de_struct_top c e pos g b (seqN nf) = Ok (v, n) -> sig_lenient v = false ->
  vsig v = (match g with SStruct _ => g | _ => SStruct [g] end) /\
  (wf v = true /\ within_limits v = true /\ Forall (fun h => h < nf) (fds_of v) /\ n <= len b /\
   takeN n b = marshal_rx e pos v) /\
  sigs_nest_ok v = true.
Proof. exact struct_sound_strict. Qed.
Print Assumptions C03_body_sound_partial.

(* known finding sig_grammar_lenient: (a) a variant of type a{vs} holding an empty dict, (b) a variant whose
   signature nests 33 arrays — both accepted without the gvariant feature *)
Theorem C03_sigs_refuted :
  (exists c e pos nf b x n, c_gv c = false /\ de_value_top c e pos b (seqN nf) = Ok (x, n) /\
                            wf (VVariant x) = false /\ sigs_strict (VVariant x) = false) /\
  (exists c e pos nf b x n, c_gv c = false /\ de_value_top c e pos b (seqN nf) = Ok (x, n) /\
                            sigs_nest_ok (VVariant x) = false).
Proof. exact sigs_refuted. Qed.
Print Assumptions C03_sigs_refuted.

Theorem C03_full_statement_refuted : ~ C03_full_statement.
Proof. exact full_refuted. Qed.
Print Assumptions C03_full_statement_refuted.

(* the oracle column of DBus/Run.v decides "the buffer starts with a valid encoding of a variant", given the
   completeness of the decoder model (C02: de_value_top_complete) as an explicit premise *)
Theorem C03_decision_correct :
  (forall c e pos (b : bytes) (fds : list N) x rest,
     wf (VVariant x) = true -> within_limits (VVariant x) = true ->
     len (marshal_rx e pos (VVariant x)) < 2 ^ 32 -> N.of_nat (length fds) <= 2 ^ 32 ->
     Forall (fun h => nthN fds h = Some h) (fds_of (VVariant x)) ->
     b = marshal_rx e pos (VVariant x) ++ rest ->
     de_value_top c e pos b fds = Ok (x, len (marshal_rx e pos (VVariant x)))) ->
  forall c e pos nf (b : bytes), nf <= 2 ^ 32 -> len b < 2 ^ 32 ->
    (spec_de e pos VVariant b (de_value_top c e pos b (seqN nf)) = B "OK" <->
     exists x n, wf (VVariant x) = true /\ within_limits (VVariant x) = true /\
                 Forall (fun h => h < nf) (fds_of (VVariant x)) /\ n <= len b /\
                 takeN n b = marshal_rx e pos (VVariant x)).
Proof. exact spec_de_value_correct. Qed.
Print Assumptions C03_decision_correct.

(* the same for a message body of signature (fs) (C02: de_struct_top_complete) *)
Theorem C03_body_decision_correct :
  (forall c e pos (b : bytes) (fds : list N) l rest,
     wf (VStruct l) = true -> within_limits (VStruct l) = true ->
     len (marshal_rx e pos (VStruct l)) < 2 ^ 32 -> N.of_nat (length fds) <= 2 ^ 32 ->
     Forall (fun h => nthN fds h = Some h) (fds_of (VStruct l)) ->
     b = marshal_rx e pos (VStruct l) ++ rest ->
     de_struct_top c e pos (vsig (VStruct l)) b fds = Ok (VStruct l, len (marshal_rx e pos (VStruct l)))) ->
  forall c e pos nf fs (b : bytes), nf <= 2 ^ 32 -> len b < 2 ^ 32 -> sig_ne (SStruct fs) = true ->
    (spec_de e pos (fun v => v) b (de_struct_top c e pos (SStruct fs) b (seqN nf)) = B "OK" <->
     exists v n, vsig v = SStruct fs /\
                 (wf v = true /\ within_limits v = true /\ Forall (fun h => h < nf) (fds_of v) /\ n <= len b /\
                  takeN n b = marshal_rx e pos v)).
Proof. exact spec_de_struct_correct. Qed.
Print Assumptions C03_body_decision_correct.
