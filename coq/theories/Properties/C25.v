(* Properties/C25.v — ObjectManager signals track the managed object set.
   Only statements, each closed by [exact] of a lemma of C25/Proofs.v, and their assumptions.
   after h = (server tree, client views) once the history h has run from a fresh server and a client
   that knows nothing: the server is the model of at/remove with their InterfacesAdded /
   InterfacesRemoved emission (C24/Model.v), the client is the replay of C25/Spec.v (apply the
   signals of the step in order; drop the session of a path where no manager answers).
   listing t m = the reply to GetManagedObjects at m (None if the call fails);  triple v o k = the
   properties of interface k of object o in a view or a listing.
   Known_C25 h: some step of h, read on the server state before it, successfully registers or
   removes a user interface at a path that has two or more proper ancestors carrying an
   ObjectManager (C25/Model.v, flag25) — the one class left after fix f5fe3276 (a node with children
   is no longer deleted, so nothing disappears from a listing without InterfacesRemoved). *)
From ZV Require Import Base.Bytes Base.Res C24.Ops C24.Model C25.Model C25.Spec C25.System C25.Proofs.

(* For every history outside the known class, after every prefix of it, for every manager
   that answers: the client's replayed view and the manager's listing contain the same
   (object, interface, properties) triples — interface-less paths do not count, and the properties
   are the current ones. *)
Theorem C25_sync_partial : forall h : list op, ~ Known_C25 h ->
  forall pre post, h = pre ++ post ->
    forall m lst, listing (fst (after pre)) m = Some lst ->
      forall o k, triple (view_of (snd (after pre)) m) o k = triple lst o k.
Proof. exact sync_partial. Qed.
Print Assumptions C25_sync_partial.

(* non-vacuity: a 12-step history under a manager at / (two levels of objects, a property-carrying
   interface re-registered with a new value, a leaf node deleted, the manager removed and registered
   again over a populated tree) is outside the known classes, and its final listing is populated *)
Theorem C25_partial_nonvacuous : ~ Known_C25 h_sync /\
  exists lst, listing (fst (after h_sync)) [] = Some lst /\
    triple lst [B "a"; B "b"] I1 = Some [(B "Val", 6%N)] /\ triple lst [B "a"] I1 = Some [(B "Val", 2%N)] /\
    triple lst [B "x"] I1 = Some [(B "Val", 12%N)].
Proof. exact h_sync_ok. Qed.
Print Assumptions C25_partial_nonvacuous.

(* the remaining known finding: managers at / and /a; at(/a/b, I1) is announced by /a only, yet / lists it *)
Theorem C25_nested_refuted :
  let h := [At [] KM 1; At [B "a"] KM 2; At [B "a"; B "b"] K1 3] in
  (exists lst, listing (fst (after h)) [] = Some lst /\
     triple lst [B "a"; B "b"] I1 = Some [(B "Val", 3%N)] /\
     triple (view_of (snd (after h)) []) [B "a"; B "b"] I1 = None) /\
  first_flag25 root0 h = Some NestedManagers.
Proof. exact nested_refuted. Qed.
Print Assumptions C25_nested_refuted.

(* repaired by f5fe3276 (formerly C25_subtree_refuted): manager at /; at(/a,I1); at(/a/b,I2);
   remove::<I1>(/a) keeps /a/b — the history is outside the known class, listing and client agree *)
Theorem C25_repaired_history :
  let h := [At [] KM 1; At [B "a"] K1 2; At [B "a"; B "b"] K2 3; Rm [B "a"] K1] in
  first_flag25 root0 h = None /\
  exists lst, listing (fst (after h)) [] = Some lst /\
     triple lst [B "a"; B "b"] I2 = Some [] /\
     triple (view_of (snd (after h)) []) [B "a"; B "b"] I2 = Some [].
Proof. exact silent_repaired. Qed.
Print Assumptions C25_repaired_history.

(* hence the statement at full strength is false on this tree *)
Theorem C25_full_statement_refuted : ~ (forall h pre post : list op, h = pre ++ post ->
    forall m lst, listing (fst (after pre)) m = Some lst ->
      forall o k, triple (view_of (snd (after pre)) m) o k = triple lst o k).
Proof. exact full_statement_false. Qed.
Print Assumptions C25_full_statement_refuted.
