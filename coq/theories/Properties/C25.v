From ZV Require Import Base.Bytes C24.Ops C24.Model C25.Model C25.Spec.
Theorem C25_placeholder : apply_signals [] [] = [].
Proof. reflexivity. Qed.
Print Assumptions C25_placeholder.
