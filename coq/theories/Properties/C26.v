(* Properties/C26.v — method dispatch answers each call exactly once and correctly.
   Only statements, each closed by [exact] of a lemma of C26/*.v, and their assumptions.

   Vocabulary (C26/Desc.v, Tree.v, Msg.v, Model.v, Spec.v):
     idesc / mdesc                an interface description / a method of it (name, inputs, output shape, &mut self, fallible, async)
     behaviour                    what user code does: bh_method iface member args = HOk outs | HErr name msg  (quantified over)
     node                         the object server's tree of nodes with their registered interface instances
     call                         an incoming METHOD_CALL: PATH / INTERFACE / MEMBER (None = absent), NO_REPLY_EXPECTED, body values
     dispatch bh root c           MODEL of ObjectServer::dispatch_method_call_try + the generated `call`/`call_mut` + the three
                                  standard interfaces: (replies, handler log, signals) and the new tree
     spec26 bh root c             SPECIFICATION from the property text (None: not a D-Bus call, nothing demanded)
     meets x r                    r has exactly the replies, handler log, signals and final state that x demands
     class26 root c               the known-deviation class of the call, if any (decidable)
     tree_respects bh root        user code respects its Rust signatures (non-fallible methods return; results are typed) *)
From ZV Require Import Base.Bytes C26.Desc C26.Tree C26.Msg C26.Std C27.Model C28.Model C26.Model.
From ZV Require Import C28.Spec C26.Spec C26.Facts C26.Proofs C26.StdFacts C26.Examples.

(* The property as stated, kept visible; REFUTED on this tree (four classes, below). *)
Definition C26_full_statement : Prop :=
  forall (bh : behaviour) (root : node) (c : call) (x : expect),
    tree_respects bh root -> is_props_call root c = false ->
    spec26 bh root c = Some x -> meets x (dispatch bh root c).

(* --- exactly one reply, full strength: every behaviour, tree and call, known classes included --- *)
Theorem C26_once :
  forall (bh : behaviour) (root : node) (c : call),
    (c_noreply c = false -> length (ef_replies (fst (dispatch bh root c))) = 1) /\
    length (ef_replies (fst (dispatch bh root c))) <= 1.
Proof. exact once_dispatch. Qed.
Print Assumptions C26_once.

(* --- routing, handler invocation, reply: as the property demands outside the known classes --- *)
Theorem C26_dispatch_partial :
  forall (bh : behaviour) (root : node) (c : call) (x : expect),
    tree_respects bh root ->
    class26 root c = None -> is_props_call root c = false ->
    spec26 bh root c = Some x -> meets x (dispatch bh root c).
Proof. exact dispatch_partial. Qed.
Print Assumptions C26_dispatch_partial.

(* --- the handler runs exactly when path, interface, member and argument types match (and then once, with
       the arguments as sent) --- *)
Theorem C26_handler_runs_iff_partial :
  forall (bh : behaviour) (root : node) (c : call),
    match class26 root c with Some MissingInterface | Some NoargExtra | Some StructFlattened => False | _ => True end ->
    ((exists t n a, In (LMethod t n a) (ef_log (fst (dispatch bh root c)))) <->
     exists path iface member n i md,
       c_path c = Some path /\ c_iface c = Some iface /\ c_member c = Some member /\
       get_child root (segs_of path) = Some n /\ find_inst n iface = Some i /\
       find_method (in_desc i) member = Some md /\ types_match md (c_args c) = true /\
       ef_log (fst (dispatch bh root c)) = [LMethod (in_tag i) member (c_args c)]).
Proof. exact handler_runs_iff. Qed.
Print Assumptions C26_handler_runs_iff_partial.

(* --- wrong argument types: one InvalidArgs error reply (whatever the flags), the handler does not run, nothing
       changes (fix 86474bc3; before it the error name was org.freedesktop.zbus.Error) --- *)
Theorem C26_wrong_arguments_rejected :
  forall (bh : behaviour) (root : node) (c : call) path iface member n i md,
    c_path c = Some path -> c_iface c = Some iface -> c_member c = Some member ->
    get_child root (segs_of path) = Some n -> find_inst n iface = Some i ->
    find_method (in_desc i) member = Some md ->
    in_tys md <> [] -> types_match md (c_args c) = false -> ~ flattened md (c_args c) ->
    dispatch bh root c = (reply_only (RErr EInvalidArgs None), root).
Proof. exact badargs_rejected. Qed.
Print Assumptions C26_wrong_arguments_rejected.

(* --- which bodies the generated argument decoding accepts: the declared types, or one of two flattenings --- *)
Theorem C26_accepted_bodies :
  forall (md : mdesc) (args : list val),
    (types_match md args = true -> args_ok md args = true /\ unpack (in_tys md) args = args) /\
    (in_tys md <> [] -> args_ok md args = true -> types_match md args = true \/ flattened md args).
Proof.
  exact (fun md args => conj (fun H => conj (types_match_args_ok md args H) (types_match_unpack md args H))
                             (args_ok_inv md args)).
Qed.
Print Assumptions C26_accepted_bodies.

(* --- the known classes: in each, a concrete call on which the faithful model breaks the property --- *)
(* the former class invalid_args_name (fixed by 86474bc3): its witness now meets the specification *)
Theorem C26_invalid_args_answered :
  let c := ex_call (B "MTwo") false [VS (B "x")] in
  class26 ex_root c = None /\
  exists x, spec26 ex_bh ex_root c = Some x /\ x_reply x = XErr EInvalidArgs None /\ x_log x = [] /\
            meets x (dispatch ex_bh ex_root c) /\
            dispatch ex_bh ex_root c = (reply_only (RErr EInvalidArgs None), ex_root).
Proof. exact invalid_args_answered. Qed.
Print Assumptions C26_invalid_args_answered.

(* a method without declared inputs runs whatever the body holds *)
Theorem C26_noarg_extra_args_refuted :
  exists (bh : behaviour) (root : node) (c : call) (x : expect),
    tree_respects bh root /\ class26 root c = Some NoargExtra /\
    spec26 bh root c = Some x /\ ~ meets x (dispatch bh root c) /\
    exists t n, ef_log (fst (dispatch bh root c)) = [LMethod t n []].
Proof. exact noarg_extra_args_refuted_full. Qed.
Print Assumptions C26_noarg_extra_args_refuted.

(* the parsed body signature cannot tell `us` from `(us)`: the handler runs with re-grouped arguments *)
Theorem C26_sole_struct_flattened_refuted :
  exists (bh : behaviour) (root : node) (c : call) (x : expect),
    tree_respects bh root /\ class26 root c = Some StructFlattened /\
    spec26 bh root c = Some x /\ ~ meets x (dispatch bh root c) /\
    exists t n a, ef_log (fst (dispatch bh root c)) = [LMethod t n a] /\ a <> c_args c.
Proof. exact sole_struct_flattened_refuted_full. Qed.
Print Assumptions C26_sole_struct_flattened_refuted.

(* a call without the (optional) INTERFACE field is answered with Failed *)
Theorem C26_missing_interface_refuted :
  exists (bh : behaviour) (root : node) (c : call) (x : expect),
    tree_respects bh root /\ class26 root c = Some MissingInterface /\
    spec26 bh root c = Some x /\ ~ meets x (dispatch bh root c).
Proof. exact missing_interface_refuted_full. Qed.
Print Assumptions C26_missing_interface_refuted.

(* a single named structure is declared as one (us) out argument and travels as two values *)
Theorem C26_single_struct_return_refuted :
  exists (bh : behaviour) (root : node) (c : call) (x : expect),
    tree_respects bh root /\ class26 root c = Some SingleStructReturn /\
    spec26 bh root c = Some x /\ ~ meets x (dispatch bh root c).
Proof. exact single_struct_return_refuted_full. Qed.
Print Assumptions C26_single_struct_return_refuted.

Theorem C26_full_statement_refuted : ~ C26_full_statement.
Proof. exact full_statement_refuted. Qed.
Print Assumptions C26_full_statement_refuted.
