(* Properties/C31.v — a proxy's property cache reflects the received history.
   Only statements, each closed by [exact] of a lemma of C31/{Proofs,Streams,Witness}.v, and their assumptions.

   crun pc h sched   the model (C31/Model.v on top of C32/Model.v): the wire history h is read by the socket reader
                     (CTick); the caching task (CTask) runs PropertiesCache::init — receive_properties_changed()
                     (a SignalStream), GetAll, the ordered join of the update stream with the GetAll reply: earlier
                     updates are discarded, the reply populates the cache, a buffered update is applied — then
                     keep_updated / update_cache; the consumer creates property streams (CStreams) and polls them
                     (CPollS p); sched is ANY interleaving of these steps.
   cached x p        Proxy::cached_property_raw.       received x h   the messages read so far.
   spec_cache pc h p C31/Spec.v: one pass over the history: the GetAll snapshot, then every later PropertiesChanged
                     of the proxied object, from the destination (its owner at that point, C32/Spec.v), for the
                     proxy's interface: changed sets, invalidated clears; uncached names hold nothing.
   caught_up x       the caching task has failed or finds its update stream empty.
   bus_history       C32/Spec.v (stamped senders, sequential lookup, driver never an owner; its fourth clause holds for
                     every history here: PropertiesChanged never looks like NameOwnerChanged).
   The model follows /repo as repaired by 902c9069: the class once inherited from C32 is gone, full strength. *)
From Coq Require Import List NArith Bool.
Import ListNotations.
From ZV Require Import Base.Bytes C32.Model C32.Spec C31.Model C31.Spec C31.Proofs C31.Streams C31.Witness.
Local Open Scope N_scope.

(* For every bus history, every arrival order of the GetAll reply among the change signals, and EVERY schedule:
   nothing is exposed before the cache is ready; whenever the caching task has caught up, each cached value is
   exactly what the messages received so far imply in receive order; the cache is reported ready only after the
   snapshot was received. *)
Theorem C31_cache : forall (pc : pcfg) (h : list wmsg) (sched : list caction),
  bus_history (scfg pc) h = true ->
  let x := crun pc h sched in
  (c_ready x <> Some true -> forall p, cached x p = None) /\
  (caught_up x -> forall p, cached x p = spec_cache pc (received x h) p) /\
  (c_ready x = Some true -> spec_ready pc (received x h) = Some true).
Proof. exact cache_full. Qed.
Print Assumptions C31_cache.

(* A property marked uncached never has a cached value: every history, every schedule, no hypothesis. *)
Theorem C31_uncached_ignored : forall (pc : pcfg) (h : list wmsg) (sched : list caction) (p : N),
  mem p (p_unc pc) = true -> cached (crun pc h sched) p = None.
Proof. exact uncached_ignored. Qed.
Print Assumptions C31_uncached_ignored.

(* An update for another interface leaves the whole cache — values and stream notifications — untouched... *)
Theorem C31_other_iface_ignored : forall (pc : pcfg) (c : cache) (m : sigm) (ifc : N) (ch : list (N * N)) (inv : list N),
  s_body m = BProps ifc ch inv -> ifc <> p_pi pc -> apply_msg pc c m = c.
Proof. exact other_iface_step. Qed.
Print Assumptions C31_other_iface_ignored.

(* ... and the values the specification implies do not depend on what such updates say. *)
Theorem C31_other_iface_spec : forall (pc : pcfg) (h h' : list wmsg),
  Forall2 (other_iface_differ pc) h h' -> forall p, spec_cache pc h' p = spec_cache pc h p.
Proof. exact other_iface_spec. Qed.
Print Assumptions C31_other_iface_spec.

(* Property change streams report the latest value: whenever the stream of p has nothing to report, the value it
   reported last is the cached value (no update is ever lost on the way to the stream); every history, every
   schedule. *)
Theorem C31_stream_latest : forall (pc : pcfg) (h : list wmsg) (sched : list caction) (p : N),
  let x := crun pc h sched in
  k_has (c_cache x) p = true -> k_note (c_cache x) p = false -> last_seen (c_seen x) p = cached x p.
Proof. exact stream_latest. Qed.
Print Assumptions C31_stream_latest.

(* ... and an item it yields shows the value cached at that moment. *)
Theorem C31_stream_reports_cached : forall (x : cworld) (p : N),
  k_has (c_cache x) p = true -> k_note (c_cache x) p = true ->
  c_seen (poll_stream x p) = (p, cached x p) :: c_seen x /\ k_note (c_cache (poll_stream x p)) p = false.
Proof. exact stream_reports_cached. Qed.
Print Assumptions C31_stream_reports_cached.

(* non-vacuity: an update before the snapshot (discarded), the snapshot with an uncached name, set + invalidate,
   another interface, a stranger, an ownership change, the new and the former owner *)
Theorem C31_nonvacuous :
  bus_history (scfg pc_w) h_clean = true /\
  let x := crun pc_w h_clean sched_clean in
  caught_up x /\ received x h_clean = h_clean /\ c_ready x = Some true /\
  map (cached x) [0; 1; 2; 3] = [Some 7; None; Some 4; None] /\
  map (spec_cache pc_w h_clean) [0; 1; 2; 3] = [Some 7; None; Some 4; None] /\
  c_seen x = [(0, Some 7)].
Proof. exact clean_example. Qed.
Print Assumptions C31_nonvacuous.

(* the witness of the repaired finding (C32's release class seen through the cache) is a bus history and now runs
   as specified: P0 = 5, the former owner's update (7) is not applied *)
Theorem C31_repaired_history :
  bus_history (scfg pc_w) h_release = true /\
  let x := crun pc_w h_release sched_release in
  caught_up x /\ received x h_release = h_release /\
  cached x 0 = Some 5 /\ spec_cache pc_w h_release 0 = Some 5.
Proof. exact repaired_history. Qed.
Print Assumptions C31_repaired_history.
