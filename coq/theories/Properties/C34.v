From ZV Require Import Base.Bytes Base.Res C34.Model.
Theorem C34_tmp : escape [] = [].
Proof. reflexivity. Qed.
Print Assumptions C34_tmp.
