(* Properties/C34.v — introspection XML documents round-trip through zbus_xml's document model.
   Only statements, each closed by [exact] of a lemma of C34/*.v, and their assumptions.

   Vocabulary (C34/Model.v mirrors zbus_xml/src/lib.rs over quick-xml; C34/Spec.v is the introspection format):
     xml                        infoset: Elem name attrs kids | Text s       (quick-xml's tokenizer is below this boundary)
     to_tree d / of_node dec t  what the Serialize / Deserialize derives do through quick-xml; dec = how an accessed
                                attribute value is decoded (identity on an infoset, unescape on raw text)
     print t, to_writer d       the text quick-xml writes;  escape / unescape: attribute escaping and the reader's inverse
     RNode tag t d              t represents d in the D-Bus introspection format (an absent optional has NO attribute)
     wf_node d                  what the types guarantee: valid member / interface / property names, signatures that
                                re-read from their own text (true of every parsed signature: property C06)
   All theorems are parametric in the signature codec (sigT, sig_parse, sig_show) and the three name validators;
   C34/Inst.v instantiates them with the C06 and C10 models, C34/Examples.v has concrete instances. *)
From ZV Require Import Base.Bytes Base.Res C34.Model C34.Spec C34.Escape C34.Proofs C34.Examples.

(* The property as stated.  It holds at full strength since fix commit 34e4ce52 (C34_roundtrip is exactly
   this statement); before it, an absent optional was written as an empty attribute (former finding none_option). *)
Definition C34_full_statement : Prop :=
  forall sigT sig_parse sig_show vm vi vp (d : node sigT),
    wf_node sigT sig_show sig_parse vm vi vp d ->
    of_node sigT sig_parse vm vi vp (fun v => Ok v) (to_tree sigT sig_show d) = Ok d.

(* --- escaping, full strength --- *)
Theorem C34_unescape_escape : forall s : bytes, unescape (escape s) = Ok s.
Proof. exact unescape_escape. Qed.
Print Assumptions C34_unescape_escape.

Theorem C34_unescape_never_panics : forall raw p, unescape raw <> Panic p.
Proof. exact unescape_total. Qed.
Print Assumptions C34_unescape_never_panics.

Theorem C34_escape_is_quotable : forall s : bytes,
  forallb (fun c => negb (beq c """"%byte) && negb (beq c "<"%byte)) (escape s) = true.
Proof. exact escape_clean. Qed.
Print Assumptions C34_escape_is_quotable.

(* --- the reader, full strength: it returns d on every infoset that represents d (any re-coding enc of the
       values that dec inverts: identity, or escape / unescape) --- *)
Theorem C34_reader_correct :
  forall sigT sig_parse sig_show vm vi vp (enc : bytes -> bytes) (dec : bytes -> res xerr bytes),
    (forall s, dec (enc s) = Ok s) ->
    forall (d : node sigT) tag t,
      wf_node sigT sig_show sig_parse vm vi vp d -> RNode sigT sig_show tag t d ->
      of_node sigT sig_parse vm vi vp dec (enc_tree enc t) = Ok d.
Proof. exact reader_correct. Qed.
Print Assumptions C34_reader_correct.

(* --- the writer, full strength: its infoset represents d (an absent optional has no attribute) --- *)
Theorem C34_writer_conforms :
  forall sigT sig_show (d : node sigT) tag, RNode sigT sig_show tag (t_node sigT sig_show tag d) d.
Proof. exact writer_conforms. Qed.
Print Assumptions C34_writer_conforms.

(* --- the round trip, full strength, on infosets and on text --- *)
Theorem C34_roundtrip :
  forall sigT sig_parse sig_show vm vi vp (d : node sigT),
    wf_node sigT sig_show sig_parse vm vi vp d ->
    of_node sigT sig_parse vm vi vp (fun v => Ok v) (to_tree sigT sig_show d) = Ok d.
Proof. exact roundtrip. Qed.
Print Assumptions C34_roundtrip.

Theorem C34_full_statement_holds : C34_full_statement.
Proof. exact roundtrip. Qed.
Print Assumptions C34_full_statement_holds.

(* quick-xml's tokenizer by contract: it reads back, values still escaped, what the raw printer wrote for a tree
   with alphanumeric names, quote-free values and no text *)
Theorem C34_text_roundtrip :
  forall sigT sig_parse sig_show vm vi vp (tokenize : bytes -> option xml),
    (forall r, printable r = true -> tokenize (print_raw r) = Some r) ->
    forall d : node sigT,
      wf_node sigT sig_show sig_parse vm vi vp d ->
      from_str sigT sig_parse vm vi vp tokenize (to_writer sigT sig_show d) = Ok d.
Proof. exact text_roundtrip. Qed.
Print Assumptions C34_text_roundtrip.

(* every document the reader returns is well formed, given C06's "a parsed signature re-reads from its text" *)
Theorem C34_parsed_documents_wf :
  forall sigT sig_parse sig_show vm vi vp dec,
    (forall b s, sig_parse b = Some s -> sig_parse (sig_show s) = Some s) ->
    forall t (d : node sigT), of_node sigT sig_parse vm vi vp dec t = Ok d -> wf_node sigT sig_show sig_parse vm vi vp d.
Proof. exact parsed_wf. Qed.
Print Assumptions C34_parsed_documents_wf.

(* hence: whatever the reader accepts survives writing and re-reading *)
Theorem C34_reread_of_parsed :
  forall sigT sig_parse sig_show vm vi vp,
    (forall b s, sig_parse b = Some s -> sig_parse (sig_show s) = Some s) ->
    forall t (d : node sigT),
      of_node sigT sig_parse vm vi vp (fun v => Ok v) t = Ok d ->
      of_node sigT sig_parse vm vi vp (fun v => Ok v) (to_tree sigT sig_show d) = Ok d.
Proof. exact reread_of_parsed. Qed.
Print Assumptions C34_reread_of_parsed.
