(* Properties/C13.v — valid messages with unknown header fields, flags or types are tolerated.
   Unknown header field codes (fix 9e1c6e56) and unknown flag bits (fix 0d33c3d1): PROVED for every message and every
   stream the reference reader of the specification accepts.  Unknown message types: still REFUTED (the reader stops),
   with the partial statement that remains.  Model: C11/Model.v + C13/Model.v; reference reader: C11/Spec.v. *)
From ZV Require Import Base.Bytes Base.Res Base.Sig C10.Model C11.Model C11.Spec C11.Proofs C13.Model C13.Spec C13.Proofs.
Open Scope N_scope.

(* the full statement, kept visible *)
Definition C13_full : Prop :=
  (forall b sm, spec_parse b = Some sm -> 1 <= sm_type sm <= 4 ->
     exists m, from_raw_parts (ph_endian (hv_ph (sm_view sm))) b = Ok m /\ header m = Ok (sm_view sm) /\ body m = Ok (sm_body sm))
  /\ (forall stream l, spec_stream (S (length stream)) stream = Some l -> read_stream stream = l).
Theorem C13_full_is_the_statement : C13_full <-> C13_full_statement.
Proof. reflexivity. Qed.

(* Part 1 of the full statement holds.  [spec_parse] accepts a message with any number of header fields of unknown code
   (0 excepted) carrying any valid value of any variant-free, descriptor-free type, and any flag bits; the code accepts
   it too and reports the same header ([sm_view]: unknown fields absent, flags = the known bits) and body. *)
Theorem C13_message_tolerant : forall b sm, spec_parse b = Some sm -> 1 <= sm_type sm <= 4 ->
  exists m, from_raw_parts (ph_endian (hv_ph (sm_view sm))) b = Ok m /\ header m = Ok (sm_view sm) /\ body m = Ok (sm_body sm).
Proof. exact message_tolerant. Qed.
Print Assumptions C13_message_tolerant.

Theorem C13_unknown_field_ok : forall b sm, spec_parse b = Some sm -> 0 < sm_unknown_fields sm -> 1 <= sm_type sm <= 4 ->
  exists m, from_raw_parts (ph_endian (hv_ph (sm_view sm))) b = Ok m /\ header m = Ok (sm_view sm) /\ body m = Ok (sm_body sm).
Proof. exact unknown_field_ok. Qed.
Print Assumptions C13_unknown_field_ok.

Theorem C13_unknown_flag_ok : forall b sm, spec_parse b = Some sm -> 8 <= sm_raw_flags sm -> 1 <= sm_type sm <= 4 ->
  exists m, from_raw_parts (ph_endian (hv_ph (sm_view sm))) b = Ok m /\ header m = Ok (sm_view sm) /\ body m = Ok (sm_body sm)
            /\ ph_flags (hv_ph (sm_view sm)) = sm_raw_flags sm mod 8.
Proof. exact unknown_flag_ok. Qed.
Print Assumptions C13_unknown_flag_ok.

(* Part 2 holds for every stream whose messages all have a known type, whatever unknown fields and flag bits they carry:
   each message is framed, accepted and delivered in order, and the stream goes on to its end. *)
Theorem C13_stream_tolerant : forall stream l, spec_stream (S (length stream)) stream = Some l ->
  stream_types_known (S (length stream)) stream = true -> read_stream stream = l.
Proof. exact stream_tolerant. Qed.
Print Assumptions C13_stream_tolerant.

(* non-vacuity / regression: the former witnesses of the two repaired classes *)
Example C13_former_witnesses :
  (exists sm, spec_parse odd_field = Some sm /\ sm_unknown_fields sm = 1) /\
  (exists sm, spec_parse odd_flag = Some sm /\ sm_raw_flags sm = 8) /\
  read_stream (n1 ++ odd_field ++ n3) = [IMsg 1; IMsg 2; IMsg 3; IErrIo; IEnd] /\
  read_stream (n1 ++ odd_flag ++ n3) = [IMsg 1; IMsg 2; IMsg 3; IErrIo; IEnd].
Proof. exact former_witnesses_tolerated. Qed.

(* a message of type 5: not skipped, the reader stops and the following message is never delivered *)
Theorem C13_unknown_type_refuted :
  exists b sm, spec_parse b = Some sm /\ sm_type sm = 5 /\ sm_raw_flags sm = 0 /\ sm_unknown_fields sm = 0
               /\ read_stream (n1 ++ b ++ n3) = [IMsg 1; IErrMsg; IEnd]
               /\ spec_stream 400 (n1 ++ b ++ n3) = Some [IMsg 1; IMsg 3; IErrIo; IEnd].
Proof. exact unknown_type_refuted. Qed.
Print Assumptions C13_unknown_type_refuted.

Theorem C13_full_refuted : ~ C13_full_statement.
Proof. exact full_refuted. Qed.
Print Assumptions C13_full_refuted.

(* what remains around unknown types (= C13_stream_tolerant restricted to what the library itself builds): any number of
   built messages are framed, accepted and delivered in order up to the end of the stream *)
Theorem C13_known_stream_partial : forall msgs : list built, Forall built_ok msgs ->
  read_stream (concat (map built_bytes msgs)) = map (fun x => IMsg (h_serial (bm_hdr x))) msgs ++ [IErrIo; IEnd].
Proof. exact known_stream. Qed.
Print Assumptions C13_known_stream_partial.

Theorem C13_known_message_partial : forall x : built, built_ok x ->
  exists m, from_raw_parts (h_endian (bm_hdr x)) (built_bytes x) = Ok m
            /\ header m = Ok (view (bm_hdr x) (bm_sig x) (bm_body x) (bm_nfds x)) /\ body m = Ok (bm_body x).
Proof. exact known_message. Qed.
Print Assumptions C13_known_message_partial.

Example C13_example : Forall built_ok [ex1; ex2] /\ built_bytes ex1 = n1.
Proof. split; [exact ex_built_ok|exact ex1_is_n1]. Qed.
