(* Properties/C13.v — valid messages with unknown header fields, flags or types are tolerated.
   The full statement is REFUTED on this tree in each of its three parts; what remains is PROVED.
   Model: C11/Model.v + C13/Model.v (reader loop); reference reader of the specification: C11/Spec.v. *)
From ZV Require Import Base.Bytes Base.Res Base.Sig C10.Model C11.Model C11.Spec C11.Proofs C13.Model C13.Spec C13.Proofs.
Open Scope N_scope.

(* the full statement, kept visible *)
Definition C13_full : Prop :=
  (forall b sm, spec_parse b = Some sm -> 1 <= sm_type sm <= 4 ->
     exists m, from_raw_parts (ph_endian (hv_ph (sm_view sm))) b = Ok m /\ header m = Ok (sm_view sm) /\ body m = Ok (sm_body sm))
  /\ (forall stream l, spec_stream (S (length stream)) stream = Some l -> read_stream stream = l).
Theorem C13_full_is_the_statement : C13_full <-> C13_full_statement.
Proof. reflexivity. Qed.

(* a method call that is valid except for header field code 10 (value: a u32): rejected, and the stream stops there *)
Theorem C13_unknown_field_refuted :
  exists b sm e, spec_parse b = Some sm /\ sm_unknown_fields sm = 1 /\ sm_type sm = 1 /\ sm_raw_flags sm = 0
                 /\ from_raw_parts LE b = Err e
                 /\ read_stream (n1 ++ b ++ n3) = [IMsg 1; IErrMsg; IEnd]
                 /\ spec_stream 400 (n1 ++ b ++ n3) = Some [IMsg 1; IMsg 2; IMsg 3; IErrIo; IEnd].
Proof. exact unknown_field_refuted. Qed.
Print Assumptions C13_unknown_field_refuted.

(* ... except for flag bit 0x08 *)
Theorem C13_unknown_flag_refuted :
  exists b sm e, spec_parse b = Some sm /\ sm_raw_flags sm = 8 /\ sm_unknown_fields sm = 0 /\ sm_type sm = 1
                 /\ from_raw_parts LE b = Err e
                 /\ read_stream (n1 ++ b ++ n3) = [IMsg 1; IErrMsg; IEnd]
                 /\ spec_stream 400 (n1 ++ b ++ n3) = Some [IMsg 1; IMsg 2; IMsg 3; IErrIo; IEnd].
Proof. exact unknown_flag_refuted. Qed.
Print Assumptions C13_unknown_flag_refuted.

(* ... a message of type 5: not skipped, the reader stops and the following message is never delivered *)
Theorem C13_unknown_type_refuted :
  exists b sm, spec_parse b = Some sm /\ sm_type sm = 5 /\ sm_raw_flags sm = 0 /\ sm_unknown_fields sm = 0
               /\ read_stream (n1 ++ b ++ n3) = [IMsg 1; IErrMsg; IEnd]
               /\ spec_stream 400 (n1 ++ b ++ n3) = Some [IMsg 1; IMsg 3; IErrIo; IEnd].
Proof. exact unknown_type_refuted. Qed.
Print Assumptions C13_unknown_type_refuted.

Theorem C13_full_refuted : ~ C13_full_statement.
Proof. exact full_refuted. Qed.
Print Assumptions C13_full_refuted.

(* what remains: any number of messages the library can build (field codes 1..9, flags <= 7, types 1..4; any field
   subset, both byte orders, any body) are framed, accepted and delivered in order up to the end of the stream *)
Theorem C13_known_stream_partial : forall msgs : list built, Forall built_ok msgs ->
  read_stream (concat (map built_bytes msgs)) = map (fun x => IMsg (h_serial (bm_hdr x))) msgs ++ [IErrIo; IEnd].
Proof. exact known_stream. Qed.
Print Assumptions C13_known_stream_partial.

Theorem C13_known_message_partial : forall x : built, built_ok x ->
  exists m, from_raw_parts (h_endian (bm_hdr x)) (built_bytes x) = Ok m
            /\ header m = Ok (view (bm_hdr x) (bm_sig x) (bm_body x) (bm_nfds x)) /\ body m = Ok (bm_body x).
Proof. exact known_message. Qed.
Print Assumptions C13_known_message_partial.

(* non-vacuity *)
Example C13_example : Forall built_ok [ex1; ex2] /\ built_bytes ex1 = n1.
Proof. split; [exact ex_built_ok|exact ex1_is_n1]. Qed.
