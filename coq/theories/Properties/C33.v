(* Properties/C33.v — generated proxies and interfaces agree on the wire.
   Only statements, each closed by [exact] of a lemma of C33/*.v, and their assumptions.

   Vocabulary (C26/Desc.v, Tree.v, Msg.v, Model.v; C33/Model.v, Spec.v):
     proxy_call / proxy_get / proxy_set    MODEL of what #[zbus::proxy] generates on top of Proxy::call / get_property /
                                  set_property (property cache off), talking to the dispatch model of C26: the value the
                                  proxy function returns (POk values | PErr name msg | PBad = reply does not deserialize |
                                  PNone), the server side's effects, the new server state
     emit_signal / proxy_recv     the generated signal emitter of the interface; the proxy's signal stream item (match rule +
                                  args() deserialization)
     spec_proxy_*                 SPECIFICATION: the handler's result for exactly the caller's arguments, the stored value,
                                  the emitted arguments
     pcache / cached_get / cache_apply    MODEL of one proxy INSTANCE with the default property cache (Proxy::get_property over
                                  PropertiesCache: first read = GetAll, `emits_changed_signal = "false"` properties never stored,
                                  PropertiesChanged updates / invalidates entries, a missing entry falls back to Properties.Get)
     cache_wf d vals              no cached value under an uncached (false-mode) name — an invariant of the model's caches
     typed vals tys               each value has the corresponding declared type
     bh_respects bh d             user code respects its Rust signatures
     The blocking proxy wraps the same calls in block_on: the same model stands for both (checked by running both). *)
From ZV Require Import Base.Bytes C26.Desc C26.Tree C26.Msg C27.Model C28.Model C26.Model C33.Model.
From ZV Require Import C28.Spec C26.Spec C33.Spec C26.Facts C26.Proofs C28.Proofs C28.History C33.Proofs C33.Cache C33.Examples.

(* --- a proxy method call delivers the caller's arguments to the handler, once, and returns the handler's result or
       error; nothing else happens.  Full strength: every output shape, single structures and one-element tuples
       included, every input list --- *)
Theorem C33_call_agrees :
  forall (bh : behaviour) (root : node) (path : bytes) (i : inst) (md : mdesc) (args : list val),
    registered root path (id_name (in_desc i)) = Some i ->
    find_method (in_desc i) (md_name md) = Some md ->
    bh_respects bh (in_desc i) ->
    typed args (in_tys md) ->
    let x := spec_proxy_call bh i md args in
    let '(r, ef, root') := proxy_call bh root path (in_desc i) md args in
    r = px_res x /\ ef_log ef = px_log x /\ ef_signals ef = [] /\ root' = root.
Proof. exact proxy_call_agrees. Qed.
Print Assumptions C33_call_agrees.

(* --- the two macros' signature conventions compose to the identity on results --- *)
Theorem C33_reply_roundtrip :
  forall (o : oshape) (outs : list val),
    typed outs (out_types o) ->
    dyn_sig_ok (sg_of_ret o) (sg_of_vals (wire_out o outs)) = true /\ repack o (wire_out o outs) = outs.
Proof. exact reply_roundtrip. Qed.
Print Assumptions C33_reply_roundtrip.

(* --- a property read through the proxy returns the server's current value (or the getter's error) --- *)
Theorem C33_get_agrees :
  forall (bh : behaviour) (root : node) (path : bytes) (i : inst) (p : pdesc),
    root_ok root ->
    registered root path (id_name (in_desc i)) = Some i ->
    find_prop (in_desc i) (pd_name p) = Some p -> readable p = true ->
    let x := spec_proxy_get bh i p in
    let '(r, ef, root') := proxy_get bh root path (in_desc i) p in
    r = px_res x /\ ef_log ef = px_log x /\ ef_signals ef = [] /\ root' = root.
Proof. exact proxy_get_agrees. Qed.
Print Assumptions C33_get_agrees.

(* --- a property write through the proxy runs the setter with that value and, when it succeeds, changes the server's
       value; outside the one class that shows through (the getter called for the change signal fails) --- *)
Theorem C33_set_agrees_partial :
  forall (bh : behaviour) (root : node) (path : bytes) (i : inst) (p : pdesc) (v : val),
    root_ok root ->
    registered root path (id_name (in_desc i)) = Some i ->
    find_prop (in_desc i) (pd_name p) = Some p -> writable p = true -> has_ty v (pd_ty p) = true ->
    ~ (setter_error bh i p v = None /\ eff_emits p = ETrue /\ getter_error bh i p v <> None) ->
    let x := spec_proxy_set bh i p v in
    let '(r, ef, root') := proxy_set bh root path (in_desc i) p v in
    r = px_res x /\ ef_log ef = px_log x /\
    (forall vals, px_vals x = Some vals ->
                  root' = (if match px_res x with POk _ => true | _ => false end
                           then upd_at root (segs_of path) (id_name (in_desc i)) vals else root)).
Proof. exact proxy_set_agrees_partial. Qed.
Print Assumptions C33_set_agrees_partial.

(* --- through ONE proxy instance whose property cache is already populated (default caching): after a successful
       typed write, a read returns the written value — for the modes true (served from the cache the signal updated),
       invalidates and false (the read goes back to the server).  `const` may keep its first value.  For every
       description, state, cache content and behaviour with a successful setter / getter --- *)
Theorem C33_cached_read_after_write :
  forall (bh : behaviour) (root : node) (path : bytes) (i : inst) (p : pdesc) (v : val) (vals : list (bytes * option val)),
    state_ok root ->
    registered root path (id_name (in_desc i)) = Some i ->
    find_prop (in_desc i) (pd_name p) = Some p -> readable p = true -> writable p = true -> tv p = false ->
    has_ty v (pd_ty p) = true -> setter_error bh i p v = None -> getter_error bh i p v = None ->
    pd_emits p <> EConst ->
    cache_wf (in_desc i) vals ->
    let '(r1, ef, root') := proxy_set bh root path (in_desc i) p v in
    let c' := fold_left (cache_apply (in_desc i) path) (ef_signals ef) (COk vals) in
    r1 = POk [] /\ fst (fst (fst (cached_get bh root' path (in_desc i) p c'))) = POk [v].
Proof. exact cached_read_after_write. Qed.
Print Assumptions C33_cached_read_after_write.

(* --- the hypothesis cache_wf is an invariant: it holds after the cache's initialisation and after every signal --- *)
Theorem C33_cache_invariant :
  forall (bh : behaviour) (root : node) (path : bytes) (d : idesc) (c : pcache) (m : sigmsg),
    pcache_wf d (fst (fst (cache_init bh root path d))) /\ (pcache_wf d c -> pcache_wf d (cache_apply d path c m)).
Proof. exact (fun bh root path d c m => conj (pcache_wf_init bh root path d) (pcache_wf_apply d path c m)). Qed.
Print Assumptions C33_cache_invariant.

(* --- a signal emitted by the interface arrives at the proxy's stream with equal arguments --- *)
Theorem C33_signal_agrees :
  forall (path : bytes) (d : idesc) (s : sdesc) (args : list val),
    find_signal d (sd_name s) = Some s -> typed args (map snd (sd_args s)) ->
    exists m, emit_signal path d (sd_name s) args = Some m /\
              proxy_recv path d s m = Some (spec_proxy_recv args).
Proof. exact signal_agrees. Qed.
Print Assumptions C33_signal_agrees.

(* --- the class: the write took effect on the server, the proxy reports an error --- *)
Theorem C33_changed_getter_fails_refuted :
  exists (bh : behaviour) (root : node) (path : bytes) (i : inst) (p : pdesc) (v : val),
    root_ok root /\ registered root path (id_name (in_desc i)) = Some i /\
    find_prop (in_desc i) (pd_name p) = Some p /\ writable p = true /\ has_ty v (pd_ty p) = true /\
    setter_error bh i p v = None /\ eff_emits p = ETrue /\ getter_error bh i p v <> None /\
    fst (fst (proxy_set bh root path (in_desc i) p v)) <> px_res (spec_proxy_set bh i p v) /\
    exists i', registered (snd (proxy_set bh root path (in_desc i) p v)) path (id_name (in_desc i)) = Some i' /\
               get_val (pd_name p) (in_vals i') = Some v.
Proof. exact proxy_changed_getter_fails_refuted. Qed.
Print Assumptions C33_changed_getter_fails_refuted.

(* The property as stated for property writes, kept visible; REFUTED by the theorem above. *)
Definition C33_set_full_statement : Prop :=
  forall (bh : behaviour) (root : node) (path : bytes) (i : inst) (p : pdesc) (v : val),
    root_ok root -> registered root path (id_name (in_desc i)) = Some i ->
    find_prop (in_desc i) (pd_name p) = Some p -> writable p = true -> has_ty v (pd_ty p) = true ->
    fst (fst (proxy_set bh root path (in_desc i) p v)) = px_res (spec_proxy_set bh i p v).
