(* Properties/C06.v — signature strings parse exactly per the D-Bus type grammar.
   Only statements, each closed by [exact] of a lemma of C06/*.v, and their assumptions.
   Model: C06/Model.v (mirror of zvariant_utils/src/signature); grammar: C06/Spec.v; classes: C06/Classes.v. *)
From ZV Require Import Base.Bytes Base.Res Base.Sig
  C06.Model C06.Spec C06.Classes C06.SpecFacts C06.ParseFacts C06.EqFacts C06.DepthFacts C06.Proofs.

(* ---- the executable oracle decides the inductive grammar *)
Theorem C06_spec_decidable : forall (gv : bool) (s : bytes), valid_sigb gv s = true <-> valid_signature gv s.
Proof. exact valid_sigb_iff. Qed.
Print Assumptions C06_spec_decidable.

(* ---- parse, then format: the string comes back, up to the outer parentheses of a multi-type signature *)
Theorem C06_roundtrip : forall (gv : bool) (s : bytes) (t : tsig),
  from_str gv s = Ok t -> show t = s \/ (is_struct t = true /\ show_noparens t = s).
Proof. exact parse_roundtrip. Qed.
Print Assumptions C06_roundtrip.

(* ---- format, then parse: every tree that has a string form parses back to itself (all-Dynamic representation) *)
Theorem C06_show_parse : forall (gv : bool) (t : tsig),
  t = TLeaf CUnit \/ parseable gv t = true -> from_str gv (show t) = Ok (erase t).
Proof. exact show_parse. Qed.
Print Assumptions C06_show_parse.

Theorem C06_show_noparens_parse : forall (gv : bool) (r : repr) (fs : list tsig),
  2 <= length fs -> forallb (parseable gv) fs = true ->
  from_str gv (show_noparens (TStruct r fs)) = Ok (erase (TStruct r fs)).
Proof. exact show_noparens_parse. Qed.
Print Assumptions C06_show_noparens_parse.

(* ---- string_len is the length of the formatted string, for every tree *)
Theorem C06_len : forall t : tsig, string_len t = length (show t).
Proof. exact string_len_show. Qed.
Print Assumptions C06_len.

(* ---- Eq / Hash / Ord / Display / string_len / PartialEq<&str> do not depend on Static vs Dynamic *)
Theorem C06_repr : forall t1 t2 : tsig, erase t1 = erase t2 ->
  sig_eq t1 t2 = true /\ sig_hash t1 = sig_hash t2 /\ sig_cmp t1 t2 = Eq /\
  show t1 = show t2 /\ show_noparens t1 = show_noparens t2 /\ string_len t1 = string_len t2 /\
  (forall s : bytes, eq_str t1 s = eq_str t2 s).
Proof. exact repr_independent. Qed.
Print Assumptions C06_repr.

(* ---- == is exactly equality of the trees up to representation *)
Theorem C06_eq_iff : forall a b : tsig, sig_eq a b = true <-> erase a = erase b.
Proof. exact sig_eq_iff. Qed.
Print Assumptions C06_eq_iff.

(* ---- Ord (after fix 668536e1: different kinds are ordered by kind_rank instead of being called Equal):
        cmp answers Equal exactly for signatures that are equal up to representation, i.e. exactly when == holds *)
Theorem C06_cmp_eq : forall a b : tsig, sig_cmp a b = Eq <-> erase a = erase b.
Proof. exact sig_cmp_eq_iff. Qed.
Print Assumptions C06_cmp_eq.

(* ---- the parser is total: Ok or InvalidSignature, never out of fuel (model artefact), never a panic
        (winnow's "repeat parsers must always consume" assertion cannot fire) *)
Theorem C06_parse_total : forall (co gv : bool) (s : bytes),
  parse co gv s = Err InvalidSignature \/ exists t, parse co gv s = Ok t.
Proof. exact parse_total. Qed.
Print Assumptions C06_parse_total.

(* ---- validate (check_only mode) accepts exactly what from_str accepts *)
Theorem C06_validate_same : forall (gv : bool) (s : bytes), validate gv s = is_ok (from_str gv s).
Proof. exact validate_same. Qed.
Print Assumptions C06_validate_same.

(* ---- acceptance.  No valid signature is rejected (full strength) … *)
Theorem C06_accept_complete : forall (gv : bool) (s : bytes),
  valid_signature gv s -> exists t, from_str gv s = Ok t.
Proof. exact accept_complete. Qed.
Print Assumptions C06_accept_complete.

(* … but the converse, hence the full statement
     forall gv s, is_ok (from_str gv s) = true <-> valid_signature gv s        (C06_accept_full_statement)
   is refuted in three classes: *)
Theorem C06_nonbasic_key_refuted :
  exists s, is_ok (from_str false s) = true /\ ~ valid_signature false s /\ classify false s = KNonBasicKey.
Proof. exact nonbasic_key_refuted. Qed.
Print Assumptions C06_nonbasic_key_refuted.

Theorem C06_nesting_refuted :
  exists s1 s2, is_ok (from_str false s1) = true /\ ~ valid_signature false s1 /\ classify false s1 = KNesting /\
                is_ok (from_str false s2) = true /\ ~ valid_signature false s2 /\ classify false s2 = KNesting.
Proof. exact nesting_refuted. Qed.
Print Assumptions C06_nesting_refuted.

Theorem C06_length_refuted :
  exists s, is_ok (from_str false s) = true /\ ~ valid_signature false s /\ classify false s = KLength.
Proof. exact length_refuted. Qed.
Print Assumptions C06_length_refuted.

Theorem C06_accept_full_refuted :
  ~ (forall gv s, is_ok (from_str gv s) = true <-> valid_signature gv s).
Proof. exact accept_full_refuted. Qed.
Print Assumptions C06_accept_full_refuted.

(* outside the classes (Known_C06: the string is accepted and its parse has a non-basic dict key, or more than
   32 nested arrays / structs, or the string has more than 255 bytes) acceptance is exactly the grammar *)
Theorem C06_accept_partial : forall (gv : bool) (s : bytes), Known_C06 gv s = false ->
  (is_ok (from_str gv s) = true <-> valid_signature gv s).
Proof. exact accept_partial. Qed.
Print Assumptions C06_accept_partial.

(* ---- `parsed == its own string` (PartialEq<&str>): holds with basic dict keys, fails without *)
Theorem C06_eq_str_partial : forall (gv : bool) (s : bytes) (t : tsig),
  from_str gv s = Ok t -> basic_keys t = true -> eq_str t s = Ok true.
Proof. exact eq_str_parsed_partial. Qed.
Print Assumptions C06_eq_str_partial.

Theorem C06_eq_str_refuted :
  exists s t, from_str false s = Ok t /\ eq_str t s = Ok false /\ classify false s = KNonBasicKey.
Proof. exact eq_str_parsed_refuted. Qed.
Print Assumptions C06_eq_str_refuted.

(* ---- `parsed == other` for another valid signature: sound when no struct is involved, unsound otherwise
        (the struct branch never looks at the two delimiter bytes) *)
Theorem C06_eq_str_sound_partial : forall (gv : bool) (s1 s2 : bytes) (t1 t2 : tsig), has_struct t1 = false ->
  from_str gv s1 = Ok t1 -> from_str gv s2 = Ok t2 -> eq_str t1 s2 = Ok true ->
  sig_eq t1 t2 = true /\ s2 = s1.
Proof. exact eq_str_sound_partial. Qed.
Print Assumptions C06_eq_str_sound_partial.

Theorem C06_eq_str_sound_refuted :
  exists s1 s2 t1 t2, valid_signature false s1 /\ valid_signature false s2 /\
    from_str false s1 = Ok t1 /\ from_str false s2 = Ok t2 /\ eq_str t1 s2 = Ok true /\ sig_eq t1 t2 = false /\
    has_struct t1 = true.
Proof. exact eq_str_sound_refuted. Qed.
Print Assumptions C06_eq_str_sound_refuted.

(* ---- recursion depth: n opening parentheses nest n activations of parse_signature; no constant bounds it *)
Theorem C06_stack_unbounded : forall (gv : bool) (n : nat), (N.of_nat n <= stack_used gv (repeat "("%byte n))%N.
Proof. exact stack_unbounded. Qed.
Print Assumptions C06_stack_unbounded.

Theorem C06_deep_recursion_refuted :
  ~ (exists bound : N, forall gv s, (stack_used gv s <= bound)%N).
Proof. exact bounded_stack_refuted. Qed.
Print Assumptions C06_deep_recursion_refuted.

(* … and the depth is at most linear in the length of the input (so a 255-byte limit would bound it by 256) *)
Theorem C06_stack_linear : forall (gv : bool) (s : bytes), (stack_used gv s <= N.of_nat (length s) + 1)%N.
Proof. exact stack_linear. Qed.
Print Assumptions C06_stack_linear.

(* ---- the formatter agrees with the plain-tree formatter of Base/Sig.v used by the codec properties *)
Theorem C06_show_to_sig : forall t : tsig, show t = Sig.show (to_sig t).
Proof. exact show_to_sig. Qed.
Print Assumptions C06_show_to_sig.
