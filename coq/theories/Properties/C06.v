(* Properties/C06.v — TEMPORARY skeleton, replaced when the proofs are complete *)
From ZV Require Import Base.Bytes C06.Spec C06.SpecFacts.
Theorem C06_spec_decidable : forall gv s, valid_sigb gv s = true <-> valid_signature gv s.
Proof. exact valid_sigb_iff. Qed.
Print Assumptions C06_spec_decidable.
