(* Properties/C21.v — match rules select exactly the messages the specification says.
   Only statements, each closed by [exact] of a lemma of C21/Proofs.v, and their assumptions.
   Vocabulary: C21/Model.v ([matches], [build], the rule and message records) mirrors the code;
   C21/Spec.v ([matches_spec], [local], [known_C21]) is the D-Bus specification's semantics, the documented
   exemption and the two known deviation classes (three earlier ones were repaired in /repo — fix 8cf9b673: destination
   against a message without destination, path_namespace as a string prefix; fix 3ae57b16: arg0namespace read a non-string
   first argument — and are now covered by C21_partial). *)
From ZV Require Import Base.Bytes Base.Res C21.Model C21.Spec C21.Proofs.

(* The full statement (kept visible; refuted below on the pinned tree). *)
Definition C21_full_statement : Prop :=
  forall (owns : bytes -> bytes -> bool) (r : rule) (m : msg),
    local r m = true -> matches r m = Ok (matches_spec owns r m).

Theorem C21_full_refuted : ~ (forall (owns : bytes -> bytes -> bool) (r : rule) (m : msg),
    local r m = true -> matches r m = Ok (matches_spec owns r m)).
Proof. exact full_refuted. Qed.
Print Assumptions C21_full_refuted.

(* Outside the known classes the code's verdict is the specification's, for every rule (built by the builder
   or not), every message, and whatever the bus's name ownership is. *)
Theorem C21_partial : forall (owns : bytes -> bytes -> bool) (r : rule) (m : msg),
  local r m = true -> known_C21 r m = false -> matches r m = Ok (matches_spec owns r m).
Proof. exact matches_partial. Qed.
Print Assumptions C21_partial.

(* In the exempt cases (well-known sender in the rule / well-known destination on the message) the code never
   drops a message that the specification delivers, whatever the ownership relation is. *)
Theorem C21_exempt_no_false_negative : forall (owns : bytes -> bytes -> bool) (r : rule) (m : msg),
  known_C21 r m = false -> matches_spec owns r m = true -> matches r m = Ok true.
Proof. exact matches_no_false_negative. Qed.
Print Assumptions C21_exempt_no_false_negative.

(* Known findings: a rule built through the builder API, a message, the code's verdict, the specification's. *)
Theorem C21_arg_path_string_refuted :
  let m := {| m_type := Signal; m_sender := Some (B ":1.7"); m_interface := Some (B "a.b"); m_member := Some (B "M");
              m_path := Some (B "/"); m_destination := None; m_body := [AStr (B "/a")] |} in
  exists r, build [OArgPath 0 (B "/a")] = Ok r /\ local r m = true /\ matches r m = Ok false /\
            forall owns, matches_spec owns r m = true.
Proof. exact arg_path_string_refuted. Qed.
Print Assumptions C21_arg_path_string_refuted.

Theorem C21_arg_path_slash_refuted :
  let m := {| m_type := Signal; m_sender := Some (B ":1.7"); m_interface := Some (B "a.b"); m_member := Some (B "M");
              m_path := Some (B "/"); m_destination := None; m_body := [APath (B "/")] |} in
  exists r, build [OArgPath 0 (B "/a/b")] = Ok r /\ local r m = true /\ matches r m = Ok false /\
            forall owns, matches_spec owns r m = true.
Proof. exact arg_path_slash_refuted. Qed.
Print Assumptions C21_arg_path_slash_refuted.

Theorem C21_sole_struct_refuted :
  let m := {| m_type := Signal; m_sender := Some (B ":1.7"); m_interface := Some (B "a.b"); m_member := Some (B "M");
              m_path := Some (B "/"); m_destination := None; m_body := [AStructSU (B "x") 7] |} in
  exists r, build [OArg 0 (B "x")] = Ok r /\ local r m = true /\ matches r m = Ok true /\
            forall owns, matches_spec owns r m = false.
Proof. exact sole_struct_refuted. Qed.
Print Assumptions C21_sole_struct_refuted.

Theorem C21_sole_struct_arg0ns_refuted :
  let m := {| m_type := Signal; m_sender := Some (B ":1.7"); m_interface := Some (B "a.b"); m_member := Some (B "M");
              m_path := Some (B "/"); m_destination := None; m_body := [AStructSU (B "a.b") 7] |} in
  exists r, build [OArg0ns (B "a")] = Ok r /\ local r m = true /\ matches r m = Ok true /\
            forall owns, matches_spec owns r m = false.
Proof. exact sole_struct_arg0ns_refuted. Qed.
Print Assumptions C21_sole_struct_arg0ns_refuted.
