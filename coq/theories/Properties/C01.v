From ZV Require Import Base.Bytes DBus.Spec.
Theorem C01_placeholder : padn 5 4 = 3%N.
Proof. reflexivity. Qed.
Print Assumptions C01_placeholder.
