(* Properties/C01.v — D-Bus encoding is byte-exact with the specification.
   [marshal]/[marshal_top] (DBus/Spec.v) is the specification's wire format, written independently of the model
   [ser]/[ser_top]/[size_top] (DBus/Ser.v) of zvariant::dbus::Serializer.  Statements only. *)
From ZV Require Import Base.Bytes Base.Res Base.Sig DBus.Val DBus.Spec DBus.Ser DBus.SerProofs.
Local Open Scope N_scope.

(* the bytes: for every configuration, byte order, start offset and every well-formed value within the
   nesting limits (whose encoding and descriptor count fit the format's 32-bit fields) *)
Theorem C01_bytes : forall (c : cfg) (e : endian) (pos : N) (v : dval),
  wf v = true -> enc_form v = true -> within_limits v = true ->
  len (marshal_top e pos v) < 2 ^ 32 -> nfds v < 2 ^ 32 ->
  ser_top c e pos (vsig v) (sval_of v) = Ok (marshal_top e pos v, fds_of v).
Proof. intros c e pos v H1 H2 H3 H4 H5. apply ser_top_exact. repeat split; assumption. Qed.
Print Assumptions C01_bytes.

(* the size pass: same length as written, and as many descriptors as are attached *)
Theorem C01_size : forall (c : cfg) (e : endian) (pos : N) (v : dval),
  wf v = true -> enc_form v = true -> within_limits v = true ->
  len (marshal_top e pos v) < 2 ^ 32 -> nfds v < 2 ^ 32 ->
  size_top c e pos (vsig v) (sval_of v) = Ok (len (marshal_top e pos v), N.of_nat (length (fds_of v))).
Proof. intros c e pos v H1 H2 H3 H4 H5. apply size_top_exact. repeat split; assumption. Qed.
Print Assumptions C01_size.

(* the general step: serializing a value in the middle of a message appends exactly its marshalling at the
   current absolute position and changes nothing else of the serializer state *)
Theorem C01_step : forall (v : dval) (st : sstate),
  enc_form v = true -> wf v = true -> s_sig st = vsig v -> s_vsign st = None -> fits (s_dep st) v ->
  nfd st + nfds v < 2 ^ 32 ->
  len (marshal (s_e st) ByOccurrence v (abs_pos st) (nfd st)) < 2 ^ 32 ->
  ser (sval_of v) st = Ok (grow st (marshal (s_e st) ByOccurrence v (abs_pos st) (nfd st)) (fds_of v)).
Proof. intros v st He. exact (ser_good v He st). Qed.
Print Assumptions C01_step.

(* the specification's padding is the least number of zero bytes reaching the alignment *)
Theorem C01_padding : forall pos al : N, al <> 0 -> padn pos al < al /\ (pos + padn pos al) mod al = 0.
Proof. exact padn_spec. Qed.
Print Assumptions C01_padding.

(* the signature of a variant is read back by the parser from what the encoder wrote *)
Theorem C01_variant_signature : forall (gv : bool) (g : sig),
  single_ok g = true -> SigParse.parse_sig gv (show g) = Some g.
Proof. intros gv g H. apply SigParseFacts.parse_show. now apply SerFacts.single_printable. Qed.
Print Assumptions C01_variant_signature.
