(* Properties/C27.v — introspection data is well-formed and matches wire behaviour.
   Only statements, each closed by [exact] of a lemma of C27/*.v, and their assumptions.

   Vocabulary (C26/Desc.v, Tree.v; C27/Model.v, Spec.v, Proofs.v):
     xi                          the items the generated `introspect_to_writer` and `Node::introspect_to_writer` write:
                                 XE tag attrs kids selfclose | XC comment-lines;  print_item / introspect_text give the exact text
     node_item name n            MODEL of the XML of node n (the three standard interfaces + the registered ones, then the children)
     method_elem / signal_elem / prop_elem    the <method> / <signal> / <property> element of a member
     arg_types dir m             the `type` attributes of the <arg> children of m whose `direction` is dir
     args_ok md wire             the generated argument decoding accepts a body with top-level values `wire` (C26/Model.v)
     wire_out o outs             the top-level values of the reply body for handler results outs of declared shape o
     flattened md wire           the two re-groupings of a (us) structure that the parsed signature cannot tell apart (C26)
     erase x / read_doc t        the infoset quick-xml's tokenizer delivers for x (comments dropped) / zbus_xml's reader
                                 (C34/Model.v `of_node`, signatures through the C06 model, names through the C10 validators)
     d_node name n               SPECIFICATION: the document declared by the descriptions registered in n (C27/Spec.v)
     names_ok n                  interface, member and property names of everything registered in n are valid D-Bus names
     xi_wf x                     no comment of x contains "--"  (XML 1.0 well-formedness of comments)
     rep1 / dedash_fuel / dedash the doc-line rewriting of fix e95e1976: one `replace("--", "- -")` pass / the `while
                                 line.contains("--")` loop with fuel / the loop as the model runs it (fuel 2 + length) *)
From ZV Require Import Base.Bytes Base.Res C26.Desc C26.Tree C26.Msg C27.Model C28.Model C26.Model.
From ZV Require Import C28.Spec C26.Spec C27.Spec C26.Facts C26.Proofs C28.Proofs C27.Dedash C27.Proofs C27.Reader C27.ReadBack C27.Examples.

(* --- the XML is read back by the library's own XML model, and what it reads is the declared document --- *)
Theorem C27_reads_back :
  forall (n : node) (name : option bytes),
    names_ok n -> exists t, erase (node_item name n) = [t] /\ read_doc t = Ok (d_node name n).
Proof. exact reads_back. Qed.
Print Assumptions C27_reads_back.

(* --- the XML of a node lists exactly the object's interfaces (standard + registered) and exactly its children --- *)
Theorem C27_lists_exactly :
  forall (name : option bytes) (n : node),
    let item := node_item name n in
    map (attr_of (B "name")) (filter (tag_is (B "interface")) (kids_of item)) =
      map (fun d => Some (id_name d)) (std_ifaces ++ map in_desc (node_ifs n)) /\
    map (attr_of (B "name")) (filter (tag_is (B "node")) (kids_of item)) = map (fun e => Some (fst e)) (node_kids n) /\
    attr_of (B "name") item = name.
Proof. exact lists_exactly. Qed.
Print Assumptions C27_lists_exactly.

(* --- methods: the declared input types are the ones the server accepts (exactly, up to the two flattenings) --- *)
Theorem C27_in_types_accepted :
  forall (m : mdesc) (wire : list val),
    (map vsig wire = arg_types (Some (B "in")) (method_elem m) -> args_ok m wire = true) /\
    (in_tys m <> [] -> args_ok m wire = true ->
     map vsig wire = arg_types (Some (B "in")) (method_elem m) \/ flattened m wire).
Proof. exact in_types_accepted. Qed.
Print Assumptions C27_in_types_accepted.

(* --- methods: replies have the declared output types, for tuples and non-structure types (as the property says) --- *)
Theorem C27_out_types_sent :
  forall (m : mdesc) (outs : list val),
    typed outs (out_types (md_out m)) ->
    (forall t, md_out m = OSingle t -> struct_fields t = None) ->
    map vsig (wire_out (md_out m) outs) = arg_types (Some (B "out")) (method_elem m).
Proof. exact out_types_sent. Qed.
Print Assumptions C27_out_types_sent.

(* --- signals: the emitted body has the declared argument types --- *)
Theorem C27_signal_types_sent :
  forall (path : bytes) (d : idesc) (s : sdesc) (args : list val) (m : sigmsg),
    find_signal d (sd_name s) = Some s -> typed args (map snd (sd_args s)) ->
    emit_signal path d (sd_name s) args = Some m ->
    map vsig (sg_body m) = arg_types None (signal_elem s).
Proof. exact signal_types_sent. Qed.
Print Assumptions C27_signal_types_sent.

(* --- properties: the declared type is the type of the value in a Get reply / PropertiesChanged entry and the
       only type Set accepts — for every type but `v` --- *)
Theorem C27_property_types_partial :
  forall p : pdesc,
    ty_eqb (pd_ty p) TV = false ->
    (forall v, has_ty v (pd_ty p) = true -> Some (vsig (content v)) = attr_of (B "type") (prop_elem p)) /\
    (forall sent, (exists v, convert (pd_ty p) sent = Some v) <-> Some (vsig sent) = attr_of (B "type") (prop_elem p)).
Proof. exact property_types_partial. Qed.
Print Assumptions C27_property_types_partial.

Theorem C27_variant_typed_property_refuted :
  exists p v, pd_ty p = TV /\ has_ty v (pd_ty p) = true /\
              Some (vsig (content v)) <> attr_of (B "type") (prop_elem p) /\
              (exists w, convert (pd_ty p) (VU 5) = Some w) /\ Some (vsig (VU 5)) <> attr_of (B "type") (prop_elem p).
Proof. exact variant_property_refuted. Qed.
Print Assumptions C27_variant_typed_property_refuted.

(* --- well-formedness, FULL STRENGTH since fix e95e1976: whatever the doc texts, no comment written contains "--" --- *)
Theorem C27_wellformed :
  forall (n : node) (name : option bytes), xi_wf (node_item name n) = true.
Proof. exact wellformed. Qed.
Print Assumptions C27_wellformed.

(* --- the rewriting loop: for EVERY byte string two `replace("--", "- -")` passes leave no "--"; hence the loop ends
       after at most two passes, any fuel >= 2 gives the same result, and that result contains no "--" --- *)
Theorem C27_two_passes_suffice : forall s : bytes, has_dd (rep1 (rep1 s)) = false.
Proof. exact rep1_twice_clean. Qed.
Print Assumptions C27_two_passes_suffice.

Theorem C27_dedash_clean :
  forall (n m : nat) (s : bytes),
    has_dd (dedash_fuel (S (S n)) s) = false /\ dedash_fuel (S (S n)) s = dedash_fuel (S (S m)) s /\
    (has_dd s = false -> dedash_fuel n s = s).
Proof. exact (fun n m s => conj (dedash_fuel_enough n s) (conj (dedash_fuel_stable n m s) (dedash_fuel_clean n s))). Qed.
Print Assumptions C27_dedash_clean.
