(* Properties/C04.v — decoding untrusted bytes never crashes (D-Bus format).
   In DBus/De.v every slice, index, subtraction, unwrap and unreachable! on the decode path of
   zvariant::dbus::Deserializer + the dynamic Value visitors is an explicit outcome; these theorems say which
   of them are reachable.  Statements only. *)
From ZV Require Import Base.Bytes Base.Res Base.Sig Base.SigParse DBus.Val DBus.Spec DBus.Ser DBus.De DBus.DeNoPanic DBus.DeFacts.
Local Open Scope N_scope.

(* for every fuel, every decoder state (any bytes, cursor, offset, byte order, depth counters, fd table):
   without the gvariant feature and with a maybe-free signature the decoder returns a value or an error *)
Theorem C04_dbus_nopanic_partial : forall (fuel : nat) (st : dstate),
  c_gv (t_cfg st) = false -> maybe_free (t_sig st) = true -> is_panic (de_any fuel st) = false.
Proof. exact de_any_nopanic. Qed.
Print Assumptions C04_dbus_nopanic_partial.

(* Data::deserialize::<Value>() on arbitrary bytes *)
Theorem C04_value_nopanic_partial : forall c e pos (b : bytes) (fds : list N),
  c_gv c = false -> is_panic (de_value_top c e pos b fds) = false.
Proof. exact de_value_top_nopanic. Qed.
Print Assumptions C04_value_nopanic_partial.

(* Data::deserialize_for_dynamic_signature::<Structure>(sig) on arbitrary bytes *)
Theorem C04_body_nopanic_partial : forall c e pos (g : sig) (b : bytes) (fds : list N),
  c_gv c = false -> maybe_free g = true -> is_panic (de_struct_top c e pos g b fds) = false.
Proof. exact de_struct_top_nopanic. Qed.
Print Assumptions C04_body_nopanic_partial.

(* signatures parsed from hostile input never contain a maybe unless the gvariant feature is compiled in *)
Theorem C04_parsed_signatures_maybe_free : forall (s : bytes) (g : sig), parse_sig false s = Some g -> maybe_free g = true.
Proof. exact parse_sig_maybe_free. Qed.
Print Assumptions C04_parsed_signatures_maybe_free.

(* a successful decode moves only the cursor and the depth counters: buffer, context, signature and the
   descriptor table of the deserializer are what they were (so nothing outside the input is read) *)
Theorem C04_frame : forall (fuel : nat) (st st' : dstate) (v : dval),
  c_gv (t_cfg st) = false -> maybe_free (t_sig st) = true -> de_any fuel st = Ok (v, st') ->
  t_cfg st' = t_cfg st /\ t_e st' = t_e st /\ t_pos0 st' = t_pos0 st /\ t_bytes st' = t_bytes st /\
  t_sig st' = t_sig st /\ t_fds st' = t_fds st.
Proof.
  intros fuel st st' v H1 H2 H3. pose proof (de_any_Q fuel st (conj H1 H2)) as H. rewrite H3 in H. exact H.
Qed.
Print Assumptions C04_frame.

(* the full statement is false of the faithful model: known finding maybe_dbus_align *)
Theorem C04_maybe_refuted : exists c e pos g b fds, c_gv c = true /\ de_struct_top c e pos g b fds = Panic PUnreachable.
Proof. exact maybe_panics. Qed.
Print Assumptions C04_maybe_refuted.
