From ZV Require Import Base.Bytes DBus.Spec.
Theorem C04_placeholder : padn 5 4 = 3%N.
Proof. reflexivity. Qed.
Print Assumptions C04_placeholder.
