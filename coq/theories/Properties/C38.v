(* Properties/C38.v — transport failures end pending work with errors, never hangs.
   Only statements, each closed by [exact] of a lemma of C38/*.v, and their assumptions.

   Vocabulary (C38/Model.v, C38/Spec.v).  A configuration [c] fixes what the peer sends ([msgs c]: lengths and classes),
   the byte position [fpos c] at which the inbound stream fails (end-of-file or an error, [fkind c]), the sendmsg call from
   which writes fail ([wbudget c]), whether the connection is a bus connection, and the queue capacities.  [reach c ts tr s]:
   state s is reached from the initial state with user tasks ts (method calls, message streams, signal emissions) by the
   history tr of atomic actions: LRecv n (recvmsg hands the reader n more bytes), LFault, LBcast j (the reader serves one
   entry of msg_senders, in any order, waiting while a queue is full), LBcastEnd (next message, or senders.clear() and exit),
   LTask i (task i makes its next move).  The history IS the scheduler, the transport's chunking and the fault: nothing restricts
   which enabled action comes next.  [stuck c s]: no action is enabled.  [final s]: the reader is gone, every call has a
   result, every stream has ended or was refused.  [raced s]: an entry was put into msg_senders after the reader cleared it. *)
From ZV Require Import Base.Bytes Base.Res C38.Model C38.Spec C38.Progress C38.Measure C38.PrefixA C38.PrefixC C38.Proofs C38.Later
  C38.Run C38.RunFacts.

(* the property at full strength: whenever nothing can move any more, everything has completed *)
Definition C38_full_statement : Prop :=
  forall (c : cfg) (ts : list task) (tr : list label) (s : st),
    wf c -> forallb fresh_task ts = true -> reach c ts tr s -> stuck c s -> final s.

(* REFUTED by the model of the code as it is: a bus connection whose peer disappears right after the AddMatch reply of a
   subscription — add_match tested msg_senders before the round trip and inserts after the reader cleared it; the stream
   never ends (and later subscriptions to the same rule are accepted and never end either) *)
Theorem C38_addmatch_race_refuted :
  exists (c : cfg) (ts : list task) (tr : list label) (s : st),
    wf c /\ forallb fresh_task ts = true /\ reach c ts tr s /\ stuck c s /\ ~ final s /\ raced s = true.
Proof. exists race_cfg, race_tasks, race_trace, race_state. exact race_refutes. Qed.
Print Assumptions C38_addmatch_race_refuted.

Theorem C38_full_statement_refuted : ~ C38_full_statement.
Proof.
  intros H. destruct race_refutes as (Hwf & Hf & Hr & Hst & Hnf & _). exact (Hnf (H _ _ _ _ Hwf Hf Hr Hst)).
Qed.
Print Assumptions C38_full_statement_refuted.

(* outside that class: for EVERY fault position, fault kind, chunking and schedule, a state in which nothing can move is a
   state in which every pending call has completed and every stream has ended *)
Theorem C38_no_hang_partial : forall (c : cfg) (ts : list task) (tr : list label) (s : st),
  wf c -> reach c ts tr s -> raced s = false -> stuck c s -> final s.
Proof. exact stuck_final. Qed.
Print Assumptions C38_no_hang_partial.

(* ... and such a state is always reached: every action strictly decreases the natural number [mu c s], so no schedule runs
   for more than [mu c (init ts)] steps (no livelock, no unbounded waiting on a full queue) *)
Theorem C38_no_hang_terminates : forall (c : cfg) (ts : list task) (tr : list label) (s : st),
  reach c ts tr s -> length tr + mu c s <= mu c (init ts).
Proof. exact reach_length_bounded. Qed.
Print Assumptions C38_no_hang_terminates.

(* what a call ends with: a reply that was received completely, or an error *)
Theorem C38_call_results : forall (c : cfg) (serial cost : nat) (s : st) (x : rx) (o : outcome) (s' : st),
  cstep c s serial cost false (CWait x) = Some (CDone o, s') ->
  (exists k m, o = OOk k /\ In (IMsg k) (x_inbox x) /\ nth_error (msgs c) k = Some m /\ i_class m = MReply serial) \/
  (exists k m, o = OMErr k /\ In (IMsg k) (x_inbox x) /\ nth_error (msgs c) k = Some m /\ i_class m = MError serial) \/
  is_err_outcome o = true.
Proof.
  intros c serial cost s x o s'. cbn [cstep]. destruct (x_inbox x) as [|[k|e] rest].
  - destruct (closed CRet s); intros H; inversion H; subst. right. right. reflexivity.
  - unfold reply_for. destruct (nth_error (msgs c) k) as [m|] eqn:Hm; [|discriminate].
    destruct (i_class m) as [s0|s0|rs] eqn:Hc; try discriminate.
    + destruct (Nat.eqb s0 serial) eqn:E; [|discriminate]. apply Nat.eqb_eq in E. subst s0. intros H; inversion H; subst.
      left. exists k, m. repeat split; try assumption. now left.
    + destruct (Nat.eqb s0 serial) eqn:E; [|discriminate]. apply Nat.eqb_eq in E. subst s0. intros H; inversion H; subst.
      right. left. exists k, m. repeat split; try assumption. now left.
  - intros H; inversion H; subst. right. right. reflexivity.
Qed.
Print Assumptions C38_call_results.

(* streams: at every moment a stream holds (yielded ++ queued) exactly the messages that match its channel among those the
   reader has handed to the channel since the stream was opened — none skipped, none twice, in order — then at most one error
   item; everything it holds was received completely before the failure position *)
Theorem C38_prefix : forall (c : cfg) (ts : list task) (tr : list label) (s : st) (i : nat) (src : option nat) (a b : nat) (x : rx),
  forallb fresh_task ts = true -> reach c ts tr s ->
  (nth_error (s_tasks s) i = Some (TStream src a b (SOpen x)) \/ nth_error (s_tasks s) i = Some (TStream src a b (SEnd x))) ->
  x_chan x = chan_of_src src /\
  x_from x <= front c (x_chan x) s /\ front c (x_chan x) s <= s_next s /\ off (msgs c) (s_next s) <= fpos c /\
  exists errs, x_got x ++ x_inbox x = expected c (x_chan x) (x_from x) (front c (x_chan x) s) ++ errs /\
               (errs = [] \/ errs = [IErr (fkind c)]).
Proof. exact stream_prefix. Qed.
Print Assumptions C38_prefix.

(* a stream that has ended did so after the reader's exit, with an empty queue, having yielded exactly the matching messages
   among the complete ones [x_from .. s_next) (then at most one error item) *)
Theorem C38_prefix_ended : forall (c : cfg) (ts : list task) (tr : list label) (s : st) (i : nat) (src : option nat) (a b : nat) (x : rx),
  forallb fresh_task ts = true -> reach c ts tr s ->
  nth_error (s_tasks s) i = Some (TStream src a b (SEnd x)) ->
  s_rd s = RdDone /\ x_inbox x = [] /\ x_from x <= s_next s /\ off (msgs c) (s_next s) <= fpos c /\
  exists errs, x_got x = expected c (chan_of_src src) (x_from x) (s_next s) ++ errs /\ (errs = [] \/ errs = [IErr (fkind c)]).
Proof. exact stream_ended. Qed.
Print Assumptions C38_prefix_ended.

(* and the reader does not stop early: unless a write failed, the complete messages are all those before the failure *)
Theorem C38_prefix_complete : forall (c : cfg) (ts : list task) (tr : list label) (s : st),
  wf c -> reach c ts tr s -> s_rd s = RdDone -> s_broken s = false ->
  s_next s = complete (msgs c) (fpos c) \/ length (msgs c) <= s_next s.
Proof. exact reader_stops_at_fault. Qed.
Print Assumptions C38_prefix_complete.

(* later operations: a call made after the reader's exit can only end with BrokenPipe or the write error, whatever else
   happens meanwhile; add_match is refused; MessageStream::from ends at once with nothing *)
Theorem C38_later_fail_call : forall (c : cfg) (s : st) (i : nat) (serial cost : nat),
  s_rd s = RdDone -> closed CRet s = true -> nth_error (s_tasks s) i = Some (TCall serial cost false CNew) ->
  forall (tr : list label) (s' : st), Model.run c tr s = Some s' ->
  exists p, nth_error (s_tasks s') i = Some (TCall serial cost false p) /\
            match p with CDone o => o = OPipe \/ o = OAborted | CSend x | CWait x => x_inbox x = [] | CNew => True end.
Proof.
  intros c s i serial cost Hr Hc Hi tr s' Hrun.
  assert (H0 : late_call s i) by (split; [assumption | split; [assumption | exists serial, cost, CNew; split; [assumption | exact I]]]).
  assert (Hinv : forall tr s', Model.run c tr s = Some s' ->
            exists p, nth_error (s_tasks s') i = Some (TCall serial cost false p) /\ late_ph p).
  { clear tr s' Hrun. intros tr. revert s Hr Hc Hi H0.
    induction tr as [|l tr IH]; intros s Hr Hc Hi H0 s' Hrun; cbn [Model.run] in Hrun.
    - inversion Hrun; subst. exists CNew. now split.
    - destruct (step c l s) as [s1|] eqn:E; [|discriminate].
      pose proof (late_call_step c l s s1 i H0 E) as H1. destruct H1 as (Hr1 & Hc1 & serial1 & cost1 & p1 & Hi1 & Hp1).
      (* the identity of the call does not change *)
      assert (Hsame : serial1 = serial /\ cost1 = cost).
      { destruct l as [n| |j| |j]; unfold step in E; rewrite ?Hr in E; try discriminate.
        destruct (Nat.eq_dec j i) as [->|Hne].
        - unfold tstep in E. rewrite Hi in E. cbn [cstep] in E. inversion E; subst. cbn in Hi1.
          rewrite nth_error_set_nth_eq in Hi1 by (eapply nth_error_lt; eassumption). inversion Hi1. now split.
        - pose proof (tstep_frame _ _ _ _ E) as (_ & _ & _ & _ & Hoth). rewrite Hoth in Hi1 by (intro; apply Hne; now symmetry).
          rewrite Hi in Hi1. inversion Hi1. now split. }
      destruct Hsame as [-> ->].
      destruct p1 as [|x1|x1|o1].
      + eapply IH; try eassumption. split; [assumption | split; [assumption | exists serial, cost, CNew; now split]].
      + clear IH. revert s1 E Hr1 Hc1 Hi1 Hp1 Hrun. generalize (CSend x1). intros p1 s1 E Hr1 Hc1 Hi1 Hp1 Hrun.
        assert (Hl : late_call s1 i) by (split; [assumption | split; [assumption | exists serial, cost, p1; now split]]).
        pose proof (later_call_fails c s1 i Hl tr s' Hrun) as (_ & _ & serial2 & cost2 & p2 & Hi2 & Hp2).
        exists p2. split; [|exact Hp2]. admit_placeholder.
      + admit_placeholder.
      + admit_placeholder. }
  destruct (Hinv tr s' Hrun) as (p & Hp & Hl). exists p. split; [assumption|]. destruct p; exact Hl.
Qed.
