(* Properties/C38.v — transport failures end pending work with errors, never hangs.
   Only statements, each closed by [exact] of a lemma of C38/*.v, and their assumptions.

   Vocabulary (C38/Model.v, C38/Spec.v).  A configuration [c] fixes what the peer sends ([msgs c]: lengths and classes),
   the byte position [fpos c] at which the inbound stream fails (end-of-file or an error, [fkind c]), the sendmsg call from
   which writes fail ([wbudget c]), whether the connection is a bus connection, and the queue capacities.  [reach c ts tr s]:
   state s is reached from the initial state with user tasks ts (method calls, message streams, signal emissions) by the
   history tr of atomic actions: LRecv n (recvmsg hands the reader n more bytes), LFault, LBcast j (the reader serves one
   entry of msg_senders, in any order, waiting while a queue is full), LBcastEnd (next message, or senders.clear() and exit),
   LTask i (task i makes its next move).  The history IS the scheduler, the transport's chunking and the fault: nothing restricts
   which enabled action comes next.  [stuck c s]: no action is enabled.  [final s]: the reader is gone, every call has a
   result, every stream has ended or was refused. *)
From ZV Require Import Base.Bytes Base.Res C38.Model C38.Spec C38.Progress C38.Measure C38.PrefixA C38.PrefixC C38.Proofs C38.Later
  C38.Run C38.RunFacts.

(* the property at full strength: for EVERY fault position, fault kind, chunking and schedule, whenever nothing can move any
   more every pending call has completed and every stream has ended or was refused *)
Definition C38_full_statement : Prop :=
  forall (c : cfg) (ts : list task) (tr : list label) (s : st),
    wf c -> forallb fresh_task ts = true -> reach c ts tr s -> stuck c s -> final s.

Theorem C38_no_hang : C38_full_statement.
Proof. exact full_statement_holds. Qed.
Print Assumptions C38_no_hang.

(* the same without the restriction on the initial tasks *)
Theorem C38_no_hang_any_tasks : forall (c : cfg) (ts : list task) (tr : list label) (s : st),
  wf c -> reach c ts tr s -> stuck c s -> final s.
Proof. exact stuck_final. Qed.
Print Assumptions C38_no_hang_any_tasks.

(* msg_senders stays empty once the reader has cleared it: add_match re-tests under the lock that inserts (fix 3703ee13).
   Before that repair this was refuted (a stream that never ends; known finding addmatch_race, now fixed) *)
Theorem C38_senders_stay_cleared : forall (c : cfg) (ts : list task) (tr : list label) (s : st),
  reach c ts tr s -> s_rd s = RdDone -> s_senders s = [].
Proof. exact I3_reach. Qed.
Print Assumptions C38_senders_stay_cleared.

(* ... and such a state is always reached: every action strictly decreases the natural number [mu c s], so no schedule runs
   for more than [mu c (init ts)] steps (no livelock, no unbounded waiting on a full queue) *)
Theorem C38_no_hang_terminates : forall (c : cfg) (ts : list task) (tr : list label) (s : st),
  reach c ts tr s -> length tr + mu c s <= mu c (init ts).
Proof. exact reach_length_bounded. Qed.
Print Assumptions C38_no_hang_terminates.

(* what a waiting call ends with: a reply it was handed (hence one received completely), or an error — never anything else *)
Theorem C38_call_results : forall (c : cfg) (serial cost : nat) (s : st) (x : rx) (o : outcome) (s' : st),
  cstep c s serial cost false (CWait x) = Some (CDone o, s') ->
  (exists k m, o = OOk k /\ In (IMsg k) (x_inbox x) /\ nth_error (msgs c) k = Some m /\ i_class m = MReply serial) \/
  (exists k m, o = OMErr k /\ In (IMsg k) (x_inbox x) /\ nth_error (msgs c) k = Some m /\ i_class m = MError serial) \/
  is_err_outcome o = true.
Proof. exact call_results. Qed.
Print Assumptions C38_call_results.

(* streams: at every moment a stream holds (yielded ++ queued) exactly the messages that match its channel among those the
   reader has handed to the channel since the stream was opened — none skipped, none twice, in order — then at most one error
   item; everything it holds was received completely before the failure position *)
Theorem C38_prefix : forall (c : cfg) (ts : list task) (tr : list label) (s : st) (i : nat) (src : option nat) (a b : nat) (x : rx),
  forallb fresh_task ts = true -> reach c ts tr s ->
  (nth_error (s_tasks s) i = Some (TStream src a b (SOpen x)) \/ nth_error (s_tasks s) i = Some (TStream src a b (SEnd x))) ->
  x_chan x = chan_of_src src /\
  x_from x <= front c (x_chan x) s /\ front c (x_chan x) s <= s_next s /\ off (msgs c) (s_next s) <= fpos c /\
  exists errs, x_got x ++ x_inbox x = expected c (x_chan x) (x_from x) (front c (x_chan x) s) ++ errs /\
               (errs = [] \/ errs = [IErr (fkind c)]).
Proof. exact stream_prefix. Qed.
Print Assumptions C38_prefix.

(* a stream that has ended did so after the reader's exit, with an empty queue, having yielded exactly the matching messages
   among the complete ones [x_from .. s_next) (then at most one error item) *)
Theorem C38_prefix_ended : forall (c : cfg) (ts : list task) (tr : list label) (s : st) (i : nat) (src : option nat) (a b : nat) (x : rx),
  forallb fresh_task ts = true -> reach c ts tr s ->
  nth_error (s_tasks s) i = Some (TStream src a b (SEnd x)) ->
  s_rd s = RdDone /\ x_inbox x = [] /\ x_from x <= s_next s /\ off (msgs c) (s_next s) <= fpos c /\
  exists errs, x_got x = expected c (chan_of_src src) (x_from x) (s_next s) ++ errs /\ (errs = [] \/ errs = [IErr (fkind c)]).
Proof. exact stream_ended. Qed.
Print Assumptions C38_prefix_ended.

(* and the reader does not stop early: unless a write failed, the complete messages are all those before the failure *)
Theorem C38_prefix_complete : forall (c : cfg) (ts : list task) (tr : list label) (s : st),
  wf c -> reach c ts tr s -> s_rd s = RdDone -> s_broken s = false ->
  s_next s = complete (msgs c) (fpos c) \/ length (msgs c) <= s_next s.
Proof. exact reader_stops_at_fault. Qed.
Print Assumptions C38_prefix_complete.

(* later operations: a call made after the reader's exit can only end with BrokenPipe or the write error, and its reply
   queue stays empty, whatever else happens meanwhile (any continuation tr) *)
Theorem C38_later_fail_call : forall (c : cfg) (s : st) (i serial cost : nat),
  s_rd s = RdDone -> closed CRet s = true -> nth_error (s_tasks s) i = Some (TCall serial cost false CNew) ->
  forall (tr : list label) (s' : st), Model.run c tr s = Some s' ->
  exists p, nth_error (s_tasks s') i = Some (TCall serial cost false p) /\
            match p with CNew => True | CSend x | CWait x => x_inbox x = [] | CDone o => o = OPipe \/ o = OAborted end.
Proof. exact later_call_fails. Qed.
Print Assumptions C38_later_fail_call.

(* add_match after the reader's exit is refused with BrokenPipe (msg_senders is empty then: C38_senders_stay_cleared) *)
Theorem C38_later_fail_subscription : forall (c : cfg) (s : st) (i r a b : nat),
  s_rd s = RdDone -> s_senders s = [] -> nth_error (s_tasks s) i = Some (TStream (Some r) a b SNew) ->
  tstep c s i = Some (set_task s i (TStream (Some r) a b (SFail OPipe))).
Proof. exact later_sub_fails. Qed.
Print Assumptions C38_later_fail_subscription.

(* MessageStream::from after the reader's exit: opens, yields nothing, ends at once *)
Theorem C38_later_fail_unfiltered : forall (c : cfg) (s : st) (i a b : nat),
  s_rd s = RdDone -> closed CAll s = true -> nth_error (s_tasks s) i = Some (TStream None a b SNew) ->
  exists x, x_got x = [] /\ x_inbox x = [] /\
    Model.run c [LTask i; LTask i] s = Some (set_task (set_task s i (TStream None a b (SOpen x))) i (TStream None a b (SEnd x))).
Proof. exact later_all_stream_ends. Qed.
Print Assumptions C38_later_fail_unfiltered.

(* no task panics: call_method's `.expect("no reply")` is never reached with Ok(None) (calls are made without NO_REPLY_EXPECTED) *)
Theorem C38_nopanic : forall (c : cfg) (ts : list task) (tr : list label) (s : st),
  forallb np_task ts = true -> reach c ts tr s -> forallb np_task (s_tasks s) = true.
Proof. exact no_panic. Qed.
Print Assumptions C38_nopanic.

(* the replay the correspondence check performs on every observed session only takes steps of the model *)
Theorem C38_replay_sound : forall (c : cfg) (all : list op) (toks : list bytes) (s : st) (p : list bool) (ph : list (list op))
    (s' : st) (p' : list bool) (ph' : list (list op)),
  replay c all toks (RS s p ph) = Some (RS s' p' ph') -> exists tr, Model.run c tr s = Some s'.
Proof. exact replay_sound. Qed.
Print Assumptions C38_replay_sound.

Theorem C38_run_sound : forall (c : cfg) (ts : list task) (tr : list label) (s : st),
  Model.run c tr (init ts) = Some s -> reach c ts tr s.
Proof. exact run_sound. Qed.
Print Assumptions C38_run_sound.
