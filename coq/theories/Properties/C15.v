(* Properties/C15.v — message serial numbers are never zero and never repeat.
   Only statements, each closed by [exact] of a lemma of C15/Proofs.v, and their assumptions.

   Vocabulary (C15/Model.v, C15/Spec.v): a state is the process-wide counter (in Z/MZ; the code has M = M32 = 2^32),
   the list of message builds ("ops": Start | Retry | Done serial | Panicked) and the number of fetch_add executed.
   [reach M c0 tr s]: s is reached from counter value c0 by the history tr of atomic actions (LSpawn: a build
   starts; LMove i: build i executes its next fetch_add; LClone i: builder i is cloned) — any scheduler, any number of
   threads.  [serials s] = the serials of the messages built so far.  Known_C15 tr = the history clones a builder. *)
From ZV Require Import Base.Bytes C15.Model C15.Spec C15.Proofs.
Open Scope N_scope.

(* every interleaving, every starting value of the counter, up to and including 2^32 fetches *)
Theorem C15_unique_partial : forall (c0 : N) (tr : list label) (s : state),
  c0 < M32 -> reach M32 c0 tr s -> ~ Known_C15 tr -> nfetch s <= M32 ->
  (NoDup (serials s) /\ ~ In 0 (serials s)) /\ ~ In Panicked (ops s).
Proof. exact unique_partial32. Qed.
Print Assumptions C15_unique_partial.

(* the same in terms of messages: any 2^32 - 1 builds (finished or not), from any counter value *)
Theorem C15_messages_partial : forall (c0 : N) (tr : list label) (s : state),
  c0 < M32 -> reach M32 c0 tr s -> ~ Known_C15 tr -> N.of_nat (length (ops s)) < M32 ->
  (NoDup (serials s) /\ ~ In 0 (serials s)) /\ ~ In Panicked (ops s).
Proof. exact messages_partial32. Qed.
Print Assumptions C15_messages_partial.

(* the statement does not depend on the width of the counter *)
Theorem C15_unique_any_modulus : forall (M c0 : N) (tr : list label) (s : state),
  0 < M -> c0 < M -> reach M c0 tr s -> ~ Known_C15 tr -> nfetch s <= M ->
  (NoDup (serials s) /\ ~ In 0 (serials s)) /\ ~ In Panicked (ops s).
Proof. exact unique_partial. Qed.
Print Assumptions C15_unique_any_modulus.

(* known finding: Builder is Clone and the clone carries the same serial *)
Theorem C15_clone_refuted : exists (tr : list label) (s : state),
  reach M32 0 tr s /\ Known_C15 tr /\ nfetch s <= M32 /\ serials s = [1; 1] /\ ~ unique_nonzero (serials s).
Proof. exact clone_refuted. Qed.
Print Assumptions C15_clone_refuted.

Theorem C15_full_statement_refuted : ~ C15_full_statement.
Proof. exact full_statement_refuted. Qed.
Print Assumptions C15_full_statement_refuted.

(* the executable scheduler replay and the sequential builds of the correspondence are runs of the model *)
Theorem C15_run_sound : forall (M c0 : N) (tr : list label) (s : state), run M tr (init c0) = Some s -> reach M c0 tr s.
Proof. exact run_reach. Qed.
Print Assumptions C15_run_sound.

Theorem C15_seq_builds_reach : forall (M c0 : N) (n : nat) (tr : list label) (s : state),
  reach M c0 tr s -> known_c15 tr = false -> exists tr', reach M c0 tr' (seq_builds M n s) /\ known_c15 tr' = false.
Proof. exact seq_builds_reach. Qed.
Print Assumptions C15_seq_builds_reach.

(* the oracle evaluated on the implementation's output decides the property *)
Theorem C15_oracle_exact : forall l : list N, unique_nonzerob l = true <-> NoDup l /\ ~ In 0 l.
Proof. exact unique_nonzerob_ok. Qed.
Print Assumptions C15_oracle_exact.
