(* Properties/C09.v — derived and built-in Type signatures match what is serialized.
   [tshape]/[rval]: Rust type definitions and their values (C09/Model.v); [sig_of]: the signature computed by
   zvariant_derive / zvariant's Type impls; [sval_of_shape]: what serde feeds the serializer; [dsig]/[dval_of_shape]
   (C09/Spec.v): the D-Bus type / value the Rust type / value stands for; [ser_top]/[size_top] (DBus/Ser.v): the model of
   to_bytes / serialized_size; [marshal_top] (DBus/Spec.v): the specification's wire format.  Statements only. *)
From ZV Require Import Base.Bytes Base.Res Base.Sig Base.SigParse DBus.Val DBus.Spec DBus.Ser DBus.De DBus.SerProofs
  C09.Model C09.Spec C09.Top C09.Refute.
Local Open Scope N_scope.

(* the declared signature is the D-Bus type of the Rust type, and is one complete D-Bus type *)
Theorem C09_signature : forall sh : tshape,
  shape_ok sh = true -> sig_of sh = dsig sh /\ single_ok (sig_of sh) = true.
Proof. exact signature_ok. Qed.
Print Assumptions C09_signature.

(* the D-Bus value denoted by a value of the type is a well-formed value of the declared signature (no descriptors) *)
Theorem C09_value : forall (sh : tshape) (x : rval),
  shape_ok sh = true -> typed sh x = true ->
  wf (dval_of_shape sh x) = true /\ vsig (dval_of_shape sh x) = sig_of sh /\ enc_form (dval_of_shape sh x) = true
  /\ fds_of (dval_of_shape sh x) = [].
Proof. exact value_ok. Qed.
Print Assumptions C09_value.

(* to_bytes: for every configuration, byte order and offset, the bytes are exactly the specification's marshalling of that value *)
Theorem C09_conforms : forall (c : cfg) (e : endian) (pos : N) (sh : tshape) (x : rval),
  shape_ok sh = true -> typed sh x = true -> (has_option sh = true -> c_oaa c = true) ->
  within_limits (dval_of_shape sh x) = true -> len (marshal_top e pos (dval_of_shape sh x)) < 2 ^ 32 ->
  ser_top c e pos (sig_of sh) (sval_of_shape sh x) = Ok (marshal_top e pos (dval_of_shape sh x), []).
Proof. exact conforms. Qed.
Print Assumptions C09_conforms.

(* serialized_size agrees *)
Theorem C09_size : forall (c : cfg) (e : endian) (pos : N) (sh : tshape) (x : rval),
  shape_ok sh = true -> typed sh x = true -> (has_option sh = true -> c_oaa c = true) ->
  within_limits (dval_of_shape sh x) = true -> len (marshal_top e pos (dval_of_shape sh x)) < 2 ^ 32 ->
  size_top c e pos (sig_of sh) (sval_of_shape sh x) = Ok (len (marshal_top e pos (dval_of_shape sh x)), 0).
Proof. exact size_conforms. Qed.
Print Assumptions C09_size.

(* in the middle of a message: the value's marshalling is appended at the current absolute position; what else of the
   serializer state survives is said exactly: descriptors and variant cursor always, the depth counters unless the type
   is / wraps an enum with newtype variants ([dep_clean]), the signature cursor unless it is / wraps an enum with
   tuple or struct variants ([sig_clean]) *)
Theorem C09_step : forall (sh : tshape) (x : rval) (st : sstate),
  shape_ok sh = true -> typed sh x = true ->
  s_sig st = sig_of sh -> s_vsign st = None -> fits (s_dep st) (dval_of_shape sh x) -> nfd st < 2 ^ 32 ->
  len (marshal (s_e st) ByOccurrence (dval_of_shape sh x) (abs_pos st) (nfd st)) < 2 ^ 32 ->
  (has_option sh = true -> c_oaa (s_cfg st) = true) ->
  exists st', ser (sval_of_shape sh x) st = Ok st'
    /\ s_out st' = s_out st ++ marshal (s_e st) ByOccurrence (dval_of_shape sh x) (abs_pos st) (nfd st)
    /\ s_fds st' = s_fds st /\ s_vsign st' = None /\ s_cfg st' = s_cfg st /\ s_e st' = s_e st /\ s_pos0 st' = s_pos0 st
    /\ (dep_clean sh = true -> s_dep st' = s_dep st) /\ (sig_clean sh = true -> s_sig st' = s_sig st).
Proof. exact step. Qed.
Print Assumptions C09_step.

(* the property per type definition ([C09_statement], C09/Spec.v) holds on the whole fragment ... *)
Theorem C09_partial : forall sh : tshape, shape_ok sh = true ->
  sig_of sh = dsig sh /\ single_ok (sig_of sh) = true /\
  forall (c : cfg) (e : endian) (pos : N) (x : rval),
    typed sh x = true -> (has_option sh = true -> c_oaa c = true) ->
    within_limits (dval_of_shape sh x) = true -> len (marshal_top e pos (dval_of_shape sh x)) < 2 ^ 32 ->
    wf (dval_of_shape sh x) = true /\ vsig (dval_of_shape sh x) = sig_of sh /\
    ser_top c e pos (sig_of sh) (sval_of_shape sh x) = Ok (marshal_top e pos (dval_of_shape sh x), []).
Proof.
  intros sh Hok. destruct (signature_ok sh Hok) as [H1 H2]. split; [exact H1|]. split; [exact H2|].
  intros c e pos x Ht Ho Hl Hn. destruct (value_ok sh x Hok Ht) as (F1 & F2 & _).
  split; [exact F1|]. split; [exact F2|]. now apply conforms.
Qed.
Print Assumptions C09_partial.

(* ... and every type definition of a known class is outside it *)
Theorem C09_known_excluded : forall sh : tshape, known_class sh <> None -> shape_ok sh = false.
Proof. exact known_not_ok. Qed.
Print Assumptions C09_known_excluded.

(* the full statement — every type definition that compiles — is refuted by the faithful model: *)
Theorem C09_full_statement_refuted :
  ~ (forall sh : tshape, shape_wf sh = true ->
       sig_of sh = dsig sh /\ single_ok (sig_of sh) = true /\
       forall (c : cfg) (e : endian) (pos : N) (x : rval),
         typed sh x = true -> (has_option sh = true -> c_oaa c = true) ->
         within_limits (dval_of_shape sh x) = true -> len (marshal_top e pos (dval_of_shape sh x)) < 2 ^ 32 ->
         wf (dval_of_shape sh x) = true /\ vsig (dval_of_shape sh x) = sig_of sh /\
         ser_top c e pos (sig_of sh) (sval_of_shape sh x) = Ok (marshal_top e pos (dval_of_shape sh x), [])).
Proof. exact full_statement_refuted. Qed.
Print Assumptions C09_full_statement_refuted.

(* `enum E { V0(S) }` with `struct S { a: u8, b: u8 }`: serialization panics (unreachable!) *)
Theorem C09_newtype_variant_struct_payload_refuted :
  exists (sh : tshape) (x : rval),
    known_class sh = Some KNewtypeStructPayload /\ shape_wf sh = true /\ typed sh x = true /\
    show (sig_of sh) = B "(u(yy))" /\
    ser_top {| c_gv := false; c_oaa := true |} LE 0 (sig_of sh) (sval_of_shape sh x) = Panic PUnreachable.
Proof. exists sh_nt_struct, x_nt_struct. repeat split; vm_compute; reflexivity. Qed.
Print Assumptions C09_newtype_variant_struct_payload_refuted.

(* `Vec<E>` with `enum E { V0(u32, u32) }`: two elements cannot be serialized *)
Theorem C09_enum_in_seq_signature_refuted :
  exists (sh : tshape) (x : rval),
    known_class sh = Some KEnumInSeq /\ shape_wf sh = true /\ typed sh x = true /\
    within_limits (dval_of_shape sh x) = true /\
    ser_top {| c_gv := false; c_oaa := true |} LE 0 (sig_of sh) (sval_of_shape sh x) = Err ESigMismatch.
Proof. exists sh_enum_seq, x_enum_seq. repeat split; vm_compute; reflexivity. Qed.
Print Assumptions C09_enum_in_seq_signature_refuted.

(* `Vec<E>` with `enum E { V0(u32) }`, and `Vec<IpAddr>`: 33 elements exceed the struct depth limit although the value nests 2 deep *)
Theorem C09_newtype_variant_depth_leak_refuted :
  exists (sh : tshape) (x : rval),
    known_class sh = Some KDepthLeak /\ shape_wf sh = true /\ typed sh x = true /\
    within_limits (dval_of_shape sh x) = true /\
    ser_top {| c_gv := false; c_oaa := true |} LE 0 (sig_of sh) (sval_of_shape sh x) = Err (EDepth DStruct).
Proof. exists sh_leak, x_leak. repeat split; vm_compute; reflexivity. Qed.
Print Assumptions C09_newtype_variant_depth_leak_refuted.
Theorem C09_ipaddr_depth_leak_refuted :
  exists x : rval,
    known_class (TSeq TIpAddr) = Some KDepthLeak /\ typed (TSeq TIpAddr) x = true /\
    within_limits (dval_of_shape (TSeq TIpAddr) x) = true /\
    ser_top {| c_gv := false; c_oaa := false |} LE 0 (sig_of (TSeq TIpAddr)) (sval_of_shape (TSeq TIpAddr) x) = Err (EDepth DStruct).
Proof. exists x_leak_ip. repeat split; vm_compute; reflexivity. Qed.
Print Assumptions C09_ipaddr_depth_leak_refuted.

(* `Vec<()>`: the declared signature "a" is not a signature *)
Theorem C09_unit_in_container_refuted :
  known_class (TSeq TUnit) = Some KUnitInContainer /\ shape_wf (TSeq TUnit) = true /\
  show (sig_of (TSeq TUnit)) = B "a" /\ parse_sig false (show (sig_of (TSeq TUnit))) = None /\
  single_ok (sig_of (TSeq TUnit)) = false.
Proof. repeat split; vm_compute; reflexivity. Qed.
Print Assumptions C09_unit_in_container_refuted.

(* `struct S { a: u32, p: PhantomData<u64> }`: declared "(ut)", four bytes written, which do not decode under "(ut)" *)
Theorem C09_phantom_data_refuted :
  exists (sh : tshape) (x : rval) (b : bytes),
    known_class sh = Some KPhantom /\ shape_wf sh = true /\ typed sh x = true /\ show (sig_of sh) = B "(ut)" /\
    ser_top {| c_gv := false; c_oaa := false |} LE 0 (sig_of sh) (sval_of_shape sh x) = Ok (b, []) /\ len b = 4 /\
    de_struct_top {| c_gv := false; c_oaa := false |} LE 0 (sig_of sh) b [] = Err EBounds.
Proof. exists sh_phantom, x_phantom, (enc LE 4 3). repeat split; vm_compute; reflexivity. Qed.
Print Assumptions C09_phantom_data_refuted.

(* zvariant's Type impls for std / net / time types, as compositions, are in the fragment *)
Theorem C09_library : forallb shape_ok
  [TPrim PUsize; TPrim PIsize; TPrim PChar; TPrim PI8; TPrim PF32; TDuration; TSystemTime; TIpv4; TIpv6; TIpAddr; TSockV4; TSockV6;
   TRange (TPrim PU32); TRangeInclusive (TPrim PU8); TRangeFrom (TPrim PI64); TRangeTo (TPrim PU16); TArrayN 0 (TPrim PU8);
   TArrayN 5 (TPrim PStr); TNewtype (TPrim PU16); TSeq (TPrim PU8); TMap (TPrim PStr) (TPrim PU32); TOption (TPrim PStr);
   TTuple [TPrim PU8; TPrim PStr; TPrim PU64]] = true.
Proof. vm_compute. reflexivity. Qed.
Print Assumptions C09_library.

(* non-vacuity: a nested definition with every kind of node, at an odd offset, big endian *)
Theorem C09_example :
  shape_ok ex_shape = true /\ typed ex_shape ex_value = true /\
  ser_top {| c_gv := false; c_oaa := true |} BE 3 (sig_of ex_shape) (sval_of_shape ex_shape ex_value)
  = Ok (marshal_top BE 3 (dval_of_shape ex_shape ex_value), []).
Proof. destruct ex_in_fragment as (H1 & H2 & _). split; [exact H1|]. split; [exact H2|]. exact ex_bytes. Qed.
Print Assumptions C09_example.
