(* Properties/C12.v — parsing hostile message bytes never crashes.
   The full statement is REFUTED on this tree (three classes, each with a witness that was also run on the real code);
   it is PROVED for every input outside these classes. Model: C11/Model.v; classes: C12/Spec.v. *)
From ZV Require Import Base.Bytes Base.Res Base.Sig C10.Model C11.Model C12.Spec C12.Proofs.
Open Scope N_scope.

(* the full statement, kept visible: for every byte string and context endianness, creating the message does not panic,
   and if it succeeds no accessor (header incl. every field, body, Display, Debug, body deserialization) panics *)
Definition C12_full : Prop :=
  forall (ctx : endian) (b : bytes),
    (forall p, from_raw_parts ctx b <> Panic p) /\
    (forall m, from_raw_parts ctx b = Ok m ->
       (forall p, header m <> Panic p) /\ (forall p, body m <> Panic p) /\ (forall p, display m <> Panic p) /\
       (forall p, debug_ok m <> Panic p) /\ (forall p, body_deser m <> Panic p)).

Theorem C12_full_is_the_statement : C12_full <-> C12_full_statement.
Proof. reflexivity. Qed.

Theorem C12_empty_input_refuted : exists ctx p, from_raw_parts ctx [] = Panic p.
Proof. exact empty_refuted. Qed.
Print Assumptions C12_empty_input_refuted.

Theorem C12_short_body_refuted : exists ctx b m p, from_raw_parts ctx b = Ok m /\ body m = Panic p.
Proof. exact short_body_refuted. Qed.
Print Assumptions C12_short_body_refuted.

Theorem C12_invalid_name_refuted : exists ctx b m p, from_raw_parts ctx b = Ok m /\ header m = Panic p.
Proof. exact invalid_name_refuted. Qed.
Print Assumptions C12_invalid_name_refuted.

Theorem C12_full_refuted : ~ C12_full_statement.
Proof. exact full_refuted. Qed.
Print Assumptions C12_full_refuted.

(* everything else: outside the three classes (no input at all; input ending before the 8-aligned body offset; a cached
   header string that is not a valid name of its kind) nothing panics — no slice, index, UTF-8, unwrap or assert fires *)
Theorem C12_partial : forall (ctx : endian) (b : bytes), Known_C12 ctx b = false ->
  (forall p, from_raw_parts ctx b <> Panic p) /\
  (forall m, from_raw_parts ctx b = Ok m ->
     (forall p, header m <> Panic p) /\ (forall p, body m <> Panic p) /\ (forall p, display m <> Panic p) /\
     (forall p, debug_ok m <> Panic p) /\ (forall p, body_deser m <> Panic p)).
Proof. exact partial. Qed.
Print Assumptions C12_partial.

(* the loop bound of the model is never the reason for an outcome *)
Theorem C12_no_fuel_artifact : forall (ctx : endian) (b : bytes), from_raw_parts ctx b <> Err EFuel.
Proof. exact no_fuel. Qed.
Print Assumptions C12_no_fuel_artifact.

(* non-vacuity of the partial theorem *)
Example C12_example : Known_C12 LE ex_msg = false /\ exists m, from_raw_parts LE ex_msg = Ok m.
Proof. exact ex_not_known. Qed.
