(* Properties/C12.v — parsing hostile message bytes never crashes.
   Proved at full strength for every byte string and context endianness, on the tree repaired by the fix: commits e5b4d5a2
   (length checks in from_raw_parts) and b3fdf920 (header name fields validated at parse time).  Model: C11/Model.v. *)
From ZV Require Import Base.Bytes Base.Res Base.Sig C10.Model C11.Model C12.Spec C12.Proofs.
Open Scope N_scope.

(* creating the message does not panic; if it succeeds, no accessor (header incl. every field, body, Display, Debug, body
   deserialization) panics *)
Theorem C12_nopanic : forall (ctx : endian) (b : bytes),
  (forall p, from_raw_parts ctx b <> Panic p) /\
  (forall m, from_raw_parts ctx b = Ok m ->
     (forall p, header m <> Panic p) /\ (forall p, body m <> Panic p) /\ (forall p, display m <> Panic p) /\
     (forall p, debug_ok m <> Panic p) /\ (forall p, body_deser m <> Panic p)).
Proof. exact nopanic. Qed.
Print Assumptions C12_nopanic.

(* the loop and nesting bounds of the model are never the reason for an outcome *)
Theorem C12_no_fuel_artifact : forall (ctx : endian) (b : bytes), from_raw_parts ctx b <> Err EFuel.
Proof. exact no_fuel. Qed.
Print Assumptions C12_no_fuel_artifact.

(* what an accepted message guarantees (the facts the accessors rely on) *)
Theorem C12_accepted_invariant : forall (ctx : endian) (b : bytes) (m : msg), from_raw_parts ctx b = Ok m ->
  m_bytes m = b /\ m_body_offset m <= len b /\ exists h bd, header m = Ok h /\ body m = Ok bd.
Proof.
  intros ctx b m H. destruct (from_raw_parts_ok ctx b m H) as (Hb & Ho & _).
  destruct (header_ok ctx b m H) as (h & Hh). destruct (body_ok ctx b m H) as (bd & Hbd). eauto 6.
Qed.
Print Assumptions C12_accepted_invariant.

(* regression: the three inputs that used to crash (known_findings/C12.jsonl, now "fixed") are rejected *)
Example C12_former_witnesses :
  (exists e, from_raw_parts LE [] = Err e) /\ (exists e, from_raw_parts LE wit_short = Err e) /\ (exists e, from_raw_parts LE wit_name = Err e).
Proof. exact former_witnesses_rejected. Qed.

(* non-vacuity: an accepted message *)
Example C12_example : exists m h bd, from_raw_parts LE ex_msg = Ok m /\ header m = Ok h /\ body m = Ok bd.
Proof. exact ex_accepted. Qed.
