From ZV Require Import Base.Bytes C16.Model.
Theorem C16_placeholder : mech_eqb External External = true.
Proof. reflexivity. Qed.
Print Assumptions C16_placeholder.
