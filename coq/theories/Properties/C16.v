(* Properties/C16.v — the server-side SASL handshake authenticates exactly the right peers.
   Only statements, each closed by [exact] of a lemma of C16/Proofs.v or C16/SplitProofs.v, and their assumptions.

   run_server cfg cs      the model of Builder::socket(..).server(guid).p2p().build() (C16/Model.v) reading the
                          chunks cs (what successive recvmsg calls return: bytes and fds)
   spec_verdict, known_class, accepts, conforms, match_replies     C16/Spec.v
   chunks_nonempty cs     the transport contract: a read returns at least one byte before the end of the stream *)
From ZV Require Import Base.Bytes Base.Res C16.Model C16.Spec C16.SplitProofs C16.Proofs.

(* ---- every way the stream is cut gives the same outcome (status, bytes written, fd agreement, bytes and fds
        handed to the message reader) *)
Theorem C16_split_indep : forall cfg cs1 cs2,
  chunks_nonempty cs1 = true -> chunks_nonempty cs2 = true ->
  stream_of cs1 = stream_of cs2 -> fds_of cs1 = fds_of cs2 ->
  run_server cfg cs1 = run_server cfg cs2.
Proof. exact split_independence. Qed.
Print Assumptions C16_split_indep.

(* ---- the full statement: on every stream the observable outcome is the one the specification prescribes
        (completion exactly on an accepted conversation, exactly the prescribed replies, the rest of the stream and
        all fds handed on, and never a panic).  It does NOT hold of the pinned code: *)
Definition C16_full_statement : Prop :=
  forall cfg cs, chunks_nonempty cs = true ->
    conforms (ctx_of cfg) (spec_verdict (ctx_of cfg) (stream_of cs)) (fds_of cs) (obs_of (run_server cfg cs)) = true.

Theorem C16_full_statement_refuted : ~ C16_full_statement.
Proof. exact full_statement_refuted. Qed.
Print Assumptions C16_full_statement_refuted.

(* ---- ... and it holds outside the one remaining known class ([known_class]: the ideal conversation meets a line that
        is not a well-formed known command — unknown word, empty line, non-hex argument, OK without a GUID) *)
Theorem C16_conforms_partial : forall cfg cs,
  chunks_nonempty cs = true ->
  known_class (ctx_of cfg) (stream_of cs) = None ->
  conforms (ctx_of cfg) (spec_verdict (ctx_of cfg) (stream_of cs)) (fds_of cs) (obs_of (run_server cfg cs)) = true.
Proof. exact server_conforms. Qed.
Print Assumptions C16_conforms_partial.

(* ---- authentication: the handshake completes exactly on the conversations of the inductive relation [accepts]
        (BEGIN after a successful AUTH in the configured mechanism; EXTERNAL only with known credentials and an
        empty or equal identity; ANONYMOUS with any trace; any other mechanism name REJECTED) *)
Theorem C16_auth_partial : forall cfg cs,
  chunks_nonempty cs = true ->
  known_class (ctx_of cfg) (stream_of cs) = None ->
  spec_verdict (ctx_of cfg) (stream_of cs) <> VUnclear ->
  (is_done (run_server cfg cs) = true <-> accepts (ctx_of cfg) (stream_of cs)).
Proof. exact auth_partial. Qed.
Print Assumptions C16_auth_partial.

(* completion is never granted wrongly, on any stream the specification prescribes (also when a malformed line ends
   the conversation early: no class is excluded) *)
Theorem C16_auth_sound : forall cfg cs,
  chunks_nonempty cs = true ->
  spec_verdict (ctx_of cfg) (stream_of cs) <> VUnclear ->
  is_done (run_server cfg cs) = true -> accepts (ctx_of cfg) (stream_of cs).
Proof. exact auth_sound. Qed.
Print Assumptions C16_auth_sound.

(* the executable verdict used as oracle says "completes" exactly on the relation *)
Theorem C16_accepts_executable : forall x s,
  accepts x s <-> exists rs fd tail, spec_verdict x s = VDone rs fd tail.
Proof. exact accepts_iff_done. Qed.
Print Assumptions C16_accepts_executable.

(* ---- replies: REJECTED for other mechanisms and failed identities, ERROR for misplaced commands, DATA, OK <guid>,
        AGREE_UNIX_FD: the bytes written are exactly the prescribed reply lines *)
Theorem C16_replies_partial : forall cfg cs rs,
  chunks_nonempty cs = true ->
  known_class (ctx_of cfg) (stream_of cs) = None ->
  (spec_verdict (ctx_of cfg) (stream_of cs) = VFail rs \/
   exists fd tail, spec_verdict (ctx_of cfg) (stream_of cs) = VDone rs fd tail) ->
  match_replies (ctx_of cfg) rs (written (run_server cfg cs)) = true.
Proof. exact replies_partial. Qed.
Print Assumptions C16_replies_partial.

(* ---- no input makes the server panic (full strength, every stream and chunking) *)
Theorem C16_nopanic : forall cfg cs, chunks_nonempty cs = true -> is_panic (run_server cfg cs) = false.
Proof. exact nopanic. Qed.
Print Assumptions C16_nopanic.

(* ---- the remaining known finding: a malformed line ends the conversation without the ERROR reply *)
Theorem C16_malformed_abort_refuted :
  exists cfg cs, chunks_nonempty cs = true /\
                 spec_verdict (ctx_of cfg) (stream_of cs) = VFail [RError] /\
                 run_server cfg cs = OErr EHandshake [].
Proof. exact malformed_abort_refuted. Qed.
Print Assumptions C16_malformed_abort_refuted.

(* ---- the fuel of the model's loop and of the specification's loop is never the reason for an outcome *)
Theorem C16_fuel_sufficient : forall cfg cs w, chunks_nonempty cs = true -> run_server cfg cs <> OErr EFuel w.
Proof. exact fuel_sufficient. Qed.
Print Assumptions C16_fuel_sufficient.

Theorem C16_spec_fuel_irrelevant : forall f1 f2 x st fd rs s,
  length s < f1 -> length s < f2 -> spec_loop f1 x st fd rs s = spec_loop f2 x st fd rs s.
Proof. exact spec_loop_fuel. Qed.
Print Assumptions C16_spec_fuel_irrelevant.
