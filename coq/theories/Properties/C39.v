(* Properties/C39.v — dropping or shutting down a connection releases it correctly.
   Only statements, each closed by [exact] of a lemma of C39/*.v, and their assumptions.

   Vocabulary (C39/Model.v).  A state records the live user handles (Connection values, MessageStreams, SignalStreams: one
   strong reference each; a Proxy: one plus what its property-cache task holds — 3 while it waits for GetAll, 1 afterwards; a
   blocking Proxy: two), cancelled cache tasks the executor has not dropped yet ([zombies]), the queued remove-match tasks and the
   method handlers in flight (one strong reference each),
   the method calls waiting for the dispatch task and the graceful_shutdown futures waiting (no reference), whether
   ConnectionInner still exists ([alive]: the write half with it) and whether the reader task does ([reader]: the read half),
   and the ordered record of events.  [strong s] = weights of the handles + zombies + remove-match tasks + handlers in flight = Arc::strong_count.
   [reach tr s]: s is reached from the state after build() by the history tr of user operations (LNew, LDrop, LGraceful,
   LCloseCall, LAsyncDrop, LCacheStart), peer messages (LCallIn, LCacheReady = the GetAll reply) and internal steps (LRemover, LReap,
   LDispatch, LReply, LWake, LReaderDrop) in ANY order. *)
From ZV Require Import Base.Bytes Base.Res C39.Model C39.Spec C39.Proofs C39.Run C39.RunFacts.

(* when the last strong reference is dropped the transport is closed — and exactly then *)
Theorem C39_close : forall (tr : list label) (s : st), reach tr s -> (alive s = false <-> strong s = 0).
Proof. exact close_iff. Qed.
Print Assumptions C39_close.

(* ... never before: while any handle, stream, proxy, queued remove-match task or handler in flight exists, the peer has
   not seen the transport go (no EClosed event), and afterwards it has *)
Theorem C39_not_before : forall (tr : list label) (s : st),
  reach tr s -> (existsb is_closed (events s) = true <-> strong s = 0).
Proof. exact closed_event_iff. Qed.
Print Assumptions C39_not_before.

(* the order the peer and the callers observe: every reply and close() before the transport goes, which it does once;
   graceful_shutdown returns and the read half goes only after *)
Theorem C39_order : forall (tr : list label) (s : st), reach tr s ->
  forall pre post, events s = pre ++ EClosed :: post ->
    existsb is_wake pre = false /\ existsb is_readdrop pre = false /\ existsb is_closed pre = false /\
    existsb is_reply post = false /\ existsb is_closed post = false.
Proof. exact events_ordered. Qed.
Print Assumptions C39_order.

(* graceful_shutdown completes only after the in-flight handlers have replied and ended (nothing holds the connection) ... *)
Theorem C39_graceful_only_after : forall (tr : list label) (s : st) (n : nat), reach tr s -> In (EWake n) (events s) ->
  alive s = false /\ handles s = [] /\ inflight s = [] /\ removers s = 0 /\ zombies s = [].
Proof. exact graceful_only_after. Qed.
Print Assumptions C39_graceful_only_after.

(* ... and completes once they have: the wake-up is enabled as soon as the count is zero *)
Theorem C39_graceful : forall (tr : list label) (s : st) (n : nat),
  reach tr s -> mem_n n (waiters s) = true -> strong s = 0 -> exists s', step (LWake n) s = Some s'.
Proof. exact graceful_once. Qed.
Print Assumptions C39_graceful.

(* nothing is left behind: all handles dropped (every proxy, whatever its cache had started), all handlers returned, no internal
   step left => both halves of the socket are gone, every graceful_shutdown has returned, nothing is queued *)
Theorem C39_released : forall (tr : list label) (s : st), reach tr s -> handles s = [] -> inflight s = [] ->
  step LRemover s = None -> step LReap s = None -> step LDispatch s = None -> (forall n, step (LWake n) s = None) ->
  step LReaderDrop s = None ->
  alive s = false /\ reader s = false /\ waiters s = [] /\ queued s = [] /\ removers s = 0 /\ zombies s = [].
Proof. exact all_released. Qed.
Print Assumptions C39_released.

(* a proxy owns what its property cache started: dropping it and letting the executor run gives back every reference the
   proxy and its cache task held (1, 1 + 3 while waiting for GetAll, 1 + 1 afterwards) — the fact the correspondence checks *)
Theorem C39_proxy_owns_cache : forall (s : st) (n : nat) (c : cache),
  lookup n (handles s) = Some (HProxy c) -> zombies s = [] ->
  exists s', Model.run (LDrop n :: (if started c then [LReap; LRemover] else [])) s = Some s' /\
             strong s' + weight (HProxy c) = strong s /\ zombies s' = [] /\ lookup n (handles s') = lookup n (remove_h n (handles s)).
Proof. exact drop_proxy_releases. Qed.
Print Assumptions C39_proxy_owns_cache.

(* and that point is reached: every internal step decreases nu *)
Theorem C39_terminates : forall (l : label) (s s' : st), internal l = true -> step l s = Some s' -> nu s' < nu s.
Proof. exact internal_decreases. Qed.
Print Assumptions C39_terminates.

(* the replay of the correspondence check stays inside the step relation *)
Theorem C39_replay_sound : forall (ops : list op) (rel gs : list nat) (s : st),
  exists tr, Model.run tr s = Some (snd (model_snaps ops rel gs s)).
Proof. exact model_snaps_reach. Qed.
Print Assumptions C39_replay_sound.

Theorem C39_run_sound : forall (tr : list label) (s : st), Model.run tr init = Some s -> reach tr s.
Proof. exact run_sound. Qed.
Print Assumptions C39_run_sound.
