(* Properties/C32.v — a proxy's signal stream yields signals only from the name's current owner.
   Only statements, each closed by [exact] of a lemma of C32/{Proofs,Forged,Witness}.v, and their assumptions.
   The model follows /repo as repaired by 902c9069 (a buffered release notification is applied) and 0bffda5d
   (only the bus driver's NameOwnerChanged changes the tracked owner): both former known classes are gone and the
   theorems hold at full strength.

   run cf h sched   the model (C32/Model.v): the wire history h (what the bus sends, in order) is read by the socket
                    reader (ATick), Proxy::receive_signal creates the stream (AClient: subscribe_dest_owner_change,
                    SignalStream::new with its ordered join of the NameOwnerChanged stream and the GetNameOwner
                    reply), the consumer calls stream.next() (APoll); sched is ANY interleaving of these steps.
   yielded w        sequence numbers of the messages the consumer got, in order.
   spec_yield cf start h   C32/Spec.v: the wanted signals (path, interface, member) received after [start] whose sender
                    is the owner at that point; the owner is the lookup answer updated by every later
                    NameOwnerChanged of the bus driver for the name (and nothing else).
   bus_history      what a message bus guarantees: every signal carries a sender; the driver is never named as owner;
                    the lookup answer agrees with the notifications sent between installing the match and answering;
                    the driver does not emit NameOwnerChanged from the *proxied* object (only relevant for a proxy
                    whose own interface is org.freedesktop.DBus; the driver's object is /org/freedesktop/DBus). *)
From Coq Require Import List NArith Bool.
Import ListNotations.
From ZV Require Import Base.Bytes C32.Model C32.Spec C32.Proofs C32.Forged C32.Witness.
Local Open Scope N_scope.

(* For every bus history and EVERY schedule: what has been yielded so far is a prefix of what the specification
   lists, in the same order (nothing from a non-owner, nothing out of order, nothing twice); and once the whole
   history has been read and a poll finds the stream empty, it is all of it. *)
Theorem C32_owner : forall (cf : cfg) (h : list wmsg) (sched : list action),
  bus_history cf h = true ->
  let w := run cf h sched in
  (exists rest, spec_yield cf (w_start w) h = yielded w ++ rest) /\
  (w_todo w = [] -> drained w -> yielded w = spec_yield cf (w_start w) h).
Proof. exact owner_full. Qed.
Print Assumptions C32_owner.

(* ... and at any moment: if a poll comes back empty, exactly the specified signals among the messages read
   so far have been yielded (nothing is held back, whatever the schedule did). *)
Theorem C32_nothing_withheld : forall (cf : cfg) (h : list wmsg) (sched : list action),
  bus_history cf h = true ->
  let w := run cf h sched in
  drained w -> yielded w = spec_yield cf (w_start w) (firstn (N.to_nat (w_seq w)) h).
Proof. exact poll_pending_complete. Qed.
Print Assumptions C32_nothing_withheld.

(* ... and the panic site of SignalStream::new (`.expect("`NameOwnerChanged` signal has no args")`) is never reached. *)
Theorem C32_never_panics : forall (cf : cfg) (h : list wmsg) (sched : list action),
  bus_history cf h = true -> w_ph (run cf h sched) <> PhPanic.
Proof. exact never_panics. Qed.
Print Assumptions C32_never_panics.

(* Ownership claims not sent by the bus driver never change what is yielded: replace every forged
   NameOwnerChanged (any sender but org.freedesktop.DBus, any path, any claimed owner) by another forged one or
   by noise, at the same positions — under every schedule the run yields the same and is in the same phase.
   No hypothesis on the history.  (For a proxy whose own interface is org.freedesktop.DBus a peer's signal of that
   shape on the proxy's path is an ordinary *wanted* signal — yielded iff the peer is the owner, by C32_owner — so it
   cannot be replaced by noise; it no longer changes the owner either: C32_repaired_histories.) *)
Theorem C32_forged_ignored : forall (cf : cfg) (h h' : list wmsg) (sched : list action),
  c_pi cf <> I_DBUS -> Forall2 claims_differ h h' ->
  yielded (run cf h sched) = yielded (run cf h' sched) /\ w_ph (run cf h sched) = w_ph (run cf h' sched).
Proof. exact forged_ignored. Qed.
Print Assumptions C32_forged_ignored.

(* non-vacuity: creation with a notification before the lookup answer, signals from owner, former owner and
   stranger, an ownership change, forged claims on the driver's and on the proxy's path: everything read and
   polled, exactly the two signals of the owner of the moment were yielded *)
Theorem C32_nonvacuous :
  bus_history cf_sig h_clean = true /\
  let w := run cf_sig h_clean sched_clean in
  w_todo w = [] /\ drained w /\ yielded w = [5; 11] /\ spec_yield cf_sig (w_start w) h_clean = [5; 11].
Proof. exact clean_example. Qed.
Print Assumptions C32_nonvacuous.

(* the witnesses of the two repaired findings are bus histories (so C32_owner covers them) and now run as specified:
   1. release read together with the lookup answer: nothing is yielded (was: the former owner's signal 5);
   2. proxy on org.freedesktop.DBus, a peer's claim on the proxy's path: the owner's signal 5 is yielded (was: the
      claimant's signal 6) *)
Theorem C32_repaired_histories :
  (bus_history cf_sig h_release = true /\
   let w := run cf_sig h_release sched_release in
   w_todo w = [] /\ drained w /\ yielded w = [] /\ spec_yield cf_sig (w_start w) h_release = []) /\
  (bus_history cf_dbus h_forge = true /\
   let w := run cf_dbus h_forge (sched_one_by_one 6) in
   w_todo w = [] /\ drained w /\ yielded w = [5] /\ spec_yield cf_dbus (w_start w) h_forge = [5]).
Proof. exact repaired_histories. Qed.
Print Assumptions C32_repaired_histories.
