(* Properties/C32.v — a proxy's signal stream yields signals only from the name's current owner.
   Only statements, each closed by [exact] of a lemma of C32/{Proofs,Forged,Witness}.v, and their assumptions.

   run cf h sched   the model (C32/Model.v): the wire history h (what the bus sends, in order) is read by the socket
                    reader (ATick), Proxy::receive_signal creates the stream (AClient: subscribe_dest_owner_change,
                    SignalStream::new with its ordered join of the NameOwnerChanged stream and the GetNameOwner
                    reply), the consumer calls stream.next() (APoll); sched is ANY interleaving of these steps.
   yielded w        sequence numbers of the messages the consumer got, in order.
   spec_yield cf start h   C32/Spec.v: the wanted signals (path, interface, member) received after [start] whose sender
                    is the owner at that point; the owner is the lookup answer updated by every later
                    NameOwnerChanged of the bus driver for the name (and nothing else).
   bus_history      every signal carries a sender; the driver is never named as owner; the lookup answer agrees
                    with the notifications the bus sent between installing the match and answering.
   Known_C32        the run dropped a buffered release notification (w_lost), or the proxy's own interface is
                    org.freedesktop.DBus and the history contains a NameOwnerChanged-shaped signal on its path. *)
From Coq Require Import List NArith Bool.
Import ListNotations.
From ZV Require Import Base.Bytes C32.Model C32.Spec C32.Proofs C32.Forged C32.Witness.
Local Open Scope N_scope.

(* Outside the known classes, for every bus history and EVERY schedule: what has been yielded so far is a
   prefix of what the specification lists, in the same order (nothing from a non-owner, nothing out of order,
   nothing twice); and once the whole history has been read and a poll finds the stream empty, it is all of it. *)
Theorem C32_owner_partial : forall (cf : cfg) (h : list wmsg) (sched : list action),
  bus_history cf h = true -> ~ Known_C32 cf h sched ->
  let w := run cf h sched in
  (exists rest, spec_yield cf (w_start w) h = yielded w ++ rest) /\
  (w_todo w = [] -> drained w -> yielded w = spec_yield cf (w_start w) h).
Proof. exact owner_partial. Qed.
Print Assumptions C32_owner_partial.

(* ... and at any moment: if a poll comes back empty, exactly the specified signals among the messages read
   so far have been yielded (nothing is held back, whatever the schedule did). *)
Theorem C32_nothing_withheld_partial : forall (cf : cfg) (h : list wmsg) (sched : list action),
  bus_history cf h = true -> ~ Known_C32 cf h sched ->
  let w := run cf h sched in
  drained w -> yielded w = spec_yield cf (w_start w) (firstn (N.to_nat (w_seq w)) h).
Proof. exact poll_pending_complete. Qed.
Print Assumptions C32_nothing_withheld_partial.

(* ... and the panic site of SignalStream::new (`.expect("`NameOwnerChanged` signal has no args")`) is never reached. *)
Theorem C32_never_panics_partial : forall (cf : cfg) (h : list wmsg) (sched : list action),
  bus_history cf h = true -> ~ Known_C32 cf h sched -> w_ph (run cf h sched) <> PhPanic.
Proof. exact never_panics. Qed.
Print Assumptions C32_never_panics_partial.

(* Ownership claims not sent by the bus driver never change what is yielded: replace every forged
   NameOwnerChanged (any sender but org.freedesktop.DBus, any path, any claimed owner) by another forged one or
   by noise, at the same positions — under every schedule the run yields the same and is in the same phase.
   No hypothesis on the history; only: the proxy's own interface is not org.freedesktop.DBus. *)
Theorem C32_forged_ignored : forall (cf : cfg) (h h' : list wmsg) (sched : list action),
  c_pi cf <> I_DBUS -> Forall2 claims_differ h h' ->
  yielded (run cf h sched) = yielded (run cf h' sched) /\ w_ph (run cf h sched) = w_ph (run cf h' sched).
Proof. exact forged_ignored. Qed.
Print Assumptions C32_forged_ignored.

(* non-vacuity: creation with a notification before the lookup answer, signals from owner, former owner and
   stranger, an ownership change, forged claims on the driver's and on the proxy's path: outside the classes,
   everything read and polled, exactly the two signals of the owner of the moment were yielded *)
Theorem C32_partial_nonvacuous :
  bus_history cf_sig h_clean = true /\ ~ Known_C32 cf_sig h_clean sched_clean /\
  let w := run cf_sig h_clean sched_clean in
  w_todo w = [] /\ drained w /\ yielded w = [5; 11] /\ spec_yield cf_sig (w_start w) h_clean = [5; 11].
Proof. exact clean_example. Qed.
Print Assumptions C32_partial_nonvacuous.

(* known finding 1: the name is released right after the lookup answer and both messages are read before
   SignalStream::new runs again — the release is dropped and the former owner's signal (5) is yielded *)
Theorem C32_release_buffered_refuted :
  bus_history cf_sig h_release = true /\ forgeable cf_sig h_release = false /\
  let w := run cf_sig h_release sched_release in
  w_lost w = true /\ yielded w = [5] /\ spec_yield cf_sig (w_start w) h_release = [].
Proof. exact release_buffered_refuted. Qed.
Print Assumptions C32_release_buffered_refuted.

(* known finding 2: a proxy on interface org.freedesktop.DBus trusts a peer's NameOwnerChanged on its own path:
   the stranger's signal (6) is yielded, the owner's (5) is not *)
Theorem C32_dbus_iface_forgery_refuted :
  bus_history cf_dbus h_forge = true /\ forgeable cf_dbus h_forge = true /\
  let w := run cf_dbus h_forge (sched_one_by_one 6) in
  w_lost w = false /\ yielded w = [6] /\ spec_yield cf_dbus (w_start w) h_forge = [5].
Proof. exact dbus_iface_forgery_refuted. Qed.
Print Assumptions C32_dbus_iface_forgery_refuted.

(* hence the statement for ALL bus histories and schedules (Definition C32_full_statement in C32/Witness.v,
   written out here) is false on this tree *)
Theorem C32_full_statement_refuted :
  ~ (forall (cf : cfg) (h : list wmsg) (sched : list action), bus_history cf h = true ->
       let w := run cf h sched in
       (exists rest, spec_yield cf (w_start w) h = yielded w ++ rest) /\
       (w_todo w = [] -> drained w -> yielded w = spec_yield cf (w_start w) h)).
Proof. exact full_statement_refuted. Qed.
Print Assumptions C32_full_statement_refuted.
