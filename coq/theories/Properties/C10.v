From ZV Require Import Base.Bytes C10.Model C10.Spec.
Theorem C10_placeholder : validate_guid = spec_guid.
Proof. reflexivity. Qed.
Print Assumptions C10_placeholder.
