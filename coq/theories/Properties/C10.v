(* Properties/C10.v — names, object paths and GUIDs are validated exactly per the spec.
   Only statements, each closed by [exact] of a lemma of C10/Proofs.v, and their assumptions. *)
From ZV Require Import Base.Bytes C10.Model C10.Spec C10.Proofs.

Theorem C10_interface : forall s : bytes, validate_interface s = true <->
  exists es, s = joined dot es /\ 2 <= length es /\ Forall (fun e => elem_iface e = true) es /\ length s <= 255.
Proof. exact interface_exact. Qed.
Print Assumptions C10_interface.

Theorem C10_error : forall s : bytes, validate_error s = true <->
  exists es, s = joined dot es /\ 2 <= length es /\ Forall (fun e => elem_iface e = true) es /\ length s <= 255.
Proof. exact interface_exact. Qed.
Print Assumptions C10_error.

Theorem C10_well_known : forall s : bytes, validate_well_known s = true <->
  exists es, s = joined dot es /\ 2 <= length es /\ Forall (fun e => elem_wk e = true) es /\ length s <= 255.
Proof. exact well_known_exact. Qed.
Print Assumptions C10_well_known.

Theorem C10_unique : forall s : bytes, validate_unique s = true <->
  (s = B "org.freedesktop.DBus" \/
   exists es, s = ":"%byte :: joined dot es /\ 2 <= length es /\ Forall (fun e => elem_uq e = true) es)
  /\ length s <= 255.
Proof. exact unique_exact. Qed.
Print Assumptions C10_unique.

Theorem C10_bus : forall s : bytes, validate_bus s = true <-> Unique s \/ WellKnown s.
Proof. exact bus_exact. Qed.
Print Assumptions C10_bus.

Theorem C10_member : forall s : bytes, validate_member s = true <-> elem_iface s = true /\ length s <= 255.
Proof. exact member_exact. Qed.
Print Assumptions C10_member.

Theorem C10_property : forall s : bytes, validate_property s = true <-> 1 <= length s <= 255.
Proof. exact property_exact. Qed.
Print Assumptions C10_property.

Theorem C10_object_path : forall s : bytes, validate_object_path s = true <->
  s = [slash] \/ exists es, s = slash :: joined slash es /\ 1 <= length es /\ Forall (fun e => elem_path e = true) es.
Proof. exact object_path_exact. Qed.
Print Assumptions C10_object_path.

Theorem C10_guid : forall s : bytes, validate_guid s = true <->
  length s = 32 /\ Forall (fun c => is_hexdigit c = true) s.
Proof. exact guid_exact. Qed.
Print Assumptions C10_guid.

(* every entry point other than the derived Value conversions gives the validator's verdict *)
Theorem C10_entry_partial : forall t e s, derived_value_conv t e = false -> construct t e s = validator t s.
Proof. exact construct_partial. Qed.
Print Assumptions C10_entry_partial.

(* known finding: the derived TryFrom<Value> accepts a string that is not a member name *)
Theorem C10_value_conv_refuted : exists s, construct TMember ViaValue s = true /\ ~ Member s.
Proof. exact value_conv_refuted. Qed.
Print Assumptions C10_value_conv_refuted.
