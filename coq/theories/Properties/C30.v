(* Properties/C30.v — object server use from handlers and right after setup does not hang.
   Only statements, each closed by [exact] of a lemma of C30/*.v (C29/*.v for the shared dispatch model), and their
   assumptions.

   First clause (dispatch model, C29/Model.v — vocabulary as in Properties/C29.v).  A handler script is an arbitrary
   finite list of awaits (yield, timer, signal emission), object_server().at, .remove and .interface lookups; the burst
   may mix method calls (&self / &mut self, spawn on / off), Properties.Get / GetAll / Set, Introspect.
   [no_deadlock calls] := from every state reachable under any scheduler, some step is enabled or every task has
   finished and nothing is left to arrive.
   The model follows /repo d9501501: Properties::get / set / get_all drop the root read guard right after the lookup.
   With that, method AND property handlers that await / register / remove / emit never deadlock
   (C30_nodeadlock_handlers).  What the faithful model still refutes: Introspectable::introspect keeps the ROOT READ
   guard while it read-locks the interfaces of the node, and at / remove ask for the ROOT WRITE lock — so the full
   statement (any kind of call in the burst) is kept as [C30_full_statement], refuted by witnesses, and proved outside
   the decidable class [Known_C30] (= the code paths of the burst do not respect one lock order, C29/Safe.v), which
   now needs Introspect traffic or interface() lookups (C30_known_needs_introspect_or_lookup).

   Second clause (start-up model, C30/Model.v): [cfg] says whether the object server was set up by the builder
   (serve_at) or on demand, and whether the peer waits until the dispatch task has subscribed.  A call read by the
   socket reader before the subscription exists is dropped. *)
From ZV Require Import Base.Bytes C29.Model C29.Spec C29.Steps C29.Exec C29.Judge C29.Safe C29.Parse
  C30.Model C30.Spec C30.Proofs C30.Run C30.RunSound.

(* ------------------------------- first clause ------------------------------- *)

(* method and property handlers (getters, &mut and &self setters; interfaces with spawning on or off) that await,
   register, remove, emit — in a burst of method calls and Properties.Get / GetAll / Set — never deadlock:
   for all scripts, all bursts, all schedules *)
Theorem C30_nodeadlock_handlers : forall (calls : list call),
  handlers_only calls = true ->
  forall tr s, reach calls tr s -> (exists lb s', step lb s = Some s') \/ all_done s.
Proof. exact nodeadlock_handlers. Qed.
Print Assumptions C30_nodeadlock_handlers.

(* the special case of bursts of method calls only *)
Theorem C30_nodeadlock_methods : forall (calls : list call),
  methods_only calls = true ->
  forall tr s, reach calls tr s -> (exists lb s', step lb s = Some s') \/ all_done s.
Proof. exact nodeadlock_methods. Qed.
Print Assumptions C30_nodeadlock_methods.

(* outside the known class there is no deadlock: any kinds of calls, any scripts (lookups included), any schedule *)
Theorem C30_nodeadlock_partial : forall (calls : list call),
  Known_C30 calls = false ->
  forall tr s, reach calls tr s -> (exists lb s', step lb s = Some s') \/ all_done s.
Proof. exact nodeadlock_partial. Qed.
Print Assumptions C30_nodeadlock_partial.

(* the known class is small: a burst in it contains an Introspect call or an object_server().interface() lookup *)
Theorem C30_known_needs_introspect_or_lookup : forall (calls : list call),
  Known_C30 calls = true -> has_introspect calls = true \/ has_lookup calls = true.
Proof. exact known_needs_introspect_or_lookup. Qed.
Print Assumptions C30_known_needs_introspect_or_lookup.

(* the full statement (ANY kind of call in the burst, handler scripts over the operations the text names) is still
   false of this tree *)
Theorem C30_full_refuted : ~ C30_full_statement.
Proof. exact full_refuted. Qed.
Print Assumptions C30_full_refuted.

(* the witnesses: handler events observed up to the deadlock; a run that ends with nothing enabled, calls unfinished
   and no reply sent.  (1) a METHOD handler (&mut self) that registers an object while Introspect walks the same node,
   (2) the same with a property setter as the handler, (3) with &self methods and a pending writer *)
Theorem C30_method_vs_introspect_refuted :
  exists tr s, reach w_introspect tr s /\ filter is_soe (log s) = [EvS 0; EvO 0 0] /\ stuck s /\ ~ all_done s /\
               forall c, In c w_introspect -> count_ev (EvR (c_id c)) (log s) = 0.
Proof. exact w_introspect_dead. Qed.
Print Assumptions C30_method_vs_introspect_refuted.

Theorem C30_setter_vs_introspect_refuted :
  exists tr s, reach w_setter_introspect tr s /\ filter is_soe (log s) = [EvS 0; EvO 0 0] /\ stuck s /\ ~ all_done s /\
               forall c, In c w_setter_introspect -> count_ev (EvR (c_id c)) (log s) = 0.
Proof. exact w_setter_introspect_dead. Qed.
Print Assumptions C30_setter_vs_introspect_refuted.

Theorem C30_method_ref_vs_introspect_refuted :
  exists tr s, reach w_ref_introspect tr s /\ filter is_soe (log s) = [EvS 0; EvO 0 0] /\ stuck s /\ ~ all_done s /\
               forall c, In c w_ref_introspect -> count_ev (EvR (c_id c)) (log s) = 0.
Proof. exact w_ref_introspect_dead. Qed.
Print Assumptions C30_method_ref_vs_introspect_refuted.

(* ------------------------------- second clause ------------------------------- *)

(* the full statement: a call sent after at() returned is never dropped — false for on-demand creation *)
Theorem C30_lazy_start_refuted :
  exists tr s, lz_reach on_demand [0] tr s /\ In 0 (after_at s) /\ In 0 (dropped s) /\ taken s = [] /\
               lz_stuck on_demand s.
Proof. exact lazy_start_refuted. Qed.
Print Assumptions C30_lazy_start_refuted.

Theorem C30_lazy_full_refuted : ~ C30_lazy_full_statement.
Proof. exact lazy_full_refuted. Qed.
Print Assumptions C30_lazy_full_refuted.

(* where it holds — object server set up by the builder, or the dispatch task has subscribed before the peer sends —
   nothing is dropped and something can happen until every call has been taken by the dispatch task, in send order *)
Theorem C30_lazy_start_partial : forall (c : cfg) (msgs : list nat) (tr : list lzlabel) (s : lz),
  Known_lazy c = false -> lz_reach c msgs tr s ->
  dropped s = [] /\ ((exists lb s', lz_step c lb s = Some s') \/ taken s = msgs).
Proof. exact lazy_start_partial. Qed.
Print Assumptions C30_lazy_start_partial.

(* on-demand creation too: from the moment the dispatch task has subscribed, no call is dropped any more *)
Theorem C30_subscribed_no_more_drops : forall (c : cfg) (lb : lzlabel) (s s' : lz),
  subscribed s = true -> lz_step c lb s = Some s' -> subscribed s' = true /\ dropped s' = dropped s.
Proof. exact subscribed_no_more_drops. Qed.
Print Assumptions C30_subscribed_no_more_drops.

(* ------------------------------- correspondence verdicts ------------------------------- *)
Theorem C30_explains_lazy_sound : forall (c : cfg) (n : nat) (l : list oev),
  explains_lazy c n l = tokOK ->
  exists tr s, lz_reach c (seq 0 n) tr s /\
    taken s = filter (fun m => memn m (answered_of l)) (seq 0 n) /\
    dropped s = filter (fun m => negb (memn m (answered_of l))) (seq 0 n) /\ lz_stuck c s.
Proof. exact explains_lazy_sound. Qed.
Print Assumptions C30_explains_lazy_sound.
