(* Properties/C02.v — encoding then decoding returns the original value (D-Bus format).
   [marshal] (DBus/Spec.v) is the specification's wire format, [de_any]/[de_value_top]/[de_struct_top]
   (DBus/De.v) the model of zvariant::dbus::Deserializer with the dynamic-Value visitors, [ser_top] (DBus/Ser.v)
   the model of zvariant::dbus::Serializer.  Statements only; proofs in DBus/DeComplete.v.

   NOT COVERED HERE: the GVariant format.  These theorems speak about the D-Bus wire format only; the GVariant
   encoder/decoder is handled by a separate model under C05 and has no round-trip theorem in this file.

   Two side conditions appear beyond "well-formed and within the nesting limits", both forced by the format's
   32-bit fields: the encoding is shorter than 2^32 bytes (array length prefixes; [wf] does not bound sizes) and the
   descriptor table has at most 2^32 entries (a UNIX_FD is a u32 index; [wf (VFd h)] does not bound h). *)
From ZV Require Import Base.Bytes Base.Res Base.Sig DBus.Val DBus.Spec DBus.Ser DBus.SerProofs DBus.De
  DBus.DeCompleteFacts DBus.DeComplete.
Local Open Scope N_scope.

(* Completeness of the decoder on valid encodings, in the middle of any buffer: for every well-formed value v,
   either byte order, any buffer that holds the marshalling of v (at the absolute position of the cursor, with
   descriptor numbering fm/k) at the cursor — whatever precedes and follows it —, any depth counters that leave
   room for v, and enough fuel for the nesting of v: the decoder returns exactly v and moves only the cursor,
   by exactly the marshalled length. *)
Theorem C02_decode_marshal : forall (v : dval) (fuel : nat) (st : dstate) (fm : fdmode) (k : N),
  wf v = true -> t_sig st = vsig v -> fits (t_dep st) v ->
  len (marshal (t_e st) fm v (tabs st) k) < 2 ^ 32 ->
  N.of_nat (length (t_fds st)) <= 2 ^ 32 ->
  (exists pre rest, t_bytes st = pre ++ marshal (t_e st) fm v (tabs st) k ++ rest /\ len pre = t_pos st) ->
  (match fm with
   | ByHandle => Forall (fun h => nthN (t_fds st) h = Some h) (fds_of v)
   | ByOccurrence => forall i h, nth_error (fds_of v) i = Some h -> nthN (t_fds st) (k + N.of_nat i) = Some h
   end) ->
  (vdepth v <= fuel)%nat ->
  de_any fuel st = Ok (v, tset_pos st (t_pos st + len (marshal (t_e st) fm v (tabs st) k))).
Proof. exact de_complete. Qed.
Print Assumptions C02_decode_marshal.

(* the fuel of the entry points suffices for every value within the specification's nesting limits *)
Theorem C02_fuel_sufficient : forall v : dval, within_limits v = true -> (vdepth v <= de_fuel)%nat.
Proof. exact within_limits_fuel. Qed.
Print Assumptions C02_fuel_sufficient.

(* Data::deserialize::<Value>(): the marshalling of VARIANT(v) followed by arbitrary bytes decodes to v,
   consumed = marshalled length *)
Theorem C02_decode_value : forall (c : cfg) (e : endian) (fm : fdmode) (pos : N) (v : dval) (rest : bytes) (fds : list N),
  wf (VVariant v) = true -> within_limits (VVariant v) = true ->
  len (marshal e fm (VVariant v) pos 0) < 2 ^ 32 -> N.of_nat (length fds) <= 2 ^ 32 ->
  (match fm with
   | ByHandle => Forall (fun h => nthN fds h = Some h) (fds_of (VVariant v))
   | ByOccurrence => forall i h, nth_error (fds_of (VVariant v)) i = Some h -> nthN fds (0 + N.of_nat i) = Some h
   end) ->
  de_value_top c e pos (marshal e fm (VVariant v) pos 0 ++ rest) fds = Ok (v, len (marshal e fm (VVariant v) pos 0)).
Proof. exact de_value_top_complete. Qed.
Print Assumptions C02_decode_value.

(* Data::deserialize_for_dynamic_signature::<Structure>(): a message body *)
Theorem C02_decode_body : forall (c : cfg) (e : endian) (fm : fdmode) (pos : N) (l : list dval) (rest : bytes) (fds : list N),
  wf (VStruct l) = true -> within_limits (VStruct l) = true ->
  len (marshal e fm (VStruct l) pos 0) < 2 ^ 32 -> N.of_nat (length fds) <= 2 ^ 32 ->
  (match fm with
   | ByHandle => Forall (fun h => nthN fds h = Some h) (fds_of (VStruct l))
   | ByOccurrence => forall i h, nth_error (fds_of (VStruct l)) i = Some h -> nthN fds (0 + N.of_nat i) = Some h
   end) ->
  de_struct_top c e pos (vsig (VStruct l)) (marshal e fm (VStruct l) pos 0 ++ rest) fds
  = Ok (VStruct l, len (marshal e fm (VStruct l) pos 0)).
Proof. exact de_struct_top_complete. Qed.
Print Assumptions C02_decode_body.

(* ... and a body whose signature is one non-struct type (the decoder wraps it in a one-field struct) *)
Theorem C02_decode_body_single : forall (c : cfg) (e : endian) (fm : fdmode) (pos : N) (v : dval) (rest : bytes) (fds : list N),
  (match vsig v with SStruct _ => False | _ => True end) ->
  wf (VStruct [v]) = true -> within_limits (VStruct [v]) = true ->
  len (marshal e fm (VStruct [v]) pos 0) < 2 ^ 32 -> N.of_nat (length fds) <= 2 ^ 32 ->
  (match fm with
   | ByHandle => Forall (fun h => nthN fds h = Some h) (fds_of (VStruct [v]))
   | ByOccurrence => forall i h, nth_error (fds_of (VStruct [v])) i = Some h -> nthN fds (0 + N.of_nat i) = Some h
   end) ->
  de_struct_top c e pos (vsig v) (marshal e fm (VStruct [v]) pos 0 ++ rest) fds
  = Ok (VStruct [v], len (marshal e fm (VStruct [v]) pos 0)).
Proof. exact de_struct_top_complete1. Qed.
Print Assumptions C02_decode_body_single.

(* Round trip through the code's own encoder (composition with C01), variant form: for every value the encoder
   accepts (well-formed, signature values in the encoder's form, within the limits, sizes fitting 32 bits), any
   configuration on either side, either byte order, any offset, any trailing bytes: the encoder produces bytes and
   descriptors from which the decoder — at the same byte order and offset — returns the original value and reports
   the encoded length as consumed. *)
Theorem C02_roundtrip_value : forall (c c' : cfg) (e : endian) (pos : N) (v : dval) (rest : bytes),
  wf (VVariant v) = true -> enc_form (VVariant v) = true -> within_limits (VVariant v) = true ->
  len (marshal_top e pos (VVariant v)) < 2 ^ 32 -> nfds (VVariant v) < 2 ^ 32 ->
  exists b fds, ser_top c e pos SVariant (sval_of (VVariant v)) = Ok (b, fds) /\
                de_value_top c' e pos (b ++ rest) fds = Ok (v, len b).
Proof. intros c c' e pos v rest H1 H2 H3 H4 H5. apply roundtrip_value. repeat split; assumption. Qed.
Print Assumptions C02_roundtrip_value.

(* body form: top-level struct, decoded with deserialize_for_dynamic_signature *)
Theorem C02_roundtrip_body : forall (c c' : cfg) (e : endian) (pos : N) (l : list dval) (rest : bytes),
  wf (VStruct l) = true -> enc_form (VStruct l) = true -> within_limits (VStruct l) = true ->
  len (marshal_top e pos (VStruct l)) < 2 ^ 32 -> nfds (VStruct l) < 2 ^ 32 ->
  exists b fds, ser_top c e pos (vsig (VStruct l)) (sval_of (VStruct l)) = Ok (b, fds) /\
                de_struct_top c' e pos (vsig (VStruct l)) (b ++ rest) fds = Ok (VStruct l, len b).
Proof. intros c c' e pos l rest H1 H2 H3 H4 H5. apply roundtrip_body. repeat split; assumption. Qed.
Print Assumptions C02_roundtrip_body.

(* the same, phrased on whatever the two models return, up to the canonical form of dictionaries (zvariant's
   Value::Dict is a BTreeMap; the decoder model returns entries in wire order, which here is the order of v) *)
Theorem C02_roundtrip_canon : forall (c c' : cfg) (e : endian) (pos : N) (v : dval) (rest : bytes),
  wf (VVariant v) = true -> enc_form (VVariant v) = true -> within_limits (VVariant v) = true ->
  len (marshal_top e pos (VVariant v)) < 2 ^ 32 -> nfds (VVariant v) < 2 ^ 32 ->
  exists b fds w n, ser_top c e pos SVariant (sval_of (VVariant v)) = Ok (b, fds) /\
                    de_value_top c' e pos (b ++ rest) fds = Ok (w, n) /\ canon w = canon v /\ n = len b.
Proof.
  intros c c' e pos v rest H1 H2 H3 H4 H5.
  destruct (roundtrip_value c c' e pos v rest) as (b & fds & Hs & Hd); [repeat split; assumption|].
  exists b, fds, v, (len b). repeat split; assumption.
Qed.
Print Assumptions C02_roundtrip_canon.

(* the realignment fact behind the array loop: a value starts with the padding to its own alignment, and what
   follows does not depend on where that padding began *)
Theorem C02_marshal_realign : forall (e : endian) (fm : fdmode) (v : dval) (pos k : N),
  marshal e fm v pos k
  = pad pos (align_dbus (vsig v)) ++ marshal e fm v (pos + padn pos (align_dbus (vsig v))) k.
Proof. exact marshal_realign. Qed.
Print Assumptions C02_marshal_realign.

(* non-vacuity: a dict of variants (one holding an array, one a descriptor) inside a struct with a signature and
   an object path, at offset 5, big endian — the hypotheses hold, and the decoder model computes the value back *)
Example C02_example_hypotheses :
  wf (VVariant ex_value) = true /\ enc_form (VVariant ex_value) = true /\ within_limits (VVariant ex_value) = true /\
  len (marshal_top BE 5 (VVariant ex_value)) < 2 ^ 32 /\ nfds (VVariant ex_value) < 2 ^ 32 /\
  wf ex_value = true /\ enc_form ex_value = true /\ within_limits ex_value = true /\
  len (marshal_top BE 5 ex_value) < 2 ^ 32 /\ nfds ex_value < 2 ^ 32.
Proof. repeat split; vm_compute; reflexivity. Qed.
Example C02_example_value :
  de_value_top {| c_gv := false; c_oaa := false |} BE 5
    (marshal_top BE 5 (VVariant ex_value) ++ [x01; x02; x03]) (fds_of ex_value)
  = Ok (ex_value, len (marshal_top BE 5 (VVariant ex_value))).
Proof. exact ex_variant_decodes. Qed.
Example C02_example_body :
  de_struct_top {| c_gv := false; c_oaa := false |} BE 5 (vsig ex_value)
    (marshal_top BE 5 ex_value ++ [x01; x02; x03]) (fds_of ex_value)
  = Ok (ex_value, len (marshal_top BE 5 ex_value)).
Proof. exact ex_body_decodes. Qed.
