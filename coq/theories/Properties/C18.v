(* Properties/C18.v — concurrent sends never interleave on the wire.
   Only statements, each closed by [exact] of a lemma of C18/Proofs.v, and their assumptions.

   Vocabulary (C18/Model.v, C18/Spec.v): [progs i] is the list of messages task i sends, one after the other.
   [reach progs tr s]: state s is reached by the history tr of atomic actions  LLock i (task i gets the writer mutex),
   LSend n (the holder's sendmsg accepts n of the offered bytes, 1 <= n <= rest), LUnlock (its loop is over) — the
   history IS the scheduler and the transport: nothing restricts which enabled action comes next or how writes split.
   [wire s] = bytes accepted by the transport, [fdat s] = (wire offset, descriptors) of every sendmsg that was given
   descriptors, [order s] = completed sends in wire order (ghost), [proj i o] = the messages of task i in o. *)
From ZV Require Import Base.Bytes Base.Res C18.Model C18.Spec C18.Proofs.

(* at every moment: whole messages, in an order that extends to every task's program order, then a prefix of the
   message in flight; descriptors exactly at first bytes *)
Theorem C18_wire : forall (progs : nat -> list msg) (tr : list label) (s : sys),
  (forall i m, In m (progs i) -> mbytes m <> []) -> reach progs tr s ->
  match holder s with
  | None =>
      wire s = wire_of (order s) /\ fdat s = fds_of 0 (order s) /\
      forall i, proj i (order s) ++ tasks s i = progs i
  | Some h =>
      wire s = wire_of (order s) ++ firstn (h_pos h) (mbytes (h_msg h)) /\
      h_pos h <= length (mbytes (h_msg h)) /\
      fdat s = (if h_pos h =? 0 then fds_of 0 (order s) else fds_of 0 (order s ++ [(h_task h, h_msg h)])) /\
      forall i, proj i (order s) ++ (if Nat.eqb i (h_task h) then [h_msg h] else []) ++ tasks s i = progs i
  end.
Proof. exact wire_invariant. Qed.
Print Assumptions C18_wire.

(* when every task is done the peer has received exactly an interleaving of the programs, message by message *)
Theorem C18_wire_final : forall (progs : nat -> list msg) (tr : list label) (s : sys),
  (forall i m, In m (progs i) -> mbytes m <> []) -> reach progs tr s ->
  holder s = None -> (forall i, tasks s i = []) ->
  wire s = wire_of (order s) /\ fdat s = fds_of 0 (order s) /\ forall i, proj i (order s) = progs i.
Proof. exact wire_final'. Qed.
Print Assumptions C18_wire_final.

(* the executable replay used by the correspondence check stays inside the step relation *)
Theorem C18_run_sound : forall (progs : nat -> list msg) (tr : list label) (s : sys),
  run tr (init progs) = Some s -> reach progs tr s.
Proof. exact run_sound. Qed.
Print Assumptions C18_run_sound.

(* the oracle evaluated on the implementation's wire is sound for the property *)
Theorem C18_oracle_sound : forall (ps : list (list msg)) (w : bytes) (fobs : list (nat * list fd)),
  spec_check ps w fobs = true ->
  exists o, w = wire_of o /\ (forall i, proj i o = nth i ps []) /\ fd_clean (fds_of 0 o) = fobs.
Proof. exact spec_check_sound. Qed.
Print Assumptions C18_oracle_sound.
