(* Properties/C05.v — GVariant encoding follows the GVariant serialisation format (and the GVariant halves of C02, C04,
   C07).  [gv_marshal]/[gvb] (C05/Spec.v) is the format, written from the GVariant specification independently of the model
   [gser]/[gser_top] (C05/Model.v) of zvariant::gvariant::Serializer; [gde] (C05/DeModel.v) models the Deserializer.
   Statements only; proofs are in C05/SerProofs.v, C05/Widths.v, C05/Refuted.v. *)
From ZV Require Import Base.Bytes Base.Res Base.Sig DBus.Val DBus.Spec DBus.Ser C05.Val C05.Spec C05.Model C05.DeModel
  C05.Classes C05.Widths C05.SerProofs C05.DepthProofs C05.DeProofs C05.RtFacts C05.RtProofs C05.Refuted.
Local Open Scope N_scope.

(* The property at full strength: for every byte order, start offset and well-formed value within the nesting limits
   (without descriptors, below 2^60 bytes), zvariant's bytes are the format's bytes.  It does NOT hold: see the
   _refuted theorems. *)
Definition C05_full_statement : Prop := forall (e : endian) (pos : N) (v : gval),
  gwf v = true -> gwithin_limits v = true -> gplain v = true -> gsmall e v = true ->
  gser_top e pos (gsig v) (sval_of v) = Ok (gv_marshal e pos v, []).

(* It holds for every value none of whose nodes is in a known class (Known_C05 = known_c05, C05/Classes.v:
   a type mentioning `b`; a fixed-size tuple / dict entry whose members do not fill a multiple of its alignment;
   a container with framing offsets but no data bytes).  The former fourth class (dict entries with a variable-size key
   whose data fill 255, 65534/65535, ... bytes) is gone since commit c613b0b9: see C05_dict_key_width_repaired. *)
Theorem C05_partial : forall (e : endian) (pos : N) (v : gval),
  gwf v = true -> gwithin_limits v = true -> gplain v = true -> gsmall e v = true ->
  known_c05 e v = false ->
  gser_top e pos (gsig v) (sval_of v) = Ok (gv_marshal e pos v, []).
Proof. intros e pos v H1 H2 H3 H4 H5. apply gser_top_exact. repeat split; assumption. Qed.
Print Assumptions C05_partial.

(* the size pass (serialized_size) returns the length of those bytes *)
Theorem C05_size_partial : forall (e : endian) (pos : N) (v : gval),
  gwf v = true -> gwithin_limits v = true -> gplain v = true -> gsmall e v = true ->
  known_c05 e v = false ->
  gsize_top e pos (gsig v) (sval_of v) = Ok (len (gv_marshal e pos v), 0).
Proof. intros e pos v H1 H2 H3 H4 H5. apply gsize_top_exact. repeat split; assumption. Qed.
Print Assumptions C05_size_partial.

(* the general step: in the middle of an encoding, a value appends padding to its alignment and its own bytes, and
   changes nothing else of the serializer state (signature cursor, depth counters, descriptors) *)
Theorem C05_step : forall (e : endian) (v : gval) (st : gstate),
  g_e st = e -> gwf v = true -> pre e v = true -> g_sig st = gsig v -> g_vsign st = None ->
  dep_ok (g_dep st) -> gfits (g_dep st) v ->
  gser (sval_of v) st = Ok (gwr st (pad (gabs st) (galign (gsig v)) ++ gvb e v)).
Proof. intros e v st. exact (gser_good e v st). Qed.
Print Assumptions C05_step.

(* a non-trivial instance of the hypotheses: a tuple holding a dict of variants (one of them a maybe), an array of
   tuples with two strings, and a maybe of an array, at an odd offset *)
Definition c05_example : gval :=
  GStruct [GU8 7;
           GDict SStr SVariant [(GStr (B "a"), GVariant (GU32 5)); (GStr (B "bc"), GVariant (GMaybe SStr (Some (GStr (B "x")))))];
           GArray (SStruct [SStr; SU16; SStr]) [GStruct [GStr (B "k"); GU16 9; GStr []]; GStruct [GStr []; GU16 1; GStr (B "zz")]];
           GMaybe (SArray SI64) (Some (GArray SI64 [GI64 (-1)]))].
Example C05_partial_instance :
  gwf c05_example = true /\ gwithin_limits c05_example = true /\ gplain c05_example = true /\ gsmall BE c05_example = true
  /\ known_c05 BE c05_example = false
  /\ gser_top BE 3 (gsig c05_example) (sval_of c05_example) = Ok (gv_marshal BE 3 c05_example, [])
  /\ len (gv_marshal BE 3 c05_example) = 80.
Proof. repeat split; vm_compute; reflexivity. Qed.

(* ---- the known classes: each refutes the full statement ---- *)
Theorem C05_bool_refuted : exists v : gval,
  gwf v = true /\ gwithin_limits v = true /\ gplain v = true /\ gsmall LE v = true /\ in_class node_bool v = true /\
  gser_top LE 0 (gsig v) (sval_of v) <> Ok (gv_marshal LE 0 v, []).
Proof. exists w_bool. exact bool_witness. Qed.
Print Assumptions C05_bool_refuted.

Theorem C05_tail_padding_refuted : exists v : gval,
  gwf v = true /\ gwithin_limits v = true /\ gplain v = true /\ gsmall LE v = true /\ in_class (node_tail LE) v = true /\
  gser_top LE 0 (gsig v) (sval_of v) <> Ok (gv_marshal LE 0 v, []).
Proof. exists w_tail_array. exact tail_array_witness. Qed.
Print Assumptions C05_tail_padding_refuted.

Theorem C05_empty_offsets_refuted : exists v : gval,
  gwf v = true /\ gwithin_limits v = true /\ gplain v = true /\ gsmall LE v = true /\ in_class (node_empty_offsets LE) v = true /\
  gser_top LE 0 (gsig v) (sval_of v) <> Ok (gv_marshal LE 0 v, []).
Proof. exists w_empty. exact empty_witness. Qed.
Print Assumptions C05_empty_offsets_refuted.

(* formerly C05_dict_key_width_refuted: {"k": 252 letters} : a{ss} has 255 bytes of entry data, the key's framing offset
   needs 2 bytes.  Since c613b0b9 the model (and the code) writes the format's bytes, and the value is in no class. *)
Example C05_dict_key_width_repaired :
  gwf w_dictkey = true /\ gwithin_limits w_dictkey = true /\ gplain w_dictkey = true /\ gsmall LE w_dictkey = true /\
  known_c05 LE w_dictkey = false /\
  gser_top LE 0 (gsig w_dictkey) (sval_of w_dictkey) = Ok (gv_marshal LE 0 w_dictkey, []).
Proof. exact dictkey_repaired. Qed.

Theorem C05_full_refuted : ~ C05_full_statement.
Proof.
  intros H. destruct bool_witness as (H1 & H2 & H3 & H4 & _ & Hn). apply Hn. unfold c05_holds. now apply H.
Qed.
Print Assumptions C05_full_refuted.

(* ---- the offset width: for every container size n and number of offsets k, for_bare_container returns the least
   width w in {1,2,4,8} such that n data bytes plus k offsets of w bytes can be addressed by w-byte offsets ---- *)
Theorem offset_width_spec : forall n k w : N, for_bare_container n k = Ok w ->
  (w = 1 \/ w = 2 \/ w = 4 \/ w = 8) /\ n + k * w <= 2 ^ (8 * w) - 1 /\
  (forall w', (w' = 1 \/ w' = 2 \/ w' = 4 \/ w' = 8) -> n + k * w' <= 2 ^ (8 * w') - 1 -> w <= w').
Proof. exact for_bare_least. Qed.
Print Assumptions offset_width_spec.

Theorem offset_width_total : forall n k : N,
  (n + k * 8 <= 2 ^ (8 * 8) - 1 -> for_bare_container n k = Ok (offset_width n k)) /\
  (~ n + k * 8 <= 2 ^ (8 * 8) - 1 -> for_bare_container n k = Panic PUnwrap).
Proof.
  intros n k. split.
  - intros H. apply C05.Facts.for_bare_width. change (2 ^ (8 * 8) - 1) with 18446744073709551615 in H. lia.
  - apply for_bare_panics.
Qed.
Print Assumptions offset_width_total.

(* ---- C02, GVariant half: encode-then-decode is not the identity in one of the classes ---- *)
Theorem C02_gv_empty_offsets_refuted : exists v : gval,
  gwf v = true /\ gwithin_limits v = true /\ ~ exists n, rt_value LE 0 v = Ok (v, n, n).
Proof. exists w_empty. exact c02_empty_refuted. Qed.
Print Assumptions C02_gv_empty_offsets_refuted.
(* formerly C02_gv_dict_key_width_refuted: the same dict now comes back (259 bytes written, 259 consumed) *)
Example C02_gv_dict_key_width_repaired : rt_value LE 0 w_dictkey = Ok (w_dictkey, 259, 259).
Proof. vm_compute. reflexivity. Qed.

(* ---- C04, GVariant half.  The two inputs that used to reach `attempt to subtract with overflow` in
   read_last_offset_from_buffer (formerly C04_gv_struct_offset_underflow_refuted and
   C04_gv_variant_offset_underflow_refuted; 130 strings over 257 zero bytes, directly and through a variant) are refused
   with OutOfBounds since commit b5246470; the model of the code before that commit still panics on them. ---- *)
Example C04_gv_struct_offset_underflow_repaired :
  gde_struct_top LE 0 w_panic_sig w_panic_bytes [] = Err EBounds
  /\ gde_before_fix gde_fuel (ginit_dst LE 0 w_panic_sig w_panic_bytes []) = Panic PArith.
Proof. exact c04_struct_offset_repaired. Qed.
Example C04_gv_variant_offset_underflow_repaired :
  gde_value_top LE 0 w_panic_variant [] = Err EBounds
  /\ gde_before_fix gde_fuel (ginit_dst LE 0 SVariant w_panic_variant []) = Panic PArith.
Proof. exact c04_variant_offset_repaired. Qed.

(* ---- C04, GVariant half.  Every slice, index, subtraction and unwrap of the decode path is an explicit Panic branch of
   the model.  For every byte order, offset, signature, descriptor table and input (below 2^64 bytes): the three entry
   points (Value, Structure for a dynamic signature, typed) panic only in the signature parser's recursion (PStack: native
   stack exhaustion in signature parsing, class sig_parse_stack), and then the input is longer than stack_limit = 50000
   bytes.  (Before commit b5246470 there was a second class, the subtraction of read_last_offset_from_buffer in
   StructureDeserializer: C05/DeProofs.v, gde_before_fix_panics.) ---- *)
Theorem C04_gv_panic_classes : forall (e : endian) (pos : N) (g : sig) (b : bytes) (fds : list N) (p : panic),
  len b < 18446744073709551616 ->
  gde_value_top e pos b fds = Panic p \/ gde_struct_top e pos g b fds = Panic p \/ gde_typed_top e pos g b fds = Panic p ->
  p = PStack /\ stack_limit < len b.
Proof. exact gde_tops_panics. Qed.
Print Assumptions C04_gv_panic_classes.

(* hence no panic at all on inputs of at most 50000 bytes (Known_C04gv b := stack_limit < len b) *)
Theorem C04_gv_nopanic_partial : forall (e : endian) (pos : N) (g : sig) (b : bytes) (fds : list N) (p : panic),
  len b <= stack_limit ->
  gde_value_top e pos b fds <> Panic p /\ gde_struct_top e pos g b fds <> Panic p /\ gde_typed_top e pos g b fds <> Panic p.
Proof. exact gde_tops_small_nopanic. Qed.
Print Assumptions C04_gv_nopanic_partial.

(* the general form, for every decoder state with pos <= len < 2^64 and every recursion fuel (this is the former
   C04_gv_repaired_nopanic, now a statement about the model of the code as it is) *)
Theorem C04_gv_step : forall (fuel : nat) (st : dst) (p : panic),
  r_pos st <= r_len st /\ r_len st < 18446744073709551616 ->
  gde fuel st = Panic p -> p = PStack /\ stack_limit < r_len st.
Proof. exact gde_panics. Qed.
Print Assumptions C04_gv_step.

(* the code before commit b5246470, for the record: the second class was real, and confined to windows of >= 256 bytes *)
Theorem C04_gv_before_fix_classes : forall (fuel : nat) (st : dst) (p : panic),
  r_pos st <= r_len st /\ r_len st < 18446744073709551616 ->
  gde_before_fix fuel st = Panic p -> (p = PStack /\ stack_limit < r_len st) \/ (p = PArith /\ 256 <= r_len st).
Proof. exact gde_before_fix_panics. Qed.
Print Assumptions C04_gv_before_fix_classes.

(* ---- C07, GVariant half, encoder: for every well-formed value outside the known classes the serializer stops with a
   depth error exactly when the value exceeds 32 arrays (dicts count), 32 tuples or 64 containers in total (variants
   and maybes — `Just` only — count as containers); otherwise it succeeds (C05_partial).  The counters are restored on
   every exit path: that is the state equation of C05_step. ---- *)
Theorem C07_gv_ser : forall (e : endian) (pos : N) (v : gval),
  gwf v = true -> gplain v = true -> gsmall e v = true -> known_c05 e v = false ->
  ((exists k, gser_top e pos (gsig v) (sval_of v) = Err (EDepth k)) <-> gwithin_limits v = false).
Proof.
  intros e pos v Hw Hp Hs Hk. split.
  - intros [k Hx]. destruct (gwithin_limits v) eqn:Hl; [|reflexivity].
    rewrite (C05_partial e pos v Hw Hl Hp Hs Hk) in Hx. discriminate.
  - intros Hl. now apply gser_top_depth.
Qed.
Print Assumptions C07_gv_ser.

(* a tower of 33 arrays is refused, 32 are accepted; 64 maybes around a byte are accepted, 65 refused *)
Fixpoint tower_a (n : nat) (v : gval) : gval := match n with O => v | S k => GArray (gsig (tower_a k v)) [tower_a k v] end.
Fixpoint tower_m (n : nat) (v : gval) : gval := match n with O => v | S k => GMaybe (gsig (tower_m k v)) (Some (tower_m k v)) end.
Example C07_gv_instances :
  gwithin_limits (tower_a 32 (GU8 7)) = true /\ gwithin_limits (tower_a 33 (GU8 7)) = false /\
  gwithin_limits (tower_m 64 (GU8 7)) = true /\ gwithin_limits (tower_m 65 (GU8 7)) = false /\
  gser_top LE 0 (gsig (tower_a 33 (GU8 7))) (sval_of (tower_a 33 (GU8 7))) = Err (EDepth DArray) /\
  gser_top LE 0 (gsig (tower_m 65 (GU8 7))) (sval_of (tower_m 65 (GU8 7))) = Err (EDepth DTotal).
Proof. repeat split; vm_compute; reflexivity. Qed.

(* ---- C02, GVariant half: encode-then-decode.  For every byte order, start offset and well-formed value within the
   nesting limits, outside the known classes and without descriptors (rtok: the type string of every variant's payload
   is at most stack_limit = 50000 bytes): the deserializer model, run on the serializer model's output with the
   value's own signature, returns the value and consumes exactly the encoded length — for any recursion fuel >= 65. ---- *)
Theorem C02_gv_roundtrip : forall (e : endian) (pos : N) (v : gval) (fuel : nat),
  gwf v = true -> gwithin_limits v = true -> gplain v = true -> gsmall e v = true -> known_c05 e v = false ->
  rtok v = true -> (65 <= fuel)%nat ->
  exists (b : bytes) (st' : dst),
    gser_top e pos (gsig v) (sval_of v) = Ok (b, []) /\
    gde fuel (ginit_dst e pos (gsig v) b []) = Ok (v, st') /\ r_pos st' = len b.
Proof. intros e pos v fuel H1 H2 H3 H4 H5 H6 H7. now apply gv_roundtrip_plain. Qed.
Print Assumptions C02_gv_roundtrip.

(* the decoder half on its own: any window that holds exactly the format's encoding of a value (padded to its alignment) is
   decoded to that value and consumed entirely — independent of the serializer model *)
Theorem C02_gv_decode_spec : forall (e : endian) (v : gval) (fuel : nat) (st : dst),
  (gheight v <= fuel)%nat -> r_e st = e -> gwf v = true -> pre e v = true -> rtok v = true ->
  r_sig st = gsig v -> dep_ok (r_dep st) -> gfits (r_dep st) v -> r_len st < 18446744073709551616 ->
  holds st (pad (r_pos0 st + r_pos st) (galign (gsig v)) ++ gvb e v) ->
  exists st', gde fuel st = Ok (v, st') /\ r_pos st' = r_len st.
Proof. intros e v fuel st. exact (rt_all e v fuel st). Qed.
Print Assumptions C02_gv_decode_spec.

Example C02_gv_roundtrip_instance :
  rtok (GStruct [GU8 7; GDict SStr SVariant [(GStr (B "a"), GVariant (GU32 5))]; GArray (SStruct [SStr; SU16; SStr]) [GStruct [GStr (B "k"); GU16 9; GStr []]; GStruct [GStr []; GU16 1; GStr (B "zz")]];
                 GVariant (GMaybe SStr (Some (GStr (B "x")))); GMaybe (SArray SI64) (Some (GArray SI64 [GI64 (-1)]))]) = true
  /\ rt_value BE 3 (GStruct [GU8 7; GDict SStr SVariant [(GStr (B "a"), GVariant (GU32 5))]; GArray (SStruct [SStr; SU16; SStr]) [GStruct [GStr (B "k"); GU16 9; GStr []]; GStruct [GStr []; GU16 1; GStr (B "zz")]];
                 GVariant (GMaybe SStr (Some (GStr (B "x")))); GMaybe (SArray SI64) (Some (GArray SI64 [GI64 (-1)]))])
      = Ok (GStruct [GU8 7; GDict SStr SVariant [(GStr (B "a"), GVariant (GU32 5))]; GArray (SStruct [SStr; SU16; SStr]) [GStruct [GStr (B "k"); GU16 9; GStr []]; GStruct [GStr []; GU16 1; GStr (B "zz")]];
                 GVariant (GMaybe SStr (Some (GStr (B "x")))); GMaybe (SArray SI64) (Some (GArray SI64 [GI64 (-1)]))], 65, 65).
Proof. split; vm_compute; reflexivity. Qed.
