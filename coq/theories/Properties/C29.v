(* Properties/C29.v — interfaces that disable task spawning handle calls in arrival order; with spawning enabled every
   call still gets its reply.  Only statements, each closed by [exact] of a lemma of C29/*.v, and their assumptions.

   Vocabulary (C29/Model.v, C29/Spec.v).  [calls] is the burst in arrival order; a call has an id, a kind (method taking
   &self / &mut self, Properties.Get / GetAll / Set, Introspect, unknown object), the interface instance it addresses,
   that interface's spawn flag and the handler's script: an arbitrary finite list of awaits and object-server
   operations.  [reach calls tr s]: state s is reached by the label sequence tr — LTask t (task t performs its next
   atomic action: a lock step under the write-preferring RwLock semantics of async-lock, an await that completes, a
   logged event, spawning the task of a call, taking the next message) or LArrive (the next call reaches the dispatch
   task's stream).  Nothing restricts which enabled label comes next: tr IS the scheduler, the executor and the timing
   of arrivals.  [log s] = handler starts (EvS c), completed operations (EvO c j), handler ends (EvE c), replies (EvR c).
   [inline c] = c is a method call to an interface with spawning disabled; [inline_log calls l] = the events of l that
   belong to inline calls; [sequential_order calls] = for the inline calls in arrival order: S c, O c 0 .. O c (n-1),
   E c, and R c unless the call carries NO_REPLY_EXPECTED ([c_noreply]; such a call is dispatched exactly like the
   others — the flag only suppresses the reply).  [safe calls] (C29/Safe.v) = the code paths of the burst respect one lock order (decidable); it contains
   every burst of method calls whose handlers await, register, remove, emit ([methods_only], proved below). *)
From ZV Require Import Base.Bytes C29.Model C29.Spec C29.Steps C29.Exec C29.Judge C29.Safe C29.Replies C29.Measure C29.Proofs.

(* spawn disabled => executions are sequential and in arrival order — at every moment, for all scripts and schedules *)
Theorem C29_order : forall (calls : list call) (tr : list label) (s : sys),
  NoDup (map c_id calls) -> reach calls tr s ->
  prefix_of (inline_log calls (log s)) (sequential_order calls).
Proof. exact order_thm. Qed.
Print Assumptions C29_order.

(* ... and when nothing is left to run, every inline call has been executed, completely, in that order *)
Theorem C29_order_complete : forall (calls : list call) (tr : list label) (s : sys),
  NoDup (map c_id calls) -> reach calls tr s -> all_done s ->
  inline_log calls (log s) = sequential_order calls.
Proof. exact order_complete_thm. Qed.
Print Assumptions C29_order_complete.

(* every call gets its reply: never two, and as long as a reply is missing some step is enabled (no deadlock); when
   nothing can step any more, every call of the burst has exactly one reply — none if it carries NO_REPLY_EXPECTED
   ([replies_ok]).  Holds for spawn enabled and disabled. *)
Theorem C29_all_reply : forall (calls : list call) (tr : list label) (s : sys),
  NoDup (map c_id calls) -> safe calls = true -> reach calls tr s ->
  (forall n, count_ev (EvR n) (log s) <= if memn n (map c_id calls) then 1 else 0) /\
  ((exists lb s', step lb s = Some s') \/ (all_done s /\ replies_ok calls (log s) = true)).
Proof. exact all_reply_thm. Qed.
Print Assumptions C29_all_reply.

(* ... and no run goes on for ever: whatever the scheduler does, a run has at most [run_bound calls] steps
   (= twice the number of calls + the number of instructions of the burst's code, write acquisitions counted twice).
   With C29_all_reply: after at most that many steps every call of a safe burst has its reply. *)
Theorem C29_terminates : forall (calls : list call) (tr : list label) (s : sys),
  reach calls tr s -> length tr <= total wt2 (init calls) + 2 * length calls.
Proof. exact run_length_bound. Qed.
Print Assumptions C29_terminates.

(* "whatever their handlers await": bursts of method calls whose handlers await, register / remove objects and emit
   signals are in the safe class *)
Theorem C29_methods_safe : forall (calls : list call), methods_only calls = true -> safe calls = true.
Proof. exact methods_only_safe. Qed.
Print Assumptions C29_methods_safe.

(* the oracle evaluated on the implementation's log is sound for the order clause (replies are received late, so the
   oracle looks at S/O/E events only) *)
Theorem C29_oracle_sound : forall (calls : list call) (l : list ev),
  order_ok calls l = true ->
  prefix_of (filter not_reply (inline_log calls l)) (filter not_reply (sequential_order calls)).
Proof. exact oracle_sound. Qed.
Print Assumptions C29_oracle_sound.

(* the correspondence verdicts are backed by runs of the model: "OK" means the observed handler events are the
   projection of a complete run; for a hang, of a run into a state where nothing can step while calls are unfinished *)
Theorem C29_explains_ok_sound : forall (calls : list call) (obs : list ev),
  explains_ok calls obs = tokOK ->
  exists tr s, reach calls tr s /\ filter is_soe (log s) = obs /\ all_done s.
Proof. exact explains_ok_sound. Qed.
Print Assumptions C29_explains_ok_sound.

Theorem C29_explains_hang_sound : forall (calls : list call) (rep : list nat) (obs : list ev),
  explains_hang calls rep obs = tokOK ->
  exists tr s, reach calls tr s /\ filter is_soe (log s) = obs /\ stuck s /\ ~ all_done s.
Proof. exact explains_hang_sound. Qed.
Print Assumptions C29_explains_hang_sound.
