From ZV Require Import Base.Bytes C16.Model C17.Model.
Theorem C17_placeholder : mech_eqb External External = true.
Proof. reflexivity. Qed.
Print Assumptions C17_placeholder.
