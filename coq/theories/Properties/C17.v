(* Properties/C17.v — the client-side handshake succeeds only on a proper server acceptance.
   Only statements, each closed by [exact] of a lemma of C17/Proofs.v, and their assumptions.

   run_client cfg cs      the model of Builder::socket(..).p2p().build() / Builder::address(..guid=..) on the client
                          side (C17/Model.v) reading the chunks cs (what successive recvmsg calls return)
   ODone w fd tail fds    completed: bytes written, cap_unix_fd, bytes and fds handed to the message reader
   tokens, no_lf, guid_ok     C16/Spec.v;   spec_client, cconforms      C17/Spec.v *)
From ZV Require Import Base.Bytes Base.Res C16.Model C16.Spec C17.Model C17.Spec C17.Proofs.

(* ---- every way the stream is cut gives the same outcome *)
Theorem C17_split_indep : forall cfg cs1 cs2,
  chunks_nonempty cs1 = true -> chunks_nonempty cs2 = true ->
  stream_of cs1 = stream_of cs2 -> fds_of cs1 = fds_of cs2 ->
  run_client cfg cs1 = run_client cfg cs2.
Proof. exact client_split_independence. Qed.
Print Assumptions C17_split_indep.

(* ---- full strength, every stream and every chunking: WHENEVER the client completes,
        - the stream starts with a CR LF terminated line  OK <g> ..  whose GUID is 32 hex digits and equals the
          expected one if one was given,
        - every fd received is handed to the message reader,
        - if the transport can pass fds, a second line answers NEGOTIATE_UNIX_FD, fd passing is enabled exactly
          when that line is AGREE_UNIX_FD, and what is handed to the message reader is everything after it;
          otherwise fd passing stays disabled and everything after the first line is handed on *)
Theorem C17_done_sound : forall cfg cs w fd tail fds,
  chunks_nonempty cs = true ->
  run_client cfg cs = ODone w fd tail fds ->
  exists body1 g more rest1,
    stream_of cs = body1 ++ [x0d; x0a] ++ rest1 /\ no_lf body1 = true /\
    tokens body1 = B "OK" :: g :: more /\ guid_ok g = true /\
    (forall e, cc_expected cfg = Some e -> e = g) /\
    fds = fds_of cs /\
    (if cc_fdcap cfg
     then exists body2, rest1 = body2 ++ [x0d; x0a] ++ tail /\ no_lf body2 = true /\
                        (fd = true <-> exists more2, tokens body2 = B "AGREE_UNIX_FD" :: more2)
     else fd = false /\ tail = rest1).
Proof. exact client_done_sound. Qed.
Print Assumptions C17_done_sound.

(* ---- the full statement, on every stream and every chunking: the observable outcome is the one the specification
        prescribes — failure unless the first reply is a proper OK, the prescribed fd capability and leftover after
        AGREE_UNIX_FD / ERROR, "fail or go on without fds" after any other second reply, and never a panic.
        (Before the repair 49785cde of Common::read_commands this was refuted by a bare LF; it now holds.) *)
Theorem C17_conforms : forall cfg cs,
  chunks_nonempty cs = true ->
  cconforms (spec_client (cctx_of cfg) (stream_of cs)) (fds_of cs) (obs_of (run_client cfg cs)) = true.
Proof. exact client_conforms. Qed.
Print Assumptions C17_conforms.

(* in particular a proper acceptance completes, with the prescribed fd capability and leftover ... *)
Theorem C17_complete : forall cfg cs fd tail,
  chunks_nonempty cs = true ->
  spec_client (cctx_of cfg) (stream_of cs) = CVDone fd tail ->
  exists w, run_client cfg cs = ODone w fd tail (fds_of cs).
Proof. exact client_complete. Qed.
Print Assumptions C17_complete.

(* ... and what the specification says must fail (no OK, bad or unexpected GUID, EOF) fails, without panic *)
Theorem C17_fails : forall cfg cs,
  chunks_nonempty cs = true ->
  spec_client (cctx_of cfg) (stream_of cs) = CVFail ->
  is_done (run_client cfg cs) = false /\ is_panic (run_client cfg cs) = false.
Proof. exact client_fails. Qed.
Print Assumptions C17_fails.

(* ---- no input makes the client panic *)
Theorem C17_nopanic : forall cfg cs, chunks_nonempty cs = true -> is_panic (run_client cfg cs) = false.
Proof. exact client_nopanic. Qed.
Print Assumptions C17_nopanic.
