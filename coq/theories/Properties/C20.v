(* Properties/C20.v — message streams deliver every matching message once, in order.
   Only statements, each closed by [exact] of a lemma of C20/*.v, and their assumptions.

   Vocabulary (C20/Model.v, C19/Broadcast.v, C20/Inv.v, C20/Share.v).
   [matches r m]: does match rule number r accept message m (MatchRule::matches, property C21) — an arbitrary predicate.
   A state [s] has the broadcast channels [chans s] (0 = the unfiltered channel, 1 = method returns/errors, 2.. = one per rule),
   [senders s] = msg_senders (key |-> channel, in the iteration order of the table), [subs s] = subscriptions
   (rule |-> {e_ref; e_ch}), the streams (rule, channel, [s_from] = how many incoming messages had been decided for its channel
   when it subscribed, [s_got] = what it has yielded so far (ghost)), the add_match / async_drop / queued remove_match calls
   between their atomic steps, the socket reader (RIdle | RHave it | RPush it todo | RStopped), [incoming s] = the messages read
   from the socket so far (ghost).
   [reach matches tr s]: s is reached by the history tr of atomic actions
     LArrive (transport), LRead / LFan order / LPush / LNext (socket reader: read, take msg_senders and fix the iteration
     order, one broadcast_direct, release), LAddStart / LAddCheck / LAddSubs / LAddSender (add_match for a new stream),
     LUnfiltered (MessageStream::from(conn)), LPoll (the stream is polled once), LClone (the clone shares the rule: [arcs s] lists, per shared rule, the
     streams holding it), LDrop (Drop) and LDropStart (async_drop): the receiver is released and — if this was the last holder of
     the shared rule — a remove_match call begins, LTaskSubs / LTaskSender are its two steps; LSetCap.  (LDropSubs / LDropSender: the pre-fix
     async_drop, never enabled any more, see C20_no_async_drop_in_progress.)
   The history IS the scheduler, the application, the peer and the transport: nothing else restricts the interleaving, the
   number of streams or rules, or the capacities.  [exec] = the executable replay used by the correspondence check. *)
From ZV Require Import Base.Bytes Base.Res C19.Broadcast C20.Model C20.Steps C20.Inv C20.Proofs C20.Count C20.Arcs C20.Progress C20.Share C20.Examples C20.Main.

(* No exception class is left for C20: the three defects found on the way (add_match race 3703ee13, async_drop deadlock 90a1ccff,
   uncounted clones 3c4a83a4) are repaired in the code and the model follows the repaired code. *)

(* ------------------------------------------------------------------ delivery, at full strength *)
(* every stream has, at every moment, yielded + still queued = exactly the messages accepted by its rule among those decided for
   its channel since it subscribed, in order of arrival, each once — under every interleaving, clones included *)
Theorem C20_delivery : forall matches tr s sid st, reach matches tr s ->
  lookup (streams s) sid = Some st -> reader s <> RStopped ->
  msgs (s_got st) ++ msgs (unread (chan_at s (s_ch st)) sid) =
  filter (accepts matches (skey st)) (skipn (s_from st) (firstn (seen s (s_ch st)) (incoming s))).
Proof. exact delivery_full. Qed.
Print Assumptions C20_delivery.

(* the same for a registered stream even after the reader has failed (what is queued is still delivered) *)
Theorem C20_delivery_registered : forall matches tr s sid st, reach matches tr s ->
  lookup (streams s) sid = Some st -> In (skey st, s_ch st) (senders s) ->
  msgs (s_got st) ++ msgs (unread (chan_at s (s_ch st)) sid) =
  filter (accepts matches (skey st)) (skipn (s_from st) (firstn (seen s (s_ch st)) (incoming s))).
Proof. exact delivery. Qed.
Print Assumptions C20_delivery_registered.

(* when the reader is idle and the stream has been polled to the end: it has yielded exactly the matching messages read from
   the socket since it subscribed — none missing, none twice, none foreign, in order *)
Theorem C20_delivery_quiescent : forall matches tr s sid st, reach matches tr s ->
  lookup (streams s) sid = Some st -> reader s = RIdle -> unread (chan_at s (s_ch st)) sid = [] ->
  msgs (s_got st) = filter (accepts matches (skey st)) (skipn (s_from st) (incoming s)).
Proof. exact delivery_full_quiescent. Qed.
Print Assumptions C20_delivery_quiescent.

(* the registration itself: a stream is in msg_senders under its own key until the reader fails *)
Theorem C20_registered : forall matches tr s sid st, reach matches tr s ->
  lookup (streams s) sid = Some st -> In (skey st, s_ch st) (senders s) \/ reader s = RStopped.
Proof. exact registered. Qed.
Print Assumptions C20_registered.

(* ------------------------------------------------------------------ sharing, at full strength *)
(* the reference count of a rule is the number of its holders: the shared rules (one per for_match_rule stream, held jointly by the
   stream and its clones) + the remove_match calls that have not taken `subscriptions` yet + the add_match call that is creating it;
   a rule without entry has no holder; all streams of a rule read the one channel of its entry; every stream made for a rule holds
   a shared rule of that rule, and whoever is listed as holder of a shared rule is such a stream *)
Theorem C20_share : forall matches tr s, reach matches tr s ->
  (forall r, match lookup (subs s) r with Some e => e_ref e = holders s r | None => holders s r = 0 end) /\
  (forall sid st r e, lookup (streams s) sid = Some st -> s_rule st = Some r -> lookup (subs s) r = Some e -> s_ch st = e_ch e) /\
  (forall sid st r, lookup (streams s) sid = Some st -> s_rule st = Some r ->
     exists i ms, idx_of (arcs s) sid = Some i /\ nth_error (arcs s) i = Some (r, ms)) /\
  (forall r ms sid, In (r, ms) (arcs s) -> In sid ms -> exists st, lookup (streams s) sid = Some st /\ s_rule st = Some r).
Proof. exact share_full. Qed.
Print Assumptions C20_share.

(* ------------------------------------------------------------------ back-pressure, at full strength *)
(* a reader blocked on a full queue is blocked behind a stream that the application can poll — in every reachable state *)
Theorem C20_progress : forall matches tr s it c todo, reach matches tr s ->
  reader s = RPush it (c :: todo) -> try_push it (chan_at s c) = PFull ->
  exists sid st s', lookup (streams s) sid = Some st /\ s_ch st = c /\ step matches (LPoll sid) s = Some s'.
Proof. exact progress_full. Qed.
Print Assumptions C20_progress.

(* the pre-fix async_drop (remove_match while the stream still holds its receiver) is gone: its table stays empty and the two
   labels that worked on it are never enabled *)
Theorem C20_no_async_drop_in_progress : forall matches tr s sid, reach matches tr s ->
  drops s = [] /\ step matches (LDropSubs sid) s = None /\ step matches (LDropSender sid) s = None.
Proof. exact no_async_drop. Qed.
Print Assumptions C20_no_async_drop_in_progress.

(* ------------------------------------------------------------------ the replay stays inside the relation *)
Theorem C20_run_sound : forall matches tr s, exec matches tr init = Some s -> reach matches tr s.
Proof. exact exec_reach. Qed.
Print Assumptions C20_run_sound.

(* ------------------------------------------------------------------ concrete instances *)
(* two streams on one rule, three messages, the second stream subscribes after two were decided *)
Example C20_example :
  reach by_member ex_trace ex_state /\ reader ex_state = RIdle /\
  incoming ex_state = [sg 1 1; sg 2 0; sg 3 1] /\
  (exists st, lookup (streams ex_state) 0 = Some st /\ s_from st = 0 /\ s_got st = [IMsg (sg 1 1); IMsg (sg 3 1)]) /\
  (exists st, lookup (streams ex_state) 1 = Some st /\ s_from st = 2 /\ s_got st = [IMsg (sg 3 1)]) /\
  lookup (subs ex_state) 1 = Some {| e_ref := 2; e_ch := 2 |} /\ holders ex_state 1 = 2.
Proof. exact ex_facts. Qed.

(* the former witness of clone_uncounted (before fix 3c4a83a4): the clone is dropped, the original still holds the shared rule,
   stays registered and receives the next matching message ... *)
Example C20_clone_dropped_original_receives :
  reach all_match clone_trace clone_state /\
  tasks clone_state = [] /\ lookup (subs clone_state) 0 = Some {| e_ref := 1; e_ch := 2 |} /\ In (KRule 0, 2) (senders clone_state) /\
  arcs clone_state = [(0, [0])] /\ lookup (streams clone_state) 1 = None /\
  exists st, lookup (streams clone_state) 0 = Some st /\ s_got st = [IMsg (sig 1)] /\ incoming clone_state = [sig 1].
Proof. exact clone_receives. Qed.
(* ... and when the original goes as well, the subscription is given back *)
Example C20_last_clone_gives_back :
  exists s, exec all_match (clone_trace ++ [LDrop 0; LTaskSubs 0; LTaskSender 0]) init = Some s /\
            subs s = [] /\ arcs s = [] /\ tasks s = [] /\ streams s = [] /\ senders s = [(KAll, 0); (KRet, 1); (KErr, 1)].
Proof. exact clone_last_gives_back. Qed.

(* the history that ended in the async_drop deadlock before fix 90a1ccff now runs to the end *)
Example C20_former_deadlock_runs :
  exists s, exec all_match former_deadlock_trace init = Some s /\ reader s = RIdle /\ tasks s = [] /\ subs s = [] /\
            subs_busy s = false /\ senders s = [(KAll, 0); (KRet, 1); (KErr, 1)].
Proof. exact former_deadlock_runs. Qed.
