(* Properties/C20.v — message streams deliver every matching message once, in order.
   Only statements, each closed by [exact] of a lemma of C20/*.v, and their assumptions.

   Vocabulary (C20/Model.v, C19/Broadcast.v, C20/Inv.v, C20/Share.v).
   [matches r m]: does match rule number r accept message m (MatchRule::matches, property C21) — an arbitrary predicate.
   A state [s] has the broadcast channels [chans s] (0 = the unfiltered channel, 1 = method returns/errors, 2.. = one per rule),
   [senders s] = msg_senders (key |-> channel, in the iteration order of the table), [subs s] = subscriptions
   (rule |-> {e_ref; e_ch}), the streams (rule, channel, [s_from] = how many incoming messages had been decided for its channel
   when it subscribed, [s_got] = what it has yielded so far (ghost)), the add_match / async_drop / queued remove_match calls
   between their atomic steps, the socket reader (RIdle | RHave it | RPush it todo | RStopped), [incoming s] = the messages read
   from the socket so far (ghost).
   [reach matches tr s]: s is reached by the history tr of atomic actions
     LArrive (transport), LRead / LFan order / LPush / LNext (socket reader: read, take msg_senders and fix the iteration
     order, one broadcast_direct, release), LAddStart / LAddCheck / LAddSubs / LAddSender (add_match for a new stream),
     LUnfiltered (MessageStream::from(conn)), LPoll (the stream is polled once), LDrop (Drop) and LDropStart (async_drop): the receiver is released
     and a remove_match call begins, LTaskSubs / LTaskSender are its two steps; LClone, LSetCap.  (LDropSubs / LDropSender: the pre-fix
     async_drop, never enabled any more, see C20_no_async_drop_in_progress.)
   The history IS the scheduler, the application, the peer and the transport: nothing else restricts the interleaving, the
   number of streams or rules, or the capacities.  [exec] = the executable replay used by the correspondence check. *)
From ZV Require Import Base.Bytes Base.Res C19.Broadcast C20.Model C20.Steps C20.Inv C20.Proofs C20.Progress C20.Share C20.Refute C20.Main.

(* ------------------------------------------------------------------ the full statement (what the property asks for) *)
(* every stream has, at every moment, yielded + still queued = exactly the messages accepted by its rule among those decided for
   its channel since it subscribed, in order of arrival, each once *)
Definition C20_full_statement : Prop :=
  forall matches tr s sid st, reach matches tr s ->
    lookup (streams s) sid = Some st -> reader s <> RStopped ->
    msgs (s_got st) ++ msgs (unread (chan_at s (s_ch st)) sid) =
    filter (accepts matches (skey st)) (skipn (s_from st) (firstn (seen s (s_ch st)) (incoming s))).

(* the decidable class of histories in which the code as it is falls short (known_findings/C20.jsonl) *)
Definition Known_C20 (tr : list label) : bool := has_clone tr.                                  (* clone_uncounted *)

(* ------------------------------------------------------------------ delivery *)
(* for every stream whose channel is registered in msg_senders under the stream's own key — cloned or not *)
Theorem C20_delivery : forall matches tr s sid st, reach matches tr s ->
  lookup (streams s) sid = Some st -> In (skey st, s_ch st) (senders s) ->
  msgs (s_got st) ++ msgs (unread (chan_at s (s_ch st)) sid) =
  filter (accepts matches (skey st)) (skipn (s_from st) (firstn (seen s (s_ch st)) (incoming s))).
Proof. exact delivery. Qed.
Print Assumptions C20_delivery.

(* the full statement, outside the known class *)
Theorem C20_delivery_partial : forall matches tr s sid st, reach matches tr s -> Known_C20 tr = false ->
  lookup (streams s) sid = Some st -> reader s <> RStopped ->
  msgs (s_got st) ++ msgs (unread (chan_at s (s_ch st)) sid) =
  filter (accepts matches (skey st)) (skipn (s_from st) (firstn (seen s (s_ch st)) (incoming s))).
Proof. exact delivery_partial. Qed.
Print Assumptions C20_delivery_partial.

(* when the reader is idle and the stream has been polled to the end: it has yielded exactly the matching messages read from
   the socket since it subscribed — none missing, none twice, none foreign, in order *)
Theorem C20_delivery_quiescent : forall matches tr s sid st, reach matches tr s -> Known_C20 tr = false ->
  lookup (streams s) sid = Some st -> reader s = RIdle -> unread (chan_at s (s_ch st)) sid = [] ->
  msgs (s_got st) = filter (accepts matches (skey st)) (skipn (s_from st) (incoming s)).
Proof. exact delivery_partial_quiescent. Qed.
Print Assumptions C20_delivery_quiescent.

(* the registration itself: a stream is in msg_senders under its own key until the reader fails *)
Theorem C20_registered : forall matches tr s sid st, reach matches tr s -> Known_C20 tr = false ->
  lookup (streams s) sid = Some st -> In (skey st, s_ch st) (senders s) \/ reader s = RStopped.
Proof. exact registered. Qed.
Print Assumptions C20_registered.

(* ------------------------------------------------------------------ sharing *)
(* the reference count of a rule is the number of its holders (streams created for it, remove_match calls — queued by Drop or
   started by async_drop — that have not taken `subscriptions` yet, the add_match call that is creating it); a rule without
   entry has no holder; all streams of a rule read the one channel of its entry *)
Theorem C20_share_partial : forall matches tr s, reach matches tr s -> Known_C20 tr = false ->
  (forall r, match lookup (subs s) r with Some e => e_ref e = holders_of s r | None => holders_of s r = 0 end) /\
  (forall sid st r e, lookup (streams s) sid = Some st -> s_rule st = Some r -> lookup (subs s) r = Some e -> s_ch st = e_ch e).
Proof. exact share_partial. Qed.
Print Assumptions C20_share_partial.

(* ------------------------------------------------------------------ back-pressure, at full strength (since fix 90a1ccff) *)
(* a reader blocked on a full queue is blocked behind a stream that the application can poll — in every reachable state *)
Theorem C20_progress : forall matches tr s it c todo, reach matches tr s ->
  reader s = RPush it (c :: todo) -> try_push it (chan_at s c) = PFull ->
  exists sid st s', lookup (streams s) sid = Some st /\ s_ch st = c /\ step matches (LPoll sid) s = Some s'.
Proof. exact progress_full. Qed.
Print Assumptions C20_progress.

(* the pre-fix async_drop (remove_match while the stream still holds its receiver) is gone: its table stays empty and the two
   labels that worked on it are never enabled *)
Theorem C20_no_async_drop_in_progress : forall matches tr s sid, reach matches tr s ->
  drops s = [] /\ step matches (LDropSubs sid) s = None /\ step matches (LDropSender sid) s = None.
Proof. exact no_async_drop. Qed.
Print Assumptions C20_no_async_drop_in_progress.

(* ------------------------------------------------------------------ the refutations (clone) *)
Theorem C20_clone_uncounted_refuted : ~ C20_full_statement.
Proof. exact delivery_full_refuted. Qed.
Print Assumptions C20_clone_uncounted_refuted.

Theorem C20_clone_count_refuted :
  exists tr s r e, reach all_match tr s /\ lookup (subs s) r = Some e /\ e_ref e <> holders_of s r.
Proof. exact share_full_refuted. Qed.
Print Assumptions C20_clone_count_refuted.

(* ------------------------------------------------------------------ the replay stays inside the relation *)
Theorem C20_run_sound : forall matches tr s, exec matches tr init = Some s -> reach matches tr s.
Proof. exact exec_reach. Qed.
Print Assumptions C20_run_sound.

(* ------------------------------------------------------------------ concrete instances (hypotheses are satisfiable, the
   conclusions say something): two streams on one rule, three messages, the second stream subscribes after two were decided *)
Example C20_example :
  reach by_member ex_trace ex_state /\ Known_C20 ex_trace = false /\ reader ex_state = RIdle /\
  incoming ex_state = [sg 1 1; sg 2 0; sg 3 1] /\
  (exists st, lookup (streams ex_state) 0 = Some st /\ s_from st = 0 /\ s_got st = [IMsg (sg 1 1); IMsg (sg 3 1)]) /\
  (exists st, lookup (streams ex_state) 1 = Some st /\ s_from st = 2 /\ s_got st = [IMsg (sg 3 1)]) /\
  lookup (subs ex_state) 1 = Some {| e_ref := 2; e_ch := 2 |}.
Proof. exact ex_facts. Qed.

(* the history that ended in the async_drop deadlock before fix 90a1ccff now runs to the end *)
Example C20_former_deadlock_runs :
  exists s, exec all_match former_deadlock_trace init = Some s /\ reader s = RIdle /\ tasks s = [] /\ subs s = [] /\
            subs_busy s = false /\ senders s = [(KAll, 0); (KRet, 1); (KErr, 1)].
Proof. exact former_deadlock_runs. Qed.
