(* Properties/C20.v — message streams deliver every matching message once, in order.
   Only statements, each closed by [exact] of a lemma of C20/*.v, and their assumptions.

   Vocabulary (C20/Model.v, C19/Broadcast.v, C20/Inv.v, C20/Share.v).
   [matches r m]: does match rule number r accept message m (MatchRule::matches, property C21) — an arbitrary predicate.
   A state [s] has the broadcast channels [chans s] (0 = the unfiltered channel, 1 = method returns/errors, 2.. = one per rule),
   [senders s] = msg_senders (key |-> channel, in the iteration order of the table), [subs s] = subscriptions
   (rule |-> {e_ref; e_ch}), the streams (rule, channel, [s_from] = how many incoming messages had been decided for its channel
   when it subscribed, [s_got] = what it has yielded so far (ghost)), the add_match / async_drop / queued remove_match calls
   between their atomic steps, the socket reader (RIdle | RHave it | RPush it todo | RStopped), [incoming s] = the messages read
   from the socket so far (ghost).
   [reach matches tr s]: s is reached by the history tr of atomic actions
     LArrive (transport), LRead / LFan order / LPush / LNext (socket reader: read, take msg_senders and fix the iteration
     order, one broadcast_direct, release), LAddStart / LAddCheck / LAddSubs / LAddSender (add_match for a new stream),
     LUnfiltered (MessageStream::from(conn)), LPoll (the stream is polled once), LDrop (Drop: the remove_match is queued as a
     task; LTaskSubs / LTaskSender run it), LDropStart / LDropSubs / LDropSender (async_drop), LClone, LSetCap.
   The history IS the scheduler, the application, the peer and the transport: nothing else restricts the interleaving, the
   number of streams or rules, or the capacities.  [exec] = the executable replay used by the correspondence check. *)
From ZV Require Import Base.Bytes Base.Res C19.Broadcast C20.Model C20.Steps C20.Inv C20.Proofs C20.Progress C20.Share C20.Refute C20.Main.

(* ------------------------------------------------------------------ the full statements (what the property asks for) *)
(* every stream that is alive and not in the very last step of its asynchronous drop has, at every moment, yielded + still
   queued = exactly the messages accepted by its rule among those decided for its channel since it subscribed, in order of
   arrival, each once *)
Definition C20_full_statement : Prop :=
  forall matches tr s sid st, reach matches tr s ->
    lookup (streams s) sid = Some st -> (forall c, lookup (drops s) sid <> Some (R1 c)) -> reader s <> RStopped ->
    msgs (s_got st) ++ msgs (unread (chan_at s (s_ch st)) sid) =
    filter (accepts matches (skey st)) (skipn (s_from st) (firstn (seen s (s_ch st)) (incoming s))).
(* the socket reader waits for room only behind a stream that the application can poll *)
Definition C20_progress_full_statement : Prop :=
  forall matches tr s it c todo, reach matches tr s -> reader s = RPush it (c :: todo) -> try_push it (chan_at s c) = PFull ->
    exists sid st s', lookup (streams s) sid = Some st /\ s_ch st = c /\ step matches (LPoll sid) s = Some s'.

(* the decidable classes of histories/states in which the code as it is falls short (known_findings/C20.jsonl) *)
Definition Known_C20 (tr : list label) : bool := has_clone tr.                                  (* clone_uncounted *)
Definition Known_C20_drop (s : sys) : bool := match drops s with [] => false | _ => true end.   (* async_drop_deadlock *)

(* ------------------------------------------------------------------ delivery *)
(* for every stream whose channel is registered in msg_senders under the stream's own key — cloned or not *)
Theorem C20_delivery : forall matches tr s sid st, reach matches tr s ->
  lookup (streams s) sid = Some st -> In (skey st, s_ch st) (senders s) ->
  msgs (s_got st) ++ msgs (unread (chan_at s (s_ch st)) sid) =
  filter (accepts matches (skey st)) (skipn (s_from st) (firstn (seen s (s_ch st)) (incoming s))).
Proof. exact delivery. Qed.
Print Assumptions C20_delivery.

(* the full statement, outside the known class *)
Theorem C20_delivery_partial : forall matches tr s sid st, reach matches tr s -> Known_C20 tr = false ->
  lookup (streams s) sid = Some st -> (forall c, lookup (drops s) sid <> Some (R1 c)) -> reader s <> RStopped ->
  msgs (s_got st) ++ msgs (unread (chan_at s (s_ch st)) sid) =
  filter (accepts matches (skey st)) (skipn (s_from st) (firstn (seen s (s_ch st)) (incoming s))).
Proof. exact delivery_partial. Qed.
Print Assumptions C20_delivery_partial.

(* when the reader is idle and the stream has been polled to the end: it has yielded exactly the matching messages read from
   the socket since it subscribed — none missing, none twice, none foreign, in order *)
Theorem C20_delivery_quiescent : forall matches tr s sid st, reach matches tr s -> Known_C20 tr = false ->
  lookup (streams s) sid = Some st -> (forall c, lookup (drops s) sid <> Some (R1 c)) ->
  reader s = RIdle -> unread (chan_at s (s_ch st)) sid = [] ->
  msgs (s_got st) = filter (accepts matches (skey st)) (skipn (s_from st) (incoming s)).
Proof. exact delivery_partial_quiescent. Qed.
Print Assumptions C20_delivery_quiescent.

(* the registration itself: a live stream is in msg_senders under its own key until the reader fails *)
Theorem C20_registered : forall matches tr s sid st, reach matches tr s -> Known_C20 tr = false ->
  lookup (streams s) sid = Some st -> (forall c, lookup (drops s) sid <> Some (R1 c)) ->
  In (skey st, s_ch st) (senders s) \/ reader s = RStopped.
Proof. exact registered. Qed.
Print Assumptions C20_registered.

(* ------------------------------------------------------------------ sharing *)
(* the reference count of a rule is the number of its holders (streams created for it whose remove_match has not been applied,
   queued remove_match tasks not yet run, the add_match call that is creating it); a rule without entry has no holder; all streams of a rule
   read the one channel of its entry *)
Theorem C20_share_partial : forall matches tr s, reach matches tr s -> Known_C20 tr = false ->
  (forall r, match lookup (subs s) r with Some e => e_ref e = holders s r | None => holders s r = 0 end) /\
  (forall sid st r e, lookup (streams s) sid = Some st -> s_rule st = Some r -> in_r1 s sid = false -> lookup (subs s) r = Some e ->
     s_ch st = e_ch e).
Proof. exact share_partial. Qed.
Print Assumptions C20_share_partial.

(* ------------------------------------------------------------------ back-pressure *)
(* while no asynchronous drop is under way: a reader blocked on a full queue is blocked behind a stream that can be polled *)
Theorem C20_progress_partial : forall matches tr s it c todo, reach matches tr s -> Known_C20_drop s = false ->
  reader s = RPush it (c :: todo) -> try_push it (chan_at s c) = PFull ->
  exists sid st s', lookup (streams s) sid = Some st /\ s_ch st = c /\ step matches (LPoll sid) s = Some s'.
Proof. exact progress_partial. Qed.
Print Assumptions C20_progress_partial.

(* ------------------------------------------------------------------ the refutations *)
Theorem C20_clone_uncounted_refuted : ~ C20_full_statement.
Proof. exact delivery_full_refuted. Qed.
Print Assumptions C20_clone_uncounted_refuted.

Theorem C20_clone_count_refuted :
  exists tr s r e, reach all_match tr s /\ lookup (subs s) r = Some e /\ e_ref e <> holders s r.
Proof. exact share_full_refuted. Qed.
Print Assumptions C20_clone_count_refuted.

Theorem C20_async_drop_deadlock_refuted : ~ C20_progress_full_statement.
Proof. exact progress_full_refuted. Qed.
Print Assumptions C20_async_drop_deadlock_refuted.

(* ... and that state is a deadlock: after async_drop of the only stream of a rule whose queue is full while the reader waits
   for room in it, whatever anybody does afterwards the reader never reads again, `subscriptions` stays locked, the async_drop
   never returns *)
Theorem C20_async_drop_wedged_for_ever : forall matches tr s s' sid c, wedged s sid c -> exec matches tr s = Some s' ->
  wedged s' sid c /\ subs_busy s' = true /\ senders_held s' = true /\ lookup (drops s') sid <> None /\
  step matches LRead s' = None /\ step matches LPush s' = None /\ step matches (LDropSender sid) s' = None /\
  (forall sid', step matches (LAddSubs sid') s' = None) /\ (forall n, step matches (LTaskSubs n) s' = None) /\
  (forall sid', step matches (LDropSubs sid') s' = None).
Proof. exact wedged_forever. Qed.
Print Assumptions C20_async_drop_wedged_for_ever.

Theorem C20_async_drop_wedge_reachable : reach all_match wedge_trace wedge_state /\ wedged wedge_state 0 2.
Proof. exact wedge_reached. Qed.
Print Assumptions C20_async_drop_wedge_reachable.

(* ------------------------------------------------------------------ the replay stays inside the relation *)
Theorem C20_run_sound : forall matches tr s, exec matches tr init = Some s -> reach matches tr s.
Proof. exact exec_reach. Qed.
Print Assumptions C20_run_sound.

(* ------------------------------------------------------------------ a concrete instance (hypotheses are satisfiable, the
   conclusion says something): two streams on one rule, three messages, the second stream subscribes after two were decided *)
Example C20_example :
  reach by_member ex_trace ex_state /\ Known_C20 ex_trace = false /\ reader ex_state = RIdle /\
  incoming ex_state = [sg 1 1; sg 2 0; sg 3 1] /\
  (exists st, lookup (streams ex_state) 0 = Some st /\ s_from st = 0 /\ s_got st = [IMsg (sg 1 1); IMsg (sg 3 1)]) /\
  (exists st, lookup (streams ex_state) 1 = Some st /\ s_from st = 2 /\ s_got st = [IMsg (sg 3 1)]) /\
  lookup (subs ex_state) 1 = Some {| e_ref := 2; e_ch := 2 |}.
Proof. exact ex_facts. Qed.
