(* C37/Proofs.v — invariants of every interleaving of the match-rule bookkeeping. *)
From Coq Require Import List NArith Bool Arith Lia.
From ZV Require Import Base.Bytes Base.WinnowFacts C37.Model C37.Spec.
Import ListNotations.

(* ------------------------------------------------------------------ small facts *)
Lemma lbeq_refl a : lbeq a a = true.
Proof. apply lbeq_eq. reflexivity. Qed.

Lemma lbeq_sym a b : lbeq a b = lbeq b a.
Proof.
  destruct (lbeq a b) eqn:E.
  - apply lbeq_eq in E. subst. symmetry. apply lbeq_refl.
  - destruct (lbeq b a) eqn:F; [|reflexivity]. apply lbeq_eq in F. subst. rewrite lbeq_refl in E. discriminate.
Qed.

Definition ind (b : bool) : nat := if b then 1 else 0.

Lemma count_rule_app r a b : count_rule r (a ++ b) = count_rule r a + count_rule r b.
Proof. unfold count_rule. rewrite filter_app, app_length. reflexivity. Qed.

Lemma count_rule_cons r x l : count_rule r (x :: l) = ind (lbeq r x) + count_rule r l.
Proof. unfold count_rule. cbn [filter]. destruct (lbeq r x); reflexivity. Qed.

Lemma count_rule_nil r : count_rule r [] = 0.
Proof. reflexivity. Qed.

Lemma bus_has_snoc es e r :
  bus_has (es ++ [e]) r =
  match e with
  | EAdd x => if lbeq x r then true else bus_has es r
  | ERem x => if lbeq x r then false else bus_has es r
  end.
Proof. unfold bus_has. rewrite fold_left_app. reflexivity. Qed.

(* ------------------------------------------------------------------ add_match / remove_match, pointwise *)
Lemma add_match_subs r s es x : fst (add_match r s es) x = s x + ind (lbeq x r).
Proof.
  unfold add_match. destruct (s r) eqn:E; cbn [fst]; unfold set_subs; destruct (lbeq x r) eqn:L; cbn [ind]; try lia.
  - apply lbeq_eq in L. subst. lia.
  - apply lbeq_eq in L. subst. lia.
Qed.

Lemma remove_match_subs r s es x : fst (remove_match r s es) x = s x - ind (lbeq x r).
Proof.
  unfold remove_match. destruct (s r) as [|[|n]] eqn:E; cbn [fst]; unfold set_subs; destruct (lbeq x r) eqn:L; cbn [ind]; try lia.
  - apply lbeq_eq in L. subst. lia.
  - apply lbeq_eq in L. subst. lia.
  - apply lbeq_eq in L. subst. lia.
Qed.

(* ------------------------------------------------------------------ the bus side: what is registered = what has a count *)
Definition bus_inv (s : rule -> nat) (es : list ev) : Prop :=
  trace_ok es /\ forall r, bus_has es r = (0 <? s r) && is_sig r.

Lemma add_match_inv r s es : bus_inv s es -> bus_inv (fst (add_match r s es)) (snd (add_match r s es)).
Proof.
  intros [T B]. unfold add_match, sig_ev. destruct (s r) eqn:E; cbn [fst snd].
  - destruct (is_sig r) eqn:G.
    + split.
      * apply tok_snoc; [exact T|]. split; [exact G|]. cbn. rewrite B, E. reflexivity.
      * intro x. rewrite bus_has_snoc. unfold set_subs. rewrite (lbeq_sym r x).
        destruct (lbeq x r) eqn:L; [|apply B]. apply lbeq_eq in L. subst. rewrite G. reflexivity.
    + rewrite app_nil_r. split; [exact T|]. intro x. unfold set_subs.
      destruct (lbeq x r) eqn:L; [|apply B]. apply lbeq_eq in L. subst. rewrite B, E, G. reflexivity.
  - split; [exact T|]. intro x. unfold set_subs.
    destruct (lbeq x r) eqn:L; [|apply B]. apply lbeq_eq in L. subst. rewrite B, E. reflexivity.
Qed.

Lemma remove_match_inv r s es : bus_inv s es -> bus_inv (fst (remove_match r s es)) (snd (remove_match r s es)).
Proof.
  intros [T B]. unfold remove_match, sig_ev. destruct (s r) as [|[|n]] eqn:E; cbn [fst snd].
  - split; assumption.
  - destruct (is_sig r) eqn:G.
    + split.
      * apply tok_snoc; [exact T|]. split; [exact G|]. cbn. rewrite B, E, G. reflexivity.
      * intro x. rewrite bus_has_snoc. unfold set_subs. rewrite (lbeq_sym r x).
        destruct (lbeq x r) eqn:L; [|apply B]. reflexivity.
    + rewrite app_nil_r. split; [exact T|]. intro x. unfold set_subs.
      destruct (lbeq x r) eqn:L; [|apply B]. apply lbeq_eq in L. subst. rewrite B, E, G. reflexivity.
  - split; [exact T|]. intro x. unfold set_subs.
    destruct (lbeq x r) eqn:L; [|apply B]. apply lbeq_eq in L. subst. rewrite B, E. reflexivity.
Qed.

Definition cbus_inv (c : conn) : Prop := bus_inv (subs c) (evs c).

Lemma exec_bus_inv i rest c : cbus_inv c -> cbus_inv (fst (exec i rest c)).
Proof.
  intro I. unfold cbus_inv in *.
  destruct i as [h r|h|h|h' h|p r|p r|p r|r]; cbn [exec].
  - pose proof (add_match_inv r _ _ I) as A. destruct (add_match r (subs c) (evs c)). exact A.
  - destruct (release_last h (held c)) as [[[r|] hl]|]; [|exact I|exact I].
    pose proof (remove_match_inv r _ _ I) as A. destruct (remove_match r (subs c) (evs c)). exact A.
  - exact I.
  - exact I.
  - destruct (has_any p (held c)); exact I.
  - pose proof (add_match_inv r _ _ I) as A. destruct (add_match r (subs c) (evs c)). exact A.
  - destruct (has_any p (held c)); [|exact I].
    pose proof (remove_match_inv r _ _ I) as A. destruct (remove_match r (subs c) (evs c)). exact A.
  - pose proof (add_match_inv r _ _ I) as A. destruct (add_match r (subs c) (evs c)). exact A.
Qed.

Lemma step_bus_inv allowed c c' : step allowed c c' -> cbus_inv c -> cbus_inv c'.
Proof.
  intros S I. destruct S as [c o A|c pre i rest post T|c pre r post P].
  - exact I.
  - pose proof (exec_bus_inv i rest c I) as E. destruct (exec i rest c) as [c' p']. exact E.
  - pose proof (remove_match_inv r _ _ I) as A. destruct (remove_match r (subs c) (evs c)). exact A.
Qed.

Lemma steps_inv (P : conn -> Prop) allowed :
  (forall c c', step allowed c c' -> P c -> P c') -> forall c0 c, steps allowed c0 c -> P c0 -> P c.
Proof. intros H c0 c R. induction R as [|c1 c2 c3 R IH S]; [auto|]. intro P0. eapply H; eauto. Qed.

Lemma init_bus_inv : cbus_inv init.
Proof. split; [constructor|]. intro r. reflexivity. Qed.

Lemma reachable_bus_inv allowed c : reachable allowed c -> cbus_inv c.
Proof.
  intro R. apply (steps_inv cbus_inv allowed (step_bus_inv allowed) init c R init_bus_inv).
Qed.

(* ------------------------------------------------------------------ the connection side: count = who is owed a removal *)
Definition head_set (r : rule) (p : prog) : bool :=
  match p with IOwnerSet _ x :: _ => lbeq r x | _ => false end.
Definition owed (r : rule) (t : list prog) : nat := List.length (filter (head_set r) t).

Definition refcount_inv (c : conn) : Prop :=
  forall r, subs c r = live c r + count_rule r (pend c) + owed r (thr c).

Definition plain_instr (i : instr) : bool :=
  match i with ISub _ _ | IAsyncDrop _ | IDrop _ | IClone _ _ | IOwnerCheck _ _ => true | _ => false end.
Definition head_ok (i : instr) : bool :=
  plain_instr i || match i with IOwnerAdd _ _ | IOwnerSet _ _ => true | _ => false end.
Definition shape (p : prog) : bool :=
  match p with [] => true | i :: rest => head_ok i && forallb plain_instr rest end.
Definition shape_inv (c : conn) : Prop := Forall (fun p => shape p = true) (thr c).

Lemma owed_app r a b : owed r (a ++ b) = owed r a + owed r b.
Proof. unfold owed. rewrite filter_app, app_length. reflexivity. Qed.

Lemma owed_cons r p t : owed r (p :: t) = ind (head_set r p) + owed r t.
Proof. unfold owed. cbn [filter]. destruct (head_set r p); reflexivity. Qed.

Lemma owed_mid r pre p post : owed r (pre ++ p :: post) = owed r pre + ind (head_set r p) + owed r post.
Proof. rewrite owed_app, owed_cons. lia. Qed.

Lemma plain_no_set r p : forallb plain_instr p = true -> head_set r p = false.
Proof. destruct p as [|[]]; cbn; try reflexivity; try discriminate. Qed.

Lemma plain_shape p : forallb plain_instr p = true -> shape p = true.
Proof.
  destruct p as [|i rest]; [reflexivity|]. cbn [forallb shape]. intro H. apply andb_true_iff in H. destruct H as [H1 H2].
  unfold head_ok. rewrite H1, H2. reflexivity.
Qed.

Lemma prog_of_plain o : plain_op o = true -> forallb plain_instr (prog_of o) = true.
Proof. destruct o as [h r|h' h|h|h|h p [n|] sg|a l]; cbn; try reflexivity; discriminate. Qed.

Lemma live_snoc c h r0 r hl :
  hl = held c ++ [([h], r0)] -> count_rule r (map snd hl) = live c r + ind (lbeq r r0).
Proof.
  intros ->. unfold live. rewrite map_app, count_rule_app. cbn [map snd]. rewrite count_rule_cons, count_rule_nil.
  rewrite Nat.add_0_r. reflexivity.
Qed.

Lemma release_last_count h : forall l o l', release_last h l = Some (o, l') ->
  forall r, count_rule r (map snd l) =
            count_rule r (map snd l') + match o with Some r0 => ind (lbeq r r0) | None => 0 end.
Proof.
  induction l as [|x t IH]; intros o l' H r; cbn [release_last] in H; [discriminate|].
  destruct (release_last h t) as [[o1 t']|].
  - inversion H; subst. cbn [map]. rewrite !count_rule_cons. rewrite (IH o t' eq_refl r). lia.
  - destruct (has h x); [|discriminate]. destruct (emptied (without h x)); inversion H; subst; cbn [map without snd].
    + rewrite count_rule_cons. lia.
    + rewrite !count_rule_cons. cbn [snd]. lia.
Qed.

Lemma drop_partition h r : forall l,
  count_rule r (map snd l) = count_rule r (map snd (fst (drop_all h l))) + count_rule r (snd (drop_all h l)).
Proof.
  induction l as [|x t IH]; [reflexivity|]. cbn [drop_all map].
  destruct (drop_all h t) as [t' q]. cbn [fst snd] in *.
  destruct (has h x); [destruct (emptied (without h x))|]; cbn [fst snd map without]; rewrite !count_rule_cons, IH; cbn [snd]; lia.
Qed.

Lemma share_rules h' h l : map snd (share h' h l) = map snd l.
Proof. unfold share. rewrite map_map. apply map_ext. intro x. destruct (has h x); reflexivity. Qed.

Lemma remove_one r0 : forall pre post r,
  count_rule r (pre ++ r0 :: post) = count_rule r (pre ++ post) + ind (lbeq r r0).
Proof. intros. rewrite !count_rule_app, count_rule_cons. lia. Qed.

(* one action of one future *)
Lemma exec_refcount i rest c pre post :
  thr c = pre ++ (i :: rest) :: post -> shape (i :: rest) = true -> refcount_inv c ->
  refcount_inv (with_thr (fst (exec i rest c)) (pre ++ snd (exec i rest c) :: post)) /\ shape (snd (exec i rest c)) = true.
Proof.
  intros T Sh I. cbn [shape] in Sh. apply andb_true_iff in Sh. destruct Sh as [Hd Pl].
  pose proof (plain_shape rest Pl) as ShRest.
  assert (Hrest : forall r, head_set r rest = false) by (intro r; apply plain_no_set; exact Pl).
  assert (Base : forall r, subs c r = live c r + count_rule r (pend c) + (owed r pre + ind (head_set r (i :: rest)) + owed r post)).
  { intro r. rewrite (I r), T, owed_mid. reflexivity. }
  destruct i as [h r0|h|h|h' h|p r0|p r0|p r0|r0]; cbn [exec]; try (cbn in Hd; discriminate).
  - (* ISub *)
    destruct (add_match r0 (subs c) (evs c)) as [s es] eqn:A. cbn [fst snd]. split; [|exact ShRest].
    intro r. unfold live; cbn [with_thr subs pend held thr]. rewrite owed_mid, Hrest.
    replace s with (fst (add_match r0 (subs c) (evs c))) by (rewrite A; reflexivity).
    rewrite add_match_subs, (Base r). cbn [head_set ind].
    rewrite (live_snoc c h r0 r _ eq_refl). lia.
  - (* IAsyncDrop *)
    destruct (release_last h (held c)) as [[[r1|] hl]|] eqn:TF.
    + destruct (remove_match r1 (subs c) (evs c)) as [s es] eqn:A. cbn [fst snd]. split; [|cbn [shape head_ok plain_instr orb andb]; exact Pl].
      intro r. unfold live; cbn [with_thr subs pend held thr]. rewrite owed_mid. cbn [head_set ind].
      replace s with (fst (remove_match r1 (subs c) (evs c))) by (rewrite A; reflexivity).
      rewrite remove_match_subs, (Base r). cbn [head_set ind]. unfold live.
      rewrite (release_last_count h _ _ _ TF r). lia.
    + cbn [fst snd]. split; [|cbn [shape head_ok plain_instr orb andb]; exact Pl].
      intro r. unfold live; cbn [with_thr subs pend held thr]. rewrite owed_mid. cbn [head_set ind].
      rewrite (Base r). cbn [head_set ind]. unfold live. rewrite (release_last_count h _ _ _ TF r). lia.
    + cbn [fst snd]. split; [|exact ShRest]. intro r. cbn [with_thr subs pend held thr]. rewrite owed_mid, Hrest, (Base r).
      cbn [head_set ind]. reflexivity.
  - (* IDrop *)
    cbn [fst snd]. split; [|exact ShRest].
    intro r. unfold live; cbn [with_thr subs pend held thr]. rewrite owed_mid, Hrest, (Base r). cbn [head_set ind].
    rewrite count_rule_app. unfold live. rewrite (drop_partition h r (held c)). lia.
  - (* IClone *)
    cbn [fst snd]. split; [|exact ShRest].
    intro r. unfold live; cbn [with_thr subs pend held thr]. rewrite owed_mid, Hrest, (Base r). cbn [head_set ind].
    unfold live. rewrite share_rules. lia.
  - (* IOwnerCheck *)
    destruct (has_any p (held c)); cbn [fst snd].
    + split; [|exact ShRest]. intro r. cbn [with_thr subs pend held thr]. rewrite owed_mid, Hrest, (Base r). reflexivity.
    + split; [|cbn [shape head_ok plain_instr orb andb]; exact Pl].
      intro r. cbn [with_thr subs pend held thr]. rewrite owed_mid, (Base r). reflexivity.
  - (* IOwnerAdd *)
    destruct (add_match r0 (subs c) (evs c)) as [s es] eqn:A. cbn [fst snd].
    split; [|cbn [shape head_ok plain_instr orb andb]; exact Pl].
    intro r. unfold live; cbn [with_thr subs pend held thr]. rewrite owed_mid. cbn [head_set].
    replace s with (fst (add_match r0 (subs c) (evs c))) by (rewrite A; reflexivity).
    rewrite add_match_subs, (Base r). cbn [head_set ind]. unfold live. lia.
  - (* IOwnerSet *)
    destruct (has_any p (held c)).
    + destruct (remove_match r0 (subs c) (evs c)) as [s es] eqn:A. cbn [fst snd]. split; [|exact ShRest].
      intro r. unfold live; cbn [with_thr subs pend held thr]. rewrite owed_mid, Hrest.
      replace s with (fst (remove_match r0 (subs c) (evs c))) by (rewrite A; reflexivity).
      rewrite remove_match_subs, (Base r). cbn [head_set ind]. unfold live. lia.
    + cbn [fst snd]. split; [|exact ShRest].
      intro r. unfold live; cbn [with_thr subs pend held thr]. rewrite owed_mid, Hrest, (Base r). cbn [head_set ind].
      rewrite (live_snoc c p r0 r _ eq_refl). lia.
Qed.

Lemma step_refcount c c' : step plain_op c c' -> refcount_inv c /\ shape_inv c -> refcount_inv c' /\ shape_inv c'.
Proof.
  intros S [I Sh]. destruct S as [c o A|c pre i rest post T|c pre r0 post P].
  - split.
    + intro r. unfold live, with_thr; cbn [subs pend held thr]. rewrite owed_app, owed_cons.
      rewrite (plain_no_set r _ (prog_of_plain o A)). cbn [ind owed filter length]. rewrite (I r). unfold live. lia.
    + unfold shape_inv in *. cbn [with_thr thr]. apply Forall_app. split; [exact Sh|].
      constructor; [|constructor]. apply plain_shape, prog_of_plain, A.
  - unfold shape_inv in Sh. rewrite T in Sh. apply Forall_app in Sh. destruct Sh as [Sh1 Sh2]. inversion Sh2 as [|? ? Sh3 Sh4]; subst.
    destruct (exec_refcount i rest c pre post T Sh3 I) as [I' Sh'].
    destruct (exec i rest c) as [c1 p1]. cbn [fst snd] in *. split; [exact I'|].
    unfold shape_inv. cbn [with_thr thr]. apply Forall_app. split; [exact Sh1|]. constructor; assumption.
  - destruct (remove_match r0 (subs c) (evs c)) as [s es] eqn:A. split; [|exact Sh].
    intro r. unfold live; cbn [subs pend held thr].
    replace s with (fst (remove_match r0 (subs c) (evs c))) by (rewrite A; reflexivity).
    rewrite remove_match_subs, (I r), P. unfold live. rewrite (remove_one r0 pre post r). lia.
Qed.

Lemma init_refcount : refcount_inv init /\ shape_inv init.
Proof. split; [intro r; reflexivity|constructor]. Qed.

Lemma reachable_refcount c : reachable plain_op c -> refcount_inv c /\ shape_inv c.
Proof.
  intro R. apply (steps_inv (fun c => refcount_inv c /\ shape_inv c) plain_op step_refcount init c R init_refcount).
Qed.

(* ------------------------------------------------------------------ the theorems *)
Theorem no_double_add allowed c : reachable allowed c -> trace_ok (evs c).
Proof. intro R. apply (reachable_bus_inv allowed c R). Qed.

Theorem registered_iff_counted allowed c :
  reachable allowed c -> forall r, bus_has (evs c) r = (0 <? subs c r) && is_sig r.
Proof. intro R. apply (reachable_bus_inv allowed c R). Qed.

Theorem refcount c :
  reachable plain_op c -> forall r, subs c r = live c r + count_rule r (pend c) + owed r (thr c).
Proof. intro R. apply (reachable_refcount c R). Qed.

Lemma quiescent_owed c r : quiescent c -> count_rule r (pend c) = 0 /\ owed r (thr c) = 0.
Proof.
  intros [P T]. rewrite P. split; [reflexivity|].
  induction T as [|p t Hp T IH]; [reflexivity|]. rewrite owed_cons, IH, Hp. reflexivity.
Qed.

Theorem mirror_partial c : reachable plain_op c -> quiescent c -> mirror c.
Proof.
  intros R Q r. rewrite (registered_iff_counted _ c R r), (refcount c R r).
  destruct (quiescent_owed c r Q) as [P O]. rewrite P, O, !Nat.add_0_r.
  rewrite andb_true_iff, Nat.ltb_lt. tauto.
Qed.

(* even when not quiescent: in use => registered; registered => in use or a removal is queued / a future owes one *)
Theorem in_use_registered c : reachable plain_op c ->
  forall r, 0 < live c r -> is_sig r = true -> bus_has (evs c) r = true.
Proof.
  intros R r L G. rewrite (registered_iff_counted _ c R r), (refcount c R r), G, andb_true_r. apply Nat.ltb_lt. lia.
Qed.

Theorem registered_accounted c : reachable plain_op c ->
  forall r, bus_has (evs c) r = true -> 0 < live c r + count_rule r (pend c) + owed r (thr c) /\ is_sig r = true.
Proof.
  intros R r B. rewrite (registered_iff_counted _ c R r), (refcount c R r) in B.
  apply andb_true_iff in B. destruct B as [B G]. apply Nat.ltb_lt in B. auto.
Qed.

Theorem no_premature_remove c c' r :
  reachable plain_op c -> step plain_op c c' -> evs c' = evs c ++ [ERem r] ->
  live c' r = 0 /\ count_rule r (pend c') = 0 /\ owed r (thr c') = 0.
Proof.
  intros R S E.
  assert (R' : reachable plain_op c') by (eapply steps_snoc; eauto).
  pose proof (registered_iff_counted _ c' R' r) as B. rewrite E, bus_has_snoc, lbeq_refl in B.
  pose proof (no_double_add _ c' R') as T. rewrite E in T.
  inversion T as [|es e T0 [G _] X]; [destruct (evs c); discriminate|].
  apply app_inj_tail in X. destruct X as [_ X]. subst e. cbn [ev_rule] in G.
  rewrite G, andb_true_r in B. symmetry in B. apply Nat.ltb_ge in B.
  pose proof (refcount c' R' r). lia.
Qed.

(* ------------------------------------------------------------------ every subscription is shared by a live object
   (so "a live subscription to r" and "a live stream/proxy subscribed to r" are the same thing); all operations *)
Definition nonempty_sub (x : sub) : Prop := emptied x = false.
Definition held_ok (c : conn) : Prop := Forall nonempty_sub (held c).

Lemma drop_all_ok h : forall l, Forall nonempty_sub l -> Forall nonempty_sub (fst (drop_all h l)).
Proof.
  induction l as [|x t IH]; intro F; [constructor|]. inversion F as [|? ? Fx Ft]; subst. cbn [drop_all].
  specialize (IH Ft). destruct (drop_all h t) as [t' q]. cbn [fst] in *.
  destruct (has h x); [destruct (emptied (without h x)) eqn:E|]; cbn [fst]; auto.
Qed.

Lemma release_last_ok h : forall l o l', release_last h l = Some (o, l') -> Forall nonempty_sub l -> Forall nonempty_sub l'.
Proof.
  induction l as [|x t IH]; intros o l' H F; cbn [release_last] in H; [discriminate|].
  inversion F as [|? ? Fx Ft]; subst.
  destruct (release_last h t) as [[o1 t']|].
  - inversion H; subst. constructor; [exact Fx|]. apply (IH o t' eq_refl Ft).
  - destruct (has h x); [|discriminate]. destruct (emptied (without h x)) eqn:E; inversion H; subst; auto.
Qed.

Lemma share_ok h' h l : Forall nonempty_sub l -> Forall nonempty_sub (share h' h l).
Proof.
  intro F. unfold share. apply Forall_forall. intros y Hy. apply in_map_iff in Hy. destruct Hy as [x [E I]].
  rewrite Forall_forall in F. specialize (F x I). subst y. destruct (has h x); [reflexivity|exact F].
Qed.

Lemma exec_held_ok i rest c : held_ok c -> held_ok (fst (exec i rest c)).
Proof.
  unfold held_ok. intro F. destruct i as [h r|h|h|h' h|p r|p r|p r|r]; cbn [exec].
  - destruct (add_match r (subs c) (evs c)). cbn [fst held]. apply Forall_app. split; [exact F|constructor; [reflexivity|constructor]].
  - destruct (release_last h (held c)) as [[[r|] hl]|] eqn:T; [| |exact F].
    + destruct (remove_match r (subs c) (evs c)). cbn [fst held]. apply (release_last_ok h _ _ _ T F).
    + cbn [fst held]. apply (release_last_ok h _ _ _ T F).
  - cbn [fst held]. apply drop_all_ok, F.
  - cbn [fst held]. apply share_ok, F.
  - destruct (has_any p (held c)); exact F.
  - destruct (add_match r (subs c) (evs c)). exact F.
  - destruct (has_any p (held c)).
    + destruct (remove_match r (subs c) (evs c)). exact F.
    + cbn [fst held]. apply Forall_app. split; [exact F|constructor; [reflexivity|constructor]].
  - destruct (add_match r (subs c) (evs c)). exact F.
Qed.

Lemma step_held_ok allowed c c' : step allowed c c' -> held_ok c -> held_ok c'.
Proof.
  intros S I. destruct S as [c o A|c pre i rest post T|c pre r post P].
  - exact I.
  - pose proof (exec_held_ok i rest c I) as E. destruct (exec i rest c) as [c' p']. exact E.
  - destruct (remove_match r (subs c) (evs c)). exact I.
Qed.

Theorem held_nonempty allowed c : reachable allowed c -> Forall (fun x => fst x <> []) (held c).
Proof.
  intro R. assert (H : held_ok c).
  { apply (steps_inv held_ok allowed (step_held_ok allowed) init c R). constructor. }
  unfold held_ok in H. eapply Forall_impl; [|exact H]. intros x E. unfold nonempty_sub, emptied in E.
  destruct (fst x); [discriminate|discriminate].
Qed.
