(* C37/Model.v — mirror of the match-rule bookkeeping of a *bus* connection as it is:
     zbus/src/connection/mod.rs   add_match 1034-1087, remove_match 1089-1121, queue_remove_match 1123-1129,
                                  request_name_with_flags 642-651 (two add_match calls whose receivers are never handed
                                  to a MessageStream)
     zbus/src/message_stream.rs   for_match_rule 124-141, #[derive(Clone)] on Inner with `match_rule:
                                  Option<Arc<OwnedMatchRule>>` shared by the clones (fix 3c4a83a4), Drop for Inner and
                                  AsyncDrop giving the subscription back only through `Arc::into_inner`
     zbus/src/proxy/mod.rs        ProxyInnerStatic::drop 104-110, subscribe_dest_owner_change 514-564,
                                  SignalStream::new 1133-1264, AsyncDrop for SignalStream 1331-1339
   No proofs here.

   A rule is its canonical string (Display of OwnedMatchRule, which is what AddMatch carries; Eq/Hash of the key are
   structural and Display is injective on parsed rules — C22).  `subscriptions: HashMap<rule, (u64, receiver)>` is the
   function [subs]: 0 = no entry (the code removes the entry in the same critical section in which the count reaches
   0, so a stored 0 never exists and `-= 1` never underflows).

   Atomicity: add_match and remove_match hold the `subscriptions` async mutex from before the lookup until after the
   AddMatch/RemoveMatch call has been answered and the map updated; so each is ONE atomic action here.  Everything
   else that happens between awaits is a separate action, and any number of foreground futures and queued removal
   tasks interleave arbitrarily ([step]).

   Assumed (docs/C37.md): the bus answers AddMatch / RemoveMatch / GetNameOwner (no error reply, no transport
   failure, socket reader alive); the connection outlives the objects. *)
From Coq Require Import List NArith Bool Arith.
From ZV Require Import Base.Bytes.
Import ListNotations.

Definition rule := bytes.
Definition hid := N.

(* `rule.msg_type().unwrap_or(Type::Signal) == Type::Signal` read off the canonical string: Display prints the type
   first, as type='signal' | 'method_call' | 'method_return' | 'error' *)
Definition is_sig (r : rule) : bool :=
  starts_with (B "type='signal'") r || negb (starts_with (B "type='") r).

Inductive ev := EAdd (r : rule) | ERem (r : rule).     (* AddMatch(r) / RemoveMatch(r) seen by the bus *)

(* one atomic action of a foreground future *)
Inductive instr :=
| ISub (h : hid) (r : rule)          (* MessageStream::for_match_rule: add_match(r); the stream (object h) holds r *)
| IAsyncDrop (h : hid)               (* AsyncDrop::async_drop(object h): while h shares a subscription: let go of the latest;
                                        if h was its last sharer (Arc::into_inner is Some) remove_match awaited *)
| IDrop (h : hid)                    (* drop(object h): it lets go of every subscription it shares; those it was the last
                                        sharer of go to queue_remove_match *)
| IClone (h' h : hid)                (* MessageStream::clone: h' shares the subscriptions of h (Arc::clone); no add_match *)
| IOwnerCheck (p : hid) (r : rule)   (* subscribe_dest_owner_change: dest_owner_change_match_rule.get().is_some() ? *)
| IOwnerAdd (p : hid) (r : rule)     (*   conn.add_match(r).await: the receiver is dropped, the count is owed by this future *)
| IOwnerSet (p : hid) (r : rule)     (*   OnceLock::set(r): ok -> proxy p holds r; Err (lost the race) -> remove_match(r) *)
| ILeak (r : rule).                  (* request_name_with_flags: add_match(r), receiver dropped or moved into a task; never removed *)

Definition prog := list instr.

(* one subscription (one count in `subscriptions`) and the objects that share it; never empty (Proofs: held_nonempty) *)
Definition sub := (list hid * rule)%type.

Record conn := {
  subs : rule -> nat;           (* ConnectionInner::subscriptions *)
  pend : list rule;             (* spawned "Remove match" tasks that have not run yet *)
  held : list sub;              (* the subscriptions held by live objects, each with the objects sharing it:
                                   MessageStream.match_rule (an Arc shared by the clones of the stream), SignalStream's
                                   two streams, ProxyInnerStatic.dest_owner_change_match_rule *)
  thr : list prog;              (* foreground futures in flight *)
  evs : list ev }.              (* what the bus has seen, oldest first *)

Definition init : conn := {| subs := fun _ => O; pend := []; held := []; thr := []; evs := [] |}.

Definition set_subs (f : rule -> nat) (r : rule) (v : nat) : rule -> nat := fun x => if lbeq x r then v else f x.
Definition sig_ev (r : rule) (e : ev) : list ev := if is_sig r then [e] else [].

(* add_match under the lock: Vacant -> (AddMatch if signal), insert 1; Occupied -> += 1 *)
Definition add_match (r : rule) (s : rule -> nat) (es : list ev) : (rule -> nat) * list ev :=
  match s r with
  | O => (set_subs s r 1, es ++ sig_ev r (EAdd r))
  | S n => (set_subs s r (S (S n)), es)
  end.

(* remove_match under the lock: Vacant -> Ok(false); Occupied -> -= 1, at 0 (RemoveMatch if signal) and remove the entry *)
Definition remove_match (r : rule) (s : rule -> nat) (es : list ev) : (rule -> nat) * list ev :=
  match s r with
  | O => (s, es)
  | S O => (set_subs s r 0, es ++ sig_ev r (ERem r))
  | S (S n) => (set_subs s r (S n), es)
  end.

Definition has (h : hid) (x : sub) : bool := existsb (N.eqb h) (fst x).
Definition without (h : hid) (x : sub) : sub := (filter (fun k => negb (k =? h)%N) (fst x), snd x).
Definition emptied (x : sub) : bool := match fst x with [] => true | _ => false end.
Definition has_any (h : hid) (l : list sub) : bool := existsb (has h) l.

(* drop(h): h lets go of everything it shares; returns what is left and the rules whose last sharer it was *)
Fixpoint drop_all (h : hid) (l : list sub) : list sub * list rule :=
  match l with
  | [] => ([], [])
  | x :: t =>
      let '(t', q) := drop_all h t in
      if has h x then (if emptied (without h x) then (t', snd x :: q) else (without h x :: t', q))
      else (x :: t', q)
  end.

(* async_drop(h), one subscription at a time, the LAST one h took out first (SignalStream::async_drop gives up
   `signals` before `names`, the reverse of the order in which SignalStream::new subscribed them):
   Some (Some r, l') = h was its last sharer, r must be removed; Some (None, l') = others still share it *)
Fixpoint release_last (h : hid) (l : list sub) : option (option rule * list sub) :=
  match l with
  | [] => None
  | x :: t => match release_last h t with
              | Some (o, t') => Some (o, x :: t')
              | None => if has h x then
                          (if emptied (without h x) then Some (Some (snd x), t) else Some (None, without h x :: t))
                        else None
              end
  end.

(* clone(h) -> h': every subscription h shares is now shared by h' too *)
Definition share (h' h : hid) (l : list sub) : list sub :=
  map (fun x => if has h x then (h' :: fst x, snd x) else x) l.

(* the effect of the head instruction [i] of a future whose remaining program is [rest]:
   new shared state and the future's new program *)
Definition exec (i : instr) (rest : prog) (c : conn) : conn * prog :=
  let mk s p hl es := {| subs := s; pend := p; held := hl; thr := thr c; evs := es |} in
  match i with
  | ISub h r =>
      let '(s, es) := add_match r (subs c) (evs c) in (mk s (pend c) (held c ++ [([h], r)]) es, rest)
  | IAsyncDrop h =>
      match release_last h (held c) with
      | Some (Some r, hl) => let '(s, es) := remove_match r (subs c) (evs c) in (mk s (pend c) hl es, IAsyncDrop h :: rest)
      | Some (None, hl) => (mk (subs c) (pend c) hl (evs c), IAsyncDrop h :: rest)
      | None => (c, rest)
      end
  | IDrop h =>
      (mk (subs c) (pend c ++ snd (drop_all h (held c))) (fst (drop_all h (held c))) (evs c), rest)
  | IClone h' h =>
      (mk (subs c) (pend c) (share h' h (held c)) (evs c), rest)
  | IOwnerCheck p r =>
      if has_any p (held c) then (c, rest) else (c, IOwnerAdd p r :: rest)
  | IOwnerAdd p r =>
      let '(s, es) := add_match r (subs c) (evs c) in (mk s (pend c) (held c) es, IOwnerSet p r :: rest)
  | IOwnerSet p r =>
      if has_any p (held c)
      then let '(s, es) := remove_match r (subs c) (evs c) in (mk s (pend c) (held c) es, rest)
      else (mk (subs c) (pend c) (held c ++ [([p], r)]) (evs c), rest)
  | ILeak r =>
      let '(s, es) := add_match r (subs c) (evs c) in (mk s (pend c) (held c) es, rest)
  end.

(* ------------------------------------------------------------------ the API operations *)
Inductive op :=
| OStream (h : hid) (r : rule)                      (* MessageStream::for_match_rule(r) -> h *)
| OClone (h' h : hid)                               (* h.clone() -> h' *)
| ODrop (h : hid)                                   (* drop(h): stream, signal stream or proxy *)
| OAsyncDrop (h : hid)                              (* h.async_drop().await *)
| OSignal (h p : hid) (noc : option rule) (sg : rule)
    (* proxy p .receive_signal* -> h; noc = Some(NameOwnerChanged rule) iff p's destination is a well-known name *)
| OReqName (acq lost : rule).                       (* request_name_with_flags reaching the bus: its two monitor rules *)

Definition prog_of (o : op) : prog :=
  match o with
  | OStream h r => [ISub h r]
  | OClone h' h => [IClone h' h]
  | ODrop h => [IDrop h]
  | OAsyncDrop h => [IAsyncDrop h]
  | OSignal h p (Some n) sg => [IOwnerCheck p n; ISub h n; ISub h sg]
  | OSignal h p None sg => [ISub h sg]
  | OReqName a l => [ILeak a; ILeak l]
  end.

(* the way the pinned code breaks the refcount: *)
Definition is_reqname (o : op) : bool := match o with OReqName _ _ => true | _ => false end.

(* ------------------------------------------------------------------ every interleaving *)
Definition with_thr (c : conn) (t : list prog) : conn :=
  {| subs := subs c; pend := pend c; held := held c; thr := t; evs := evs c |}.

Inductive step (allowed : op -> bool) : conn -> conn -> Prop :=
| StSpawn c o :                                   (* a new API call starts, at any time *)
    allowed o = true -> step allowed c (with_thr c (thr c ++ [prog_of o]))
| StInstr c pre i rest post :                     (* some future performs its next atomic action *)
    thr c = pre ++ (i :: rest) :: post ->
    step allowed c (let '(c', p') := exec i rest c in with_thr c' (pre ++ p' :: post))
| StPend c pre r post :                           (* the executor runs some queued removal task *)
    pend c = pre ++ r :: post ->
    step allowed c (let '(s, es) := remove_match r (subs c) (evs c) in
                    {| subs := s; pend := pre ++ post; held := held c; thr := thr c; evs := es |}).

Inductive steps (allowed : op -> bool) : conn -> conn -> Prop :=
| steps_refl c : steps allowed c c
| steps_snoc c1 c2 c3 : steps allowed c1 c2 -> step allowed c2 c3 -> steps allowed c1 c3.

Definition reachable (allowed : op -> bool) (c : conn) : Prop := steps allowed init c.

(* nothing in flight, nothing queued *)
Definition quiescent (c : conn) : Prop := pend c = [] /\ Forall (fun p => p = []) (thr c).

(* live subscriptions to r (each shared by at least one live object) *)
Definition count_rule (r : rule) (l : list rule) : nat := List.length (filter (lbeq r) l).
Definition live (c : conn) (r : rule) : nat := count_rule r (map snd (held c)).

(* is r registered with the bus after the events es? *)
Definition bus_has (es : list ev) (r : rule) : bool :=
  fold_left (fun b e => match e with
                        | EAdd x => if lbeq x r then true else b
                        | ERem x => if lbeq x r then false else b
                        end) es false.
